/-
Lemmas/Fold — what a fold of cell-wise masked binary operations computes in each cell (column view), and its
invariance under permutation of the operands.  Used by C06 and C07.
-/
import MPilot.Lemmas.ArrR
import Mathlib.Data.List.Perm.Basic
import Mathlib.Algebra.Order.Field.Rat
import Mathlib.Tactic.Ring
import Mathlib.Tactic.Linarith

namespace MPilot

/-- fold of a non-empty list from its head -/
def fold1 (g : Rat → Rat → Rat) : List Rat → Rat
  | [] => 0
  | x :: xs => xs.foldl g x

@[simp] theorem fold1_cons (g : Rat → Rat → Rat) (x : Rat) (xs : List Rat) : fold1 g (x :: xs) = xs.foldl g x := rfl

/-- the cell a fold of `Cell.bin g` produces from a column of cells -/
def foldCells (g : Rat → Rat → Rat) (c : Cell) (cs : List Cell) : Cell := cs.foldl (Cell.bin g) c

theorem foldCells_mask (g : Rat → Rat → Rat) (c : Cell) (cs : List Cell) :
    (foldCells g c cs).mask = (c :: cs).any (·.mask) := by
  unfold foldCells
  induction cs generalizing c with
  | nil => simp
  | cons d t ih =>
    rw [List.foldl_cons, ih]
    simp [Cell.bin, Bool.or_assoc]

theorem foldCells_val (g : Rat → Rat → Rat) (c : Cell) (cs : List Cell) (h : (c :: cs).any (·.mask) = false) :
    (foldCells g c cs).val = fold1 g ((c :: cs).map (·.val)) := by
  unfold foldCells fold1
  induction cs generalizing c with
  | nil => simp
  | cons d t ih =>
    simp only [List.any_cons, Bool.or_eq_false_iff] at h
    rw [List.foldl_cons, ih]
    · simp [Cell.bin, h.1, h.2.1]
    · simp [Cell.bin, h.1, h.2.1, h.2.2]

/-- cell `i` of `foldArr`: fold in the `Option` monad over the `i`-th cells -/
theorem foldArr_getElem? (f : Cell → Cell → Cell) (dt : DType) (a : Arr) (rest : List Arr) (i : Nat) :
    (foldArr f dt a rest).cells[i]? =
      rest.foldl (fun acc b => acc.bind fun x => (b.cells[i]?).map (f x)) a.cells[i]? := by
  unfold foldArr
  have : ∀ acc : Arr, (rest.foldl (fun acc a => Arr.zip f dt acc a) acc).cells[i]? =
      rest.foldl (fun o b => o.bind fun x => (b.cells[i]?).map (f x)) acc.cells[i]? := by
    induction rest with
    | nil => intro acc; rfl
    | cons b t ih =>
      intro acc
      rw [List.foldl_cons, ih, List.foldl_cons]
      congr 1
      simp only [Arr.zip, List.getElem?_zipWith]
      cases acc.cells[i]? <;> cases b.cells[i]? <;> rfl
  exact this _

/-- when every operand has a cell `i`, the result's cell `i` is the fold of that column -/
theorem foldArr_column (g : Rat → Rat → Rat) (dt : DType) (a : Arr) (rest : List Arr) (i : Nat)
    (c : Cell) (cs : List Cell) (ha : a.cells[i]? = some c)
    (hr : List.Forall₂ (fun (b : Arr) d => b.cells[i]? = some d) rest cs) :
    (foldArr (Cell.bin g) dt a rest).cells[i]? = some (foldCells g c cs) := by
  rw [foldArr_getElem?, ha]
  unfold foldCells
  clear ha
  induction hr generalizing c with
  | nil => rfl
  | cons hb _ ih => rw [List.foldl_cons, List.foldl_cons, hb]; exact ih _

/-! ### weighted accumulation as a fold over the scaled inputs -/

/-- an input array times its weight -/
def scaleArr (w : Num) (b : Arr) : Arr := b.mapCells (Cell.sc (· * w.val))

/-- `weightedAcc` is the fold of additions over the scaled inputs -/
theorem weightedAcc_eq_foldArr (w : Num) (wr : List Num) (a : Arr) (as : List Arr) (dt : DType) (hlen : wr.length = as.length) :
    weightedAcc (w :: wr) (a :: as) dt = foldArr (Cell.bin (· + ·)) dt (scaleArr w a) (List.zipWith scaleArr wr as) := by
  simp only [weightedAcc, foldArr]
  have h0 : (⟨dt, a.shape, a.cells.map (Cell.sc (· * w.val))⟩ : Arr) = { scaleArr w a with dtype := dt } := by
    simp [scaleArr, Arr.mapCells]
  rw [h0]
  generalize ({ scaleArr w a with dtype := dt } : Arr) = acc
  induction as generalizing wr acc with
  | nil => cases wr <;> rfl
  | cons b as ih =>
    cases wr with
    | nil => simp at hlen
    | cons w2 wr2 =>
      simp only [List.zip_cons_cons, List.foldl_cons, List.zipWith_cons_cons]
      exact ih wr2 (by simpa using hlen) _

theorem scaleArr_getElem? (w : Num) (b : Arr) (i : Nat) : (scaleArr w b).cells[i]? = (b.cells[i]?).map (Cell.sc (· * w.val)) := by
  simp [scaleArr, Arr.mapCells]

/-! ### permutation invariance -/

theorem fold1_perm (g : Rat → Rat → Rat) (hc : ∀ a b, g a b = g b a) (ha : ∀ a b c, g (g a b) c = g a (g b c))
    {l l' : List Rat} (h : l.Perm l') : fold1 g l = fold1 g l' := by
  have rc : RightCommutative g := ⟨fun a b c => by rw [ha, hc b c, ← ha]⟩
  induction h with
  | nil => rfl
  | cons x p _ => exact List.Perm.foldl_eq p x
  | swap x y l => simp only [fold1, List.foldl_cons, hc y x]
  | trans _ _ ih1 ih2 => exact ih1.trans ih2

theorem ratMin_comm (a b : Rat) : ratMin a b = ratMin b a := by
  unfold ratMin; split_ifs <;> first | rfl | linarith
theorem ratMin_assoc (a b c : Rat) : ratMin (ratMin a b) c = ratMin a (ratMin b c) := by
  unfold ratMin; split_ifs <;> first | rfl | linarith
theorem ratMax_comm (a b : Rat) : ratMax a b = ratMax b a := by
  unfold ratMax; split_ifs <;> first | rfl | linarith
theorem ratMax_assoc (a b c : Rat) : ratMax (ratMax a b) c = ratMax a (ratMax b c) := by
  unfold ratMax; split_ifs <;> first | rfl | linarith

theorem ratMin_eq_min (a b : Rat) : ratMin a b = min a b := by
  unfold ratMin; split_ifs with h
  · exact (min_eq_right (le_of_lt h)).symm
  · exact (min_eq_left (not_lt.mp h)).symm
theorem ratMax_eq_max (a b : Rat) : ratMax a b = max a b := by
  unfold ratMax; split_ifs with h
  · exact (max_eq_right (le_of_lt h)).symm
  · exact (max_eq_left (not_lt.mp h)).symm

end MPilot
