/-
Lemmas/ArrR — array-level consequences of `CellR`: every building block of `exec` maps visibly-equal inputs
to visibly-equal outputs.
-/
import MPilot.Lemmas.Cells
import MPilot.Lemmas.Except

namespace MPilot

/-- same error, or visibly equal results -/
def ExceptR (x y : Except Err Arr) : Prop :=
  match x, y with
  | .ok a, .ok b => ArrR a b
  | .error e, .error e' => e = e'
  | _, _ => False

theorem ExceptR.ok {a b : Arr} (h : ArrR a b) : ExceptR (.ok a) (.ok b) := h
theorem ExceptR.err (e : Err) : ExceptR (.error e) (.error e) := rfl
theorem ExceptR.eMp (cls : String) (ref : LineRef) : ExceptR (eMp cls ref) (eMp cls ref) := rfl
theorem ExceptR.eRaw (e : String) : ExceptR (eRaw e) (eRaw e) := rfl

theorem forall2_length {xs xs' : List Arr} (h : List.Forall₂ ArrR xs xs') : xs.length = xs'.length :=
  List.Forall₂.length_eq h

theorem validateShapes_R (ref : LineRef) {xs xs' : List Arr} (h : List.Forall₂ ArrR xs xs') :
    validateShapes ref xs = validateShapes ref xs' := by
  cases h with
  | nil => rfl
  | @cons a a' t t' ha ht =>
    cases ht with
    | nil => rfl
    | @cons b b' u u' hb hu =>
      have hall : ∀ {l l' : List Arr}, List.Forall₂ ArrR l l' →
          l.all (fun b => b.shape == a.shape) = l'.all (fun b => b.shape == a'.shape) := by
        intro l l' hl
        induction hl with
        | nil => rfl
        | @cons x x' _ _ hx _ ih => rw [List.all_cons, List.all_cons, ih, hx.2.1, ha.2.1]
      simp only [validateShapes, hall (List.Forall₂.cons hb hu)]

theorem promoteAll_R {xs xs' : List Arr} (h : List.Forall₂ ArrR xs xs') : promoteAll xs = promoteAll xs' := by
  unfold promoteAll
  generalize DType.int = d
  induction h generalizing d with
  | nil => rfl
  | @cons a a' _ _ ha _ ih => simp only [List.foldl_cons, ha.1]; exact ih _

theorem mapCells_R {f : Cell → Cell} (hf : ∀ a a', CellR a a' → CellR (f a) (f a')) {a a' : Arr} (h : ArrR a a') :
    ArrR (a.mapCells f) (a'.mapCells f) :=
  ⟨h.1, h.2.1, map_R hf h.2.2⟩

theorem insureArr_R (lo hi : Rat) {a a' : Arr} (h : ArrR a a') : ArrR (a.insure lo hi) (a'.insure lo hi) :=
  mapCells_R (fun _ _ => insure_R lo hi) h

theorem fuzzyClamp_R {x y : Except Err Arr} (h : ExceptR x y) : ExceptR (fuzzyClamp x) (fuzzyClamp y) := by
  unfold fuzzyClamp
  cases x <;> cases y <;> simp only [ExceptR, Except.map] at h ⊢
  · exact h
  · exact insureArr_R _ _ h

theorem zip_R {f : Cell → Cell → Cell} (hf : ∀ a a' b b', CellR a a' → CellR b b' → CellR (f a b) (f a' b'))
    (dt : DType) {a a' b b' : Arr} (ha : ArrR a a') (hb : ArrR b b') : ArrR (Arr.zip f dt a b) (Arr.zip f dt a' b') :=
  ⟨rfl, ha.2.1, zipWith_R hf ha.2.2 hb.2.2⟩

theorem foldArr_R {f : Cell → Cell → Cell} (hf : ∀ a a' b b', CellR a a' → CellR b b' → CellR (f a b) (f a' b'))
    (dt : DType) {a a' : Arr} {rest rest' : List Arr} (ha : ArrR a a') (hr : List.Forall₂ ArrR rest rest') :
    ArrR (foldArr f dt a rest) (foldArr f dt a' rest') := by
  unfold foldArr
  have h0 : ArrR { a with dtype := dt } { a' with dtype := dt } := ⟨rfl, ha.2.1, ha.2.2⟩
  generalize ({ a with dtype := dt } : Arr) = acc at h0
  generalize ({ a' with dtype := dt } : Arr) = acc' at h0
  induction hr generalizing acc acc' with
  | nil => exact h0
  | cons hb _ ih => exact ih _ _ (zip_R hf dt h0 hb)

theorem weightedAcc_R (ws : List Num) (dt : DType) {xs xs' : List Arr} (h : List.Forall₂ ArrR xs xs') :
    ArrR (weightedAcc ws xs dt) (weightedAcc ws xs' dt) := by
  cases h with
  | nil => cases ws <;> exact ArrR.refl _
  | @cons a a' t t' ha ht =>
    cases ws with
    | nil => exact ArrR.refl _
    | cons w wr =>
      simp only [weightedAcc]
      have h0 : ArrR ⟨dt, a.shape, a.cells.map (Cell.sc (· * w.val))⟩ ⟨dt, a'.shape, a'.cells.map (Cell.sc (· * w.val))⟩ :=
        ⟨rfl, ha.2.1, map_R (fun _ _ => sc_R _) ha.2.2⟩
      generalize (⟨dt, a.shape, a.cells.map (Cell.sc (· * w.val))⟩ : Arr) = acc at h0
      generalize (⟨dt, a'.shape, a'.cells.map (Cell.sc (· * w.val))⟩ : Arr) = acc' at h0
      induction ht generalizing acc acc' wr with
      | nil => cases wr <;> exact h0
      | @cons b b' u u' hb _ ih =>
        cases wr with
        | nil => exact h0
        | cons w2 wr2 =>
          simp only [List.zip_cons_cons, List.foldl_cons]
          exact ih wr2 _ _ (zip_R (fun _ _ _ _ => bin_R _) dt h0 (mapCells_R (fun _ _ => sc_R _) hb))

theorem linMap_R (x1 x2 y1 y2 : Rat) {a a' : Arr} (h : ArrR a a') : ArrR (linMap x1 x2 y1 y2 a) (linMap x1 x2 y1 y2 a') :=
  ⟨rfl, h.2.1, map_R (fun _ _ hc => sc_R _ (divSc_R _ (sc_R _ (sc_R _ hc)))) h.2.2⟩

theorem valid_ArrR {a a' : Arr} (h : ArrR a a') : a.valid = a'.valid := valid_R h.2.2

theorem allMasked_R (v : Rat) {a a' : Arr} (h : ArrR a a') :
    ArrR ⟨.float, a.shape, a.cells.map fun _ => ⟨v, true⟩⟩ ⟨.float, a'.shape, a'.cells.map fun _ => ⟨v, true⟩⟩ := by
  refine ⟨rfl, h.2.1, ?_⟩
  have := h.2.2
  generalize a.cells = l at this
  generalize a'.cells = l' at this
  induction this with
  | nil => exact .nil
  | cons _ _ ih => exact .cons ⟨rfl, fun h => by simp at h⟩ ih

theorem zScoreBody_R (sqrt : Rat → Rat) (tt ft s e : Rat) {a a' : Arr} (h : ArrR a a') :
    ExceptR (zScoreBody sqrt a tt ft s e) (zScoreBody sqrt a' tt ft s e) := by
  unfold zScoreBody
  rw [valid_ArrR h]
  split
  · exact insureArr_R _ _ (linMap_R _ _ _ _ h)
  · exact allMasked_R _ h

theorem valmapArr_R (f : Rat → Rat) {a a' : Arr} (h : ArrR a a') :
    ArrR ⟨.float, a.shape, a.cells.map fun c => ⟨f c.val, c.mask⟩⟩ ⟨.float, a'.shape, a'.cells.map fun c => ⟨f c.val, c.mask⟩⟩ :=
  ⟨rfl, h.2.1, map_R (fun _ _ hc => valmap_R f hc) h.2.2⟩

theorem catBody_R (raw normal : List Num) (d : Num) {a a' : Arr} (h : ArrR a a') :
    ExceptR (catBody a raw normal d) (catBody a' raw normal d) := by
  unfold catBody
  split
  · exact ExceptR.eMp _ _
  · split
    · exact ExceptR.eMp _ _
    · exact valmapArr_R _ h

theorem curveArr_R (pts : List (Rat × Rat)) {a a' : Arr} (h : ArrR a a') : ArrR (curveArr a pts) (curveArr a' pts) :=
  valmapArr_R _ h

theorem curveBody_R (ref : LineRef) (raw normal : List Rat) {a a' : Arr} (h : ArrR a a') :
    ExceptR (curveBody ref a raw normal) (curveBody ref a' raw normal) := by
  unfold curveBody
  split
  · exact ExceptR.eMp _ _
  · split
    · exact ExceptR.eMp _ _
    · split
      · exact ExceptR.eRaw _
      · exact curveArr_R _ h

theorem curveZBody_R (sqrt : Rat → Rat) (z normal : List Num) {a a' : Arr} (h : ArrR a a') :
    ExceptR (curveZBody sqrt a z normal) (curveZBody sqrt a' z normal) := by
  unfold curveZBody
  rw [valid_ArrR h]
  split
  · exact ExceptR.eMp _ _
  · split
    · split
      · exact ExceptR.eRaw _
      · exact curveArr_R _ h
    · exact ExceptR.eRaw _

end MPilot

namespace MPilot

macro "split_goal" : tactic => `(tactic| repeat' (first | split | (dsimp only)))

theorem meanToMidBody_R (iz : Bool) (normal : List Num) {a a' : Arr} (h : ArrR a a') :
    ExceptR (meanToMidBody a iz normal) (meanToMidBody a' iz normal) := by
  unfold meanToMidBody
  rw [valid_ArrR h]
  split_goal
  all_goals first | exact ExceptR.eRaw _ | exact ExceptR.eMp _ _ | exact ExceptR.err _ | exact curveBody_R _ _ _ h

theorem getD_R {l l' : List Cell} (h : List.Forall₂ CellR l l') (i : Nat) : CellR (l.getD i default) (l'.getD i default) := by
  induction h generalizing i with
  | nil => exact CellR.refl _
  | cons hc _ ih =>
    cases i with
    | zero => simpa using hc
    | succ n => simpa using ih n

theorem column_R {xs xs' : List Arr} (h : List.Forall₂ ArrR xs xs') (i : Nat) :
    List.Forall₂ CellR (column xs i) (column xs' i) := by
  unfold column
  induction h with
  | nil => exact .nil
  | cons ha _ ih => exact .cons (getD_R ha.2.2 i) ih

theorem any_mask_R {l l' : List Cell} (h : List.Forall₂ CellR l l') : l.any (·.mask) = l'.any (·.mask) := by
  induction h with
  | nil => rfl
  | cons hc _ ih => simp only [List.any_cons, hc.1, ih]

theorem vals_R {l l' : List Cell} (h : List.Forall₂ CellR l l') (hm : l.any (·.mask) = false) :
    l.map (·.val) = l'.map (·.val) := by
  induction h with
  | nil => rfl
  | @cons c d _ _ hc _ ih =>
    simp only [List.any_cons, Bool.or_eq_false_iff] at hm
    simp only [List.map_cons, hc.2 hm.1, ih hm.2]

theorem stackCell_R (f : List Rat → Cell) {xs xs' : List Arr} (h : List.Forall₂ ArrR xs xs') (i : Nat) :
    stackCell xs f i = stackCell xs' f i := by
  unfold stackCell
  have hc := column_R h i
  rw [← any_mask_R hc]
  by_cases hm : (column xs i).any (·.mask) = true
  · simp only [hm, if_true]
  · have hm' : (column xs i).any (·.mask) = false := by simpa using hm
    simp only [hm', Bool.false_eq_true, if_false, vals_R hc hm']

theorem stackMap_R (f : List Rat → Cell) {xs xs' : List Arr} (h : List.Forall₂ ArrR xs xs') :
    ArrR (stackMap xs f) (stackMap xs' f) := by
  cases h with
  | nil => exact ArrR.refl _
  | @cons a a' t t' ha ht =>
    have hx : List.Forall₂ ArrR (a :: t) (a' :: t') := .cons ha ht
    simp only [stackMap]
    refine ⟨rfl, ha.2.1, ?_⟩
    rw [List.Forall₂.length_eq ha.2.2]
    have : (List.range a'.cells.length).map (stackCell (a :: t) f) = (List.range a'.cells.length).map (stackCell (a' :: t') f) :=
      List.map_congr_left fun i _ => stackCell_R f hx i
    rw [this]
    exact List.forall₂_same.mpr (fun c _ => CellR.refl c)

end MPilot
