/-
Lemmas/MaskSup — "missing stays missing": the result of every numpy.ma primitive of the model is missing wherever an
operand is.  Used by C03 (`mask_superset`).
-/
import MPilot.Model.Eems
import Mathlib.Data.List.Forall2

namespace MPilot

/-- `o` is missing whenever `c` is -/
def MImp (c o : Cell) : Prop := c.mask = true → o.mask = true

/-- cell lists of the same length, the second missing wherever the first is -/
def LSup (l out : List Cell) : Prop := List.Forall₂ MImp l out

/-- `out` has as many cells as `a` and is missing wherever `a` is -/
def Sup (a out : Arr) : Prop := LSup a.cells out.cells

theorem MImp.refl (c : Cell) : MImp c c := fun h => h
theorem MImp.trans {a b c : Cell} (h1 : MImp a b) (h2 : MImp b c) : MImp a c := fun h => h2 (h1 h)

theorem LSup.refl (l : List Cell) : LSup l l := List.forall₂_same.mpr fun c _ => MImp.refl c

theorem LSup.trans {a b c : List Cell} (h1 : LSup a b) (h2 : LSup b c) : LSup a c := by
  induction h1 generalizing c with
  | nil => cases h2; exact .nil
  | cons hc _ ih =>
    cases h2 with
    | cons hd h2' => exact .cons (MImp.trans hc hd) (ih h2')

theorem LSup.length {l o : List Cell} (h : LSup l o) : l.length = o.length := List.Forall₂.length_eq h

theorem Sup.refl (a : Arr) : Sup a a := LSup.refl _
theorem Sup.trans {a b c : Arr} (h1 : Sup a b) (h2 : Sup b c) : Sup a c := LSup.trans h1 h2

/-! ### cell primitives -/

theorem bin_left (g : Rat → Rat → Rat) (a b : Cell) : MImp a (Cell.bin g a b) := by
  intro h; simp [Cell.bin, h]
theorem bin_right (g : Rat → Rat → Rat) (a b : Cell) : MImp b (Cell.bin g a b) := by
  intro h; simp [Cell.bin, h]
theorem sc_sup (f : Rat → Rat) (a : Cell) : MImp a (Cell.sc f a) := by
  intro h; simp [Cell.sc, h]
theorem div_left (a b : Cell) : MImp a (Cell.div a b) := by
  intro h; simp [Cell.div, h]
theorem div_right (a b : Cell) : MImp b (Cell.div a b) := by
  intro h; simp [Cell.div, h]
theorem divSc_sup (d : Rat) (a : Cell) : MImp a (Cell.divSc d a) := by
  intro h; simp [Cell.divSc, h]
theorem insure_sup (lo hi : Rat) (a : Cell) : MImp a (Cell.insure lo hi a) := by
  intro h; simp [Cell.insure, h]

/-! ### lists and arrays -/

theorem map_sup {f : Cell → Cell} (hf : ∀ c, MImp c (f c)) (l : List Cell) : LSup l (l.map f) := by
  induction l with
  | nil => exact .nil
  | cons c l ih => exact .cons (hf c) ih

theorem LSup.map {f : Cell → Cell} (hf : ∀ c, MImp c (f c)) {l o : List Cell} (h : LSup l o) : LSup l (o.map f) :=
  LSup.trans h (map_sup hf o)

theorem zipWith_left {f : Cell → Cell → Cell} (hf : ∀ a b, MImp a (f a b)) :
    ∀ (l1 l2 : List Cell), l1.length = l2.length → LSup l1 (List.zipWith f l1 l2)
  | [], [], _ => .nil
  | a :: l1, b :: l2, h => .cons (hf a b) (zipWith_left hf l1 l2 (by simpa using h))
  | [], _ :: _, h => by simp at h
  | _ :: _, [], h => by simp at h

theorem zipWith_right {f : Cell → Cell → Cell} (hf : ∀ a b, MImp b (f a b)) :
    ∀ (l1 l2 : List Cell), l1.length = l2.length → LSup l2 (List.zipWith f l1 l2)
  | [], [], _ => .nil
  | a :: l1, b :: l2, h => .cons (hf a b) (zipWith_right hf l1 l2 (by simpa using h))
  | [], _ :: _, h => by simp at h
  | _ :: _, [], h => by simp at h

theorem zip_left {f : Cell → Cell → Cell} (hf : ∀ a b, MImp a (f a b)) (dt : DType) (a b : Arr)
    (h : a.cells.length = b.cells.length) : Sup a (Arr.zip f dt a b) := zipWith_left hf _ _ h

theorem zip_right {f : Cell → Cell → Cell} (hf : ∀ a b, MImp b (f a b)) (dt : DType) (a b : Arr)
    (h : a.cells.length = b.cells.length) : Sup b (Arr.zip f dt a b) := zipWith_right hf _ _ h

theorem mapCells_sup {f : Cell → Cell} (hf : ∀ c, MImp c (f c)) (a : Arr) : Sup a (a.mapCells f) := map_sup hf _

theorem insureArr_sup (lo hi : Rat) (a : Arr) : Sup a (a.insure lo hi) := mapCells_sup (insure_sup lo hi) a

theorem linMap_sup (x1 x2 y1 y2 : Rat) (a : Arr) : Sup a (linMap x1 x2 y1 y2 a) :=
  map_sup (fun c => MImp.trans (sc_sup _ c) (MImp.trans (sc_sup _ _) (MImp.trans (divSc_sup _ _) (sc_sup _ _)))) _

/-- folding a masking binary operation over arrays of one length: the result is missing wherever the start or any operand is -/
theorem foldl_zip_sup {f : Cell → Cell → Cell} (hl : ∀ a b, MImp a (f a b)) (hr : ∀ a b, MImp b (f a b)) (dt : DType) (n : Nat) :
    ∀ (rest : List Arr) (acc : Arr), acc.cells.length = n → (∀ a ∈ rest, a.cells.length = n) →
      Sup acc (rest.foldl (fun acc a => Arr.zip f dt acc a) acc) ∧
      ∀ a ∈ rest, Sup a (rest.foldl (fun acc a => Arr.zip f dt acc a) acc)
  | [], acc, _, _ => ⟨Sup.refl _, by simp⟩
  | b :: rest, acc, hacc, hrest => by
      have hb : b.cells.length = n := hrest b (List.mem_cons_self ..)
      have hz : (Arr.zip f dt acc b).cells.length = n := by simp [Arr.zip, hacc, hb]
      obtain ⟨h1, h2⟩ := foldl_zip_sup hl hr dt n rest (Arr.zip f dt acc b) hz (fun a ha => hrest a (List.mem_cons_of_mem _ ha))
      simp only [List.foldl_cons]
      refine ⟨Sup.trans (zip_left hl dt acc b (by rw [hacc, hb])) h1, ?_⟩
      intro a ha
      rcases List.mem_cons.mp ha with rfl | ha
      · exact Sup.trans (zip_right hr dt acc a (by rw [hacc, hb])) h1
      · exact h2 a ha

theorem foldArr_sup {f : Cell → Cell → Cell} (hl : ∀ a b, MImp a (f a b)) (hr : ∀ a b, MImp b (f a b)) (dt : DType)
    (first : Arr) (rest : List Arr) (n : Nat) (h : ∀ a ∈ first :: rest, a.cells.length = n) :
    ∀ a ∈ first :: rest, Sup a (foldArr f dt first rest) := by
  unfold foldArr
  obtain ⟨h1, h2⟩ := foldl_zip_sup hl hr dt n rest { first with dtype := dt } (h first (List.mem_cons_self ..))
    (fun a ha => h a (List.mem_cons_of_mem _ ha))
  intro a ha
  rcases List.mem_cons.mp ha with rfl | ha
  · exact h1
  · exact h2 a ha

theorem weightedAcc_sup (dt : DType) (n : Nat) :
    ∀ (ws : List Num) (xs : List Arr), ws.length = xs.length → xs ≠ [] → (∀ a ∈ xs, a.cells.length = n) →
      ∀ a ∈ xs, Sup a (weightedAcc ws xs dt) := by
  intro ws xs hlen hne hn
  cases xs with
  | nil => exact absurd rfl hne
  | cons a as =>
    cases ws with
    | nil => simp at hlen
    | cons w wr =>
      simp only [weightedAcc]
      have hlen' : wr.length = as.length := by simpa using hlen
      -- generalised accumulator
      have key : ∀ (as : List Arr) (wr : List Num) (acc : Arr), wr.length = as.length → acc.cells.length = n →
          (∀ b ∈ as, b.cells.length = n) →
          Sup acc ((List.zip wr as).foldl (fun acc (wa : Num × Arr) =>
              Arr.zip (Cell.bin (· + ·)) dt acc (wa.2.mapCells (Cell.sc (· * wa.1.val)))) acc) ∧
          ∀ b ∈ as, Sup b ((List.zip wr as).foldl (fun acc (wa : Num × Arr) =>
              Arr.zip (Cell.bin (· + ·)) dt acc (wa.2.mapCells (Cell.sc (· * wa.1.val)))) acc) := by
        intro as
        induction as with
        | nil => intro wr acc _ _ _; cases wr <;> exact ⟨Sup.refl _, by simp⟩
        | cons b as ih =>
          intro wr acc hl hacc hbs
          cases wr with
          | nil => simp at hl
          | cons w2 wr2 =>
            have hb : b.cells.length = n := hbs b (List.mem_cons_self ..)
            simp only [List.zip_cons_cons, List.foldl_cons]
            have hz : (Arr.zip (Cell.bin (· + ·)) dt acc (b.mapCells (Cell.sc (· * w2.val)))).cells.length = n := by
              simp [Arr.zip, Arr.mapCells, hacc, hb]
            obtain ⟨h1, h2⟩ := ih wr2 _ (by simpa using hl) hz (fun c hc => hbs c (List.mem_cons_of_mem _ hc))
            have hlen2 : acc.cells.length = (b.mapCells (Cell.sc (· * w2.val))).cells.length := by simp [Arr.mapCells, hacc, hb]
            refine ⟨Sup.trans (zip_left (bin_left _) dt acc _ hlen2) h1, ?_⟩
            intro c hc
            rcases List.mem_cons.mp hc with rfl | hc
            · exact Sup.trans (Sup.trans (mapCells_sup (sc_sup _) c) (zip_right (bin_right _) dt acc _ hlen2)) h1
            · exact h2 c hc
      have h0 : (⟨dt, a.shape, a.cells.map (Cell.sc (· * w.val))⟩ : Arr).cells.length = n := by
        simp [hn a (List.mem_cons_self ..)]
      obtain ⟨h1, h2⟩ := key as wr _ hlen' h0 (fun b hb => hn b (List.mem_cons_of_mem _ hb))
      intro x hx
      rcases List.mem_cons.mp hx with rfl | hx
      · exact LSup.trans (map_sup (sc_sup (· * w.val)) x.cells) h1
      · exact h2 x hx

/-- the stacked computation is missing wherever any layer is -/
theorem stackMap_sup (f : List Rat → Cell) (a0 : Arr) (rest : List Arr) (h : ∀ a ∈ a0 :: rest, a.cells.length = a0.cells.length) :
    ∀ a ∈ a0 :: rest, Sup a (stackMap (a0 :: rest) f) := by
  intro a ha
  simp only [stackMap, Sup, LSup]
  rw [List.forall₂_iff_get]
  refine ⟨by simp [h a ha], ?_⟩
  intro i h1 h2 hm
  simp only [List.get_eq_getElem, List.getElem_map, List.getElem_range]
  unfold stackCell
  have : (column (a0 :: rest) i).any (·.mask) = true := by
    rw [List.any_eq_true]
    refine ⟨a.cells.getD i default, ?_, ?_⟩
    · unfold column; exact List.mem_map.mpr ⟨a, ha, rfl⟩
    · have : a.cells.getD i default = a.cells[i] := by simp [List.getD, h1]
      rw [this]; simpa using hm
  simp [this]

/-! ### exactness: single-input bodies add no missing cell, unless the whole mapping is undefined -/

/-- same number of cells, missing exactly where the input is -/
def LEq (l out : List Cell) : Prop := List.Forall₂ (fun c o => o.mask = c.mask) l out

/-- same number of cells, all missing -/
def LAll (l out : List Cell) : Prop := List.Forall₂ (fun _ o => o.mask = true) l out

/-- the result is missing exactly where the input is - or the mapping is undefined for the whole array and everything is missing -/
def ExactOrAll (a out : Arr) : Prop := LEq a.cells out.cells ∨ LAll a.cells out.cells

theorem map_leq {f : Cell → Cell} (hf : ∀ c, (f c).mask = c.mask) (l : List Cell) : LEq l (l.map f) := by
  induction l with
  | nil => exact .nil
  | cons c l ih => exact .cons (hf c) ih

theorem map_lall {f : Cell → Cell} (hf : ∀ c, (f c).mask = true) (l : List Cell) : LAll l (l.map f) := by
  induction l with
  | nil => exact .nil
  | cons c l ih => exact .cons (hf c) ih

theorem LEq.map {f : Cell → Cell} (hf : ∀ c, (f c).mask = c.mask) {l o : List Cell} (h : LEq l o) : LEq l (o.map f) := by
  induction h with
  | nil => exact .nil
  | cons hc _ ih => exact .cons (by rw [hf, hc]) ih

theorem LAll.map {f : Cell → Cell} (hf : ∀ c, c.mask = true → (f c).mask = true) {l o : List Cell} (h : LAll l o) : LAll l (o.map f) := by
  induction h with
  | nil => exact .nil
  | cons hc _ ih => exact .cons (hf _ hc) ih

theorem ExactOrAll.mapCells {f : Cell → Cell} (hf : ∀ c, (f c).mask = c.mask) {a o : Arr} (h : ExactOrAll a o) : ExactOrAll a (o.mapCells f) := by
  rcases h with h | h
  · exact Or.inl (LEq.map hf h)
  · exact Or.inr (LAll.map (fun c hc => by rw [hf, hc]) h)

theorem insure_mask (lo hi : Rat) (c : Cell) : (Cell.insure lo hi c).mask = c.mask := by
  unfold Cell.insure; cases c.mask <;> rfl

theorem sc_mask (f : Rat → Rat) (c : Cell) : (Cell.sc f c).mask = c.mask := rfl

/-- the linear map through two points: exact, or (the two points coincide: division by zero) everything missing -/
theorem linSteps_exact (f1 f2 f4 : Rat → Rat) (d : Rat) (l : List Cell) :
    LEq l (l.map fun c => Cell.sc f4 (Cell.divSc d (Cell.sc f2 (Cell.sc f1 c)))) ∨
    LAll l (l.map fun c => Cell.sc f4 (Cell.divSc d (Cell.sc f2 (Cell.sc f1 c)))) := by
  by_cases hd : (d == 0) = true
  · exact Or.inr (map_lall (fun c => by simp [Cell.sc, Cell.divSc, hd]) l)
  · have hd' : (d == 0) = false := by simpa using hd
    exact Or.inl (map_leq (fun c => by simp [Cell.sc, Cell.divSc, hd']) l)

theorem linMap_exact (x1 x2 y1 y2 : Rat) (a : Arr) : ExactOrAll a (linMap x1 x2 y1 y2 a) :=
  linSteps_exact _ _ _ _ _

end MPilot
