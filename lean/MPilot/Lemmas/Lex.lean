/-
Lemmas/Lex — how the lexer model reads the spellings of single tokens and the layout between them.  Used by C10.
-/
import MPilot.Model.Grammar
import Mathlib.Tactic.Common
import Mathlib.Data.List.TakeDrop
import Mathlib.Algebra.Order.Field.Rat

namespace MPilot.Lex
open MPilot

/-- the text that follows starts with a character for which `p` is false (or is empty) -/
def StopsAt (p : Char → Bool) (r : List Char) : Prop := ∀ c r', r = c :: r' → p c = false

theorem stopsAt_nil (p : Char → Bool) : StopsAt p [] := by intro c r' h; cases h

theorem stopsAt_cons {p : Char → Bool} {c : Char} {r : List Char} (h : p c = false) : StopsAt p (c :: r) := by
  intro d r' e; injection e with e1 _; subst e1; exact h

theorem span_append_stop (p : Char → Bool) (l r : List Char) (hl : ∀ c ∈ l, p c = true) (hr : StopsAt p r) :
    (l ++ r).span p = (l, r) := by
  induction l with
  | nil =>
    cases r with
    | nil => rfl
    | cons c r' => simp [List.span, List.span.loop, hr c r' rfl]
  | cons a l ih =>
    have ha : p a = true := hl a (List.mem_cons_self ..)
    have := ih (fun c hc => hl c (List.mem_cons_of_mem _ hc))
    rw [List.span_eq_takeWhile_dropWhile] at this ⊢
    simp only [List.cons_append, List.takeWhile_cons, List.dropWhile_cons, ha, if_true]
    injection this with h1 h2
    rw [h1, h2]

/-! ### every scanning step consumes at least one character -/

theorem span_snd_le (p : Char → Bool) (l : List Char) : (l.span p).2.length ≤ l.length := by
  rw [List.span_eq_takeWhile_dropWhile]
  exact (List.dropWhile_sublist p).length_le

theorem span_lengths (p : Char → Bool) (l : List Char) : (l.span p).1.length + (l.span p).2.length = l.length := by
  rw [List.span_eq_takeWhile_dropWhile]
  have h2 := congrArg List.length (List.takeWhile_append_dropWhile (p := p) (l := l))
  rw [List.length_append] at h2
  exact h2

theorem optSign_le (cs : List Char) : (optSign cs).2.length ≤ cs.length := by
  unfold optSign
  split <;> simp

theorem scanStringBody_lt (q : Char) : ∀ (n : Nat) (r acc content rest : List Char), r.length ≤ n →
    scanStringBody q r acc = some (content, rest) → rest.length < r.length := by
  intro n
  induction n with
  | zero =>
    intro r acc content rest hn h
    cases r with
    | nil => simp [scanStringBody] at h
    | cons c r' => simp at hn
  | succ n ih =>
    intro r acc content rest hn h
    cases r with
    | nil => simp [scanStringBody] at h
    | cons c r' =>
      rw [scanStringBody.eq_def] at h
      simp only at h
      split at h
      · injection h with h; injection h with _ h2; subst h2; simp
      · split at h
        · cases r' with
          | nil => simp at h
          | cons d r'' =>
            simp only at h
            split at h
            · cases h
            · have := ih r'' _ content rest (by simp at hn; omega) h
              simp; omega
        · have := ih r' _ content rest (by simpa using hn) h
          simp; omega

theorem scanMantissa_lt (r0 ip fp r3 : List Char) (h : scanMantissa r0 = some (ip, fp, r3)) : r3.length < r0.length := by
  unfold scanMantissa spanDigits at h
  have h1 := span_snd_le isDig r0
  generalize r0.span isDig = sp at h h1
  obtain ⟨ip', r1⟩ := sp
  simp only at h h1
  split at h
  · split at h
    · rename_i r2
      have := span_snd_le isDig r2
      generalize r2.span isDig = sp2 at h this
      obtain ⟨a, b⟩ := sp2
      simp only at h this
      injection h with h; injection h with _ h; injection h with _ h; subst h
      simp at h1; omega
    · cases h
  · split at h
    · rename_i r2
      have := span_snd_le isDig r2
      generalize r2.span isDig = sp2 at h this
      obtain ⟨a, b⟩ := sp2
      simp only at h this
      split at h
      · cases h
      · injection h with h; injection h with _ h; injection h with _ h; subst h
        simp at h1; omega
    · cases h

theorem scanExponent_le (r3 : List Char) : (scanExponent r3).2.length ≤ r3.length := by
  unfold scanExponent
  split
  · rename_i c r4
    split
    · have h0 := optSign_le r4
      generalize optSign r4 = os at h0 ⊢
      obtain ⟨eneg, r5⟩ := os
      simp only at h0 ⊢
      have h1 : (spanDigits r5).2.length ≤ r5.length := span_snd_le isDig r5
      by_cases he : (spanDigits r5).fst.isEmpty = true
      · rw [if_pos he]
      · rw [if_neg he]; simp only [List.length_cons]; omega
    · exact Nat.le_refl _
  · exact Nat.le_refl _

theorem scanFloat_lt (cs : List Char) (v : Option Rat) (rest : List Char) (h : scanFloat cs = some (v, rest)) :
    rest.length < cs.length := by
  unfold scanFloat at h
  have h0 := optSign_le cs
  generalize optSign cs = os at h h0
  obtain ⟨neg, r0⟩ := os
  simp only at h h0
  split at h
  · cases h
  · rename_i ip fp r3 hm
    have h1 := scanMantissa_lt _ _ _ _ hm
    have h2 := scanExponent_le r3
    generalize scanExponent r3 = se at h h2
    obtain ⟨e, rest'⟩ := se
    simp only at h h2
    split at h
    · injection h with h; injection h with _ h; subst h; omega
    · injection h with h; injection h with _ h; subst h; omega

theorem scanInt_lt (cs : List Char) (n : Int) (rest : List Char) (h : scanInt cs = some (n, rest)) : rest.length < cs.length := by
  unfold scanInt spanDigits at h
  have h0 := optSign_le cs
  generalize optSign cs = os at h h0
  obtain ⟨neg, r0⟩ := os
  simp only at h h0
  have h1 := span_lengths isDig r0
  generalize r0.span isDig = sp at h h1
  obtain ⟨ds, r1⟩ := sp
  simp only at h h1
  split at h
  · cases h
  · rename_i hne
    injection h with h; injection h with _ h; subst h
    have : ds.length ≠ 0 := by intro e; apply hne; simp [List.length_eq_zero_iff.mp e]
    omega

theorem dropWhile_le (p : Char → Bool) (l : List Char) : (l.dropWhile p).length ≤ l.length :=
  (List.dropWhile_sublist p).length_le

theorem span_snd_cons_le (p : Char → Bool) (c : Char) (r : List Char) (h : p c = true) : ((c :: r).span p).2.length ≤ r.length := by
  rw [List.span_eq_takeWhile_dropWhile]
  simp only [List.dropWhile_cons, h, if_true]
  exact dropWhile_le p r

theorem quoted_lt (c : Char) (r content rest : List Char)
    (h : (if (c == '"' || c == '\'') = true then scanStringBody c r [] else none) = some (content, rest)) : rest.length < r.length := by
  split at h
  · exact scanStringBody_lt c r.length r [] content rest (Nat.le_refl _) h
  · cases h

theorem scanOne_tok_shrink (c : Char) (r : List Char) (line : Nat) (t : Tok) (rest : List Char) (line' : Nat)
    (h : scanOne (c :: r) line = .tok t rest line') : rest.length ≤ r.length := by
  unfold scanOne at h
  simp only at h
  repeat' (first | split at h | (dsimp only at h))
  all_goals first
    | (cases h; done)
    | (injection h with h1 h2 h3; subst h2; first
        | exact Nat.le_refl _
        | exact span_snd_le _ _
        | exact span_snd_cons_le _ c r ‹_›
        | (have := scanFloat_lt _ _ _ ‹scanFloat _ = _›; simp only [List.length_cons] at this; omega)
        | (have := scanInt_lt _ _ _ ‹scanInt _ = _›; simp only [List.length_cons] at this; omega)
        | (have := quoted_lt _ _ _ _ ‹_ = some (_, _)›; omega))

theorem scanOne_skip_shrink (c : Char) (r : List Char) (line : Nat) (rest : List Char) (line' : Nat)
    (h : scanOne (c :: r) line = .skip rest line') : rest.length ≤ r.length := by
  unfold scanOne at h
  simp only at h
  repeat' (first | split at h | (dsimp only at h))
  all_goals first
    | (cases h; done)
    | (injection h with h1 h2; subst h1; first
        | exact span_snd_cons_le _ c r ‹_›
        | (have hc : c = '#' := by simpa using ‹(c == '#') = true›
           subst hc
           simp only [List.dropWhile_cons, show (('#' : Char) != '\n') = true by decide, if_true]; exact dropWhile_le _ _))

/-- **the lexer's fuel is adequate**: with more fuel than characters the token stream does not depend on the fuel - no token is ever lost
to the recursion bound (`lex` runs with `length + 1`) -/
theorem lexAll_fuel : ∀ (n : Nat) (cs : List Char) (f f' : Nat) (line : Nat), cs.length ≤ n → cs.length < f → cs.length < f' →
    lexAll f cs line = lexAll f' cs line := by
  intro n
  induction n with
  | zero =>
    intro cs f f' line hn hf hf'
    have : cs = [] := List.length_eq_zero_iff.mp (Nat.le_zero.mp hn)
    subst this
    cases f <;> cases f' <;> simp [lexAll] at *
  | succ n ih =>
    intro cs f f' line hn hf hf'
    cases cs with
    | nil => cases f <;> cases f' <;> simp [lexAll] at *
    | cons c r =>
      cases f with
      | zero => simp at hf
      | succ f =>
        cases f' with
        | zero => simp at hf'
        | succ f' =>
          have hr : r.length ≤ n := by simpa using hn
          have hfr : r.length < f := by simpa using hf
          have hfr' : r.length < f' := by simpa using hf'
          unfold lexAll
          split
          · exact ih r f f' line hr hfr hfr'
          · cases hs : scanOne (c :: r) line with
            | tok t rest line' =>
              have := scanOne_tok_shrink c r line t rest line' hs
              simp only
              rw [ih rest f f' line' (by omega) (by omega) (by omega)]
            | skip rest line' =>
              have := scanOne_skip_shrink c r line rest line' hs
              simp only
              exact ih rest f f' line' (by omega) (by omega) (by omega)
            | stop t => rfl

/-- the token stream of a text (any sufficient fuel) -/
def lexS (cs : List Char) (line : Nat) : List Tok := lexAll (cs.length + 1) cs line

theorem lexAll_eq_lexS (f : Nat) (cs : List Char) (line : Nat) (h : cs.length < f) : lexAll f cs line = lexS cs line :=
  lexAll_fuel cs.length cs f _ line (Nat.le_refl _) h (Nat.lt_succ_self _)

theorem lex_eq_lexS (src : String) : lex src = lexS src.toList 1 := by
  unfold lex lexS; rw [String.length_toList]

/-! ### step equations of the token stream -/

theorem lexS_nil (line : Nat) : lexS [] line = [] := by simp [lexS, lexAll]

theorem lexS_blank (c : Char) (r : List Char) (line : Nat) (h : c = ' ' ∨ c = '\t') : lexS (c :: r) line = lexS r line := by
  unfold lexS
  rw [List.length_cons, lexAll]
  have : (c == ' ' || c == '\t') = true := by rcases h with rfl | rfl <;> decide
  rw [if_pos this]

theorem lexS_tok (c : Char) (r : List Char) (line : Nat) (t : Tok) (rest : List Char) (line' : Nat)
    (hc : c ≠ ' ' ∧ c ≠ '\t') (h : scanOne (c :: r) line = .tok t rest line') : lexS (c :: r) line = t :: lexS rest line' := by
  unfold lexS
  rw [List.length_cons, lexAll]
  have : ¬ ((c == ' ' || c == '\t') = true) := by simp [hc.1, hc.2]
  rw [if_neg this, h]
  simp only
  rw [lexAll_eq_lexS _ _ _ (by have := scanOne_tok_shrink c r line t rest line' h; omega)]
  rfl

theorem lexS_skip (c : Char) (r : List Char) (line : Nat) (rest : List Char) (line' : Nat)
    (hc : c ≠ ' ' ∧ c ≠ '\t') (h : scanOne (c :: r) line = .skip rest line') : lexS (c :: r) line = lexS rest line' := by
  unfold lexS
  rw [List.length_cons, lexAll]
  have : ¬ ((c == ' ' || c == '\t') = true) := by simp [hc.1, hc.2]
  rw [if_neg this, h]
  simp only
  rw [lexAll_eq_lexS _ _ _ (by have := scanOne_skip_shrink c r line rest line' h; omega)]
  rfl

/-! ### layout: line breaks and comments -/

/-- characters at which neither an identifier nor a number can start -/
def NoWordStart (c : Char) : Prop := isIdStart c = false ∧ (∀ r, scanFloat (c :: r) = none) ∧ (∀ r, scanInt (c :: r) = none)

macro "no_word_start" : tactic =>
  `(tactic| (refine ⟨by decide, fun r => ?_, fun r => ?_⟩
             · unfold scanFloat scanMantissa optSign spanDigits; simp [List.span, List.span.loop, isDig]
             · unfold scanInt optSign spanDigits; simp [List.span, List.span.loop, isDig]))

theorem nws_lf : NoWordStart '\n' := by no_word_start
theorem nws_cr : NoWordStart '\r' := by no_word_start
theorem nws_hash : NoWordStart '#' := by no_word_start
theorem nws_lbrack : NoWordStart '[' := by no_word_start
theorem nws_rbrack : NoWordStart ']' := by no_word_start
theorem nws_lparen : NoWordStart '(' := by no_word_start
theorem nws_rparen : NoWordStart ')' := by no_word_start
theorem nws_colon : NoWordStart ':' := by no_word_start
theorem nws_comma : NoWordStart ',' := by no_word_start
theorem nws_equal : NoWordStart '=' := by no_word_start

def isNl (d : Char) : Bool := d == '\r' || d == '\n'

theorem scanOne_newline (c : Char) (r : List Char) (line : Nat) (hc : c = '\r' ∨ c = '\n') :
    scanOne (c :: r) line = .skip ((c :: r).span isNl).2 (line + countNewlines ((c :: r).span isNl).1) := by
  have hn : NoWordStart c := by rcases hc with rfl | rfl; exact nws_cr; exact nws_lf
  have hq : (c == '"' || c == '\'') = false := by rcases hc with rfl | rfl <;> decide
  have hnl : (c == '\r' || c == '\n') = true := by rcases hc with rfl | rfl <;> decide
  unfold scanOne
  simp only [hn.1, Bool.false_eq_true, if_false, hn.2.1 r, hn.2.2 r, hq, hnl, if_true]
  rfl

/-- skipping a run of line breaks at once or one by one gives the same stream -/
theorem lexS_drop_run (cs : List Char) (l : Nat) :
    lexS (cs.dropWhile isNl) (l + countNewlines (cs.takeWhile isNl)) = lexS cs l := by
  cases cs with
  | nil => simp [countNewlines]
  | cons c r =>
    by_cases hc : isNl c = true
    · have hc' : c = '\r' ∨ c = '\n' := by simpa [isNl] using hc
      have hb : c ≠ ' ' ∧ c ≠ '\t' := by rcases hc' with rfl | rfl <;> decide
      rw [lexS_skip c r l _ _ hb (scanOne_newline c r l hc'), List.span_eq_takeWhile_dropWhile]
    · have hc' : isNl c = false := by simpa using hc
      simp [List.dropWhile_cons, List.takeWhile_cons, hc', countNewlines]

/-- **a line feed advances the line counter by exactly one**, whatever follows -/
theorem lexS_lf (cs : List Char) (line : Nat) : lexS ('\n' :: cs) line = lexS cs (line + 1) := by
  rw [lexS_skip '\n' cs line _ _ (by decide) (scanOne_newline '\n' cs line (Or.inr rfl)), List.span_eq_takeWhile_dropWhile]
  have h1 : isNl '\n' = true := by decide
  simp only [List.takeWhile_cons, List.dropWhile_cons, h1, if_true]
  have : countNewlines ('\n' :: cs.takeWhile isNl) = 1 + countNewlines (cs.takeWhile isNl) := by
    simp [countNewlines]
  rw [this, ← Nat.add_assoc]
  exact lexS_drop_run cs (line + 1)

/-- **CR LF is one line break** -/
theorem lexS_crlf (cs : List Char) (line : Nat) : lexS ('\r' :: '\n' :: cs) line = lexS cs (line + 1) := by
  rw [lexS_skip '\r' _ line _ _ (by decide) (scanOne_newline '\r' _ line (Or.inl rfl)), List.span_eq_takeWhile_dropWhile]
  have h1 : isNl '\n' = true := by decide
  have h2 : isNl '\r' = true := by decide
  simp only [List.takeWhile_cons, List.dropWhile_cons, h1, h2, if_true]
  have : countNewlines ('\r' :: '\n' :: cs.takeWhile isNl) = 1 + countNewlines (cs.takeWhile isNl) := by
    simp [countNewlines]
  rw [this, ← Nat.add_assoc]
  exact lexS_drop_run cs (line + 1)

/-- a comment runs to the end of its line and produces nothing -/
theorem lexS_comment (body cs : List Char) (line : Nat) (hb : ∀ c ∈ body, c ≠ '\n') :
    lexS ('#' :: (body ++ '\n' :: cs)) line = lexS ('\n' :: cs) line := by
  have hq : (('#' : Char) == '"' || ('#' : Char) == '\'') = false := by decide
  have hs : scanOne ('#' :: (body ++ '\n' :: cs)) line = .skip ('\n' :: cs) line := by
    unfold scanOne
    simp only [nws_hash.1, Bool.false_eq_true, if_false, nws_hash.2.1 _, nws_hash.2.2 _, hq]
    have hd : List.dropWhile (fun x => x != '\n') ('#' :: (body ++ '\n' :: cs)) = '\n' :: cs := by
      have : ∀ b : List Char, (∀ c ∈ b, c ≠ '\n') → List.dropWhile (fun x => x != '\n') (b ++ '\n' :: cs) = '\n' :: cs := by
        intro b
        induction b with
        | nil => intro _; simp
        | cons x b ih =>
          intro hx
          have : (x != '\n') = true := by simpa using hx x (List.mem_cons_self ..)
          simp only [List.cons_append, List.dropWhile_cons, this, if_true]
          exact ih (fun c hc => hx c (List.mem_cons_of_mem _ hc))
      simpa using this ('#' :: body) (by intro c hc; rcases List.mem_cons.mp hc with rfl | hc; decide; exact hb c hc)
    simp [isPlainStop, hd]
  exact lexS_skip '#' _ line _ _ (by decide) hs

/-! ### single tokens -/

theorem dig_not_idstart (c : Char) (h : isDig c = true) : isIdStart c = false := by
  unfold isDig Char.isDigit at h
  unfold isIdStart Char.isAlpha Char.isUpper Char.isLower
  have h1 : c ≠ '_' := by rintro rfl; simp at h
  simp only [Bool.and_eq_true, decide_eq_true_eq] at h
  obtain ⟨ha, hb⟩ := h
  simp only [UInt32.le_iff_toNat_le] at ha hb
  simp [UInt32.le_iff_toNat_le, h1]
  constructor <;> intro <;> simp_all <;> omega

theorem scanOne_of_int (c : Char) (tl : List Char) (line : Nat) (v : Int) (rest : List Char) (hid : isIdStart c = false)
    (hF : scanFloat (c :: tl) = none) (hI : scanInt (c :: tl) = some (v, rest)) :
    scanOne (c :: tl) line = .tok ⟨.int, .int v, line⟩ rest line := by
  unfold scanOne
  simp only [hid, Bool.false_eq_true, if_false, hF, hI]

theorem scanOne_of_float (c : Char) (tl : List Char) (line : Nat) (q : Rat) (rest : List Char) (hid : isIdStart c = false)
    (hF : scanFloat (c :: tl) = some (some q, rest)) :
    scanOne (c :: tl) line = .tok ⟨.float, if q == 0 && c == '-' then .negZero else .float q, line⟩ rest line := by
  unfold scanOne
  simp only [hid, Bool.false_eq_true, if_false, hF]

theorem scanOne_ident (c : Char) (w rest : List Char) (line : Nat) (hc : isIdStart c = true) (hw : ∀ x ∈ w, isIdCont x = true)
    (hs : StopsAt isIdCont rest) :
    scanOne (c :: (w ++ rest)) line = .tok ⟨.id, .str (String.ofList (c :: w)), line⟩ rest line := by
  unfold scanOne
  simp only [hc, if_true, span_append_stop isIdCont w rest hw hs]

theorem scanOne_punct (c : Char) (k : TokKind) (r : List Char) (line : Nat) (hn : NoWordStart c) (hp : punct? c = some k)
    (hq : (c == '"' || c == '\'') = false) (hnl : (c == '\r' || c == '\n') = false) (hps : isPlainStop c = true) (hh : (c == '#') = false) :
    scanOne (c :: r) line = .tok ⟨k, .none, line⟩ r line := by
  unfold scanOne
  simp only [hn.1, Bool.false_eq_true, if_false, hn.2.1 r, hn.2.2 r, hq, hnl, hps, Bool.not_true, hh, hp]

/-- the seven punctuation marks -/
theorem punct_cases (c : Char) (k : TokKind) (h : punct? c = some k) :
    (c = '[' ∨ c = '(' ∨ c = ']' ∨ c = ')' ∨ c = ':' ∨ c = ',' ∨ c = '=') := by
  unfold punct? at h
  by_cases h1 : c = '['; · exact Or.inl h1
  by_cases h2 : c = '('; · exact Or.inr (Or.inl h2)
  by_cases h3 : c = ']'; · exact Or.inr (Or.inr (Or.inl h3))
  by_cases h4 : c = ')'; · exact Or.inr (Or.inr (Or.inr (Or.inl h4)))
  by_cases h5 : c = ':'; · exact Or.inr (Or.inr (Or.inr (Or.inr (Or.inl h5))))
  by_cases h6 : c = ','; · exact Or.inr (Or.inr (Or.inr (Or.inr (Or.inr (Or.inl h6)))))
  by_cases h7 : c = '='; · exact Or.inr (Or.inr (Or.inr (Or.inr (Or.inr (Or.inr h7)))))
  simp [h1, h2, h3, h4, h5, h6, h7] at h

theorem lexS_punct (c : Char) (k : TokKind) (r : List Char) (line : Nat) (hp : punct? c = some k) :
    lexS (c :: r) line = ⟨k, .none, line⟩ :: lexS r line := by
  have hs : scanOne (c :: r) line = .tok ⟨k, .none, line⟩ r line := by
    rcases punct_cases c k hp with rfl | rfl | rfl | rfl | rfl | rfl | rfl
    · exact scanOne_punct _ _ _ _ nws_lbrack hp (by decide) (by decide) (by decide) (by decide)
    · exact scanOne_punct _ _ _ _ nws_lparen hp (by decide) (by decide) (by decide) (by decide)
    · exact scanOne_punct _ _ _ _ nws_rbrack hp (by decide) (by decide) (by decide) (by decide)
    · exact scanOne_punct _ _ _ _ nws_rparen hp (by decide) (by decide) (by decide) (by decide)
    · exact scanOne_punct _ _ _ _ nws_colon hp (by decide) (by decide) (by decide) (by decide)
    · exact scanOne_punct _ _ _ _ nws_comma hp (by decide) (by decide) (by decide) (by decide)
    · exact scanOne_punct _ _ _ _ nws_equal hp (by decide) (by decide) (by decide) (by decide)
  have hb : c ≠ ' ' ∧ c ≠ '\t' := by
    rcases punct_cases c k hp with rfl | rfl | rfl | rfl | rfl | rfl | rfl <;> decide
  exact lexS_tok c r line _ _ _ hb hs

theorem idstart_not_blank (c : Char) (h : isIdStart c = true) : c ≠ ' ' ∧ c ≠ '\t' := by
  constructor <;> (rintro rfl; revert h; decide)

theorem lexS_ident (c : Char) (w rest : List Char) (line : Nat) (hc : isIdStart c = true) (hw : ∀ x ∈ w, isIdCont x = true)
    (hs : StopsAt isIdCont rest) :
    lexS (c :: (w ++ rest)) line = ⟨.id, .str (String.ofList (c :: w)), line⟩ :: lexS rest line :=
  lexS_tok c _ line _ _ _ (idstart_not_blank c hc) (scanOne_ident c w rest line hc hw hs)

/-! ### unquoted text that is no identifier and no number (`PLAIN_STRING`) -/

/-- a character that can start a `PLAIN_STRING` token and nothing else: no letter or underscore, no digit, sign or dot, no blank, no delimiter -/
def PlainStart (c : Char) : Prop :=
  isIdStart c = false ∧ isDig c = false ∧ c ≠ '-' ∧ c ≠ '+' ∧ c ≠ '.' ∧ c ≠ ' ' ∧ c ≠ '\t' ∧ isPlainStop c = false

theorem spanDigits_nondigit (c : Char) (r : List Char) (h : isDig c = false) : spanDigits (c :: r) = ([], c :: r) := by
  unfold spanDigits
  simp [List.span, List.span.loop, h]

theorem optSign_other (c : Char) (r : List Char) (h1 : c ≠ '-') (h2 : c ≠ '+') : optSign (c :: r) = (false, c :: r) := by
  unfold optSign
  split
  · rename_i h; injection h with h _; exact absurd h h1
  · rename_i h; injection h with h _; exact absurd h h2
  · rfl

theorem scanMantissa_plainStart (c : Char) (r : List Char) (hd : isDig c = false) (hdot : c ≠ '.') : scanMantissa (c :: r) = none := by
  unfold scanMantissa
  rw [spanDigits_nondigit c r hd]
  simp only [List.isEmpty_nil, Bool.not_true, Bool.false_eq_true, if_false]
  split
  · rename_i r2 heq; injection heq with h1 _; exact absurd h1 hdot
  · rfl

theorem scanFloat_plainStart (c : Char) (r : List Char) (h : PlainStart c) : scanFloat (c :: r) = none := by
  obtain ⟨_, hd, hm, hp, hdot, _⟩ := h
  unfold scanFloat
  rw [optSign_other c r hm hp]
  simp only [scanMantissa_plainStart c r hd hdot]

theorem scanInt_plainStart (c : Char) (r : List Char) (h : PlainStart c) : scanInt (c :: r) = none := by
  obtain ⟨_, hd, hm, hp, _⟩ := h
  unfold scanInt
  rw [optSign_other c r hm hp]
  simp only
  rw [spanDigits_nondigit c r hd]
  simp

theorem plainStop_quote (c : Char) (h : isPlainStop c = false) : (c == '"' || c == '\'') = false ∧ (c == '\r' || c == '\n') = false := by
  unfold isPlainStop at h
  simp only [Bool.or_eq_false_iff] at h ⊢
  obtain ⟨⟨⟨⟨_, hdq⟩, hsq⟩, hcr⟩, hlf⟩ := h
  exact ⟨⟨hdq, hsq⟩, ⟨hcr, hlf⟩⟩

/-- the text `c :: w` (first character as above, no delimiter inside, no blank at its end), followed by a delimiter or the end of the text, is one
`PLAIN_STRING` token holding exactly that text -/
theorem scanOne_plain (c : Char) (w rest : List Char) (line : Nat) (hc : PlainStart c) (hw : ∀ x ∈ w, isPlainStop x = false)
    (hlast : ∀ x, (c :: w).getLast? = some x → x ≠ ' ' ∧ x ≠ '\t') (hs : StopsAt (fun d => !isPlainStop d) rest) :
    scanOne (c :: (w ++ rest)) line = .tok ⟨.plain, .str (String.ofList (c :: w)), line⟩ rest line := by
  have hcs := hc.2.2.2.2.2.2.2
  obtain ⟨hq, hnl⟩ := plainStop_quote c hcs
  unfold scanOne
  simp only [hc.1, Bool.false_eq_true, if_false, scanFloat_plainStart c _ hc, scanInt_plainStart c _ hc, hq, hnl, hcs, Bool.not_false, if_true]
  have hspan : (c :: (w ++ rest)).span (fun d => !isPlainStop d) = (c :: w, rest) := by
    have := span_append_stop (fun d => !isPlainStop d) (c :: w) rest
      (by intro x hx; rcases List.mem_cons.mp hx with rfl | hx
          · simp [hcs]
          · simp [hw x hx]) hs
    simpa using this
  rw [hspan]
  simp only
  have htrim : ((c :: w).reverse.dropWhile (fun d => d == ' ' || d == '\t')).reverse = c :: w := by
    have hne : (c :: w).reverse ≠ [] := by simp
    obtain ⟨x, t, hx⟩ := List.exists_cons_of_ne_nil hne
    have hl : (c :: w).getLast? = some x := by
      rw [← List.head?_reverse, hx]; rfl
    obtain ⟨h1, h2⟩ := hlast x hl
    rw [hx, List.dropWhile_cons]
    have : (x == ' ' || x == '\t') = false := by simp [h1, h2]
    rw [this]
    simp only [Bool.false_eq_true, if_false]
    rw [← hx, List.reverse_reverse]
  rw [htrim]

theorem lexS_plain (c : Char) (w rest : List Char) (line : Nat) (hc : PlainStart c) (hw : ∀ x ∈ w, isPlainStop x = false)
    (hlast : ∀ x, (c :: w).getLast? = some x → x ≠ ' ' ∧ x ≠ '\t') (hs : StopsAt (fun d => !isPlainStop d) rest) :
    lexS (c :: (w ++ rest)) line = ⟨.plain, .str (String.ofList (c :: w)), line⟩ :: lexS rest line :=
  lexS_tok c _ line _ _ _ ⟨hc.2.2.2.2.2.1, hc.2.2.2.2.2.2.1⟩ (scanOne_plain c w rest line hc hw hlast hs)

/-! ### numbers -/

def signChars (neg : Bool) : List Char := if neg then ['-'] else []

theorem spanDigits_append (ds rest : List Char) (hd : ∀ c ∈ ds, isDig c = true) (hs : StopsAt isDig rest) :
    spanDigits (ds ++ rest) = (ds, rest) := span_append_stop isDig ds rest hd hs

theorem optSign_digit (d : Char) (r : List Char) (hd : isDig d = true) : optSign (d :: r) = (false, d :: r) := by
  unfold optSign
  split
  · rename_i h; injection h with h _; subst h; exact absurd hd (by decide)
  · rename_i h; injection h with h _; subst h; exact absurd hd (by decide)
  · rfl

theorem stops_weaken {p q : Char → Bool} {r : List Char} (h : StopsAt p r) (hpq : ∀ c, p c = false → q c = false) : StopsAt q r :=
  fun c r' e => hpq c (h c r' e)

/-- the integer written by an optional minus sign and decimal digits -/
theorem scan_int (neg : Bool) (ds rest : List Char) (hne : ds ≠ []) (hd : ∀ c ∈ ds, isDig c = true)
    (hs : StopsAt (fun c => isDig c || c == '.') rest) :
    ∃ c tl, signChars neg ++ (ds ++ rest) = c :: tl ∧ isIdStart c = false ∧ (c ≠ ' ' ∧ c ≠ '\t') ∧
      scanFloat (c :: tl) = none ∧
      scanInt (c :: tl) = some ((if neg then -(digitsVal ds : Int) else (digitsVal ds : Int)), rest) := by
  have hsd : StopsAt isDig rest := stops_weaken hs (by intro c h; simp only [Bool.or_eq_false_iff] at h; exact h.1)
  obtain ⟨d, ds', rfl⟩ := List.exists_cons_of_ne_nil hne
  have hdd : isDig d = true := hd d (List.mem_cons_self ..)
  have hsp := spanDigits_append (d :: ds') rest hd hsd
  have hmant : scanMantissa (d :: ds' ++ rest) = none := by
    unfold scanMantissa
    rw [hsp]
    simp only [List.isEmpty_cons, Bool.not_false, if_true]
    split
    · rename_i r2; have := hs '.' r2 rfl; simp at this
    · rfl
  cases neg with
  | true =>
    refine ⟨'-', d :: ds' ++ rest, by simp [signChars], by decide, by decide, ?_, ?_⟩
    · unfold scanFloat optSign; simp only [hmant]
    · unfold scanInt optSign; simp only [hsp]; simp
  | false =>
    refine ⟨d, ds' ++ rest, by simp [signChars], dig_not_idstart d hdd, ?_, ?_, ?_⟩
    · constructor <;> (rintro rfl; revert hdd; decide)
    · have : d :: (ds' ++ rest) = d :: ds' ++ rest := rfl
      unfold scanFloat; rw [optSign_digit d _ hdd, this]; simp only [hmant]
    · have : d :: (ds' ++ rest) = d :: ds' ++ rest := rfl
      unfold scanInt; rw [optSign_digit d _ hdd, this]; simp only [hsp]; simp

theorem lexS_int (neg : Bool) (ds rest : List Char) (line : Nat) (hne : ds ≠ []) (hd : ∀ c ∈ ds, isDig c = true)
    (hs : StopsAt (fun c => isDig c || c == '.') rest) :
    lexS (signChars neg ++ (ds ++ rest)) line =
      ⟨.int, .int (if neg then -(digitsVal ds : Int) else (digitsVal ds : Int)), line⟩ :: lexS rest line := by
  obtain ⟨c, tl, he, hid, hb, hF, hI⟩ := scan_int neg ds rest hne hd hs
  rw [he]
  exact lexS_tok c tl line _ _ _ hb (scanOne_of_int c tl line _ rest hid hF hI)

/-- the value of the decimal `ip.fp` -/
def decimalValue (ip fp : List Char) : Rat := ((digitsVal (ip ++ fp) : Nat) : Rat) / (10 : Rat) ^ fp.length

/-- the token value of a decimal literal: the sign is kept even for zero (`-0.0`) -/
def floatTokVal (neg : Bool) (ip fp : List Char) : TVal :=
  if neg && decimalValue ip fp == 0 then .negZero else .float (if neg then -decimalValue ip fp else decimalValue ip fp)

theorem scanExponent_stop (rest : List Char) (hs : StopsAt (fun c => isDig c || c == 'e' || c == 'E') rest) : scanExponent rest = (0, rest) := by
  unfold scanExponent
  split
  · rename_i c r4
    have := hs c r4 rfl
    simp only [Bool.or_eq_false_iff] at this
    simp [this.1.2, this.2]
  · rfl

theorem scan_float (neg : Bool) (ip fp rest : List Char) (hne : ip ≠ []) (hi : ∀ c ∈ ip, isDig c = true) (hf : ∀ c ∈ fp, isDig c = true)
    (hlen : fp.length ≤ 5000) (hs : StopsAt (fun c => isDig c || c == 'e' || c == 'E') rest) :
    ∃ c tl, signChars neg ++ (ip ++ '.' :: (fp ++ rest)) = c :: tl ∧ isIdStart c = false ∧ (c ≠ ' ' ∧ c ≠ '\t') ∧ ((c == '-') = neg) ∧
      scanFloat (c :: tl) = some (some (if neg then -decimalValue ip fp else decimalValue ip fp), rest) := by
  have hsd : StopsAt isDig rest := stops_weaken hs (by intro c h; simp only [Bool.or_eq_false_iff] at h; exact h.1.1)
  obtain ⟨d, ip', rfl⟩ := List.exists_cons_of_ne_nil hne
  have hdd : isDig d = true := hi d (List.mem_cons_self ..)
  have hsp1 : spanDigits (d :: ip' ++ '.' :: (fp ++ rest)) = (d :: ip', '.' :: (fp ++ rest)) :=
    spanDigits_append (d :: ip') _ hi (stopsAt_cons (by decide))
  have hsp2 := spanDigits_append fp rest hf hsd
  have hmant : scanMantissa (d :: ip' ++ '.' :: (fp ++ rest)) = some (d :: ip', fp, rest) := by
    unfold scanMantissa
    rw [hsp1]
    simp only [List.isEmpty_cons, Bool.not_false, if_true, hsp2]
  have hexp := scanExponent_stop rest hs
  have hval : ∀ (ng : Bool), (match scanMantissa (d :: ip' ++ '.' :: (fp ++ rest)) with
      | none => none
      | some (ip, fp, r3) =>
        let (e, rest) := scanExponent r3
        let m : Rat := (digitsVal (ip ++ fp) : Nat)
        let scale : Int := e - fp.length
        if scale.natAbs > 5000 then some (none, rest) else
        let q := if scale ≥ 0 then m * ((10 : Rat) ^ scale.toNat) else m / ((10 : Rat) ^ (-scale).toNat)
        some (some (if ng then -q else q), rest)) =
      some (some (if ng then -decimalValue (d :: ip') fp else decimalValue (d :: ip') fp), rest) := by
    intro ng
    rw [hmant]
    simp only [hexp]
    have h1 : ¬ ((0 - (fp.length : Int)).natAbs > 5000) := by omega
    rw [if_neg h1]
    by_cases h0 : fp.length = 0
    · have : (0 - (fp.length : Int)) ≥ 0 := by omega
      simp only [this, if_true]
      simp [decimalValue, h0]
    · have : ¬ ((0 - (fp.length : Int)) ≥ 0) := by omega
      simp only [this, if_false]
      have e : (-(0 - (fp.length : Int))).toNat = fp.length := by omega
      rw [e]
      rfl
  cases neg with
  | true =>
    refine ⟨'-', d :: ip' ++ '.' :: (fp ++ rest), by simp [signChars], by decide, by decide, by decide, ?_⟩
    unfold scanFloat optSign
    exact hval true
  | false =>
    refine ⟨d, ip' ++ '.' :: (fp ++ rest), by simp [signChars], dig_not_idstart d hdd, ?_, ?_, ?_⟩
    · constructor <;> (rintro rfl; exact absurd hdd (by decide))
    · have : d ≠ '-' := by rintro rfl; exact absurd hdd (by decide)
      simpa using this
    · unfold scanFloat; rw [optSign_digit d _ hdd]
      exact hval false

theorem lexS_float (neg : Bool) (ip fp rest : List Char) (line : Nat) (hne : ip ≠ []) (hi : ∀ c ∈ ip, isDig c = true)
    (hf : ∀ c ∈ fp, isDig c = true) (hlen : fp.length ≤ 5000) (hs : StopsAt (fun c => isDig c || c == 'e' || c == 'E') rest) :
    lexS (signChars neg ++ (ip ++ '.' :: (fp ++ rest))) line = ⟨.float, floatTokVal neg ip fp, line⟩ :: lexS rest line := by
  obtain ⟨c, tl, he, hid, hb, hm, hF⟩ := scan_float neg ip fp rest hne hi hf hlen hs
  rw [he, lexS_tok c tl line _ _ _ hb (scanOne_of_float c tl line _ rest hid hF)]
  congr 2
  unfold floatTokVal
  rw [hm]
  cases neg <;> simp [Bool.and_comm, neg_eq_zero]

/-! ### decimals with an exponent (`1.5e3`, `-2.E-4`, `7.25e+10`) -/

/-- the exponent part: `e` or `E`, an optional sign, digits -/
def expChars (upper : Bool) (sign : Option Bool) (ed : List Char) : List Char :=
  (if upper then 'E' else 'e') :: ((match sign with | none => [] | some true => ['-'] | some false => ['+']) ++ ed)

/-- the exponent denoted -/
def expVal (sign : Option Bool) (ed : List Char) : Int := if sign = some true then -(digitsVal ed : Int) else (digitsVal ed : Int)

/-- the value of the decimal `ip.fp` times ten to the `e` (as the lexer computes it: one scaling by `e - #fp`) -/
def scaledValue (ip fp : List Char) (e : Int) : Rat :=
  let m : Rat := (digitsVal (ip ++ fp) : Nat)
  let scale : Int := e - fp.length
  if scale ≥ 0 then m * ((10 : Rat) ^ scale.toNat) else m / ((10 : Rat) ^ (-scale).toNat)

theorem scanExponent_exp (upper : Bool) (sign : Option Bool) (ed rest : List Char) (hne : ed ≠ []) (hd : ∀ c ∈ ed, isDig c = true)
    (hs : StopsAt isDig rest) : scanExponent (expChars upper sign ed ++ rest) = (expVal sign ed, rest) := by
  obtain ⟨d, ed', rfl⟩ := List.exists_cons_of_ne_nil hne
  have hdd : isDig d = true := hd d (List.mem_cons_self ..)
  have hsp := spanDigits_append (d :: ed') rest hd hs
  have hc : ((if upper then 'E' else 'e') == 'e' || (if upper then 'E' else 'e') == 'E') = true := by cases upper <;> decide
  unfold expChars scanExponent
  simp only [List.cons_append, hc, if_true]
  have hos : optSign (d :: ed' ++ rest) = (false, d :: ed' ++ rest) := optSign_digit d (ed' ++ rest) hdd
  have hne' : (d :: ed').isEmpty = false := rfl
  cases sign with
  | none =>
    simp only [List.nil_append, hos, hsp, hne']
    simp [expVal]
  | some b =>
    cases b with
    | true =>
      have : optSign ('-' :: (d :: ed' ++ rest)) = (true, d :: ed' ++ rest) := rfl
      simp only [List.cons_append, List.nil_append] at this ⊢
      rw [this]
      have e2 : d :: (ed' ++ rest) = d :: ed' ++ rest := rfl
      simp only [e2, hsp, hne']
      simp [expVal]
    | false =>
      have : optSign ('+' :: (d :: ed' ++ rest)) = (false, d :: ed' ++ rest) := rfl
      simp only [List.cons_append, List.nil_append] at this ⊢
      rw [this]
      have e2 : d :: (ed' ++ rest) = d :: ed' ++ rest := rfl
      simp only [e2, hsp, hne']
      simp [expVal]

theorem scan_float_exp (neg : Bool) (ip fp : List Char) (upper : Bool) (sign : Option Bool) (ed rest : List Char)
    (hne : ip ≠ []) (hi : ∀ c ∈ ip, isDig c = true) (hf : ∀ c ∈ fp, isDig c = true)
    (hene : ed ≠ []) (hed : ∀ c ∈ ed, isDig c = true)
    (hlen : (expVal sign ed - fp.length).natAbs ≤ 5000) (hs : StopsAt isDig rest) :
    ∃ c tl, signChars neg ++ (ip ++ '.' :: (fp ++ (expChars upper sign ed ++ rest))) = c :: tl ∧ isIdStart c = false ∧ (c ≠ ' ' ∧ c ≠ '\t') ∧
      ((c == '-') = neg) ∧
      scanFloat (c :: tl) = some (some (if neg then -scaledValue ip fp (expVal sign ed) else scaledValue ip fp (expVal sign ed)), rest) := by
  obtain ⟨d, ip', rfl⟩ := List.exists_cons_of_ne_nil hne
  have hdd : isDig d = true := hi d (List.mem_cons_self ..)
  have hstopE : StopsAt isDig (expChars upper sign ed ++ rest) := by
    unfold expChars; apply stopsAt_cons; cases upper <;> decide
  have hsp1 : spanDigits (d :: ip' ++ '.' :: (fp ++ (expChars upper sign ed ++ rest))) = (d :: ip', '.' :: (fp ++ (expChars upper sign ed ++ rest))) :=
    spanDigits_append (d :: ip') _ hi (stopsAt_cons (by decide))
  have hsp2 := spanDigits_append fp (expChars upper sign ed ++ rest) hf hstopE
  have hmant : scanMantissa (d :: ip' ++ '.' :: (fp ++ (expChars upper sign ed ++ rest))) = some (d :: ip', fp, expChars upper sign ed ++ rest) := by
    unfold scanMantissa
    rw [hsp1]
    simp only [List.isEmpty_cons, Bool.not_false, if_true, hsp2]
  have hexp := scanExponent_exp upper sign ed rest hene hed hs
  have hval : ∀ (ng : Bool), (match scanMantissa (d :: ip' ++ '.' :: (fp ++ (expChars upper sign ed ++ rest))) with
      | none => none
      | some (ip, fp, r3) =>
        let (e, rest) := scanExponent r3
        let m : Rat := (digitsVal (ip ++ fp) : Nat)
        let scale : Int := e - fp.length
        if scale.natAbs > 5000 then some (none, rest) else
        let q := if scale ≥ 0 then m * ((10 : Rat) ^ scale.toNat) else m / ((10 : Rat) ^ (-scale).toNat)
        some (some (if ng then -q else q), rest)) =
      some (some (if ng then -scaledValue (d :: ip') fp (expVal sign ed) else scaledValue (d :: ip') fp (expVal sign ed)), rest) := by
    intro ng
    rw [hmant]
    simp only [hexp]
    have h1 : ¬ ((expVal sign ed - (fp.length : Int)).natAbs > 5000) := by omega
    rw [if_neg h1]
    rfl
  cases neg with
  | true =>
    refine ⟨'-', d :: ip' ++ '.' :: (fp ++ (expChars upper sign ed ++ rest)), by simp [signChars], by decide, by decide, by decide, ?_⟩
    unfold scanFloat optSign
    exact hval true
  | false =>
    refine ⟨d, ip' ++ '.' :: (fp ++ (expChars upper sign ed ++ rest)), by simp [signChars], dig_not_idstart d hdd, ?_, ?_, ?_⟩
    · constructor <;> (rintro rfl; exact absurd hdd (by decide))
    · have : d ≠ '-' := by rintro rfl; exact absurd hdd (by decide)
      simpa using this
    · unfold scanFloat; rw [optSign_digit d _ hdd]
      exact hval false

/-- the token value of a decimal literal with exponent -/
def floatExpTokVal (neg : Bool) (ip fp : List Char) (e : Int) : TVal :=
  if neg && scaledValue ip fp e == 0 then .negZero else .float (if neg then -scaledValue ip fp e else scaledValue ip fp e)

theorem lexS_float_exp (neg : Bool) (ip fp : List Char) (upper : Bool) (sign : Option Bool) (ed rest : List Char) (line : Nat)
    (hne : ip ≠ []) (hi : ∀ c ∈ ip, isDig c = true) (hf : ∀ c ∈ fp, isDig c = true)
    (hene : ed ≠ []) (hed : ∀ c ∈ ed, isDig c = true)
    (hlen : (expVal sign ed - fp.length).natAbs ≤ 5000) (hs : StopsAt isDig rest) :
    lexS (signChars neg ++ (ip ++ '.' :: (fp ++ (expChars upper sign ed ++ rest)))) line =
      ⟨.float, floatExpTokVal neg ip fp (expVal sign ed), line⟩ :: lexS rest line := by
  obtain ⟨c, tl, he, hid, hb, hm, hF⟩ := scan_float_exp neg ip fp upper sign ed rest hne hi hf hene hed hlen hs
  rw [he, lexS_tok c tl line _ _ _ hb (scanOne_of_float c tl line _ rest hid hF)]
  congr 2
  unfold floatExpTokVal
  rw [hm]
  cases neg <;> simp [Bool.and_comm, neg_eq_zero]

/-! ### decimals that start with the point (`.5`, `-.25`) -/

theorem scan_float_dot (neg : Bool) (fp rest : List Char) (hne : fp ≠ []) (hf : ∀ c ∈ fp, isDig c = true)
    (hlen : fp.length ≤ 5000) (hs : StopsAt (fun c => isDig c || c == 'e' || c == 'E') rest) :
    ∃ c tl, signChars neg ++ ('.' :: (fp ++ rest)) = c :: tl ∧ isIdStart c = false ∧ (c ≠ ' ' ∧ c ≠ '\t') ∧ ((c == '-') = neg) ∧
      scanFloat (c :: tl) = some (some (if neg then -decimalValue [] fp else decimalValue [] fp), rest) := by
  have hsd : StopsAt isDig rest := stops_weaken hs (by intro c h; simp only [Bool.or_eq_false_iff] at h; exact h.1.1)
  have hsp1 : spanDigits ('.' :: (fp ++ rest)) = ([], '.' :: (fp ++ rest)) := by
    have := spanDigits_append [] ('.' :: (fp ++ rest)) (by simp) (stopsAt_cons (by decide))
    simpa using this
  have hsp2 := spanDigits_append fp rest hf hsd
  have hfe : fp.isEmpty = false := by cases fp <;> simp_all
  have hmant : scanMantissa ('.' :: (fp ++ rest)) = some ([], fp, rest) := by
    unfold scanMantissa
    rw [hsp1]
    simp only [List.isEmpty_nil, Bool.not_true, Bool.false_eq_true, if_false, hsp2, hfe]
  have hexp := scanExponent_stop rest hs
  have hval : ∀ (ng : Bool), (match scanMantissa ('.' :: (fp ++ rest)) with
      | none => none
      | some (ip, fp, r3) =>
        let (e, rest) := scanExponent r3
        let m : Rat := (digitsVal (ip ++ fp) : Nat)
        let scale : Int := e - fp.length
        if scale.natAbs > 5000 then some (none, rest) else
        let q := if scale ≥ 0 then m * ((10 : Rat) ^ scale.toNat) else m / ((10 : Rat) ^ (-scale).toNat)
        some (some (if ng then -q else q), rest)) =
      some (some (if ng then -decimalValue [] fp else decimalValue [] fp), rest) := by
    intro ng
    rw [hmant]
    simp only [hexp]
    have h1 : ¬ ((0 - (fp.length : Int)).natAbs > 5000) := by omega
    rw [if_neg h1]
    have h0 : fp.length ≠ 0 := by intro e; exact hne (List.length_eq_zero_iff.mp e)
    have : ¬ ((0 - (fp.length : Int)) ≥ 0) := by omega
    simp only [this, if_false]
    have e : (-(0 - (fp.length : Int))).toNat = fp.length := by omega
    rw [e]
    rfl
  cases neg with
  | true =>
    refine ⟨'-', '.' :: (fp ++ rest), by simp [signChars], by decide, by decide, by decide, ?_⟩
    unfold scanFloat optSign
    exact hval true
  | false =>
    refine ⟨'.', fp ++ rest, by simp [signChars], by decide, by decide, by decide, ?_⟩
    have : optSign ('.' :: (fp ++ rest)) = (false, '.' :: (fp ++ rest)) := rfl
    unfold scanFloat; rw [this]
    exact hval false

theorem lexS_float_dot (neg : Bool) (fp rest : List Char) (line : Nat) (hne : fp ≠ []) (hf : ∀ c ∈ fp, isDig c = true)
    (hlen : fp.length ≤ 5000) (hs : StopsAt (fun c => isDig c || c == 'e' || c == 'E') rest) :
    lexS (signChars neg ++ ('.' :: (fp ++ rest))) line = ⟨.float, floatTokVal neg [] fp, line⟩ :: lexS rest line := by
  obtain ⟨c, tl, he, hid, hb, hm, hF⟩ := scan_float_dot neg fp rest hne hf hlen hs
  rw [he, lexS_tok c tl line _ _ _ hb (scanOne_of_float c tl line _ rest hid hF)]
  congr 2
  unfold floatTokVal
  rw [hm]
  cases neg <;> simp [Bool.and_comm, neg_eq_zero]

end MPilot.Lex
