/-
Lemmas/Rearr — rearranging the cells of arrays (a common permutation of the positions, and/or a new shape) commutes with every
numpy.ma primitive of the model.  Used by C05 (`rearr_equivariant`).
-/
import MPilot.Lemmas.Perm
import Mathlib.Algebra.BigOperators.Group.List.Basic

namespace MPilot

/-- the list read at the positions `σ` (in that order; positions outside the list are skipped) -/
def permute {α : Type} : List Nat → List α → List α
  | [], _ => []
  | i :: σ, l => match l[i]? with
    | some x => x :: permute σ l
    | none => permute σ l

/-- the same cells at rearranged positions, under a new shape -/
def Arr.rearr (s : List Nat) (σ : List Nat) (a : Arr) : Arr := { dtype := a.dtype, shape := s, cells := permute σ a.cells }

section
variable {α β γ : Type}

theorem permute_cons_lt (i : Nat) (σ : List Nat) (l : List α) (h : i < l.length) : permute (i :: σ) l = l[i] :: permute σ l := by
  rw [permute, List.getElem?_eq_getElem h]

theorem permute_eq_filterMap (σ : List Nat) (l : List α) : permute σ l = σ.filterMap (fun i => l[i]?) := by
  induction σ with
  | nil => rfl
  | cons i σ ih =>
    rw [permute, List.filterMap_cons]
    cases l[i]? <;> simp [ih]

theorem permute_map (σ : List Nat) (f : α → β) (l : List α) : permute σ (l.map f) = (permute σ l).map f := by
  induction σ with
  | nil => rfl
  | cons i σ ih =>
    rw [permute, permute, List.getElem?_map]
    cases l[i]? <;> simp [ih]

theorem permute_zipWith (σ : List Nat) (f : α → β → γ) (a : List α) (b : List β) (h : ∀ i ∈ σ, i < a.length ∧ i < b.length) :
    permute σ (List.zipWith f a b) = List.zipWith f (permute σ a) (permute σ b) := by
  induction σ with
  | nil => rfl
  | cons i σ ih =>
    have hi := h i (List.mem_cons_self ..)
    have ih' := ih (fun j hj => h j (List.mem_cons_of_mem _ hj))
    have hz : i < (List.zipWith f a b).length := by simp [hi.1, hi.2]
    rw [permute_cons_lt i σ _ hz, permute_cons_lt i σ a hi.1, permute_cons_lt i σ b hi.2, List.zipWith_cons_cons, ih']
    simp

theorem permute_length (σ : List Nat) (l : List α) (h : ∀ i ∈ σ, i < l.length) : (permute σ l).length = σ.length := by
  induction σ with
  | nil => rfl
  | cons i σ ih =>
    rw [permute_cons_lt i σ l (h i (List.mem_cons_self ..)), List.length_cons, List.length_cons,
      ih (fun j hj => h j (List.mem_cons_of_mem _ hj))]

theorem filterMap_range (l : List α) : (List.range l.length).filterMap (fun i => l[i]?) = l := by
  induction l with
  | nil => rfl
  | cons x l ih =>
    rw [List.length_cons, List.range_succ_eq_map, List.filterMap_cons]
    simp only [List.getElem?_cons_zero, List.filterMap_map]
    congr 1

theorem permute_perm (σ : List Nat) (l : List α) (h : σ.Perm (List.range l.length)) : (permute σ l).Perm l := by
  rw [permute_eq_filterMap]
  have := List.Perm.filterMap (fun i => l[i]?) h
  rwa [filterMap_range] at this

theorem permute_getElem? (σ : List Nat) (l : List α) (h : ∀ i ∈ σ, i < l.length) (j : Nat) :
    (permute σ l)[j]? = (σ[j]?).bind (fun i => l[i]?) := by
  induction σ generalizing j with
  | nil => simp [permute]
  | cons i σ ih =>
    have hi := h i (List.mem_cons_self ..)
    rw [permute_cons_lt i σ l hi]
    cases j with
    | zero => simp [List.getElem?_eq_getElem hi]
    | succ j => simpa using ih (fun k hk => h k (List.mem_cons_of_mem _ hk)) j

end

theorem perm_range_lt {σ : List Nat} {n : Nat} (h : σ.Perm (List.range n)) : ∀ i ∈ σ, i < n := by
  intro i hi; exact List.mem_range.mp (h.mem_iff.mp hi)

theorem perm_range_length {σ : List Nat} {n : Nat} (h : σ.Perm (List.range n)) : σ.length = n := by
  rw [h.length_eq, List.length_range]

/-! ### whole-array statistics do not depend on the order of the values -/

theorem minL_perm {l l' : List Rat} (h : l.Perm l') : minL l = minL l' := by
  cases l with
  | nil => rw [List.nil_perm.mp h]
  | cons x xs =>
    cases l' with
    | nil => exact absurd (List.perm_nil.mp h) (by simp)
    | cons y ys =>
      show some (fold1 ratMin (x :: xs)) = some (fold1 ratMin (y :: ys))
      rw [fold1_perm ratMin ratMin_comm ratMin_assoc h]

theorem maxL_perm {l l' : List Rat} (h : l.Perm l') : maxL l = maxL l' := by
  cases l with
  | nil => rw [List.nil_perm.mp h]
  | cons x xs =>
    cases l' with
    | nil => exact absurd (List.perm_nil.mp h) (by simp)
    | cons y ys =>
      show some (fold1 ratMax (x :: xs)) = some (fold1 ratMax (y :: ys))
      rw [fold1_perm ratMax ratMax_comm ratMax_assoc h]

theorem sumL_sum (l : List Rat) : sumL l = l.sum := by
  unfold sumL
  have : ∀ (acc : Rat), l.foldl (· + ·) acc = acc + l.sum := by
    induction l with
    | nil => intro acc; simp
    | cons x t ih => intro acc; rw [List.foldl_cons, ih, List.sum_cons]; ring
  rw [this]; simp

theorem sumL_perm {l l' : List Rat} (h : l.Perm l') : sumL l = sumL l' := by
  rw [sumL_sum, sumL_sum]; exact h.sum_eq

theorem meanL_perm {l l' : List Rat} (h : l.Perm l') : meanL l = meanL l' := by
  unfold meanL
  have he : l.isEmpty = l'.isEmpty := by
    cases l <;> cases l' <;> simp_all
  rw [he, sumL_perm h, h.length_eq]

theorem varL_perm {l l' : List Rat} (h : l.Perm l') : varL l = varL l' := by
  unfold varL
  rw [← meanL_perm h]
  cases meanL l with
  | none => rfl
  | some m => exact meanL_perm (h.map _)

/-! ### arrays -/

theorem rearr_valid_perm (s σ : List Nat) (a : Arr) (h : σ.Perm (List.range a.cells.length)) : (a.rearr s σ).valid.Perm a.valid := by
  unfold Arr.valid Arr.rearr
  exact ((permute_perm σ a.cells h).filter _).map _

theorem rearr_mapCells (s σ : List Nat) (f : Cell → Cell) (a : Arr) : (a.mapCells f).rearr s σ = (a.rearr s σ).mapCells f := by
  simp only [Arr.rearr, Arr.mapCells, permute_map]

theorem rearr_insure (s σ : List Nat) (lo hi : Rat) (a : Arr) : (a.insure lo hi).rearr s σ = (a.rearr s σ).insure lo hi :=
  rearr_mapCells s σ _ a

theorem rearr_zip (s σ : List Nat) (f : Cell → Cell → Cell) (dt : DType) (a b : Arr) (n : Nat) (hσ : ∀ i ∈ σ, i < n)
    (ha : a.cells.length = n) (hb : b.cells.length = n) :
    (Arr.zip f dt a b).rearr s σ = Arr.zip f dt (a.rearr s σ) (b.rearr s σ) := by
  simp only [Arr.rearr, Arr.zip]
  rw [permute_zipWith σ f a.cells b.cells (fun i hi => ⟨by rw [ha]; exact hσ i hi, by rw [hb]; exact hσ i hi⟩)]

theorem rearr_length (s σ : List Nat) (a : Arr) (n : Nat) (hσ : σ.Perm (List.range n)) (ha : a.cells.length = n) :
    (a.rearr s σ).cells.length = n := by
  show (permute σ a.cells).length = n
  rw [permute_length σ a.cells (fun i hi => by rw [ha]; exact perm_range_lt hσ i hi), perm_range_length hσ]

theorem rearr_foldl_zip (s σ : List Nat) (f : Cell → Cell → Cell) (dt : DType) (n : Nat) (hσ : σ.Perm (List.range n)) :
    ∀ (rest : List Arr) (acc : Arr), acc.cells.length = n → (∀ b ∈ rest, b.cells.length = n) →
      (rest.foldl (fun acc a => Arr.zip f dt acc a) acc).rearr s σ =
        (rest.map (Arr.rearr s σ)).foldl (fun acc a => Arr.zip f dt acc a) (acc.rearr s σ)
  | [], _, _, _ => rfl
  | b :: rest, acc, hacc, hrest => by
      have hb := hrest b (List.mem_cons_self ..)
      simp only [List.foldl_cons, List.map_cons]
      rw [rearr_foldl_zip s σ f dt n hσ rest (Arr.zip f dt acc b) (by simp [Arr.zip, hacc, hb])
        (fun c hc => hrest c (List.mem_cons_of_mem _ hc)), rearr_zip s σ f dt acc b n (perm_range_lt hσ) hacc hb]

theorem rearr_foldArr (s σ : List Nat) (f : Cell → Cell → Cell) (dt : DType) (n : Nat) (hσ : σ.Perm (List.range n))
    (a : Arr) (rest : List Arr) (h : ∀ b ∈ a :: rest, b.cells.length = n) :
    (foldArr f dt a rest).rearr s σ = foldArr f dt (a.rearr s σ) (rest.map (Arr.rearr s σ)) := by
  unfold foldArr
  exact rearr_foldl_zip s σ f dt n hσ rest _ (h a (List.mem_cons_self ..)) (fun b hb => h b (List.mem_cons_of_mem _ hb))

theorem rearr_scaleArr (s σ : List Nat) (w : Num) (a : Arr) : (scaleArr w a).rearr s σ = scaleArr w (a.rearr s σ) :=
  rearr_mapCells s σ _ a

theorem rearr_linMap (s σ : List Nat) (x1 x2 y1 y2 : Rat) (a : Arr) : (linMap x1 x2 y1 y2 a).rearr s σ = linMap x1 x2 y1 y2 (a.rearr s σ) := by
  simp only [Arr.rearr, linMap, permute_map]

theorem rearr_curveArr (s σ : List Nat) (pts : List (Rat × Rat)) (a : Arr) : (curveArr a pts).rearr s σ = curveArr (a.rearr s σ) pts := by
  simp only [Arr.rearr, curveArr, permute_map]

theorem promoteAll_rearr (s σ : List Nat) (xs : List Arr) : promoteAll (xs.map (Arr.rearr s σ)) = promoteAll xs := by
  unfold promoteAll
  generalize DType.int = d
  induction xs generalizing d with
  | nil => rfl
  | cons a t ih => simp only [List.map_cons, List.foldl_cons]; exact ih _

theorem validateShapes_rearr (ref : LineRef) (s σ : List Nat) (xs : List Arr) (hs : SameShape xs) :
    validateShapes ref (xs.map (Arr.rearr s σ)) = validateShapes ref xs := by
  match xs, hs with
  | [], _ => rfl
  | [a], _ => rfl
  | a :: b :: t, hs =>
    simp only [List.map_cons, validateShapes]
    have h1 : (List.all (Arr.rearr s σ b :: List.map (Arr.rearr s σ) t) fun c => c.shape == (Arr.rearr s σ a).shape) = true := by
      rw [List.all_eq_true]; intro c hc
      have : c.shape = s := by
        rcases List.mem_cons.mp hc with rfl | hc
        · rfl
        · obtain ⟨d, _, rfl⟩ := List.mem_map.mp hc; rfl
      simp [this, Arr.rearr]
    have h2 : (List.all (b :: t) fun c => c.shape == a.shape) = true := by
      rw [List.all_eq_true]; intro c hc
      have := hs c (List.mem_cons_of_mem _ hc) a (List.mem_cons_self ..)
      simp [this]
    rw [if_pos h1, if_pos h2]

theorem permute_range_id (σ : List Nat) (n : Nat) (h : ∀ i ∈ σ, i < n) : permute σ (List.range n) = σ := by
  induction σ with
  | nil => rfl
  | cons i σ ih =>
    have hi := h i (List.mem_cons_self ..)
    rw [permute_cons_lt i σ _ (by simpa using hi), ih (fun j hj => h j (List.mem_cons_of_mem _ hj))]
    simp

theorem rearr_weightedAcc (s σ : List Nat) (n : Nat) (hσ : σ.Perm (List.range n)) (ws : List Num) (xs : List Arr) (dt : DType)
    (hlen : ws.length = xs.length) (hne : xs ≠ []) (hn : ∀ a ∈ xs, a.cells.length = n) :
    weightedAcc ws (xs.map (Arr.rearr s σ)) dt = (weightedAcc ws xs dt).rearr s σ := by
  cases xs with
  | nil => exact absurd rfl hne
  | cons a as =>
    cases ws with
    | nil => simp at hlen
    | cons w wr =>
      have hl : wr.length = as.length := by simpa using hlen
      rw [List.map_cons, weightedAcc_eq_foldArr w wr _ _ dt (by simpa using hl), weightedAcc_eq_foldArr w wr a as dt hl]
      have hscaled : ∀ b ∈ scaleArr w a :: List.zipWith scaleArr wr as, b.cells.length = n := by
        intro b hb
        rcases List.mem_cons.mp hb with rfl | hb
        · simp [scaleArr, Arr.mapCells, hn a (List.mem_cons_self ..)]
        · have : ∀ (wr : List Num) (as : List Arr), (∀ c ∈ as, c.cells.length = n) → ∀ b ∈ List.zipWith scaleArr wr as, b.cells.length = n := by
            intro wr
            induction wr with
            | nil => intro as _ b hb; simp at hb
            | cons w2 wr2 ih =>
              intro as has b hb
              cases as with
              | nil => simp at hb
              | cons c as =>
                rw [List.zipWith_cons_cons] at hb
                rcases List.mem_cons.mp hb with rfl | hb
                · simp [scaleArr, Arr.mapCells, has c (List.mem_cons_self ..)]
                · exact ih as (fun d hd => has d (List.mem_cons_of_mem _ hd)) b hb
          exact this wr as (fun c hc => hn c (List.mem_cons_of_mem _ hc)) b hb
      rw [rearr_foldArr s σ _ dt n hσ _ _ hscaled, rearr_scaleArr]
      congr 1
      clear hscaled hlen hne hn
      induction as generalizing wr with
      | nil => cases wr <;> rfl
      | cons c as ih =>
        cases wr with
        | nil => rfl
        | cons w2 wr2 =>
          simp only [List.map_cons, List.zipWith_cons_cons, rearr_scaleArr]
          rw [ih wr2 (by simpa using hl)]

theorem column_rearr (s σ : List Nat) (n : Nat) (hσ : ∀ i ∈ σ, i < n) (xs : List Arr) (hn : ∀ a ∈ xs, a.cells.length = n) (j : Nat) (i : Nat)
    (hj : σ[j]? = some i) : column (xs.map (Arr.rearr s σ)) j = column xs i := by
  unfold column
  rw [List.map_map]
  apply List.map_congr_left
  intro a ha
  show (permute σ a.cells).getD j default = a.cells.getD i default
  have h := permute_getElem? σ a.cells (fun k hk => by rw [hn a ha]; exact hσ k hk) j
  rw [hj] at h
  simp only [Option.bind_some] at h
  simp only [List.getD_eq_getElem?_getD, h]

theorem rearr_stackMap (s σ : List Nat) (n : Nat) (hσ : σ.Perm (List.range n)) (f : List Rat → Cell) (a : Arr) (t : List Arr)
    (hn : ∀ b ∈ a :: t, b.cells.length = n) :
    stackMap ((a :: t).map (Arr.rearr s σ)) f = (stackMap (a :: t) f).rearr s σ := by
  have hlt := perm_range_lt hσ
  have hlen := perm_range_length hσ
  simp only [List.map_cons, stackMap, Arr.rearr]
  congr 1
  rw [show (permute σ a.cells).length = n from rearr_length s σ a n hσ (hn a (List.mem_cons_self ..)), hn a (List.mem_cons_self ..),
    permute_map, permute_range_id σ n hlt]
  apply List.ext_getElem
  · simp [hlen]
  · intro j h1 h2
    simp only [List.getElem_map, List.getElem_range]
    have hjl : j < σ.length := by simpa using h2
    have hj : σ[j]? = some (σ[j]'hjl) := List.getElem?_eq_getElem hjl
    have hc := column_rearr s σ n hlt (a :: t) hn j (σ[j]'hjl) hj
    simp only [List.map_cons, Arr.rearr] at hc
    unfold stackCell
    rw [hc]

/-! ### the bodies -/

theorem mtmStats_perm {l l' : List Rat} (h : l.Perm l') (iz : Bool) : mtmStats l iz = mtmStats l' iz := by
  unfold mtmStats
  rw [minL_perm h, maxL_perm h]
  have hvs : (if iz = true then l.filter (· != 0) else l).Perm (if iz = true then l'.filter (· != 0) else l') := by
    cases iz
    · simpa using h
    · simpa using h.filter _
  generalize (if iz = true then l.filter (· != 0) else l) = vs at hvs
  generalize (if iz = true then l'.filter (· != 0) else l') = vs' at hvs
  cases minL l' <;> cases maxL l' <;> simp only []
  rw [meanL_perm hvs]
  cases meanL vs' with
  | none => rfl
  | some mean =>
    simp only
    rw [meanL_perm (hvs.filter (· ≤ mean)), meanL_perm (hvs.filter (· > mean))]

theorem mtmPoints_perm {l l' : List Rat} (h : l.Perm l') (iz : Bool) (normal : List Num) : mtmPoints l iz normal = mtmPoints l' iz normal := by
  unfold mtmPoints
  rw [mtmStats_perm h]

variable (s σ : List Nat)

theorem except_map_ok (r : Arr) (f : Arr → Arr) : (Except.ok r : Except Err Arr).map f = .ok (f r) := rfl
theorem except_map_err (e : Err) (f : Arr → Arr) : (Except.error e : Except Err Arr).map f = .error e := rfl

theorem rearr_zScoreBody (sqrt : Rat → Rat) (a : Arr) (tt ft st e : Rat) (hσ : σ.Perm (List.range a.cells.length)) :
    zScoreBody sqrt (a.rearr s σ) tt ft st e = (zScoreBody sqrt a tt ft st e).map (Arr.rearr s σ) := by
  unfold zScoreBody
  have hp := rearr_valid_perm s σ a hσ
  rw [meanL_perm hp, varL_perm hp]
  cases meanL a.valid <;> cases varL a.valid <;> simp only [except_map_ok]
  all_goals first
    | (congr 1; rw [rearr_insure, rearr_linMap])
    | (congr 1; simp only [Arr.rearr, permute_map])

theorem rearr_catBody (a : Arr) (raw normal : List Num) (d : Num) :
    catBody (a.rearr s σ) raw normal d = (catBody a raw normal d).map (Arr.rearr s σ) := by
  unfold catBody
  split
  · rfl
  · split
    · rfl
    · simp only [except_map_ok]; congr 1; simp only [Arr.rearr, permute_map]

theorem rearr_curveBody (ref : LineRef) (a : Arr) (raw normal : List Rat) :
    curveBody ref (a.rearr s σ) raw normal = (curveBody ref a raw normal).map (Arr.rearr s σ) := by
  unfold curveBody
  split
  · rfl
  · split
    · rfl
    · split
      · rfl
      · simp only [except_map_ok, rearr_curveArr]

theorem rearr_curveZBody (sqrt : Rat → Rat) (a : Arr) (z normal : List Num) (hσ : σ.Perm (List.range a.cells.length)) :
    curveZBody sqrt (a.rearr s σ) z normal = (curveZBody sqrt a z normal).map (Arr.rearr s σ) := by
  unfold curveZBody
  have hp := rearr_valid_perm s σ a hσ
  rw [meanL_perm hp, varL_perm hp]
  split
  · rfl
  · cases meanL a.valid <;> cases varL a.valid <;> simp only []
    all_goals first
      | rfl
      | (split
         · rfl
         · simp only [except_map_ok, rearr_curveArr])

theorem rearr_meanToMidBody (a : Arr) (iz : Bool) (normal : List Num) (hσ : σ.Perm (List.range a.cells.length)) :
    meanToMidBody (a.rearr s σ) iz normal = (meanToMidBody a iz normal).map (Arr.rearr s σ) := by
  unfold meanToMidBody
  rw [mtmPoints_perm (rearr_valid_perm s σ a hσ)]
  cases mtmPoints a.valid iz normal with
  | error e => rfl
  | ok p => obtain ⟨raw, nv⟩ := p; exact rearr_curveBody s σ _ a raw nv

theorem fuzzyClamp_map_rearr (r : Except Err Arr) : fuzzyClamp (r.map (Arr.rearr s σ)) = (fuzzyClamp r).map (Arr.rearr s σ) := by
  unfold fuzzyClamp
  cases r with
  | error e => rfl
  | ok o => simp only [Except.map, rearr_insure]

end MPilot
