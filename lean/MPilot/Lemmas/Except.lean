/- helper lemmas about `Except` used by several property files -/
import MPilot.Model.Eems

namespace MPilot

theorem bind_ok {α β : Type} {x : Except Err α} {f : α → Except Err β} {b : β}
    (h : (x >>= f) = .ok b) : ∃ a, x = .ok a ∧ f a = .ok b := by
  cases x with
  | error e => simp [bind, Except.bind] at h
  | ok a => exact ⟨a, rfl, h⟩

theorem ite_bind_ok {β : Type} {c : Prop} [Decidable c] {e : Except Err PUnit} {f : PUnit → Except Err β} {b : β}
    (h : ((if c then e else pure PUnit.unit) >>= f) = .ok b) (he : ∀ u, e ≠ .ok u) : ¬c ∧ f PUnit.unit = .ok b := by
  by_cases hc : c
  · simp only [hc, if_true] at h
    obtain ⟨a, ha, _⟩ := bind_ok h
    exact absurd ha (he a)
  · simp only [hc, if_false] at h
    exact ⟨hc, h⟩

@[simp] theorem eMp_ne_ok {α : Type} (cls : String) (ref : LineRef) (a : α) : (eMp cls ref : Except Err α) ≠ .ok a := by
  simp [eMp]

@[simp] theorem eRaw_ne_ok {α : Type} (e : String) (a : α) : (eRaw e : Except Err α) ≠ .ok a := by
  simp [eRaw]

end MPilot
