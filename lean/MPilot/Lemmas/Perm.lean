/-
Lemmas/Perm — the n-ary fold commands give visibly the same outcome for every ordering of their inputs.
-/
import MPilot.Lemmas.Fold

namespace MPilot

theorem promoteAll_eq (xs : List Arr) :
    promoteAll xs = if xs.all (fun a => a.dtype == .int) then .int else .float := by
  unfold promoteAll
  have : ∀ d : DType, xs.foldl (fun d a => d.promote a.dtype) d =
      if (d == .int && xs.all (fun a => a.dtype == .int)) then .int else .float := by
    induction xs with
    | nil => intro d; cases d <;> rfl
    | cons a t ih =>
      intro d
      rw [List.foldl_cons, ih]
      cases d <;> cases h : a.dtype <;> simp [DType.promote, h]
  simpa using this .int

theorem promoteAll_perm {xs xs' : List Arr} (h : xs.Perm xs') : promoteAll xs = promoteAll xs' := by
  rw [promoteAll_eq, promoteAll_eq]
  have e : xs.all (fun a => a.dtype == .int) = xs'.all (fun a => a.dtype == .int) := by
    rw [Bool.eq_iff_iff]
    simp only [List.all_eq_true]
    exact ⟨fun H x hx => H x (h.mem_iff.mpr hx), fun H x hx => H x (h.mem_iff.mp hx)⟩
  rw [e]

theorem foldArr_dtype (f : Cell → Cell → Cell) (dt : DType) (a : Arr) (rest : List Arr) :
    (foldArr f dt a rest).dtype = dt := by
  unfold foldArr
  have : ∀ acc : Arr, acc.dtype = dt → (rest.foldl (fun acc a => Arr.zip f dt acc a) acc).dtype = dt := by
    induction rest with
    | nil => intro acc h; exact h
    | cons b t ih => intro acc _; rw [List.foldl_cons]; exact ih _ rfl
  exact this _ rfl

/-- all arrays of the list have one shape -/
def SameShape (xs : List Arr) : Prop := ∀ x ∈ xs, ∀ y ∈ xs, x.shape = y.shape

theorem validateShapes_ok_iff (ref : LineRef) (xs : List Arr) (hne : xs ≠ []) :
    validateShapes ref xs = .ok () ↔ SameShape xs := by
  match xs, hne with
  | [a], _ =>
    simp only [validateShapes, true_iff]
    intro x hx y hy
    simp only [List.mem_singleton] at hx hy
    rw [hx, hy]
  | a :: b :: t, _ =>
    simp only [validateShapes]
    constructor
    · intro h
      split at h
      · rename_i hall
        simp only [List.all_eq_true, beq_iff_eq] at hall
        have key : ∀ x ∈ a :: b :: t, x.shape = a.shape := by
          intro x hx
          rcases List.mem_cons.mp hx with rfl | hx
          · rfl
          · exact hall x hx
        intro x hx y hy
        rw [key x hx, key y hy]
      · exact absurd h (eMp_ne_ok _ _ _)
    · intro h
      have : (b :: t).all (fun x => x.shape == a.shape) = true := by
        simp only [List.all_eq_true, beq_iff_eq]
        intro x hx
        exact h x (List.mem_cons_of_mem _ hx) a (List.mem_cons_self ..)
      simp only [this, if_true]

theorem validateShapes_cases (ref : LineRef) (xs : List Arr) :
    validateShapes ref xs = .ok () ∨ validateShapes ref xs = eMp "EmptyInputs" ref ∨ validateShapes ref xs = eMp "MixedArrayShapes" ref := by
  match xs with
  | [] => right; left; rfl
  | [a] => left; rfl
  | a :: b :: t =>
    simp only [validateShapes]
    split
    · left; rfl
    · right; right; rfl

theorem validateShapes_perm (ref : LineRef) {xs xs' : List Arr} (h : xs.Perm xs') :
    validateShapes ref xs = validateShapes ref xs' := by
  by_cases hne : xs = []
  · subst hne; rw [List.nil_perm.mp h]
  · have hne' : xs' ≠ [] := fun e => hne (by subst e; exact List.perm_nil.mp h)
    have hiff : SameShape xs ↔ SameShape xs' :=
      ⟨fun H x hx y hy => H x (h.mem_iff.mpr hx) y (h.mem_iff.mpr hy),
       fun H x hx y hy => H x (h.mem_iff.mp hx) y (h.mem_iff.mp hy)⟩
    have e1 := validateShapes_ok_iff ref xs hne
    have e2 := validateShapes_ok_iff ref xs' hne'
    by_cases hs : SameShape xs
    · rw [e1.mpr hs, e2.mpr (hiff.mp hs)]
    · have n1 : validateShapes ref xs ≠ .ok () := fun e => hs (e1.mp e)
      have n2 : validateShapes ref xs' ≠ .ok () := fun e => hs (hiff.mpr (e2.mp e))
      have c1 : validateShapes ref xs = eMp "MixedArrayShapes" ref := by
        rcases validateShapes_cases ref xs with h1 | h1 | h1
        · exact absurd h1 n1
        · cases xs with
          | nil => exact absurd rfl hne
          | cons a t => cases t <;> simp [validateShapes, eMp] at h1; split at h1 <;> simp at h1
        · exact h1
      have c2 : validateShapes ref xs' = eMp "MixedArrayShapes" ref := by
        rcases validateShapes_cases ref xs' with h1 | h1 | h1
        · exact absurd h1 n2
        · cases xs' with
          | nil => exact absurd rfl hne'
          | cons a t => cases t <;> simp [validateShapes, eMp] at h1; split at h1 <;> simp at h1
        · exact h1
      rw [c1, c2]

/-- the `i`-th cells of arrays that all have a cell `i` -/
theorem column_spec (xs : List Arr) (i : Nat) (h : ∀ x ∈ xs, i < x.cells.length) :
    List.Forall₂ (fun (b : Arr) d => b.cells[i]? = some d) xs (column xs i) := by
  unfold column
  induction xs with
  | nil => exact .nil
  | cons a t ih =>
    refine .cons ?_ (ih fun x hx => h x (List.mem_cons_of_mem _ hx))
    have := h a (List.mem_cons_self ..)
    simp [List.getD, List.getElem?_eq_getElem this]

theorem column_perm {xs xs' : List Arr} (h : xs.Perm xs') (i : Nat) : (column xs i).Perm (column xs' i) := h.map _

theorem any_perm {l l' : List Cell} (h : l.Perm l') : l.any (·.mask) = l'.any (·.mask) := by
  rw [Bool.eq_iff_iff]
  simp only [List.any_eq_true]
  exact ⟨fun ⟨x, hx, hm⟩ => ⟨x, h.mem_iff.mp hx, hm⟩, fun ⟨x, hx, hm⟩ => ⟨x, h.mem_iff.mpr hx, hm⟩⟩

/-- the folded cell of a column is visibly invariant under permutation of the column -/
theorem foldCells_perm (g : Rat → Rat → Rat) (hc : ∀ a b, g a b = g b a) (ha : ∀ a b c, g (g a b) c = g a (g b c))
    {c c' : Cell} {cs cs' : List Cell} (h : (c :: cs).Perm (c' :: cs')) :
    CellR (foldCells g c cs) (foldCells g c' cs') := by
  refine ⟨?_, fun hm => ?_⟩
  · rw [foldCells_mask, foldCells_mask, any_perm h]
  · rw [foldCells_mask] at hm
    rw [foldCells_val g c cs hm, foldCells_val g c' cs' (by rw [← any_perm h]; exact hm)]
    exact fold1_perm g hc ha (h.map _)

/-- `foldArr` over a permuted operand list gives visibly the same cells -/
theorem foldArr_perm (g : Rat → Rat → Rat) (hc : ∀ a b, g a b = g b a) (ha : ∀ a b c, g (g a b) c = g a (g b c))
    (dt : DType) {a a' : Arr} {t t' : List Arr} (h : (a :: t).Perm (a' :: t')) (n : Nat)
    (hn : ∀ x ∈ a :: t, x.cells.length = n) :
    List.Forall₂ CellR (foldArr (Cell.bin g) dt a t).cells (foldArr (Cell.bin g) dt a' t').cells := by
  rw [forall2_cellR_iff]
  apply List.ext_getElem?
  intro i
  simp only [List.getElem?_map]
  have hn' : ∀ x ∈ a' :: t', x.cells.length = n := fun x hx => hn x (h.mem_iff.mpr hx)
  by_cases hi : i < n
  · have h1 := column_spec (a :: t) i (fun x hx => by rw [hn x hx]; exact hi)
    have h2 := column_spec (a' :: t') i (fun x hx => by rw [hn' x hx]; exact hi)
    simp only [column, List.map_cons] at h1 h2
    cases h1 with
    | cons h1a h1t =>
      cases h2 with
      | cons h2a h2t =>
        rw [foldArr_column g dt a t i _ _ h1a h1t, foldArr_column g dt a' t' i _ _ h2a h2t]
        simp only [Option.map_some]
        congr 1
        rw [← cellR_iff_vis]
        apply foldCells_perm g hc ha
        have := column_perm h i
        simpa [column] using this
  · have e1 : a.cells[i]? = none := by
      rw [List.getElem?_eq_none_iff, hn a (List.mem_cons_self ..)]; omega
    have e2 : a'.cells[i]? = none := by
      rw [List.getElem?_eq_none_iff, hn' a' (List.mem_cons_self ..)]; omega
    have none_fold : ∀ (l : List Arr) (f : Cell → Cell → Cell),
        l.foldl (fun acc b => acc.bind fun x => (b.cells[i]?).map (f x)) (none : Option Cell) = none := by
      intro l f; induction l with
      | nil => rfl
      | cons b t ih => simpa using ih
    rw [foldArr_getElem?, foldArr_getElem?, e1, e2, none_fold, none_fold]

theorem naryFold_perm (ref : LineRef) (g : Rat → Rat → Rat) (hc : ∀ a b, g a b = g b a)
    (ha : ∀ a b c, g (g a b) c = g a (g b c)) {xs xs' : List Arr} (h : xs.Perm xs') (n : Nat)
    (hn : ∀ x ∈ xs, x.cells.length = n) : ExceptR (naryFold ref g xs) (naryFold ref g xs') := by
  unfold naryFold
  rw [← validateShapes_perm ref h, ← promoteAll_perm h]
  rcases validateShapes_cases ref xs with hv | hv | hv <;> rw [hv]
  · cases xs with
    | nil => rw [List.nil_perm.mp h]; exact ExceptR.eMp _ _
    | cons a t =>
      cases xs' with
      | nil => exact absurd (List.perm_nil.mp h) (by simp)
      | cons a' t' =>
        have hs := (validateShapes_ok_iff ref (a :: t) (by simp)).mp hv
        refine ⟨?_, ?_, foldArr_perm g hc ha _ h n hn⟩
        · rw [foldArr_dtype, foldArr_dtype]
        · rw [C05_foldArr_shape, C05_foldArr_shape]
          exact hs a (List.mem_cons_self ..) a' (h.mem_iff.mpr (List.mem_cons_self ..))
  · exact ExceptR.eMp _ _
  · exact ExceptR.eMp _ _
where
  C05_foldArr_shape (f : Cell → Cell → Cell) (dt : DType) (a : Arr) (rest : List Arr) :
      (foldArr f dt a rest).shape = a.shape := by
    unfold foldArr
    have : ∀ acc : Arr, (rest.foldl (fun acc a => Arr.zip f dt acc a) acc).shape = acc.shape := by
      induction rest with
      | nil => intro acc; rfl
      | cons b t ih => intro acc; rw [List.foldl_cons, ih]; rfl
    rw [this]

end MPilot
