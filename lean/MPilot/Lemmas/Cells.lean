/-
Lemmas/Cells — the "visibly equal" relation on cells and arrays, and the fact that every numpy.ma primitive of the
model respects it.  Used by C03 (non-interference of hidden payloads), C05, C07.
-/
import MPilot.Model.Eems
import Mathlib.Data.List.Forall2

namespace MPilot

/-- two cells look the same: same missingness and, when present, the same value -/
def CellR (c d : Cell) : Prop := c.mask = d.mask ∧ (c.mask = false → c.val = d.val)

theorem CellR.refl (c : Cell) : CellR c c := ⟨rfl, fun _ => rfl⟩

theorem cellR_iff_vis (c d : Cell) : CellR c d ↔ c.vis = d.vis := by
  unfold CellR Cell.vis
  cases hc : c.mask <;> cases hd : d.mask <;> simp

/-- arrays that look the same -/
def ArrR (a b : Arr) : Prop := a.dtype = b.dtype ∧ a.shape = b.shape ∧ List.Forall₂ CellR a.cells b.cells

theorem ArrR.refl (a : Arr) : ArrR a a := ⟨rfl, rfl, List.forall₂_same.mpr fun c _ => CellR.refl c⟩

theorem forall2_cellR_iff (l l' : List Cell) : List.Forall₂ CellR l l' ↔ l.map Cell.vis = l'.map Cell.vis := by
  induction l generalizing l' with
  | nil => cases l' <;> simp
  | cons c l ih =>
    cases l' with
    | nil => simp
    | cons d l' => simp [ih, cellR_iff_vis]

theorem arrR_iff_visEq (a b : Arr) : ArrR a b ↔ VisEq a b := by
  unfold ArrR VisEq Arr.vis
  rw [forall2_cellR_iff]

/-! ### primitives respect `CellR` -/

theorem bin_R (g : Rat → Rat → Rat) {a a' b b' : Cell} (ha : CellR a a') (hb : CellR b b') :
    CellR (Cell.bin g a b) (Cell.bin g a' b') := by
  obtain ⟨ham, hav⟩ := ha
  obtain ⟨hbm, hbv⟩ := hb
  unfold Cell.bin CellR
  cases h1 : a.mask <;> cases h2 : b.mask <;> simp_all

theorem sc_R (f : Rat → Rat) {a a' : Cell} (ha : CellR a a') : CellR (Cell.sc f a) (Cell.sc f a') := by
  obtain ⟨ham, hav⟩ := ha
  unfold Cell.sc CellR
  cases h1 : a.mask <;> simp_all

theorem div_R {a a' b b' : Cell} (ha : CellR a a') (hb : CellR b b') : CellR (Cell.div a b) (Cell.div a' b') := by
  obtain ⟨ham, hav⟩ := ha
  obtain ⟨hbm, hbv⟩ := hb
  unfold Cell.div CellR
  cases h1 : a.mask <;> cases h2 : b.mask <;> simp_all

theorem divSc_R (d : Rat) {a a' : Cell} (ha : CellR a a') : CellR (Cell.divSc d a) (Cell.divSc d a') := by
  obtain ⟨ham, hav⟩ := ha
  unfold Cell.divSc CellR
  cases h1 : a.mask <;> by_cases hd : d = 0 <;> simp_all

theorem insure_R (lo hi : Rat) {a a' : Cell} (ha : CellR a a') : CellR (Cell.insure lo hi a) (Cell.insure lo hi a') := by
  obtain ⟨ham, hav⟩ := ha
  unfold Cell.insure CellR
  cases h1 : a.mask <;> simp_all

/-- a map that reads the data but keeps the mask (`⟨f c.val, c.mask⟩`) -/
theorem valmap_R (f : Rat → Rat) {a a' : Cell} (ha : CellR a a') : CellR ⟨f a.val, a.mask⟩ ⟨f a'.val, a'.mask⟩ := by
  obtain ⟨ham, hav⟩ := ha
  unfold CellR
  cases h1 : a.mask <;> simp_all

theorem map_R {f : Cell → Cell} (hf : ∀ a a', CellR a a' → CellR (f a) (f a')) {l l' : List Cell}
    (h : List.Forall₂ CellR l l') : List.Forall₂ CellR (l.map f) (l'.map f) := by
  induction h with
  | nil => exact .nil
  | cons hc _ ih => exact .cons (hf _ _ hc) ih

theorem zipWith_R {f : Cell → Cell → Cell} (hf : ∀ a a' b b', CellR a a' → CellR b b' → CellR (f a b) (f a' b'))
    {la la' lb lb' : List Cell} (ha : List.Forall₂ CellR la la') (hb : List.Forall₂ CellR lb lb') :
    List.Forall₂ CellR (List.zipWith f la lb) (List.zipWith f la' lb') := by
  induction ha generalizing lb lb' with
  | nil => simp
  | cons hc _ ih =>
    cases hb with
    | nil => simp
    | cons hd hb' => exact .cons (hf _ _ _ _ hc hd) (ih hb')

/-- statistics see the same valid values -/
theorem valid_R {a a' : Arr} (h : List.Forall₂ CellR a.cells a'.cells) : a.valid = a'.valid := by
  unfold Arr.valid
  generalize a.cells = l at h
  generalize a'.cells = l' at h
  induction h with
  | nil => rfl
  | @cons c d t t' hc _ ih =>
    obtain ⟨hm, hv⟩ := hc
    cases hcm : c.mask
    · have hdm : d.mask = false := by rw [← hm, hcm]
      simp only [List.filter_cons, hcm, hdm, Bool.not_false, if_true, List.map_cons, hv hcm, ih]
    · have hdm : d.mask = true := by rw [← hm, hcm]
      simpa only [List.filter_cons, hcm, hdm, Bool.not_true, Bool.false_eq_true, if_false] using ih

end MPilot
