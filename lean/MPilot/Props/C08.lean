/- C08 — theorems under construction -/
import MPilot.Model.Eems
