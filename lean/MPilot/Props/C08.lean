/-
C08 — fuzzy conversions and normalisations compute their documented mappings.
-/
import MPilot.Props.C05
import Mathlib.Data.List.Sort
import Mathlib.Tactic.FieldSimp
import Mathlib.Tactic.Ring
import Mathlib.Tactic.NormNum
import Mathlib.Tactic.Linarith
import Mathlib.Algebra.Order.Field.Rat

namespace MPilot.C08
open MPilot

/-! ### the linear map through two points (`CvtToFuzzy`, `CvtFromFuzzy`, z-score maps) -/

/-- value that `linMap x1 x2 y1 y2` leaves in a present cell -/
def lin (x1 x2 y1 y2 x : Rat) : Rat := (x - x1) * (y2 - y1) / (x2 - x1) + y1

theorem linMap_cells (x1 x2 y1 y2 : Rat) (a : Arr) (h : x2 - x1 ≠ 0) :
    (linMap x1 x2 y1 y2 a).cells = a.cells.map fun c => ⟨if c.mask then c.val else lin x1 x2 y1 y2 c.val, c.mask⟩ := by
  unfold linMap
  apply List.map_congr_left
  intro c _
  cases hm : c.mask <;> simp [Cell.sc, Cell.divSc, hm, h, lin]

theorem lin_at_x1 (x1 x2 y1 y2 : Rat) : lin x1 x2 y1 y2 x1 = y1 := by simp [lin]
theorem lin_at_x2 (x1 x2 y1 y2 : Rat) (h : x2 - x1 ≠ 0) : lin x1 x2 y1 y2 x2 = y2 := by
  unfold lin; field_simp; ring

/-- `CvtToFuzzy`'s mapping of a present value: line through (true threshold, +1), (false threshold, −1), clamped -/
def toFuzzyVal (t f x : Rat) : Rat := clampHiLo (-1) 1 (lin t f 1 (-1) x)

/-- the true threshold maps to +1 and the false threshold to −1 -/
theorem toFuzzy_true (t f : Rat) : toFuzzyVal t f t = 1 := by
  unfold toFuzzyVal; rw [lin_at_x1]; unfold clampHiLo; norm_num
theorem toFuzzy_false (t f : Rat) (h : t ≠ f) : toFuzzyVal t f f = -1 := by
  unfold toFuzzyVal; rw [lin_at_x2 _ _ _ _ (sub_ne_zero.mpr (Ne.symm h))]; unfold clampHiLo; norm_num

/-- between the thresholds the mapping is the straight line (no clamping); outside it is clamped to ±1 -/
theorem toFuzzy_between (t f x : Rat) (hft : f < t) (h1 : f ≤ x) (h2 : x ≤ t) : toFuzzyVal t f x = lin t f 1 (-1) x := by
  unfold toFuzzyVal
  have hd : f - t < 0 := by linarith
  have e : lin t f 1 (-1) x = (x - t) * 2 / (t - f) + 1 := by
    unfold lin
    have : t - f ≠ 0 := by linarith
    have : f - t ≠ 0 := by linarith
    field_simp; ring
  have hp : 0 < t - f := by linarith
  have lo : -1 ≤ lin t f 1 (-1) x := by
    rw [e]; have : -2 ≤ (x - t) * 2 / (t - f) := by rw [le_div_iff₀ hp]; nlinarith
    linarith
  have hi : lin t f 1 (-1) x ≤ 1 := by
    rw [e]; have : (x - t) * 2 / (t - f) ≤ 0 := by rw [div_le_iff₀ hp]; nlinarith
    linarith
  unfold clampHiLo; simp only; split_ifs <;> linarith

theorem toFuzzy_range (t f x : Rat) : -1 ≤ toFuzzyVal t f x ∧ toFuzzyVal t f x ≤ 1 := by
  unfold toFuzzyVal clampHiLo; simp only; split_ifs <;> constructor <;> linarith

/-- monotone when the true threshold is the larger one (order of cells preserved) … -/
theorem toFuzzy_mono (t f : Rat) (hft : f < t) {x y : Rat} (hxy : x ≤ y) : toFuzzyVal t f x ≤ toFuzzyVal t f y := by
  have hp : 0 < t - f := by linarith
  have hl : lin t f 1 (-1) x ≤ lin t f 1 (-1) y := by
    have e : ∀ z, lin t f 1 (-1) z = (z - t) * 2 / (t - f) + 1 := by
      intro z; unfold lin
      have : t - f ≠ 0 := by linarith
      have : f - t ≠ 0 := by linarith
      field_simp; ring
    rw [e, e]
    have : (x - t) * 2 / (t - f) ≤ (y - t) * 2 / (t - f) := by
      apply div_le_div_of_nonneg_right _ (le_of_lt hp); linarith
    linarith
  unfold toFuzzyVal clampHiLo; simp only; split_ifs <;> linarith

/-- … and antitone when it is the smaller one (order reversed) -/
theorem toFuzzy_anti (t f : Rat) (htf : t < f) {x y : Rat} (hxy : x ≤ y) : toFuzzyVal t f y ≤ toFuzzyVal t f x := by
  have hp : 0 < f - t := by linarith
  have hl : lin t f 1 (-1) y ≤ lin t f 1 (-1) x := by
    have e : ∀ z, lin t f 1 (-1) z = 1 - (z - t) * 2 / (f - t) := by
      intro z; unfold lin
      have : f - t ≠ 0 := by linarith
      field_simp; ring
    rw [e, e]
    have : (x - t) * 2 / (f - t) ≤ (y - t) * 2 / (f - t) := by
      apply div_le_div_of_nonneg_right _ (le_of_lt hp); linarith
    linarith
  unfold toFuzzyVal clampHiLo; simp only; split_ifs <;> linarith

/-- **CvtToFuzzy with explicit thresholds**: every present cell holds `toFuzzyVal t f`, missing cells stay missing. -/
theorem cvtToFuzzy_spec (sqrt : Rat → Rat) (a r : Arr) (t f : Num) (hv : a.valid ≠ []) (htf : t.val ≠ f.val)
    (h : exec sqrt (.cvtToFuzzy (some t) (some f) none) [a] = .ok r) :
    r.vis = a.cells.map fun c => if c.mask then none else some (toFuzzyVal t.val f.val c.val) := by
  simp only [exec, exec.go] at h
  have hmin : ∃ m, minL a.valid = some m := by
    cases hl : a.valid with
    | nil => exact absurd hl hv
    | cons x xs => exact ⟨_, rfl⟩
  have hmax : ∃ m, maxL a.valid = some m := by
    cases hl : a.valid with
    | nil => exact absurd hl hv
    | cons x xs => exact ⟨_, rfl⟩
  obtain ⟨mn, hmn⟩ := hmin
  obtain ⟨mx, hmx⟩ := hmax
  simp only [hmn, hmx, numOr, beq_iff_eq, htf, if_false] at h
  simp only [fuzzyClamp, Except.map, Except.ok.injEq] at h
  subst h
  have hd : f.val - t.val ≠ 0 := sub_ne_zero.mpr (Ne.symm htf)
  simp only [Arr.vis, Arr.insure, Arr.mapCells, linMap_cells _ _ _ _ _ hd, List.map_map]
  apply List.map_congr_left
  intro c _
  cases hm : c.mask <;> simp [Cell.vis, Cell.insure, hm, toFuzzyVal]

/-- **CvtFromFuzzy is the inverse of CvtToFuzzy between the thresholds** (where no clamping happened). -/
theorem fromFuzzy_toFuzzy (t f x : Rat) (h : t ≠ f) : lin 1 (-1) t f (lin t f 1 (-1) x) = x := by
  unfold lin
  have : f - t ≠ 0 := sub_ne_zero.mpr (Ne.symm h)
  field_simp
  ring

theorem cvtFromFuzzy_spec (sqrt : Rat → Rat) (a r : Arr) (t f : Num) (htf : t.val ≠ f.val)
    (h : exec sqrt (.cvtFromFuzzy t f) [a] = .ok r) :
    r.vis = a.cells.map fun c => if c.mask then none else some (lin 1 (-1) t.val f.val c.val) := by
  simp only [exec, beq_iff_eq, htf, if_false, Except.ok.injEq] at h
  subst h
  simp only [Arr.vis, linMap_cells _ _ _ _ _ (by norm_num : (-1 : Rat) - 1 ≠ 0), List.map_map]
  apply List.map_congr_left
  intro c _
  cases hm : c.mask <;> simp [Cell.vis, hm]

/-- equal thresholds are rejected with the specific error (both directions of the pair) -/
theorem equal_thresholds_error (sqrt : Rat → Rat) (a : Arr) (t f : Num) (h : t.val = f.val) :
    exec sqrt (.cvtFromFuzzy t f) [a] = eMp "InvalidThresholds" .cmd := by
  simp only [exec, beq_iff_eq, h, if_true]

/-! ### threshold test -/

theorem cvtToBinary_spec (sqrt : Rat → Rat) (a r : Arr) (th : Num) (dir : String) (hd : dir = "LowToHigh" ∨ dir = "HighToLow")
    (h : exec sqrt (.cvtToBinary th dir) [a] = .ok r) :
    r.vis = a.cells.map fun c => if c.mask then none else
      some (if c.val < th.val then (if dir = "LowToHigh" then 0 else 1) else (if dir = "LowToHigh" then 1 else 0)) := by
  simp only [exec] at h
  have : ¬((dir != "LowToHigh" && dir != "HighToLow") = true) := by
    rcases hd with rfl | rfl <;> decide
  rw [if_neg this] at h
  simp only [fuzzyClamp, Except.map, Except.ok.injEq] at h
  subst h
  simp only [Arr.vis, Arr.insure, Arr.mapCells, List.map_map]
  apply List.map_congr_left
  intro c _
  cases hm : c.mask
  · simp only [Function.comp, Cell.vis, Cell.insure, hm, beq_iff_eq]
    rcases hd with rfl | rfl <;> split_ifs <;> simp_all [clampHiLo] <;> norm_num
  · simp [Cell.vis, Cell.insure, hm]

/-! ### category lookup -/

/-- a value equal to the `i`-th raw value (raw values pairwise different) maps to the `i`-th normal value … -/
theorem catLookup_hit (pairs : List (Num × Num)) (d : Rat) (p : Num × Num) (hp : p ∈ pairs)
    (hnd : (pairs.map (·.1.val)).Nodup) : catLookup pairs d p.1.val = p.2.val := by
  unfold catLookup
  induction pairs generalizing d with
  | nil => cases hp
  | cons q t ih =>
    simp only [List.map_cons, List.nodup_cons] at hnd
    rw [List.foldl_cons]
    rcases List.mem_cons.mp hp with rfl | hp
    · -- hit at the head; no later pair has the same raw value
      simp only [beq_self_eq_true, if_true]
      have : ∀ (l : List (Num × Num)) (acc : Rat), (∀ q ∈ l, q.1.val ≠ p.1.val) →
          l.foldl (fun acc (q : Num × Num) => if p.1.val == q.1.val then q.2.val else acc) acc = acc := by
        intro l
        induction l with
        | nil => intro acc _; rfl
        | cons z t ih2 =>
          intro acc hne
          rw [List.foldl_cons]
          have : ¬(p.1.val = z.1.val) := fun e => hne z (List.mem_cons_self ..) e.symm
          have hb : (p.1.val == z.1.val) = false := by simpa using this
          rw [hb]
          simp only [Bool.false_eq_true, if_false]
          exact ih2 acc fun q hq => hne q (List.mem_cons_of_mem _ hq)
      apply this
      intro z hz e
      exact hnd.1 (List.mem_map.mpr ⟨z, hz, e⟩)
    · exact ih _ hp hnd.2

/-- … and a value equal to none of them maps to the default -/
theorem catLookup_miss (pairs : List (Num × Num)) (d x : Rat) (h : ∀ p ∈ pairs, p.1.val ≠ x) : catLookup pairs d x = d := by
  unfold catLookup
  induction pairs generalizing d with
  | nil => rfl
  | cons q t ih =>
    rw [List.foldl_cons]
    have : ¬(x = q.1.val) := fun e => h q (List.mem_cons_self ..) e.symm
    have hb : (x == q.1.val) = false := by simpa using this
    rw [hb]
    simp only [Bool.false_eq_true, if_false]
    exact ih d fun p hp => h p (List.mem_cons_of_mem _ hp)

/-! ### every CvtToFuzzy variant is its Normalize counterpart clamped to [−1, +1] -/

theorem fuzzy_variant_eq_clamp_normalize (sqrt : Rat → Rat) (a : Arr) :
    (∀ raw v d, exec sqrt (.cvtToFuzzyCat raw v d) [a] = fuzzyClamp (exec sqrt (.normalizeCat raw v d) [a])) ∧
    (∀ raw v, exec sqrt (.cvtToFuzzyCurve raw v) [a] = fuzzyClamp (exec sqrt (.normalizeCurve raw v) [a])) ∧
    (∀ iz v, exec sqrt (.cvtToFuzzyMeanToMid iz v) [a] = fuzzyClamp (exec sqrt (.normalizeMeanToMid iz v) [a])) ∧
    (∀ z v, exec sqrt (.cvtToFuzzyCurveZScore z v) [a] = fuzzyClamp (exec sqrt (.normalizeCurveZScore z v) [a])) ∧
    (∀ t f : Num, exec sqrt (.cvtToFuzzyZScore (some t) (some f)) [a] =
        fuzzyClamp (exec sqrt (.normalizeZScore (some t) (some f) (some ⟨-1, true⟩) (some ⟨1, true⟩)) [a])) := by
  refine ⟨fun _ _ _ => rfl, fun _ _ => rfl, fun _ _ => rfl, fun _ _ => rfl, fun _ _ => rfl⟩

/-! ### piecewise-linear curve -/

/-- lexicographic order used by Python's `sorted(zip(raw, normal))` -/
def pairLe (p q : Rat × Rat) : Prop := p.1 < q.1 ∨ (p.1 = q.1 ∧ p.2 ≤ q.2)

theorem insertPair_perm (p : Rat × Rat) (l : List (Rat × Rat)) : (insertPair p l).Perm (p :: l) := by
  induction l with
  | nil => exact List.Perm.refl _
  | cons q t ih =>
    unfold insertPair
    split_ifs
    · exact List.Perm.refl _
    · exact (List.Perm.cons q ih).trans (List.Perm.swap p q t)

theorem sortPairs_perm_self (l : List (Rat × Rat)) : (sortPairs l).Perm l := by
  unfold sortPairs
  induction l with
  | nil => exact List.Perm.refl _
  | cons p t ih => exact (insertPair_perm p _).trans (List.Perm.cons p ih)

theorem pairLe_total (p q : Rat × Rat) : pairLe p q ∨ pairLe q p := by
  unfold pairLe
  rcases lt_trichotomy p.1 q.1 with h | h | h
  · exact Or.inl (Or.inl h)
  · rcases le_total p.2 q.2 with h2 | h2
    · exact Or.inl (Or.inr ⟨h, h2⟩)
    · exact Or.inr (Or.inr ⟨h.symm, h2⟩)
  · exact Or.inr (Or.inl h)

theorem pairLe_trans {p q r : Rat × Rat} (h1 : pairLe p q) (h2 : pairLe q r) : pairLe p r := by
  unfold pairLe at *
  rcases h1 with h1 | ⟨e1, l1⟩ <;> rcases h2 with h2 | ⟨e2, l2⟩
  · exact Or.inl (lt_trans h1 h2)
  · exact Or.inl (by rw [← e2]; exact h1)
  · exact Or.inl (by rw [e1]; exact h2)
  · exact Or.inr ⟨e1.trans e2, le_trans l1 l2⟩

theorem pairLe_antisymm {p q : Rat × Rat} (h1 : pairLe p q) (h2 : pairLe q p) : p = q := by
  unfold pairLe at *
  rcases h1 with h1 | ⟨e1, l1⟩ <;> rcases h2 with h2 | ⟨e2, l2⟩
  · exact absurd h1 (not_lt.mpr (le_of_lt h2))
  · rw [e2] at h1; exact absurd h1 (lt_irrefl _)
  · rw [e1] at h2; exact absurd h2 (lt_irrefl _)
  · exact Prod.ext e1 (le_antisymm l1 l2)

theorem insertPair_sorted (p : Rat × Rat) (l : List (Rat × Rat)) (h : l.Pairwise pairLe) :
    (insertPair p l).Pairwise pairLe := by
  induction l with
  | nil => simp [insertPair]
  | cons q t ih =>
    unfold insertPair
    have hq := List.pairwise_cons.mp h
    split_ifs with hc
    · have hpq : pairLe p q := by
        simp only [Bool.or_eq_true, decide_eq_true_eq, Bool.and_eq_true, beq_iff_eq] at hc
        exact hc
      refine List.pairwise_cons.mpr ⟨?_, h⟩
      intro r hr
      rcases List.mem_cons.mp hr with rfl | hr
      · exact hpq
      · exact pairLe_trans hpq (hq.1 r hr)
    · have hqp : pairLe q p := by
        rcases pairLe_total p q with h1 | h1
        · exfalso; apply hc
          simp only [Bool.or_eq_true, decide_eq_true_eq, Bool.and_eq_true, beq_iff_eq]
          exact h1
        · exact h1
      refine List.pairwise_cons.mpr ⟨?_, ih hq.2⟩
      intro r hr
      rcases List.mem_cons.mp ((insertPair_perm p t).mem_iff.mp hr) with rfl | hr
      · exact hqp
      · exact hq.1 r hr

theorem sortPairs_sorted (l : List (Rat × Rat)) : (sortPairs l).Pairwise pairLe := by
  unfold sortPairs
  induction l with
  | nil => exact List.Pairwise.nil
  | cons p t ih => exact insertPair_sorted p _ ih

/-- **the curve does not depend on the order in which its control points are listed** -/
theorem sortPairs_perm {l l' : List (Rat × Rat)} (h : l.Perm l') : sortPairs l = sortPairs l' := by
  apply List.Perm.eq_of_pairwise (le := pairLe)
  · intro a b _ _ h1 h2; exact pairLe_antisymm h1 h2
  · exact sortPairs_sorted l
  · exact sortPairs_sorted l'
  · exact (sortPairs_perm_self l).trans (h.trans (sortPairs_perm_self l').symm)

theorem curve_perm_invariant (ref : LineRef) (a : Arr) {raw nv raw' nv' : List Rat}
    (h : (List.zip raw nv).Perm (List.zip raw' nv')) (hl : raw.length = nv.length) (hl' : raw'.length = nv'.length)
    (hd : hasDup raw = false) (hd' : hasDup raw' = false) (hne : raw ≠ []) (hne' : raw' ≠ []) :
    curveBody ref a raw nv = curveBody ref a raw' nv' := by
  unfold curveBody
  have e1 : (raw.length != nv.length) = false := by simpa using hl
  have e2 : (raw'.length != nv'.length) = false := by simpa using hl'
  have e3 : raw.isEmpty = false := by cases raw <;> simp_all
  have e4 : raw'.isEmpty = false := by cases raw' <;> simp_all
  simp only [e1, e2, hd, hd', e3, e4, Bool.false_eq_true, if_false, sortPairs_perm h]

/-- flat below the first control point and above the last one -/
theorem curveAt_below (p0 : Rat × Rat) (rest : List (Rat × Rat)) (x : Rat) (hx : x ≤ p0.1)
    (hs : (p0 :: rest).Pairwise fun p q => p.1 < q.1) : curveAt (p0 :: rest) x = p0.2 := by
  have hsegs : ∀ (prev : Rat × Rat) (ps : List (Rat × Rat)) (acc : Rat), x ≤ prev.1 →
      (prev :: ps).Pairwise (fun p q => p.1 < q.1) → curveSegs x prev ps acc = acc := by
    intro prev ps
    induction ps generalizing prev with
    | nil => intro acc _ _; rfl
    | cons p t ih =>
      intro acc hle hs
      unfold curveSegs
      have hn : ¬(x > prev.1) := not_lt.mpr hle
      have hp := List.pairwise_cons.mp hs
      simp only [decide_eq_true_eq, hn, false_and, Bool.false_and, Bool.false_eq_true, if_false, decide_false]
      exact ih p acc (le_trans hle (le_of_lt (hp.1 p (List.mem_cons_self ..)))) hp.2
  unfold curveAt
  simp only [hx, if_true]
  rw [hsegs p0 rest p0.2 hx hs]
  have hlast : ∀ q ∈ p0 :: rest, p0.1 ≤ q.1 := by
    intro q hq
    rcases List.mem_cons.mp hq with rfl | hq
    · exact le_refl _
    · exact le_of_lt ((List.pairwise_cons.mp hs).1 q hq)
  have : ¬(x > ((p0 :: rest).getLast!).1) := by
    have hm : (p0 :: rest).getLast! ∈ p0 :: rest := by
      rw [List.getLast!_of_getLast? (List.getLast?_eq_some_getLast (l := p0 :: rest) (by simp))]
      exact List.getLast_mem _
    exact not_lt.mpr (le_trans hx (hlast _ hm))
  simp only [this, if_false]

/-! ### the curve between its control points -/

/-- once `x` is at or below the current control point, no later segment assigns to it -/
theorem curveSegs_done (x : Rat) (prev : Rat × Rat) (ps : List (Rat × Rat)) (acc : Rat) (hle : x ≤ prev.1)
    (hs : (prev :: ps).Pairwise (fun p q => p.1 < q.1)) : curveSegs x prev ps acc = acc := by
  induction ps generalizing prev acc with
  | nil => rfl
  | cons p t ih =>
    unfold curveSegs
    have hn : ¬(x > prev.1) := not_lt.mpr hle
    have hp := List.pairwise_cons.mp hs
    simp only [decide_eq_true_eq, hn, Bool.false_and, Bool.false_eq_true, if_false, decide_false]
    exact ih p acc (le_trans hle (le_of_lt (hp.1 p (List.mem_cons_self ..)))) hp.2

/-- the segment `(p, q]` that contains `x` assigns the line through `p` and `q`; nothing after it assigns again -/
theorem curveSegs_seg (x : Rat) (p q : Rat × Rat) (post : List (Rat × Rat)) (acc : Rat) (h1 : p.1 < x) (h2 : x ≤ q.1)
    (hs : (q :: post).Pairwise (fun a b => a.1 < b.1)) : curveSegs x p (q :: post) acc = lin p.1 q.1 p.2 q.2 x := by
  have hne : q.1 - p.1 ≠ 0 := by
    have : p.1 < q.1 := lt_of_lt_of_le h1 h2
    intro h; linarith
  have hc : (decide (x > p.1) && decide (x ≤ q.1)) = true := by simp [h1, h2]
  unfold curveSegs
  simp only [hc, if_true]
  rw [curveSegs_done x q post _ h2 hs]
  unfold lin
  field_simp
  ring

/-- the segment loop over control points that all lie below `x`, then `p`, then `q ≥ x`: the value is that of the segment `(p, q]` -/
theorem curveSegs_interior (x : Rat) (p q : Rat × Rat) (post : List (Rat × Rat)) (h1 : p.1 < x) (h2 : x ≤ q.1)
    (hs : (q :: post).Pairwise (fun a b => a.1 < b.1)) :
    ∀ (pre : List (Rat × Rat)) (prev : Rat × Rat) (acc : Rat), (∀ a ∈ pre, a.1 < x) →
      curveSegs x prev (pre ++ p :: q :: post) acc = lin p.1 q.1 p.2 q.2 x := by
  intro pre
  induction pre with
  | nil =>
    intro prev acc _
    have hnp : ¬(x ≤ p.1) := not_le.mpr h1
    simp only [List.nil_append]
    unfold curveSegs
    simp only [hnp, decide_false, Bool.and_false, Bool.false_eq_true, if_false]
    exact curveSegs_seg x p q post acc h1 h2 hs
  | cons a pre ih =>
    intro prev acc hall
    have ha : a.1 < x := hall a (List.mem_cons_self ..)
    have hna : ¬(x ≤ a.1) := not_le.mpr ha
    simp only [List.cons_append]
    unfold curveSegs
    simp only [decide_eq_true_eq, hna, Bool.and_false, Bool.false_eq_true, if_false, decide_false]
    exact ih a acc (fun b hb => hall b (List.mem_cons_of_mem _ hb))

/-- **interior of the curve**: for control points sorted by strictly increasing raw value, a value in the segment `(p.raw, q.raw]` between two
consecutive points is mapped onto the straight line through them -/
theorem curveAt_interior (pre post : List (Rat × Rat)) (p q : Rat × Rat) (x : Rat)
    (hs : (pre ++ p :: q :: post).Pairwise (fun a b => a.1 < b.1)) (h1 : p.1 < x) (h2 : x ≤ q.1) :
    curveAt (pre ++ p :: q :: post) x = lin p.1 q.1 p.2 q.2 x := by
  have hs2 : (p :: q :: post).Pairwise (fun a b => a.1 < b.1) := (List.pairwise_append.mp hs).2.1
  have hsq : (q :: post).Pairwise (fun a b => a.1 < b.1) := (List.pairwise_cons.mp hs2).2
  have hpre : ∀ a ∈ pre, a.1 < x := fun a ha =>
    lt_trans ((List.pairwise_append.mp hs).2.2 a ha p (List.mem_cons_self ..)) h1
  -- the last control point is `q` or lies above it
  have hlast : ∀ (l : List (Rat × Rat)) (hl : l ≠ []), (∀ a ∈ l, x ≤ a.1) → ¬(x > (l.getLast hl).1) :=
    fun l hl h => not_lt.mpr (h _ (List.getLast_mem hl))
  have hpost : ∀ a ∈ q :: post, x ≤ a.1 := by
    intro a ha
    rcases List.mem_cons.mp ha with rfl | ha
    · exact h2
    · exact le_trans h2 (le_of_lt ((List.pairwise_cons.mp hsq).1 a ha))
  have hgl : ∀ (l : List (Rat × Rat)), ¬(x > ((l ++ q :: post).getLast!).1) := by
    intro l
    have hne : l ++ q :: post ≠ [] := by simp
    rw [List.getLast!_of_getLast? (List.getLast?_eq_some_getLast hne)]
    have : (l ++ q :: post).getLast hne = (q :: post).getLast (by simp) := by
      rw [List.getLast_append_of_ne_nil]
    rw [this]
    exact hlast _ _ hpost
  cases pre with
  | nil =>
    simp only [List.nil_append]
    unfold curveAt
    have hl := hgl [p]
    simp only [List.cons_append, List.nil_append] at hl
    simp only [hl, if_false]
    exact curveSegs_seg x p q post _ h1 h2 hsq
  | cons a pre =>
    simp only [List.cons_append]
    unfold curveAt
    have hl := hgl (a :: pre ++ [p])
    simp only [List.cons_append, List.append_assoc, List.nil_append] at hl
    simp only [hl, if_false]
    exact curveSegs_interior x p q post h1 h2 hsq pre a _ (fun b hb => hpre b (List.mem_cons_of_mem _ hb))

/-- flat above the last control point -/
theorem curveAt_above (pts : List (Rat × Rat)) (hne : pts ≠ []) (x : Rat) (hx : x > (pts.getLast hne).1) :
    curveAt pts x = (pts.getLast hne).2 := by
  cases pts with
  | nil => exact absurd rfl hne
  | cons p0 rest =>
    unfold curveAt
    have : (p0 :: rest).getLast! = (p0 :: rest).getLast hne := by
      rw [List.getLast!_of_getLast? (List.getLast?_eq_some_getLast hne)]
    simp only [this, hx, if_true]

theorem hasDup_false_nodup (l : List Rat) (hd : hasDup l = false) : l.Nodup := by
  induction l with
  | nil => exact List.nodup_nil
  | cons a t ih =>
    simp only [hasDup, Bool.or_eq_false_iff] at hd
    refine List.nodup_cons.mpr ⟨?_, ih hd.2⟩
    intro hm
    have : t.contains a = true := by simpa using hm
    rw [this] at hd
    exact absurd hd.1 (by simp)

/-- the control points of `NormalizeCurve` after sorting: distinct raw values give strictly increasing raw values -/
theorem sortPairs_strict (raw nv : List Rat) (hl : raw.length = nv.length) (hd : hasDup raw = false) :
    (sortPairs (List.zip raw nv)).Pairwise (fun a b => a.1 < b.1) := by
  have hnd : raw.Nodup := hasDup_false_nodup raw hd
  have hfst : ((sortPairs (List.zip raw nv)).map Prod.fst).Nodup := by
    have hp := (sortPairs_perm_self (List.zip raw nv)).map Prod.fst
    have hz : (List.zip raw nv).map Prod.fst = raw := by
      rw [List.map_fst_zip]; omega
    rw [hz] at hp
    exact hp.nodup_iff.mpr hnd
  have hsorted := sortPairs_sorted (List.zip raw nv)
  generalize sortPairs (List.zip raw nv) = l at hfst hsorted
  induction l with
  | nil => exact List.Pairwise.nil
  | cons a t ih =>
    have hs := List.pairwise_cons.mp hsorted
    rw [List.map_cons] at hfst
    have hn := List.nodup_cons.mp hfst
    refine List.pairwise_cons.mpr ⟨?_, ih hn.2 hs.2⟩
    intro b hb
    rcases hs.1 b hb with h | ⟨h, _⟩
    · exact h
    · exact absurd (h ▸ List.mem_map_of_mem (f := Prod.fst) hb) hn.1

/-- **NormalizeCurve, cell by cell**: the result keeps shape and missing cells of the input, is floating, and each cell holds the curve through the
sorted control points: flat at or below the first, on the line between two consecutive points, flat above the last -/
theorem normalizeCurve_spec (ref : LineRef) (a r : Arr) (raw nv : List Rat) (h : curveBody ref a raw nv = .ok r) :
    raw.length = nv.length ∧ hasDup raw = false ∧ raw ≠ [] ∧
    (sortPairs (List.zip raw nv)).Pairwise (fun p q => p.1 < q.1) ∧
    r.dtype = .float ∧ r.shape = a.shape ∧
    r.cells = a.cells.map fun c => ⟨curveAt (sortPairs (List.zip raw nv)) c.val, c.mask⟩ := by
  unfold curveBody at h
  repeat' (first | split at h | (dsimp only at h))
  all_goals first | cases h | skip
  rename_i h1 h2 h3
  have hl : raw.length = nv.length := by simpa using h1
  have hd : hasDup raw = false := by simpa using h2
  have hne : raw ≠ [] := by intro e; subst e; simp at h3
  exact ⟨hl, hd, hne, sortPairs_strict raw nv hl hd, rfl, rfl, rfl⟩

/-- non-vacuity: the curve through (0, 0), (2, 1), (4, -1) at 1, 3, -5, 9 -/
example : curveAt (sortPairs (List.zip [4, 0, 2] [-1, 0, 1])) 1 = 1 / 2 ∧ curveAt (sortPairs (List.zip [4, 0, 2] [-1, 0, 1])) 3 = 0 ∧
    curveAt (sortPairs (List.zip [4, 0, 2] [-1, 0, 1])) (-5) = 0 ∧ curveAt (sortPairs (List.zip [4, 0, 2] [-1, 0, 1])) 9 = -1 := by
  decide +kernel

/-! ### mean-to-mid and curve-by-z-score: which control points the curve goes through -/

/-- **the five statistics of the mean-to-mid commands**: minimum and maximum of the present cells (zeros included), and - over the present cells,
without the zeros when `IgnoreZeros` - the mean, the mean of the values at or below it and the mean of the values above it (none when no value lies above) -/
theorem mtmStats_spec (valid : List Rat) (iz : Bool) (low high mean lowMean : Rat) (highMean : Option Rat)
    (h : mtmStats valid iz = .ok (low, high, mean, lowMean, highMean)) :
    minL valid = some low ∧ maxL valid = some high ∧
    meanL (if iz then valid.filter (· != 0) else valid) = some mean ∧
    meanL ((if iz then valid.filter (· != 0) else valid).filter (· ≤ mean)) = some lowMean ∧
    highMean = meanL ((if iz then valid.filter (· != 0) else valid).filter (· > mean)) := by
  unfold mtmStats at h
  split at h
  · rename_i lo hi hlo hhi
    simp only at h
    split at h
    · cases h
    · rename_i m hm
      split at h
      · cases h
      · rename_i lm hlm
        injection h with h
        simp only [Prod.mk.injEq] at h
        obtain ⟨rfl, rfl, rfl, rfl, rfl⟩ := h
        exact ⟨hlo, hhi, hm, hlm, rfl⟩
  · cases h

/-- **NormalizeMeanToMid / CvtToFuzzyMeanToMid, cell by cell**: whenever the command returns a result, it is the piecewise-linear curve (as specified by
`normalizeCurve_spec`: shape and missing cells kept, flat outside, on the line between consecutive points) through the control points `mtmPoints`
derives from the five statistics of the field's present cells -/
theorem meanToMid_spec (a r : Arr) (iz : Bool) (vals : List Num) (h : meanToMidBody a iz vals = .ok r) :
    ∃ raw nv, mtmPoints a.valid iz vals = .ok (raw, nv) ∧ raw.length = nv.length ∧ hasDup raw = false ∧ raw ≠ [] ∧
      (sortPairs (List.zip raw nv)).Pairwise (fun p q => p.1 < q.1) ∧
      r.dtype = .float ∧ r.shape = a.shape ∧
      r.cells = a.cells.map fun c => ⟨curveAt (sortPairs (List.zip raw nv)) c.val, c.mask⟩ := by
  unfold meanToMidBody at h
  split at h
  · cases h
  · rename_i raw nv hp
    exact ⟨raw, nv, hp, normalizeCurve_spec _ a r raw nv h⟩

/-- **NormalizeCurveZScore / CvtToFuzzyCurveZScore, cell by cell**: the curve through the control points `mean + z·deviation` (mean and population variance of
the present cells, `meanL_eq` / `varL_eq`; `sqrt` is the model's parameter), with the given values -/
theorem curveZScore_spec (sqrt : Rat → Rat) (a r : Arr) (z vals : List Num) (h : curveZBody sqrt a z vals = .ok r) :
    z.length = vals.length ∧ z ≠ [] ∧ ∃ mean var, meanL a.valid = some mean ∧ varL a.valid = some var ∧
      r.dtype = .float ∧ r.shape = a.shape ∧
      r.cells = a.cells.map fun c =>
        ⟨curveAt (sortPairs (List.zip (z.map fun v => mean + v.val * sqrt var) (vals.map (·.val)))) c.val, c.mask⟩ := by
  unfold curveZBody at h
  split at h
  · cases h
  · rename_i hlen
    split at h
    · rename_i mean var hm hv
      split at h
      · cases h
      · rename_i hz
        injection h with h; subst h
        refine ⟨by simpa using hlen, by intro e; subst e; simp at hz, mean, var, hm, hv, rfl, rfl, rfl⟩
    · cases h

/-- the fuzzy variants are the same curves limited to [-1, 1] -/
theorem cvtToFuzzy_meanToMid_curveZ_eq_clamp (sqrt : Rat → Rat) (a : Arr) (iz : Bool) (z vals : List Num) :
    exec sqrt (.cvtToFuzzyMeanToMid iz vals) [a] = (exec sqrt (.normalizeMeanToMid iz vals) [a]).map (Arr.insure (-1) 1) ∧
    exec sqrt (.cvtToFuzzyCurveZScore z vals) [a] = (exec sqrt (.normalizeCurveZScore z vals) [a]).map (Arr.insure (-1) 1) := by
  simp only [exec, fuzzyClamp, and_self]

/-- non-vacuity: the field 1, 2, 3, 6 (mean 3; lower part 1, 2, 3 with mean 2; upper part 6) -/
example : mtmStats [1, 2, 3, 6] false = .ok (1, 6, 3, 2, some 6) := by decide +kernel

/-! ### z-score normalisation -/

/-- the line through `(mean + sd·tt, y1)` and `(mean + sd·ft, y2)` is the line through `(tt, y1)` and `(ft, y2)` read in z units `(x − mean) / sd` -/
theorem lin_zscore (mean sd tt ft y1 y2 x : Rat) (hsd : sd ≠ 0) (htf : ft - tt ≠ 0) :
    lin (mean + sd * tt) (mean + sd * ft) y1 y2 x = lin tt ft y1 y2 ((x - mean) / sd) := by
  unfold lin
  have h1 : mean + sd * ft - (mean + sd * tt) = sd * (ft - tt) := by ring
  rw [h1]
  field_simp
  ring

/-- the statistics the z-score commands use: the mean and the population variance of the non-missing cells -/
theorem meanL_eq (xs : List Rat) (h : xs ≠ []) : meanL xs = some (xs.sum / (xs.length : Rat)) := by
  unfold meanL
  have : xs.isEmpty = false := by cases xs <;> simp_all
  simp [this, sumL, List.sum_eq_foldl]

theorem varL_eq (xs : List Rat) (h : xs ≠ []) :
    varL xs = some ((xs.map fun x => (x - xs.sum / (xs.length : Rat)) * (x - xs.sum / (xs.length : Rat))).sum / (xs.length : Rat)) := by
  unfold varL
  rw [meanL_eq xs h]
  simp only
  rw [meanL_eq _ (by simpa using h)]
  simp

/-- **NormalizeZScore, cell by cell**: with `m` the mean and `v` the population variance of the non-missing cells and `sd = sqrt v ≠ 0`, a present cell holding `x`
is mapped to the line through `(tt, end)` and `(ft, start)` evaluated at the z-score `(x − m) / sd`, limited to `[start, end]`; missing cells stay missing -/
theorem normalizeZScore_spec (sqrt : Rat → Rat) (a r : Arr) (tt ft s e : Rat) (hv : a.valid ≠ [])
    (m v : Rat) (hm : m = a.valid.sum / (a.valid.length : Rat))
    (hvar : v = (a.valid.map fun x => (x - m) * (x - m)).sum / (a.valid.length : Rat))
    (hsd : sqrt v ≠ 0) (htf : ft - tt ≠ 0)
    (h : zScoreBody sqrt a tt ft s e = .ok r) :
    r.shape = a.shape ∧
    r.vis = a.cells.map fun c => if c.mask then none else some (clampHiLo s e (lin tt ft e s ((c.val - m) / sqrt v))) := by
  have hM : meanL a.valid = some m := by rw [hm]; exact meanL_eq _ hv
  have hV : varL a.valid = some v := by rw [hvar, hm]; exact varL_eq _ hv
  unfold zScoreBody at h
  rw [hM, hV] at h
  simp only [Except.ok.injEq] at h
  subst h
  have hd : (m + sqrt v * ft) - (m + sqrt v * tt) ≠ 0 := by
    intro hh
    have : sqrt v * (ft - tt) = 0 := by linarith
    rcases mul_eq_zero.mp this with h0 | h0
    · exact hsd h0
    · exact htf h0
  refine ⟨rfl, ?_⟩
  simp only [Arr.vis, Arr.insure, Arr.mapCells, linMap_cells _ _ _ _ _ hd, List.map_map]
  apply List.map_congr_left
  intro c _
  cases hmk : c.mask
  · simp only [Function.comp, Cell.vis, Cell.insure, hmk, Bool.false_eq_true, if_false]
    rw [lin_zscore _ _ _ _ _ _ _ hsd htf]
  · simp [Cell.vis, Cell.insure, hmk]

/-- non-vacuity: the field [0, 2, 4, 6] (mean 3, variance 5) under a deviation function returning 2, thresholds -1 and 1 -/
example : zScoreBody (fun _ => 2) ⟨.float, [4], [⟨0, false⟩, ⟨2, false⟩, ⟨4, false⟩, ⟨6, false⟩]⟩ (-1) 1 0 1 =
    .ok ⟨.float, [4], [⟨1, false⟩, ⟨3 / 4, false⟩, ⟨1 / 4, false⟩, ⟨0, false⟩]⟩ := by
  decide +kernel

end MPilot.C08
