/-
C17 — CSV reading and writing are faithful.

Proved about the column-reading logic on the records the csv reader yields (the csv module itself and `float()`/`repr()` are modelled /
trusted, see the trusted base): row order, blank lines skipped, element type, *exactly* the cells equal to the missing value (after
conversion to the element type) missing, independence from the other columns, the reported line of a non-numeric cell.
Bit-identity of the write/read round trip rests on CPython's shortest-repr guarantee and is established by testing on the implementation only.
-/
import MPilot.Model.Csv
import Mathlib.Tactic.Common

namespace MPilot.C17
open MPilot

/-- the parsed cell of a record at a column -/
def cellOf (idx : Nat) (row : List String) : Option (Option PyFloat) := (row[idx]?).map pyFloat

/-- **row order, blank lines skipped**: a successful read returns, in order, the value of column `idx` of every non-blank record -/
theorem columnValues_spec (idx : Nat) : ∀ (rows : List (List String)) (i : Nat) (vs : List Rat),
    columnValues idx rows i = .ok vs →
    List.Forall₂ (fun (row : List String) q => ∃ cell, row[idx]? = some cell ∧ pyFloat cell = some (.finite q))
      (rows.filter (fun r => !r.isEmpty)) vs := by
  intro rows
  induction rows with
  | nil => intro i vs h; unfold columnValues at h; injection h with h; subst h; exact .nil
  | cons row rest ih =>
    intro i vs h
    unfold columnValues at h
    by_cases he : row.isEmpty = true
    · rw [if_pos he] at h
      simp only [List.filter_cons, he, Bool.not_true, Bool.false_eq_true, if_false]
      exact ih _ _ h
    · rw [if_neg he] at h
      simp only [List.filter_cons, he, Bool.not_false, if_true]
      cases hc : row[idx]? with
      | none => rw [hc] at h; cases h
      | some cell =>
        rw [hc] at h
        simp only at h
        cases hp : pyFloat cell with
        | none => rw [hp] at h; cases h
        | some pf =>
          rw [hp] at h
          cases pf with
          | special s => cases h
          | finite q =>
            simp only at h
            cases hr : columnValues idx rest (i + 1) with
            | error e => rw [hr] at h; cases h
            | ok t =>
              rw [hr] at h
              injection h with h; subst h
              exact .cons ⟨cell, hc, hp⟩ (ih _ _ hr)

/-- **unaffected by other columns**: records that agree in column `idx` (and in being blank or not) give the same outcome,
error and reported line included -/
theorem other_columns_irrelevant (idx : Nat) : ∀ (rows rows' : List (List String)) (i : Nat),
    List.Forall₂ (fun (r r' : List String) => r.isEmpty = r'.isEmpty ∧ r[idx]? = r'[idx]?) rows rows' →
    columnValues idx rows i = columnValues idx rows' i := by
  intro rows rows' i h
  induction h generalizing i with
  | nil => rfl
  | @cons r r' t t' hr _ ih =>
    unfold columnValues
    rw [hr.1, hr.2, ih (i + 1)]

/-- **the reported line**: a non-numeric cell in the `k`-th record after the header (blank records counted) is reported on line `k + 2`,
the line of that record in the file when no quoted field spans lines; earlier records are all readable -/
theorem invalid_value_line (idx : Nat) : ∀ (rows : List (List String)) (i l : Nat),
    columnValues idx rows i = .error (.invalidValue l) →
    ∃ k, l = i + k + 2 ∧ ∃ row cell, rows[k]? = some row ∧ row[idx]? = some cell ∧ pyFloat cell = none := by
  intro rows
  induction rows with
  | nil => intro i l h; unfold columnValues at h; cases h
  | cons row rest ih =>
    intro i l h
    unfold columnValues at h
    by_cases he : row.isEmpty = true
    · rw [if_pos he] at h
      obtain ⟨k, hk, row', cell, h1, h2, h3⟩ := ih _ _ h
      exact ⟨k + 1, by omega, row', cell, by simpa using h1, h2, h3⟩
    · rw [if_neg he] at h
      cases hc : row[idx]? with
      | none => rw [hc] at h; cases h
      | some cell =>
        rw [hc] at h
        simp only at h
        cases hp : pyFloat cell with
        | none =>
          rw [hp] at h
          injection h with h; injection h with h
          exact ⟨0, by omega, row, cell, rfl, hc, hp⟩
        | some pf =>
          rw [hp] at h
          cases pf with
          | special s => cases h
          | finite q =>
            simp only at h
            cases hr : columnValues idx rest (i + 1) with
            | error e =>
              rw [hr] at h
              injection h with h; subst h
              obtain ⟨k, hk, row', cell', h1, h2, h3⟩ := ih _ _ hr
              exact ⟨k + 1, by omega, row', cell', by simpa using h1, h2, h3⟩
            | ok t => rw [hr] at h; cases h

/-- **element type and missing cells**: the array read has the requested element type, one cell per value, and a cell is missing
exactly when its value equals the declared missing value after both are converted to the element type -/
theorem csvRead_type_and_mask (text : List Char) (field : String) (missing : Option Rat) (integer : Bool) (a : Arr)
    (h : csvRead text field missing integer = .ok a) :
    a.dtype = (if integer then .int else .float) ∧ a.shape = [a.cells.length] ∧
    ∀ c ∈ a.cells, c.mask = (match missing with
      | some m => c.val == (if integer then ((truncRat m : Int) : Rat) else m)
      | none => false) := by
  unfold csvRead at h
  split at h
  · cases h
  · split at h
    · cases h
    · split at h
      · cases h
      · injection h with h; subst h
        refine ⟨rfl, by simp, ?_⟩
        intro c hc
        simp only [List.mem_map] at hc
        obtain ⟨q, _, rfl⟩ := hc
        cases missing <;> rfl

/-- integer reading truncates toward zero (`int(2.9) = 2`, `int(-2.9) = -2`), so with an Integer column the comparison with the missing
value is made on truncated values -/
example : truncRat (29/10) = 2 ∧ truncRat (-29/10) = -2 ∧ truncRat 3 = 3 ∧ truncRat (5/2) = 2 := by decide +kernel

/-- the csv reader model on a small table with a quoted header, a blank line and a last line without terminator -/
example : csvRows "a,\"x,\"\"y\"\n1,2\n\n3,4".toList = [["a", "x,\"y"], ["1", "2"], [], ["3", "4"]] := by decide +kernel

end MPilot.C17
