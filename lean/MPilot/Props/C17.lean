/-
C17 — CSV reading and writing are faithful.

Proved about the column-reading logic on the records the csv reader yields (the csv module itself and `float()`/`repr()` are modelled /
trusted, see the trusted base): row order, blank lines skipped, element type, *exactly* the cells equal to the missing value (after
conversion to the element type) missing, independence from the other columns, the reported line of a non-numeric cell.
`csv_row_roundtrip`, `csv_table_roundtrip`: the model of the csv reader inverts the model of the csv writer for every table of text fields
(commas, quotes, line breaks, empty fields: the quoting rules are consistent), so header names needing CSV quoting survive a write/read.
Bit-identity of the numeric cells rests on CPython's shortest-repr guarantee and is established by testing on the implementation only.
-/
import MPilot.Model.Csv
import Mathlib.Tactic.Common

namespace MPilot.C17
open MPilot

/-- the parsed cell of a record at a column -/
def cellOf (idx : Nat) (row : List String) : Option (Option PyFloat) := (row[idx]?).map pyFloat

/-- **row order, blank lines skipped**: a successful read returns, in order, the value of column `idx` of every non-blank record -/
theorem columnValues_spec (idx : Nat) : ∀ (rows : List (List String)) (i : Nat) (vs : List Rat),
    columnValues idx rows i = .ok vs →
    List.Forall₂ (fun (row : List String) q => ∃ cell, row[idx]? = some cell ∧ pyFloat cell = some (.finite q))
      (rows.filter (fun r => !r.isEmpty)) vs := by
  intro rows
  induction rows with
  | nil => intro i vs h; unfold columnValues at h; injection h with h; subst h; exact .nil
  | cons row rest ih =>
    intro i vs h
    unfold columnValues at h
    by_cases he : row.isEmpty = true
    · rw [if_pos he] at h
      simp only [List.filter_cons, he, Bool.not_true, Bool.false_eq_true, if_false]
      exact ih _ _ h
    · rw [if_neg he] at h
      simp only [List.filter_cons, he, Bool.not_false, if_true]
      cases hc : row[idx]? with
      | none => rw [hc] at h; cases h
      | some cell =>
        rw [hc] at h
        simp only at h
        cases hp : pyFloat cell with
        | none => rw [hp] at h; cases h
        | some pf =>
          rw [hp] at h
          cases pf with
          | special s => cases h
          | finite q =>
            simp only at h
            cases hr : columnValues idx rest (i + 1) with
            | error e => rw [hr] at h; cases h
            | ok t =>
              rw [hr] at h
              injection h with h; subst h
              exact .cons ⟨cell, hc, hp⟩ (ih _ _ hr)

/-- **unaffected by other columns**: records that agree in column `idx` (and in being blank or not) give the same outcome,
error and reported line included -/
theorem other_columns_irrelevant (idx : Nat) : ∀ (rows rows' : List (List String)) (i : Nat),
    List.Forall₂ (fun (r r' : List String) => r.isEmpty = r'.isEmpty ∧ r[idx]? = r'[idx]?) rows rows' →
    columnValues idx rows i = columnValues idx rows' i := by
  intro rows rows' i h
  induction h generalizing i with
  | nil => rfl
  | @cons r r' t t' hr _ ih =>
    unfold columnValues
    rw [hr.1, hr.2, ih (i + 1)]

/-- **the reported line**: a non-numeric cell in the `k`-th record after the header (blank records counted) is reported on line `k + 2`,
the line of that record in the file when no quoted field spans lines; earlier records are all readable -/
theorem invalid_value_line (idx : Nat) : ∀ (rows : List (List String)) (i l : Nat),
    columnValues idx rows i = .error (.invalidValue l) →
    ∃ k, l = i + k + 2 ∧ ∃ row cell, rows[k]? = some row ∧ row[idx]? = some cell ∧ pyFloat cell = none := by
  intro rows
  induction rows with
  | nil => intro i l h; unfold columnValues at h; cases h
  | cons row rest ih =>
    intro i l h
    unfold columnValues at h
    by_cases he : row.isEmpty = true
    · rw [if_pos he] at h
      obtain ⟨k, hk, row', cell, h1, h2, h3⟩ := ih _ _ h
      exact ⟨k + 1, by omega, row', cell, by simpa using h1, h2, h3⟩
    · rw [if_neg he] at h
      cases hc : row[idx]? with
      | none => rw [hc] at h; cases h
      | some cell =>
        rw [hc] at h
        simp only at h
        cases hp : pyFloat cell with
        | none =>
          rw [hp] at h
          injection h with h; injection h with h
          exact ⟨0, by omega, row, cell, rfl, hc, hp⟩
        | some pf =>
          rw [hp] at h
          cases pf with
          | special s => cases h
          | finite q =>
            simp only at h
            cases hr : columnValues idx rest (i + 1) with
            | error e =>
              rw [hr] at h
              injection h with h; subst h
              obtain ⟨k, hk, row', cell', h1, h2, h3⟩ := ih _ _ hr
              exact ⟨k + 1, by omega, row', cell', by simpa using h1, h2, h3⟩
            | ok t => rw [hr] at h; cases h

/-- **element type and missing cells**: the array read has the requested element type, one cell per value, and a cell is missing
exactly when its value equals the declared missing value after both are converted to the element type -/
theorem csvRead_type_and_mask (text : List Char) (field : String) (missing : Option Rat) (integer : Bool) (a : Arr)
    (h : csvRead text field missing integer = .ok a) :
    a.dtype = (if integer then .int else .float) ∧ a.shape = [a.cells.length] ∧
    ∀ c ∈ a.cells, c.mask = (match missing with
      | some m => c.val == (if integer then ((truncRat m : Int) : Rat) else m)
      | none => false) := by
  unfold csvRead at h
  split at h
  · cases h
  · split at h
    · cases h
    · split at h
      · cases h
      · injection h with h; subst h
        refine ⟨rfl, by simp, ?_⟩
        intro c hc
        simp only [List.mem_map] at hc
        obtain ⟨q, _, rfl⟩ := hc
        cases missing <;> rfl

/-- integer reading truncates toward zero (`int(2.9) = 2`, `int(-2.9) = -2`), so with an Integer column the comparison with the missing
value is made on truncated values -/
example : truncRat (29/10) = 2 ∧ truncRat (-29/10) = -2 ∧ truncRat 3 = 3 ∧ truncRat (5/2) = 2 := by decide +kernel

/-- the csv reader model on a small table with a quoted header, a blank line and a last line without terminator -/
example : csvRows "a,\"x,\"\"y\"\n1,2\n\n3,4".toList = [["a", "x,\"y"], ["1", "2"], [], ["3", "4"]] := by decide +kernel

/-! ### the csv reader inverts the csv writer (header names and any other text fields, quoting included) -/

def runCsv (a : CsvAcc) (cs : List Char) : CsvAcc := cs.foldl csvStep a

theorem runCsv_append (a : CsvAcc) (x y : List Char) : runCsv a (x ++ y) = runCsv (runCsv a x) y := by
  simp [runCsv, List.foldl_append]

/-- the characters the writer puts between the quotes of a quoted field -/
def quotedBody (cs : List Char) : List Char := cs.flatMap fun c => if c == '"' then ['"', '"'] else [c]

theorem run_quotedBody (cs : List Char) : ∀ (a : CsvAcc), a.st = .inQuoted →
    runCsv a (quotedBody cs) = { a with field := cs.reverse ++ a.field } := by
  induction cs with
  | nil => intro a _; rfl
  | cons c t ih =>
    intro a ha
    by_cases hc : c = '"'
    · subst hc
      have : quotedBody ('"' :: t) = '"' :: '"' :: quotedBody t := by simp [quotedBody]
      rw [this]
      show runCsv (csvStep (csvStep a '"') '"') (quotedBody t) = _
      have h1 : csvStep a '"' = { a with st := .quoteInQuoted } := by simp [csvStep, ha]
      have h2 : csvStep { a with st := .quoteInQuoted } '"' = { a with st := .inQuoted, field := '"' :: a.field } := by simp [csvStep]
      rw [h1, h2, ih _ rfl]
      cases a; simp at ha; subst ha; simp
    · have hq : (c == '"') = false := by simpa using hc
      have : quotedBody (c :: t) = c :: quotedBody t := by simp [quotedBody, hc]
      rw [this]
      show runCsv (csvStep a c) (quotedBody t) = _
      have h1 : csvStep a c = { a with field := c :: a.field } := by simp [csvStep, ha, hq]
      rw [h1, ih _ (by simpa using ha)]
      simp

/-- an unquoted field holds no comma, quote or line break -/
def Bare (cs : List Char) : Prop := ∀ c ∈ cs, c ≠ ',' ∧ c ≠ '"' ∧ c ≠ '\n' ∧ c ≠ '\r'

theorem run_bare_inField (cs : List Char) (hb : Bare cs) : ∀ (a : CsvAcc), a.st = .inField →
    runCsv a cs = { a with field := cs.reverse ++ a.field } := by
  induction cs with
  | nil => intro a _; rfl
  | cons c t ih =>
    intro a ha
    have hc := hb c (List.mem_cons_self ..)
    have e1 : (c == '\n') = false := by simpa using hc.2.2.1
    have e2 : (c == ',') = false := by simpa using hc.1
    show runCsv (csvStep a c) t = _
    have h1 : csvStep a c = { a with field := c :: a.field } := by simp [csvStep, ha, e1, e2]
    rw [h1, ih (fun d hd => hb d (List.mem_cons_of_mem _ hd)) _ (by simpa using ha)]
    simp

/-- the state at the start of a field: no character of it read yet -/
def AtStart (a : CsvAcc) : Prop := (a.st = .startRecord ∨ a.st = .startField) ∧ a.field = []

/-- reading the characters of one written field: afterwards the field text is in the buffer (state `inField` or `quoteInQuoted`, in both of
which a comma saves the field and a line break ends the record) - or nothing was read at all (an empty bare field) -/
inductive AfterField (a : CsvAcc) (s : String) : CsvAcc → Prop
  | buffered (b : CsvAcc) : (b.st = .inField ∨ b.st = .quoteInQuoted) → b.field = s.toList.reverse → b.fields = a.fields → b.rows = a.rows →
      AfterField a s b
  | untouched : s = "" → AfterField a s a

theorem needsQuote_false_bare (s : String) (h : needsQuote s = false) : Bare s.toList := by
  intro c hc
  unfold needsQuote at h
  rw [List.any_eq_false] at h
  have := h c hc
  simp only [Bool.or_eq_true, beq_iff_eq, not_or] at this
  exact ⟨this.1.1.1, this.1.1.2, this.1.2, this.2⟩

theorem csvField_chars (s : String) :
    (csvField s).toList = if needsQuote s then '"' :: (quotedBody s.toList ++ ['"']) else s.toList := by
  unfold csvField
  split <;> simp [quotedBody, String.toList_append]

theorem run_field (a : CsvAcc) (ha : AtStart a) (s : String) : AfterField a s (runCsv a (csvField s).toList) := by
  obtain ⟨hst, hf⟩ := ha
  rw [csvField_chars]
  by_cases hq : needsQuote s = true
  · rw [if_pos hq]
    have h1 : csvStep a '"' = { a with st := .inQuoted } := by
      rcases hst with h | h <;> simp [csvStep, h]
    show AfterField a s (runCsv (csvStep a '"') (quotedBody s.toList ++ ['"']))
    rw [h1, runCsv_append, run_quotedBody _ _ rfl]
    refine .buffered _ (Or.inr ?_) ?_ rfl rfl
    · simp [runCsv, csvStep]
    · simp [runCsv, csvStep, hf]
  · have hq' : needsQuote s = false := by simpa using hq
    rw [if_neg hq]
    have hb := needsQuote_false_bare s hq'
    cases hs : s.toList with
    | nil =>
      have : s = "" := by
        have := congrArg String.ofList hs
        simpa using this
      exact .untouched this
    | cons c t =>
      rw [hs] at hb
      have hc := hb c (List.mem_cons_self ..)
      have e1 : (c == '\n') = false := by simpa using hc.2.2.1
      have e2 : (c == ',') = false := by simpa using hc.1
      have e3 : (c == '"') = false := by simpa using hc.2.1
      have h1 : csvStep a c = { a with st := .inField, field := [c] } := by
        rcases hst with h | h <;> simp [csvStep, h, e1, e2, e3, hf]
      show AfterField a s (runCsv (csvStep a c) t)
      rw [h1, run_bare_inField t (fun d hd => hb d (List.mem_cons_of_mem _ hd)) _ rfl]
      refine .buffered _ (Or.inl rfl) ?_ rfl rfl
      simp [hs]

theorem sep_comma {a b : CsvAcc} {s : String} (ha : AtStart a) (h : AfterField a s b) :
    csvStep b ',' = { st := .startField, field := [], fields := s :: a.fields, rows := a.rows } := by
  cases h with
  | buffered b hst hf hfs hr =>
    rcases hst with h | h <;> simp [csvStep, h, CsvAcc.saveField, hf, hfs, hr]
  | untouched hs =>
    subst hs
    obtain ⟨hst, hf⟩ := ha
    rcases hst with h | h <;> simp [csvStep, h, CsvAcc.saveField, hf]

theorem sep_newline {a b : CsvAcc} {s : String} (ha : AtStart a) (h : AfterField a s b) (hne : a.st = .startField ∨ s ≠ "") :
    csvStep b '\n' = { st := .startRecord, field := [], fields := [], rows := (s :: a.fields).reverse :: a.rows } := by
  cases h with
  | buffered b hst hf hfs hr =>
    rcases hst with h | h <;> simp [csvStep, h, CsvAcc.saveField, CsvAcc.endRecord, hf, hfs, hr]
  | untouched hs =>
    subst hs
    obtain ⟨hst, hf⟩ := ha
    rcases hne with h | h
    · simp [csvStep, h, CsvAcc.saveField, CsvAcc.endRecord, hf]
    · exact absurd rfl h

/-- the characters of a written row (fields already quoted where needed) -/
def rowChars : List String → List Char
  | [] => ['\n']
  | [x] => (csvField x).toList ++ ['\n']
  | x :: y :: t => (csvField x).toList ++ ',' :: rowChars (y :: t)

theorem run_row : ∀ (fs : List String) (a : CsvAcc), fs ≠ [] → AtStart a → (a.st = .startField ∨ fs ≠ [""]) →
    runCsv a (rowChars fs) = { st := .startRecord, field := [], fields := [], rows := (a.fields.reverse ++ fs) :: a.rows }
  | [], _, h, _, _ => absurd rfl h
  | [x], a, _, ha, hne => by
      rw [rowChars, runCsv_append]
      have hf := run_field a ha x
      show csvStep (runCsv a (csvField x).toList) '\n' = _
      rw [sep_newline ha hf (by rcases hne with h | h; exact Or.inl h; exact Or.inr (by intro e; apply h; rw [e]))]
      simp
  | x :: y :: t, a, _, ha, _ => by
      rw [rowChars, runCsv_append]
      have hf := run_field a ha x
      show runCsv (csvStep (runCsv a (csvField x).toList) ',') (rowChars (y :: t)) = _
      rw [sep_comma ha hf, run_row (y :: t) _ (by simp) ⟨Or.inr rfl, rfl⟩ (Or.inl rfl)]
      simp

theorem inter_chars : ∀ (fs : List String), ((",".intercalate (fs.map csvField)) ++ "\n").toList = rowChars fs
  | [] => rfl
  | [x] => by simp [rowChars, String.toList_append]
  | x :: y :: t => by
      have ih := inter_chars (y :: t)
      rw [List.map_cons, List.map_cons, String.intercalate_cons_cons, rowChars]
      rw [List.map_cons] at ih
      simp only [String.toList_append, List.append_assoc] at ih ⊢
      rw [ih]
      rfl

theorem writeRow_chars (fs : List String) (h : fs ≠ [""]) : (csvWriteRow fs).toList = rowChars fs := by
  unfold csvWriteRow
  split
  · exact absurd rfl h
  · exact inter_chars fs

/-- **the csv reader inverts the csv writer** (one row): whatever the fields contain - commas, quotes, line breaks, nothing at all - the
row the writer produces is read back as exactly those fields -/
theorem csv_row_roundtrip (fs : List String) : csvRows (csvWriteRow fs).toList = [fs] := by
  unfold csvRows
  by_cases h1 : fs = [""]
  · subst h1; rfl
  · rw [writeRow_chars fs h1]
    by_cases h0 : fs = []
    · subst h0; rfl
    · have := run_row fs ⟨.startRecord, [], [], []⟩ h0 ⟨Or.inl rfl, rfl⟩ (Or.inr h1)
      simp only [runCsv] at this
      rw [this]
      simp

theorem run_written_row (fs : List String) (R : List (List String)) :
    runCsv ⟨.startRecord, [], [], R⟩ (csvWriteRow fs).toList = ⟨.startRecord, [], [], fs :: R⟩ := by
  by_cases h1 : fs = [""]
  · subst h1; rfl
  · rw [writeRow_chars fs h1]
    by_cases h0 : fs = []
    · subst h0; rfl
    · have := run_row fs ⟨.startRecord, [], [], R⟩ h0 ⟨Or.inl rfl, rfl⟩ (Or.inr h1)
      rw [this]; simp

/-- **the csv reader inverts the csv writer** (whole tables): header row and data rows alike, any number of rows and columns -/
theorem csv_table_roundtrip (rows : List (List String)) : csvRows (rows.flatMap fun r => (csvWriteRow r).toList) = rows := by
  unfold csvRows
  have key : ∀ (rs : List (List String)) (R : List (List String)),
      List.foldl csvStep ⟨.startRecord, [], [], R⟩ (rs.flatMap fun r => (csvWriteRow r).toList) = ⟨.startRecord, [], [], rs.reverse ++ R⟩ := by
    intro rs
    induction rs with
    | nil => intro R; rfl
    | cons r rs ih =>
      intro R
      rw [List.flatMap_cons, List.foldl_append]
      have := run_written_row r R
      simp only [runCsv] at this
      rw [this, ih]
      simp
  rw [key rows []]
  simp

end MPilot.C17
