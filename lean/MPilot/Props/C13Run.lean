/-
C13 — the whole of `Program.run()` (and loading before it): nothing but MPilot errors.

`runCmd_not_raw`, `prepassCmd_not_raw`, `fromNodes_not_raw` (Props/C13.lean) speak about the parts.  Here they are assembled:
* `prepass_not_raw`: the validation pass over all commands raises MPilot errors only;
* `run_not_raw`: **whatever `Program.run()` ends with - a rejected argument, a circular model, a body that fails with any exception at all
  (modelled as `raw`: it is wrapped), an input that fails - the error that leaves `run()` is an MPilotError**, inside the model's cleaning domain;
* `run_error_declared`: when that error is raised by the program layer itself (loading, validation, the cycle check) its class is one of the
  declared `ProgramError` classes of the regenerated exception table (`Generated/ErrTable.lean`) - so the command-line tool reports it with its
  line (`C13Cli.mp_error_reported`, `marks_offending_line`).
-/
import MPilot.Props.C13
import MPilot.Props.C13Err

namespace MPilot.C13
open MPilot

variable {Val : Type}

/-- no argument of the program falls outside the model's cleaning domain (text forms of floats / containers, inf / nan) under this context -/
def InDomain (ctx : Ctx) (cmds : List PCmd) : Prop :=
  ∀ c ∈ cmds, ∀ a ∈ c.args, ∀ i, c.decl.input? a.name = some i → clean ctx i.spec a.value ≠ .error "OutsideModel"

theorem prepass_not_raw (ctx : Ctx) : ∀ (cmds : List PCmd) (e : PErr), InDomain ctx cmds → prepass ctx cmds = .error e → PErr.isRaw e = false := by
  intro cmds
  induction cmds with
  | nil => intro e _ h; cases h
  | cons c rest ih =>
    intro e hdom h
    unfold prepass at h
    split at h
    · rename_i e' he'
      injection h with h; subst h
      exact prepassCmd_not_raw ctx c c.args e' (fun a ha i hi => hdom c List.mem_cons_self a ha i hi) he'
    · split at h
      · rename_i e' he'
        injection h with h; subst h
        exact ih e' (fun c' hc' => hdom c' (List.mem_cons_of_mem _ hc')) he'
      · cases h

theorem go_not_raw (sem : Sem Val) (p : Program) : ∀ (leaves : List PCmd) (st st' : St Val) (e : PErr),
    (∀ c ∈ leaves, (p.find? c.resultName).isSome = true) → run.go sem p leaves st = (st', some e) → PErr.isRaw e = false := by
  intro leaves
  induction leaves with
  | nil => intro st st' e _ h; unfold run.go at h; injection h with _ h; cases h
  | cons c rest ih =>
    intro st st' e hl h
    unfold run.go at h
    cases hrun : runCmd sem p (p.cmds.length + 1) st c.resultName with
    | mk s1 oe =>
      rw [hrun] at h
      cases oe with
      | some e1 =>
        simp only at h
        injection h with _ h2; injection h2 with h2; subst h2
        exact runCmd_not_raw sem p _ st s1 c.resultName e1 (hl c List.mem_cons_self) hrun
      | none =>
        simp only at h
        exact ih s1 st' e (fun c' hc' => hl c' (List.mem_cons_of_mem _ hc')) h

/-- every command of the program is found under its own result name -/
theorem find?_of_mem (p : Program) (c : PCmd) (h : c ∈ p.cmds) : (p.find? c.resultName).isSome = true := by
  unfold Program.find?
  rw [List.find?_isSome]
  exact ⟨c, h, by simp⟩

/-- **`Program.run()` lets nothing but MPilot errors out** -/
theorem run_not_raw (sem : Sem Val) (p : Program) (st st' : St Val) (e : PErr) (hdom : InDomain (mkCtx sem p st) p.cmds)
    (h : run sem p st = (st', some e)) : PErr.isRaw e = false := by
  unfold run at h
  split at h
  · rename_i e' he'
    injection h with _ h2; injection h2 with h2; subst h2
    exact prepass_not_raw _ p.cmds e' hdom he'
  · split at h
    · injection h with _ h2; injection h2 with h2; subst h2; rfl
    · rename_i info _ _
      refine go_not_raw sem p (leavesOf p info) st st' e ?_ h
      intro c hc
      exact find?_of_mem p c (List.mem_filter.mp hc).1

/-- an error of the program layer itself - a rejected argument or a circular model - is an instance of a declared `ProgramError` class -/
theorem run_rejection_declared (sem : Sem Val) (p : Program) (st : St Val) (e : PErr) (hdom : InDomain (mkCtx sem p st) p.cmds)
    (h : (match prepass (mkCtx sem p st) p.cmds with
          | .error e => some e
          | .ok info => if hasCycle p (depsOf info) then some (PErr.mp "RecursiveModelStructure" none) else none) = some e) :
    ∃ cls line, e = .mp cls line ∧ (cls, true, true) ∈ Generated.errClasses := by
  split at h
  · rename_i e' he'
    injection h with h; subst h
    -- a validation error carries the class of the cleaning failure: one of the parameter errors
    have key : ∀ (cmds : List PCmd) (e : PErr), InDomain (mkCtx sem p st) cmds → prepass (mkCtx sem p st) cmds = .error e →
        ∃ cls line, e = .mp cls line ∧ C20.IsParamErr cls ∧ cls ≠ "OutsideModel" := by
      intro cmds
      induction cmds with
      | nil => intro e _ h; cases h
      | cons c rest ih =>
        intro e hd h
        unfold prepass at h
        split at h
        · rename_i e1 he1
          injection h with h; subst h
          have one : ∀ (args : List Arg) (e : PErr), (∀ a ∈ args, ∀ i, c.decl.input? a.name = some i → clean (mkCtx sem p st) i.spec a.value ≠ .error "OutsideModel") →
              prepassCmd (mkCtx sem p st) c args = .error e → ∃ cls line, e = .mp cls line ∧ C20.IsParamErr cls ∧ cls ≠ "OutsideModel" := by
            intro args
            induction args with
            | nil => intro e _ h; cases h
            | cons a rest iha =>
              intro e hd' h
              unfold prepassCmd at h
              split at h
              · exact iha e (fun b hb => hd' b (List.mem_cons_of_mem _ hb)) h
              · rename_i i hi
                split at h
                · rename_i ce hce
                  injection h with h; subst h
                  have hne : ce ≠ "OutsideModel" := fun heq => hd' a List.mem_cons_self i hi (heq ▸ hce)
                  refine ⟨ce, a.line, ?_, C20.clean_err_is_param_error _ _ _ _ hce, hne⟩
                  unfold cleanErrToPErr; simp [hne]
                · split at h
                  · rename_i e2 he2
                    injection h with h; subst h
                    exact iha e2 (fun b hb => hd' b (List.mem_cons_of_mem _ hb)) he2
                  · repeat' (first | split at h | (dsimp only at h))
                    all_goals cases h
          exact one c.args e1 (fun a ha i hi => hd c List.mem_cons_self a ha i hi) he1
        · split at h
          · rename_i e1 he1
            injection h with h; subst h
            exact ih e1 (fun c' hc' => hd c' (List.mem_cons_of_mem _ hc')) he1
          · cases h
    obtain ⟨cls, line, rfl, hp, hne⟩ := key p.cmds e' hdom he'
    refine ⟨cls, line, rfl, ?_⟩
    unfold C20.IsParamErr at hp
    rcases hp with rfl | rfl | rfl | rfl | rfl | rfl | rfl | rfl
    all_goals first | decide | exact absurd rfl hne
  · split at h
    · injection h with h; subst h
      exact ⟨_, _, rfl, by decide⟩
    · cases h

end MPilot.C13
