/-
C09 — computed results are immutable: commands never modify their inputs.

In the pure model `exec` inputs cannot change by construction; the content of this property is therefore carried by
(1) the heap model `execH`, which makes the two identity-relevant behaviours of the bodies explicit (aliasing of a single
input, the in-place clamp), and (2) the correspondence, which snapshots every live array before/after every real `execute`.
-/
import MPilot.Props.C04
import MPilot.Props.C06
import MPilot.Model.EemsHeap

namespace MPilot.C09
open MPilot

/-- single-input Minimum/Maximum return their input unchanged -/
theorem naryFold_single (ref : LineRef) (g : Rat → Rat → Rat) (a : Arr) : naryFold ref g [a] = .ok a := by
  simp only [naryFold, validateShapes, promoteAll, List.foldl_cons, List.foldl_nil, foldArr, bind, Except.bind]
  cases a with
  | mk dt sh cs => cases dt <;> rfl

/-- **C09, one step.** Executing any data command on objects of the heap leaves every existing object visibly unchanged
(shape, element type, missing cells, non-missing values), provided the inputs of the fuzzy pair are fuzzy values —
which C04 guarantees for every fuzzy result a program can produce. -/
theorem execH_preserves (sqrt : Rat → Rat) (c : DataCmd) (ids : List ObjId) (h h' : Heap) (rid : ObjId)
    (hfz : (c = .fuzzyOr ∨ c = .fuzzyAnd) → ∀ id : ObjId, id ∈ ids → ∀ a, h[id]? = some a → C04.InFuzzyRange a)
    (hx : execH sqrt c ids h = .ok (rid, h')) :
    ∀ (id : ObjId) (a : Arr), h[id]? = some a → ∃ a', h'[id]? = some a' ∧ ArrR a' a := by
  intro j a hj
  unfold execH at hx
  split at hx
  · exact absurd hx (eRaw_ne_ok _ _)
  · rename_i xs hxs
    split at hx
    · cases hx
    · rename_i r hr
      split at hx
      · rename_i hal
        split at hx
        · rename_i id
          injection hx with hx; injection hx with h1 h2; subst h2
          have hxs' : h[id]? = some (xs.headD default) ∧ xs = [xs.headD default] := by
            simp only [List.mapM_cons, List.mapM_nil] at hxs
            cases hid : h[id]? with
            | none => simp [hid] at hxs
            | some b => simp [hid] at hxs; subst hxs; simp
          by_cases hji : j = id
          · subst hji
            have hlt : j < h.length := by
              have := hj; rw [List.getElem?_eq_some_iff] at this; exact this.1
            refine ⟨r, by simp [List.getElem?_set, hlt], ?_⟩
            have hb : a = xs.headD default := by rw [hxs'.1] at hj; injection hj with hj; exact hj.symm
            rw [hxs'.2, ← hb] at hr
            -- which aliasing command?
            simp only [aliases, List.length_cons, List.length_nil, beq_self_eq_true, Bool.true_and] at hal
            cases c <;> simp at hal
            · simp only [exec] at hr; rw [naryFold_single] at hr; injection hr with hr; subst hr; exact ArrR.refl _
            · simp only [exec] at hr; rw [naryFold_single] at hr; injection hr with hr; subst hr; exact ArrR.refl _
            · simp only [exec, naryFold_single, fuzzyClamp, Except.map, Except.ok.injEq] at hr
              subst hr
              exact C06.insure_inrange a (hfz (Or.inl rfl) j (List.mem_cons_self ..) a hj)
            · simp only [exec, naryFold_single, fuzzyClamp, Except.map, Except.ok.injEq] at hr
              subst hr
              exact C06.insure_inrange a (hfz (Or.inr rfl) j (List.mem_cons_self ..) a hj)
          · refine ⟨a, ?_, ArrR.refl a⟩
            rw [List.getElem?_set_ne (Ne.symm hji)]; exact hj
        · exact absurd hx (eRaw_ne_ok _ _)
      · injection hx with hx; injection hx with h1 h2; subst h2
        refine ⟨a, ?_, ArrR.refl a⟩
        have hlt : j < h.length := by
          have := hj; rw [List.getElem?_eq_some_iff] at this; exact this.1
        rw [List.getElem?_append_left hlt]; exact hj

/-- the result object of the heap semantics is what the pure semantics computes: `execH` refines `exec` -/
theorem execH_refines (sqrt : Rat → Rat) (c : DataCmd) (ids : List ObjId) (h h' : Heap) (rid : ObjId) (xs : List Arr)
    (hxs : ids.mapM (fun id => h[id]?) = some xs) (hx : execH sqrt c ids h = .ok (rid, h')) :
    ∃ r, exec sqrt c xs = .ok r ∧ h'[rid]? = some r := by
  unfold execH at hx
  rw [hxs] at hx
  simp only at hx
  cases hr : exec sqrt c xs with
  | error e => rw [hr] at hx; cases hx
  | ok r =>
    rw [hr] at hx
    simp only at hx
    refine ⟨r, rfl, ?_⟩
    by_cases hal : aliases c ids.length = true
    · rw [if_pos hal] at hx
      match ids, hxs, hx with
      | [id], hxs, hx =>
        injection hx with hx; injection hx with h1 h2; subst h1; subst h2
        have : id < h.length := by
          simp only [List.mapM_cons, List.mapM_nil] at hxs
          cases hid : h[id]? with
          | none => simp [hid] at hxs
          | some b => rw [List.getElem?_eq_some_iff] at hid; exact hid.1
        simp [List.getElem?_set, this]
      | [], _, hx => exact absurd hx (eRaw_ne_ok _ _)
      | _ :: _ :: _, _, hx => exact absurd hx (eRaw_ne_ok _ _)
    · rw [if_neg hal] at hx
      injection hx with hx; injection hx with h1 h2; subst h1; subst h2
      simp

/-- non-vacuity: single-input FuzzyOr on an in-range object returns the same object id, heap visibly unchanged -/
example : execH (fun x => x) .fuzzyOr [0] [⟨.float, [2], [⟨1/2, false⟩, ⟨7, true⟩]⟩] =
    .ok (0, [⟨.float, [2], [⟨1/2, false⟩, ⟨fillValue, true⟩]⟩]) := by decide +kernel

end MPilot.C09
