/- C09 — theorems under construction -/
import MPilot.Model.Eems
