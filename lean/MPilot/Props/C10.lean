/-
C10 — parsing delivers exactly what was written, regardless of layout.

Proved here, in two layers that compose to `parse_text`:

* characters → tokens (`Gap`, `Spells`, `Text`, `lexS_text`; lemmas in Lemmas/Lex): layout (blanks, tabs, line feeds, CR LF, comments) produces
  no token and advances the line counter by exactly its line breaks; an identifier, an integer, a decimal, a quoted string of any content
  (C15.quote_roundtrip) and each punctuation mark is read as that one token on the line it starts on; the lexer's recursion bound never
  loses a token (`Lex.lexAll_fuel`).
* tokens → program (`RVal`, `RElems`, `RArg`, `RArgs`, `RCmd`, `RProg`, `program_renders`): any token sequence that renders a program -
  commands, named arguments, integers, decimals, quoted strings, bare identifiers, lists nested to any depth, trailing commas or not,
  tokens on any lines - is read back as exactly that program, each node carrying the line of its first token.

`parse_text`: a text whose tokens render program `cs` parses to `cs` (version 3).  Not covered by these theorems (decided by the correspondence
of this executable parser with the real one and by the round-trip oracle on the implementation): tuples (`[key: value]`), unquoted strings that
are not identifiers, decimals in exponent form, quoted strings that span lines, the EEMS 2.0 command form, and the rejection of malformed text.
-/
import MPilot.Model.Grammar
import MPilot.Lemmas.Lex
import MPilot.Props.C15
import Mathlib.Tactic.Common

namespace MPilot.C10
open MPilot

/-- the next token ends a value: `,` `]` or `)` -/
def IsTerm (ts : List Tok) : Prop := ∃ t r, ts = t :: r ∧ (t.kind = .comma ∨ t.kind = .rbrack ∨ t.kind = .rparen)

theorem term_facts {t : Tok} (h : t.kind = .comma ∨ t.kind = .rbrack ∨ t.kind = .rparen) :
    t.isErr = false ∧ isPsStart t.kind = false ∧ (t.kind == .colon) = false ∧ (t.kind == .string) = false := by
  rcases h with h | h | h <;> simp [Tok.isErr, isPsStart, h]

/-- a tuple key: quoted text or a bare identifier -/
def keyTok (quoted : Bool) (k : String) (l : Nat) : Tok := ⟨if quoted then .string else .id, .str k, l⟩

/-- `key : value` with a quoted or bare-identifier key; the value a quoted string, a bare identifier, an integer or a decimal; the value node
carries the key's line -/
inductive RPair : List Tok → String × ENode → Prop
  | str (q : Bool) (k v : String) (lk lc lv : Nat) : RPair [keyTok q k lk, ⟨.colon, .none, lc⟩, ⟨.string, .str v, lv⟩] (k, .mk (.str v) lk)
  | int (q : Bool) (k : String) (n : Int) (lk lc lv : Nat) : RPair [keyTok q k lk, ⟨.colon, .none, lc⟩, ⟨.int, .int n, lv⟩] (k, .mk (.int n) lk)
  | flt (q : Bool) (k : String) (x : Rat) (lk lc lv : Nat) : RPair [keyTok q k lk, ⟨.colon, .none, lc⟩, ⟨.float, .float x, lv⟩] (k, .mk (.float x) lk)
  | bare (q : Bool) (k v : String) (lk lc lv : Nat) : RPair [keyTok q k lk, ⟨.colon, .none, lc⟩, ⟨.id, .str v, lv⟩] (k, .mk (.str v) lk)

/-- one or more pairs separated by commas, optionally followed by a trailing comma; the map is built from the last pair backwards
(`dictSet`: a repeated key keeps the position of its later occurrence and the value of its earlier one) -/
inductive RPairs : List Tok → List (String × ENode) → Prop
  | one (ts : List Tok) (p : String × ENode) : RPair ts p → RPairs ts [p]
  | oneComma (ts : List Tok) (p : String × ENode) (lc : Nat) : RPair ts p → RPairs (ts ++ [⟨.comma, .none, lc⟩]) [p]
  | cons (ts : List Tok) (k : String) (v : ENode) (lc : Nat) (ts' : List Tok) (kv : List (String × ENode)) :
      RPair ts (k, v) → RPairs ts' kv → RPairs (ts ++ ⟨.comma, .none, lc⟩ :: ts') (dictSet kv k v)

mutual
  /-- `RVal ts e`: the token sequence `ts` is a rendering of the value whose parse-tree node is `e` -/
  inductive RVal : List Tok → ENode → Prop
    | int (n : Int) (l : Nat) : RVal [⟨.int, .int n, l⟩] (.mk (.int n) l)
    | float (q : Rat) (l : Nat) : RVal [⟨.float, .float q, l⟩] (.mk (.float q) l)
    | qstr (s : String) (l : Nat) : RVal [⟨.string, .str s, l⟩] (.mk (.str s) l)
    | bare (s : String) (l : Nat) : RVal [⟨.id, .str s, l⟩] (.mk (.str s) l)
    /-- unquoted text that is no identifier: one `PLAIN_STRING` token (`%abc`, `/p/q.txt`, `☃`), or an identifier run followed at once by one (`x.y`, `a-b`, `a/b`) -/
    | plain (s : String) (l : Nat) : RVal [⟨.plain, .str s, l⟩] (.mk (.str s) l)
    | idPlain (a b : String) (l l2 : Nat) : RVal [⟨.id, .str a, l⟩, ⟨.plain, .str b, l2⟩] (.mk (.str (a ++ b)) l)
    | nil (l l' : Nat) : RVal [⟨.lbrack, .none, l⟩, ⟨.rbrack, .none, l'⟩] (.mk (.list []) l)
    | list (l l' : Nat) (ts : List Tok) (es : List ENode) : RElems ts es →
        RVal (⟨.lbrack, .none, l⟩ :: ts ++ [⟨.rbrack, .none, l'⟩]) (.mk (.list es) l)
    | dict (l l' : Nat) (ts : List Tok) (kv : List (String × ENode)) : RPairs ts kv →
        RVal (⟨.lbrack, .none, l⟩ :: ts ++ [⟨.rbrack, .none, l'⟩]) (.mk (.dict kv) l)
  /-- one or more elements separated by commas, optionally followed by a trailing comma -/
  inductive RElems : List Tok → List ENode → Prop
    | one (ts : List Tok) (e : ENode) : RVal ts e → RElems ts [e]
    | oneComma (ts : List Tok) (e : ENode) (lc : Nat) : RVal ts e → RElems (ts ++ [⟨.comma, .none, lc⟩]) [e]
    | cons (ts : List Tok) (e : ENode) (lc : Nat) (ts' : List Tok) (es : List ENode) :
        RVal ts e → RElems ts' es → RElems (ts ++ ⟨.comma, .none, lc⟩ :: ts') (e :: es)
end

/-- a rendering is never empty and starts with a token that is no lexer error, no colon, no terminator -/
theorem RVal.head {ts : List Tok} {e : ENode} (h : RVal ts e) :
    ∃ t r, ts = t :: r ∧ t.isErr = false ∧ (t.kind = .int ∨ t.kind = .float ∨ t.kind = .string ∨ t.kind = .id ∨ t.kind = .lbrack ∨ t.kind = .plain) := by
  cases h <;> exact ⟨_, _, rfl, by simp [Tok.isErr], by simp⟩

theorem atPair_lbrack (l : Nat) (rest : List Tok) : atPair (⟨.lbrack, .none, l⟩ :: rest) = false := by
  have h4 : isPsStart TokKind.lbrack = false := rfl
  cases rest with
  | nil => unfold atPair; rfl
  | cons a b =>
    unfold atPair
    simp only [List.takeWhile_cons, h4, Bool.false_eq_true, if_false]
    simp

/-- a rendered value followed by a terminator is not mistaken for the start of a tuple (`key :`) -/
theorem atPair_false {ts : List Tok} {e : ENode} (h : RVal ts e) (rest : List Tok) (hr : IsTerm rest) : atPair (ts ++ rest) = false := by
  obtain ⟨t, r, rfl, ht⟩ := hr
  obtain ⟨_, hps, hcol, _⟩ := term_facts ht
  have h1 : isPsStart TokKind.int = true := rfl
  have h2 : isPsStart TokKind.float = true := rfl
  have h3 : isPsStart TokKind.id = true := rfl
  have h4 : isPsStart TokKind.lbrack = false := rfl
  cases h with
  | int n l =>
    simp only [List.cons_append, List.nil_append]
    unfold atPair
    simp only [List.takeWhile_cons, h1, hps, if_true, Bool.false_eq_true, if_false]
    simp
  | float q l =>
    simp only [List.cons_append, List.nil_append]
    unfold atPair
    simp only [List.takeWhile_cons, h2, hps, if_true, Bool.false_eq_true, if_false]
    simp
  | qstr s l =>
    simp only [List.cons_append, List.nil_append]
    unfold atPair
    simp [hcol]
  | bare s l =>
    simp only [List.cons_append, List.nil_append]
    unfold atPair
    simp only [List.takeWhile_cons, h3, hps, if_true, Bool.false_eq_true, if_false]
    simp [hcol]
  | plain s l =>
    have h6 : isPsStart TokKind.plain = true := rfl
    simp only [List.cons_append, List.nil_append]
    unfold atPair
    simp only [List.takeWhile_cons, h6, hps, if_true, Bool.false_eq_true, if_false]
    simp [hcol]
  | idPlain a b l l2 =>
    have h6 : isPsStart TokKind.plain = true := rfl
    simp only [List.cons_append, List.nil_append]
    unfold atPair
    simp only [List.takeWhile_cons, h3, h6, hps, if_true, Bool.false_eq_true, if_false]
    simp [hcol]
  | nil l l' =>
    simp only [List.cons_append, List.nil_append]
    unfold atPair
    simp only [List.takeWhile_cons, h4, Bool.false_eq_true, if_false]
    simp
  | list l l' ts es he =>
    simp only [List.cons_append]
    exact atPair_lbrack _ _
  | dict l l' ts kv he =>
    simp only [List.cons_append]
    exact atPair_lbrack _ _

theorem RElems.head {ts : List Tok} {es : List ENode} (h : RElems ts es) :
    ∃ t r, ts = t :: r ∧ t.isErr = false ∧ (t.kind = .int ∨ t.kind = .float ∨ t.kind = .string ∨ t.kind = .id ∨ t.kind = .lbrack ∨ t.kind = .plain) := by
  cases h with
  | one ts e hv => exact hv.head
  | oneComma ts e lc hv => obtain ⟨t, r, rfl, h1, h2⟩ := hv.head; exact ⟨t, r ++ [_], rfl, h1, h2⟩
  | cons ts e lc ts' es hv _ => obtain ⟨t, r, rfl, h1, h2⟩ := hv.head; exact ⟨t, r ++ _, rfl, h1, h2⟩

theorem peek_head {t : Tok} {r : List Tok} (h : t.isErr = false) : peek (t :: r) = .ok (some t.kind) := by
  simp [peek, h]

/-- starts with `]` -/
def IsClose (ts : List Tok) : Prop := ∃ t r, ts = t :: r ∧ t.kind = .rbrack

theorem IsClose.term {ts : List Tok} (h : IsClose ts) : IsTerm ts := by
  obtain ⟨t, r, rfl, hk⟩ := h; exact ⟨t, r, rfl, Or.inr (Or.inl hk)⟩

theorem go_stop {t : Tok} (r : List Tok) (acc : String) (last : Option TokKind) (he : t.isErr = false) (hps : isPsStart t.kind = false) :
    plainString.go (t :: r) acc last = .ok (acc, last, t :: r) := by
  rw [plainString.go]; simp [he, hps]

theorem plainString_id (s : String) (l : Nat) {t : Tok} (r : List Tok) (he : t.isErr = false) (hps : isPsStart t.kind = false) :
    plainString (⟨.id, .str s, l⟩ :: t :: r) = .ok ((s, l), t :: r) := by
  unfold plainString
  have h3 : isPsStart TokKind.id = true := rfl
  have h5 : (⟨.id, .str s, l⟩ : Tok).isErr = false := by simp [Tok.isErr]
  rw [plainString.go]
  simp only [h5, h3, tokText, go_stop r _ _ he hps]
  simp

theorem plainString_plain (s : String) (l : Nat) {t : Tok} (r : List Tok) (he : t.isErr = false) (hps : isPsStart t.kind = false) :
    plainString (⟨.plain, .str s, l⟩ :: t :: r) = .ok ((s, l), t :: r) := by
  unfold plainString
  have h3 : isPsStart TokKind.plain = true := rfl
  have h5 : (⟨.plain, .str s, l⟩ : Tok).isErr = false := by simp [Tok.isErr]
  rw [plainString.go]
  simp only [h5, h3, tokText, go_stop r _ _ he hps]
  simp

theorem plainString_id_plain (a b : String) (l l2 : Nat) {t : Tok} (r : List Tok) (he : t.isErr = false) (hps : isPsStart t.kind = false) :
    plainString (⟨.id, .str a, l⟩ :: ⟨.plain, .str b, l2⟩ :: t :: r) = .ok ((a ++ b, l), t :: r) := by
  unfold plainString
  have h3 : isPsStart TokKind.id = true := rfl
  have h4 : isPsStart TokKind.plain = true := rfl
  have h5 : (⟨.id, .str a, l⟩ : Tok).isErr = false := by simp [Tok.isErr]
  have h6 : (⟨.plain, .str b, l2⟩ : Tok).isErr = false := by simp [Tok.isErr]
  rw [plainString.go]
  simp only [h5, h3, tokText]
  rw [plainString.go]
  simp only [h6, h4, tokText, go_stop r _ _ he hps]
  simp

theorem more_stop (f : Nat) (acc : String) {t : Tok} (r : List Tok) (he : t.isErr = false) (hc : (t.kind == .colon) = false) :
    permissive.more (f + 1) acc (t :: r) = .ok (acc, t :: r) := by
  rw [permissive.more, peek_head he]
  have : t.kind ≠ .colon := by simpa using hc
  split <;> simp_all

theorem expression_lbrack (f l : Nat) (r : List Tok) :
    expression (f + 1) (⟨.lbrack, .none, l⟩ :: r) =
      (match listBody f r with | .error e => .error e | .ok (v, rest) => .ok (.mk v l, rest)) := by
  rw [expression]; simp [Tok.isErr]
  rcases listBody f r with e | ⟨v, rest⟩ <;> rfl

theorem listBody_nonclose (f : Nat) {t : Tok} (r : List Tok) (he : t.isErr = false) (hk : t.kind ≠ .rbrack) :
    listBody (f + 1) (t :: r) =
      (match elements f (t :: r) with
       | .error e => .error e
       | .ok (v, rest) => match expect .rbrack rest with | .error e => .error e | .ok (_, rest') => .ok (v, rest')) := by
  rw [listBody, peek_head he]; split <;> simp_all
  rcases elements f (t :: r) with e | ⟨v, rest⟩
  · rfl
  · dsimp only; rcases expect TokKind.rbrack rest with e | ⟨_, rest'⟩ <;> rfl

theorem listBody_close (f l : Nat) (r : List Tok) : listBody (f + 1) (⟨.rbrack, .none, l⟩ :: r) = .ok (.list [], r) := by
  rw [listBody]; simp [peek, Tok.isErr]

/-! ### tuples -/

theorem tuplePair_renders {ts : List Tok} {p : String × ENode} (h : RPair ts p) (rest : List Tok) (hr : IsTerm rest) :
    tuplePair (ts ++ rest) = .ok (p, rest) := by
  obtain ⟨t, r, rfl, ht⟩ := hr
  obtain ⟨he, hps, hcol, _⟩ := term_facts ht
  have hkey : ∀ (k : String) (lk lc : Nat) (tl : List Tok),
      plainString (⟨.id, .str k, lk⟩ :: ⟨.colon, .none, lc⟩ :: tl) = .ok ((k, lk), ⟨.colon, .none, lc⟩ :: tl) :=
    fun k lk lc tl => plainString_id k lk (t := ⟨.colon, .none, lc⟩) tl (by simp [Tok.isErr]) rfl
  cases h with
  | str q k v lk lc lv =>
    cases q <;> simp [tuplePair, keyTok, Tok.isErr, expect, numVal, hkey]
  | int q k n lk lc lv =>
    simp [Tok.isErr] at he
    cases q <;> simp [tuplePair, keyTok, Tok.isErr, expect, numVal, isNumberHere, hps, hkey, he]
  | flt q k x lk lc lv =>
    simp [Tok.isErr] at he
    cases q <;> simp [tuplePair, keyTok, Tok.isErr, expect, numVal, isNumberHere, hps, hkey, he]
  | bare q k v lk lc lv =>
    have hperm : permissive ((⟨.id, .str v, lv⟩ :: t :: r : List Tok).length + 1) (⟨.id, .str v, lv⟩ :: t :: r) = .ok ((v, lv), t :: r) := by
      unfold permissive
      rw [plainString_id v lv r he hps]
      simp only [List.length_cons]
      rw [more_stop _ _ _ he hcol]
    simp only [List.length_cons] at hperm
    cases q <;> simp [tuplePair, keyTok, Tok.isErr, expect, isNumberHere, hkey, hperm]

theorem RPair.shape {ts : List Tok} {p : String × ENode} (h : RPair ts p) :
    ∃ q k lk u r, ts = keyTok q k lk :: u :: r ∧ u.kind = .colon ∧ r.length = 1 := by
  cases h <;> exact ⟨_, _, _, _, _, rfl, rfl, rfl⟩

theorem RPairs.shape {ts : List Tok} {kv : List (String × ENode)} (h : RPairs ts kv) :
    ∃ q k lk u r, ts = keyTok q k lk :: u :: r ∧ u.kind = .colon := by
  cases h with
  | one ts p hp => obtain ⟨q, k, lk, u, r, rfl, h3, _⟩ := hp.shape; exact ⟨q, k, lk, u, r, rfl, h3⟩
  | oneComma ts p lc hp => obtain ⟨q, k, lk, u, r, rfl, h3, _⟩ := hp.shape; exact ⟨q, k, lk, u, r ++ [_], rfl, h3⟩
  | cons ts k v lc ts' kv hp _ => obtain ⟨q, k', lk, u, r, rfl, h3, _⟩ := hp.shape; exact ⟨q, k', lk, u, r ++ _, rfl, h3⟩

theorem keyTok_facts (q : Bool) (k : String) (l : Nat) :
    (keyTok q k l).isErr = false ∧ ((keyTok q k l).kind = .string ∨ (keyTok q k l).kind = .id) := by
  cases q <;> simp [keyTok, Tok.isErr]

theorem RPairs.head {ts : List Tok} {kv : List (String × ENode)} (h : RPairs ts kv) :
    ∃ t u r, ts = t :: u :: r ∧ t.isErr = false ∧ (t.kind = .string ∨ t.kind = .id) ∧ u.kind = .colon := by
  obtain ⟨q, k, lk, u, r, rfl, h3⟩ := h.shape
  exact ⟨_, u, r, rfl, (keyTok_facts q k lk).1, (keyTok_facts q k lk).2, h3⟩

/-- a rendering of pairs is recognised as the start of a tuple -/
theorem atPair_pairs {ts : List Tok} {kv : List (String × ENode)} (h : RPairs ts kv) (rest : List Tok) : atPair (ts ++ rest) = true := by
  obtain ⟨q, k, lk, u, r, rfl, h3⟩ := h.shape
  have hcps : isPsStart u.kind = false := by rw [h3]; rfl
  cases q with
  | true => simp [atPair, keyTok, h3]
  | false =>
    have h1 : isPsStart TokKind.id = true := rfl
    simp only [List.cons_append]
    unfold atPair
    simp only [keyTok, Bool.false_eq_true, if_false, List.takeWhile_cons, h1, hcps, if_true]
    simp [h3]

theorem RPair.len {ts : List Tok} {p : String × ENode} (h : RPair ts p) : ts.length = 3 := by cases h <;> rfl

theorem tuplePairs_renders {ts : List Tok} {kv : List (String × ENode)} (h : RPairs ts kv) :
    ∀ (rest : List Tok) (fuel : Nat), IsClose rest → ts.length < fuel → tuplePairs fuel (ts ++ rest) = .ok (kv, rest) := by
  induction h with
  | one ts p hp =>
    intro rest fuel hr hf
    cases fuel with
    | zero => simp at hf
    | succ f =>
      rw [tuplePairs, tuplePair_renders hp rest hr.term]
      obtain ⟨t, r, rfl, hk⟩ := hr
      have he : t.isErr = false := by simp [Tok.isErr, hk]
      simp only [peek_head he, hk]
  | oneComma ts p lc hp =>
    intro rest fuel hr hf
    cases fuel with
    | zero => simp at hf
    | succ f =>
      have hterm : IsTerm ((⟨.comma, .none, lc⟩ : Tok) :: rest) := ⟨_, _, rfl, Or.inl rfl⟩
      simp only [List.append_assoc, List.cons_append, List.nil_append]
      rw [tuplePairs, tuplePair_renders hp _ hterm]
      obtain ⟨t, r, rfl, hk⟩ := hr
      simp [peek, Tok.isErr, hk]
  | cons ts k v lc ts' kv hp hps ih =>
    intro rest fuel hr hf
    cases fuel with
    | zero => simp at hf
    | succ f =>
      have hterm : IsTerm ((⟨.comma, .none, lc⟩ : Tok) :: (ts' ++ rest)) := ⟨_, _, rfl, Or.inl rfl⟩
      have ih' := ih rest f hr (by simp at hf; omega)
      simp only [List.append_assoc, List.cons_append, List.nil_append]
      rw [tuplePairs, tuplePair_renders hp _ hterm]
      obtain ⟨t0, u0, r0, rfl, h0e, h0k, _⟩ := hps.head
      simp only [List.append_assoc, List.cons_append, List.nil_append] at ih' ⊢
      have hce : (⟨.comma, .none, lc⟩ : Tok).isErr = false := by simp [Tok.isErr]
      try simp only []
      rw [peek_head hce]
      simp only [List.drop_succ_cons, List.drop_zero]
      rw [peek_head h0e, ih']
      rcases h0k with h0k | h0k <;> rw [h0k]

mutual
  /-- **token-level round trip for values**: a rendering of a value, followed by a terminator, is read back as exactly that value -/
  theorem expression_renders : ∀ {ts : List Tok} {e : ENode}, RVal ts e → ∀ (rest : List Tok) (fuel : Nat), IsTerm rest → 2 * ts.length ≤ fuel →
      expression fuel (ts ++ rest) = .ok (e, rest)
    | _, _, .int n l, rest, fuel, hr, hf => by
        obtain ⟨t, r, rfl, ht⟩ := hr
        obtain ⟨he, hps, _, _⟩ := term_facts ht
        cases fuel with
        | zero => simp at hf
        | succ f =>
          simp only [List.cons_append, List.nil_append]
          unfold expression
          simp [isNumberHere, he, hps, numVal]
          simp [Tok.isErr]
    | _, _, .float q l, rest, fuel, hr, hf => by
        obtain ⟨t, r, rfl, ht⟩ := hr
        obtain ⟨he, hps, _, _⟩ := term_facts ht
        cases fuel with
        | zero => simp at hf
        | succ f =>
          simp only [List.cons_append, List.nil_append]
          unfold expression
          simp [isNumberHere, he, hps, numVal]
          simp [Tok.isErr]
    | _, _, .qstr s l, rest, fuel, hr, hf => by
        cases fuel with
        | zero => simp at hf
        | succ f =>
          simp only [List.cons_append, List.nil_append]
          unfold expression
          simp [Tok.isErr, numVal]
    | _, _, .bare s l, rest, fuel, hr, hf => by
        obtain ⟨t, r, rfl, ht⟩ := hr
        obtain ⟨he, hps, hcol, _⟩ := term_facts ht
        cases fuel with
        | zero => simp at hf
        | succ f =>
          simp only [List.cons_append, List.nil_append]
          unfold expression
          have hperm : permissive ((⟨.id, .str s, l⟩ :: t :: r : List Tok).length + 1) (⟨.id, .str s, l⟩ :: t :: r) = .ok ((s, l), t :: r) := by
            unfold permissive
            rw [plainString_id s l r he hps]
            simp only [List.length_cons]
            rw [more_stop _ _ _ he hcol]
          simp only [List.length_cons] at hperm
          simp [Tok.isErr, isNumberHere, isPsStart, hperm]
    | _, _, .plain s l, rest, fuel, hr, hf => by
        obtain ⟨t, r, rfl, ht⟩ := hr
        obtain ⟨he, hps, hcol, _⟩ := term_facts ht
        cases fuel with
        | zero => simp at hf
        | succ f =>
          simp only [List.cons_append, List.nil_append]
          unfold expression
          have hperm : permissive ((⟨.plain, .str s, l⟩ :: t :: r : List Tok).length + 1) (⟨.plain, .str s, l⟩ :: t :: r) = .ok ((s, l), t :: r) := by
            unfold permissive
            rw [plainString_plain s l r he hps]
            simp only [List.length_cons]
            rw [more_stop _ _ _ he hcol]
          simp only [List.length_cons] at hperm
          simp [Tok.isErr, isNumberHere, isPsStart, hperm]
    | _, _, .idPlain a b l l2, rest, fuel, hr, hf => by
        obtain ⟨t, r, rfl, ht⟩ := hr
        obtain ⟨he, hps, hcol, _⟩ := term_facts ht
        cases fuel with
        | zero => simp at hf
        | succ f =>
          simp only [List.cons_append, List.nil_append]
          unfold expression
          have hperm : permissive ((⟨.id, .str a, l⟩ :: ⟨.plain, .str b, l2⟩ :: t :: r : List Tok).length + 1) (⟨.id, .str a, l⟩ :: ⟨.plain, .str b, l2⟩ :: t :: r) = .ok ((a ++ b, l), t :: r) := by
            unfold permissive
            rw [plainString_id_plain a b l l2 r he hps]
            simp only [List.length_cons]
            rw [more_stop _ _ _ he hcol]
          simp only [List.length_cons] at hperm
          simp [Tok.isErr, isNumberHere, isPsStart, hperm]
    | _, _, .nil l l', rest, fuel, hr, hf => by
        cases fuel with
        | zero => simp at hf
        | succ f =>
          cases f with
          | zero => simp at hf; try omega
          | succ f' =>
            simp only [List.cons_append, List.nil_append]
            rw [expression_lbrack, listBody_close]
    | _, _, .list l l' ts es hes, rest, fuel, hr, hf => by
        cases fuel with
        | zero => simp at hf
        | succ f =>
          cases f with
          | zero => simp at hf; try omega
          | succ f' =>
            have hclose : IsClose ((⟨.rbrack, .none, l'⟩ : Tok) :: rest) := ⟨_, _, rfl, rfl⟩
            have ih := elements_renders hes (⟨.rbrack, .none, l'⟩ :: rest) f' hclose (by simp at hf; omega)
            obtain ⟨t0, r0, rfl, h0e, h0k⟩ := hes.head
            simp only [List.cons_append, List.nil_append, List.append_assoc] at ih ⊢
            have : t0.kind ≠ .rbrack := by rcases h0k with h | h | h | h | h | h <;> simp [h]
            rw [expression_lbrack, listBody_nonclose _ _ h0e this, ih]
            simp [Tok.isErr, expect]

    | _, _, .dict l l' ts kv hkv, rest, fuel, hr, hf => by
        cases fuel with
        | zero => simp at hf
        | succ f =>
          cases f with
          | zero => simp at hf; try omega
          | succ f' =>
            cases f' with
            | zero => simp at hf
            | succ f'' =>
              have hclose : IsClose ((⟨.rbrack, .none, l'⟩ : Tok) :: rest) := ⟨_, _, rfl, rfl⟩
              have ht := tuplePairs_renders hkv (⟨.rbrack, .none, l'⟩ :: rest) f'' hclose (by simp at hf; omega)
              have hat := atPair_pairs hkv (⟨.rbrack, .none, l'⟩ :: rest)
              obtain ⟨t0, u0, r0, rfl, h0e, h0k, _⟩ := hkv.head
              simp only [List.cons_append, List.nil_append, List.append_assoc] at ht hat ⊢
              have : t0.kind ≠ .rbrack := by rcases h0k with h0k | h0k <;> simp [h0k]
              rw [expression_lbrack, listBody_nonclose _ _ h0e this, elements]
              simp only [hat, if_true, ht]
              simp [Tok.isErr, expect]

  theorem elements_renders : ∀ {ts : List Tok} {es : List ENode}, RElems ts es → ∀ (rest : List Tok) (fuel : Nat), IsClose rest → 2 * ts.length + 1 ≤ fuel →
      elements fuel (ts ++ rest) = .ok (.list es, rest)
    | _, _, .one ts e hv, rest, fuel, hr, hf => by
        cases fuel with
        | zero => simp at hf
        | succ f =>
          have hat := atPair_false hv rest hr.term
          have ih := expression_renders hv rest f hr.term (by omega)
          obtain ⟨t, r, rfl, hk⟩ := hr
          have he : t.isErr = false := by simp [Tok.isErr, hk]
          rw [elements]
          simp only [hat, Bool.false_eq_true, if_false, ih, peek_head he, hk]
    | _, _, .oneComma ts e lc hv, rest, fuel, hr, hf => by
        cases fuel with
        | zero => simp at hf
        | succ f =>
          have hterm : IsTerm ((⟨.comma, .none, lc⟩ : Tok) :: rest) := ⟨_, _, rfl, Or.inl rfl⟩
          have hat := atPair_false hv _ hterm
          have ih := expression_renders hv _ f hterm (by simp at hf; omega)
          obtain ⟨t, r, rfl, hk⟩ := hr
          have he : t.isErr = false := by simp [Tok.isErr, hk]
          simp only [List.append_assoc, List.cons_append, List.nil_append]
          rw [elements]
          simp only [hat, Bool.false_eq_true, if_false, ih]
          simp [peek, Tok.isErr, hk]
    | _, _, .cons ts e lc ts' es hv hes, rest, fuel, hr, hf => by
        cases fuel with
        | zero => simp at hf
        | succ f =>
          have hterm : IsTerm ((⟨.comma, .none, lc⟩ : Tok) :: (ts' ++ rest)) := ⟨_, _, rfl, Or.inl rfl⟩
          have hat := atPair_false hv _ hterm
          have ih := expression_renders hv _ f hterm (by simp at hf; omega)
          have ih2 := elements_renders hes rest f hr (by simp at hf; omega)
          obtain ⟨t0, r0, rfl, h0e, h0k⟩ := hes.head
          have hnc : t0.kind ≠ .rbrack := by rcases h0k with h | h | h | h | h | h <;> simp [h]
          simp only [List.append_assoc, List.cons_append, List.nil_append] at *
          rw [elements]
          simp only [hat, Bool.false_eq_true, if_false, ih]
          have hce : (⟨.comma, .none, lc⟩ : Tok).isErr = false := by simp [Tok.isErr]
          rw [peek_head hce]
          simp only [List.drop_one, List.tail_cons, List.drop_succ_cons, List.drop_zero]
          rw [peek_head h0e, ih2]
          split <;> simp_all
end

/-! ### arguments, commands, programs -/

/-- `name = value` -/
inductive RArg : List Tok → ANode → Prop
  | mk (n : String) (la le : Nat) (ts : List Tok) (e : ENode) : RVal ts e →
      RArg (⟨.id, .str n, la⟩ :: ⟨.equal, .none, le⟩ :: ts) ⟨n, e, la⟩

/-- one or more arguments separated by commas, optionally followed by a trailing comma -/
inductive RArgs : List Tok → List ANode → Prop
  | one (ts : List Tok) (a : ANode) : RArg ts a → RArgs ts [a]
  | oneComma (ts : List Tok) (a : ANode) (lc : Nat) : RArg ts a → RArgs (ts ++ [⟨.comma, .none, lc⟩]) [a]
  | cons (ts : List Tok) (a : ANode) (lc : Nat) (ts' : List Tok) (as : List ANode) :
      RArg ts a → RArgs ts' as → RArgs (ts ++ ⟨.comma, .none, lc⟩ :: ts') (a :: as)

/-- `Result = Command(arguments)`; the command node carries the line of the command name -/
inductive RCmd : List Tok → CNode → Prop
  | noArgs (r c : String) (l1 le lc lp lp' : Nat) :
      RCmd [⟨.id, .str r, l1⟩, ⟨.equal, .none, le⟩, ⟨.id, .str c, lc⟩, ⟨.lparen, .none, lp⟩, ⟨.rparen, .none, lp'⟩] ⟨some r, c, [], lc⟩
  | args (r c : String) (l1 le lc lp lp' : Nat) (ts : List Tok) (as : List ANode) : RArgs ts as →
      RCmd (⟨.id, .str r, l1⟩ :: ⟨.equal, .none, le⟩ :: ⟨.id, .str c, lc⟩ :: ⟨.lparen, .none, lp⟩ :: ts ++ [⟨.rparen, .none, lp'⟩]) ⟨some r, c, as, lc⟩

inductive RProg : List Tok → List CNode → Prop
  | one (ts : List Tok) (c : CNode) : RCmd ts c → RProg ts [c]
  | cons (ts : List Tok) (c : CNode) (ts' : List Tok) (cs : List CNode) : RCmd ts c → RProg ts' cs → RProg (ts ++ ts') (c :: cs)

theorem argument_renders {ts : List Tok} {a : ANode} (h : RArg ts a) (rest : List Tok) (hr : IsTerm rest) :
    argument (ts ++ rest) = .ok (a, rest) := by
  cases h with
  | mk n la le ts e hv =>
    have := expression_renders hv rest (2 * (ts.length + rest.length) + 2) hr (by omega)
    simp [argument, expect, Tok.isErr, this]

theorem RArg.head {ts : List Tok} {a : ANode} (h : RArg ts a) : ∃ t r, ts = t :: r ∧ t.isErr = false ∧ t.kind = .id := by
  cases h; exact ⟨_, _, rfl, by simp [Tok.isErr], rfl⟩

theorem RArgs.head {ts : List Tok} {as : List ANode} (h : RArgs ts as) : ∃ t r, ts = t :: r ∧ t.isErr = false ∧ t.kind = .id := by
  cases h with
  | one ts a ha => exact ha.head
  | oneComma ts a lc ha => obtain ⟨t, r, rfl, h1, h2⟩ := ha.head; exact ⟨t, r ++ [_], rfl, h1, h2⟩
  | cons ts a lc ts' as ha _ => obtain ⟨t, r, rfl, h1, h2⟩ := ha.head; exact ⟨t, r ++ _, rfl, h1, h2⟩

theorem RArg.len {ts : List Tok} {a : ANode} (h : RArg ts a) : 3 ≤ ts.length := by
  cases h with
  | mk n la le ts e hv => obtain ⟨t, r, rfl, _⟩ := hv.head; simp

theorem args_go_renders : ∀ {ts : List Tok} {as : List ANode}, RArgs ts as → ∀ (lp : Nat) (rest : List Tok) (fuel : Nat) (acc : List ANode),
    ts.length ≤ fuel → arguments.go fuel (ts ++ ⟨.rparen, .none, lp⟩ :: rest) acc = .ok (acc.reverse ++ as, rest)
  | _, _, .one ts a ha, lp, rest, fuel, acc, hf => by
      have hterm : IsTerm ((⟨.rparen, .none, lp⟩ : Tok) :: rest) := ⟨_, _, rfl, Or.inr (Or.inr rfl)⟩
      have hl := ha.len
      cases fuel with
      | zero => omega
      | succ f =>
        rw [arguments.go, argument_renders ha _ hterm]
        simp [peek, Tok.isErr]
  | _, _, .oneComma ts a lc ha, lp, rest, fuel, acc, hf => by
      have hterm : IsTerm ((⟨.comma, .none, lc⟩ : Tok) :: ⟨.rparen, .none, lp⟩ :: rest) := ⟨_, _, rfl, Or.inl rfl⟩
      cases fuel with
      | zero => simp at hf
      | succ f =>
        simp only [List.append_assoc, List.cons_append, List.nil_append]
        rw [arguments.go, argument_renders ha _ hterm]
        simp [peek, Tok.isErr]
  | _, _, .cons ts a lc ts' as ha has, lp, rest, fuel, acc, hf => by
      have hterm : IsTerm ((⟨.comma, .none, lc⟩ : Tok) :: (ts' ++ ⟨.rparen, .none, lp⟩ :: rest)) := ⟨_, _, rfl, Or.inl rfl⟩
      cases fuel with
      | zero => simp at hf
      | succ f =>
        have ih := args_go_renders has lp rest f (a :: acc) (by simp at hf; omega)
        obtain ⟨t0, r0, rfl, h0e, h0k⟩ := has.head
        simp only [List.append_assoc, List.cons_append, List.nil_append] at *
        rw [arguments.go, argument_renders ha _ hterm]
        have hce : (⟨.comma, .none, lc⟩ : Tok).isErr = false := by simp [Tok.isErr]
        simp only []
        rw [peek_head hce]
        simp only [List.drop_succ_cons, List.drop_zero]
        rw [peek_head h0e, ih, h0k]
        simp

theorem command_renders {ts : List Tok} {c : CNode} (h : RCmd ts c) (rest : List Tok) :
    command (ts ++ rest) = .ok ((c, false), rest) := by
  cases h with
  | noArgs r c l1 le lc lp lp' =>
    simp [command, expect, peek, Tok.isErr, arguments]
  | args r c l1 le lc lp lp' ts as has =>
    have hgo := args_go_renders has lp' rest ((ts ++ ⟨.rparen, .none, lp'⟩ :: rest).length + 1) [] (by simp; omega)
    obtain ⟨t0, r0, rfl, h0e, h0k⟩ := has.head
    simp only [List.append_assoc, List.cons_append, List.nil_append, List.length_cons, List.length_append] at *
    simp [command, expect, peek, Tok.isErr, arguments, h0e, h0k, hgo]

theorem RCmd.len {ts : List Tok} {c : CNode} (h : RCmd ts c) : 5 ≤ ts.length := by
  cases h <;> simp

theorem RProg.ne {ts : List Tok} {cs : List CNode} (h : RProg ts cs) : ts ≠ [] := by
  cases h with
  | one ts c hc => have := hc.len; intro h; simp [h] at this
  | cons ts c ts' cs hc _ => have := hc.len; intro h; simp at h; simp [h.1] at this

theorem parse_go_renders : ∀ {ts : List Tok} {cs : List CNode}, RProg ts cs → ∀ (fuel : Nat) (acc : List CNode),
    ts.length ≤ fuel → parseToks.go fuel ts acc false = .ok ⟨acc.reverse ++ cs, 3⟩
  | _, _, .one ts c hc, fuel, acc, hf => by
      have hl := hc.len
      cases fuel with
      | zero => omega
      | succ f =>
        have := command_renders hc []
        simp only [List.append_nil] at this
        rw [parseToks.go, this]
        simp
  | _, _, .cons ts c ts' cs hc hcs, fuel, acc, hf => by
      have hl := hc.len
      simp only [List.length_append] at hf
      cases fuel with
      | zero => omega
      | succ f =>
        have ih := parse_go_renders hcs f (c :: acc) (by omega)
        rw [parseToks.go, command_renders hc ts']
        have hne := hcs.ne
        cases ts' with
        | nil => exact absurd rfl hne
        | cons t r => simp [ih]

/-- **C10 at token level**: any rendering of a version-3 program - whatever lines its tokens are on, with or without trailing
commas, lists nested to any depth - is read back as exactly that program, each node carrying the line of its first token -/
theorem program_renders {ts : List Tok} {cs : List CNode} (h : RProg ts cs) : parseToks ts = .ok ⟨cs, 3⟩ := by
  have := parse_go_renders h (ts.length + 1) [] (by omega)
  simpa [parseToks] using this

/-! ## from characters to tokens

A command file is layout (blanks, tabs, line feeds, CR LF pairs, comments) and token spellings in alternation.  `Text cs line ts` says that
the characters `cs`, read from line `line` on, are such an alternation whose tokens - with the lines they really start on - are `ts`. -/

open MPilot.Lex

/-- layout and the number of line breaks in it -/
inductive Gap : List Char → Nat → Prop
  | nil : Gap [] 0
  | blank (c : Char) (g : List Char) (n : Nat) : c = ' ' ∨ c = '\t' → Gap g n → Gap (c :: g) n
  | lf (g : List Char) (n : Nat) : Gap g n → Gap ('\n' :: g) (n + 1)
  | crlf (g : List Char) (n : Nat) : Gap g n → Gap ('\r' :: '\n' :: g) (n + 1)
  | comment (body g : List Char) (n : Nat) : (∀ c ∈ body, c ≠ '\n') → Gap g n → Gap ('#' :: (body ++ '\n' :: g)) (n + 1)

/-- layout produces no token and advances the line counter by the line breaks it contains -/
theorem lexS_gap {g : List Char} {n : Nat} (h : Gap g n) (rest : List Char) (line : Nat) :
    lexS (g ++ rest) line = lexS rest (line + n) := by
  induction h generalizing line with
  | nil => simp
  | blank c g n hc _ ih => rw [List.cons_append, lexS_blank c _ line hc]; exact ih line
  | lf g n _ ih => rw [List.cons_append, lexS_lf, ih]; congr 1; omega
  | crlf g n _ ih => rw [List.cons_append, List.cons_append, lexS_crlf, ih]; congr 1; omega
  | comment body g n hb _ ih =>
    rw [List.cons_append, List.append_assoc, List.cons_append, lexS_comment body _ line hb, lexS_lf, ih]; congr 1; omega

/-- `sp` is a spelling of the token `(k, v)`: followed by any text that satisfies `ok`, it is read as that one token, on the line it starts on,
and reading continues right behind it on the same line -/
def Spells (sp : List Char) (k : TokKind) (v : TVal) (ok : List Char → Prop) : Prop :=
  ∀ rest line, ok rest → lexS (sp ++ rest) line = ⟨k, v, line⟩ :: lexS rest line

theorem spells_punct (c : Char) (k : TokKind) (h : punct? c = some k) : Spells [c] k .none (fun _ => True) :=
  fun rest line _ => lexS_punct c k rest line h

theorem spells_ident (c : Char) (w : List Char) (hc : isIdStart c = true) (hw : ∀ x ∈ w, isIdCont x = true) :
    Spells (c :: w) .id (.str (String.ofList (c :: w))) (StopsAt isIdCont) :=
  fun rest line hs => lexS_ident c w rest line hc hw hs

/-- unquoted text that starts with a character no other token can start with (`%`, `/`, `~`, `*`, a non-ASCII letter ...), holds no delimiter and does
not end in a blank: one `PLAIN_STRING` token with exactly that text, provided a delimiter (or the end of the text) follows -/
theorem spells_plain (c : Char) (w : List Char) (hc : PlainStart c) (hw : ∀ x ∈ w, isPlainStop x = false)
    (hlast : ∀ x, (c :: w).getLast? = some x → x ≠ ' ' ∧ x ≠ '\t') :
    Spells (c :: w) .plain (.str (String.ofList (c :: w))) (StopsAt (fun d => !isPlainStop d)) :=
  fun rest line hs => lexS_plain c w rest line hc hw hlast hs

/-- non-vacuity: `%abc` and a path; and how the real token stream of `P = x.y, /d/f.csv)` looks (identifier run + plain string, plain string) -/
example : Spells "%abc".toList .plain (.str "%abc") (StopsAt (fun d => !isPlainStop d)) :=
  spells_plain '%' "abc".toList (by unfold PlainStart; decide) (by decide) (by decide)
example : Spells "/data/in put.csv".toList .plain (.str "/data/in put.csv") (StopsAt (fun d => !isPlainStop d)) :=
  spells_plain '/' "data/in put.csv".toList (by unfold PlainStart; decide) (by decide) (by decide)
example : (lexS "P = x.y, /d/f.csv)".toList 1).map (fun t => (t.kind, t.val)) =
    [(.id, .str "P"), (.equal, .none), (.id, .str "x"), (.plain, .str ".y"), (.comma, .none), (.plain, .str "/d/f.csv"), (.rparen, .none)] := by decide +kernel

theorem spells_int (neg : Bool) (ds : List Char) (hne : ds ≠ []) (hd : ∀ c ∈ ds, isDig c = true) :
    Spells (signChars neg ++ ds) .int (.int (if neg then -(digitsVal ds : Int) else (digitsVal ds : Int)))
      (StopsAt (fun c => isDig c || c == '.')) := by
  intro rest line hs
  rw [List.append_assoc]
  exact lexS_int neg ds rest line hne hd hs

theorem spells_float (neg : Bool) (ip fp : List Char) (hne : ip ≠ []) (hi : ∀ c ∈ ip, isDig c = true) (hf : ∀ c ∈ fp, isDig c = true)
    (hlen : fp.length ≤ 5000) :
    Spells (signChars neg ++ (ip ++ '.' :: fp)) .float (floatTokVal neg ip fp) (StopsAt (fun c => isDig c || c == 'e' || c == 'E')) := by
  intro rest line hs
  have : signChars neg ++ (ip ++ '.' :: fp) ++ rest = signChars neg ++ (ip ++ '.' :: (fp ++ rest)) := by simp
  rw [this]
  exact lexS_float neg ip fp rest line hne hi hf hlen hs

/-- decimals with an exponent: `ip.fp` then `e`/`E`, an optional sign and digits (`1.5e3`, `-2.E-4`, `7.25e+10`), for every scaling within ±5000
decimal places (far beyond the range of doubles); the value is the exact rational `ip.fp · 10^e` -/
theorem spells_float_exp (neg : Bool) (ip fp : List Char) (upper : Bool) (sign : Option Bool) (ed : List Char)
    (hne : ip ≠ []) (hi : ∀ c ∈ ip, isDig c = true) (hf : ∀ c ∈ fp, isDig c = true) (hene : ed ≠ []) (hed : ∀ c ∈ ed, isDig c = true)
    (hlen : (expVal sign ed - fp.length).natAbs ≤ 5000) :
    Spells (signChars neg ++ (ip ++ '.' :: (fp ++ expChars upper sign ed))) .float (floatExpTokVal neg ip fp (expVal sign ed)) (StopsAt isDig) := by
  intro rest line hs
  have : signChars neg ++ (ip ++ '.' :: (fp ++ expChars upper sign ed)) ++ rest = signChars neg ++ (ip ++ '.' :: (fp ++ (expChars upper sign ed ++ rest))) := by simp
  rw [this]
  exact lexS_float_exp neg ip fp upper sign ed rest line hne hi hf hene hed hlen hs

/-- decimals that start with the point: `.5`, `-.25` -/
theorem spells_float_dot (neg : Bool) (fp : List Char) (hne : fp ≠ []) (hf : ∀ c ∈ fp, isDig c = true) (hlen : fp.length ≤ 5000) :
    Spells (signChars neg ++ ('.' :: fp)) .float (floatTokVal neg [] fp) (StopsAt (fun c => isDig c || c == 'e' || c == 'E')) := by
  intro rest line hs
  have : signChars neg ++ ('.' :: fp) ++ rest = signChars neg ++ ('.' :: (fp ++ rest)) := by simp
  rw [this]
  exact lexS_float_dot neg fp rest line hne hf hlen hs

/-- non-vacuity: `1.5e3` is the number 1500, `2.5E-1` is 1/4 -/
example : floatExpTokVal false ['1'] ['5'] (expVal none ['3']) = .float 1500 ∧ floatExpTokVal false ['2'] ['5'] (expVal (some true) ['1']) = .float (1 / 4) := by
  decide +kernel

/-- every string, written the way the serializer quotes it, followed by anything -/
theorem spells_quoted (s : String) : Spells (quoteStr s).toList .string (.str s) (fun _ => True) := by
  intro rest line _
  have hq : (quoteStr s).toList = '"' :: (quoteChars s.toList ++ ['"']) := by simp [quoteStr, String.toList_append]
  have h := C15.quote_roundtrip s rest line
  rw [C15.quote_no_newlines, Nat.add_zero] at h
  rw [hq] at h ⊢
  exact lexS_tok '"' _ line _ _ _ (by decide) h

/-! ### quoted strings as a user writes them: either kind of quote, any content without a backslash or the quote itself - line breaks included -/

theorem scan_raw (q : Char) (cs rest : List Char) (h : ∀ c ∈ cs, c ≠ q ∧ c ≠ '\\') :
    ∀ acc, scanStringBody q (cs ++ q :: rest) acc = some (acc.reverse ++ cs, rest) := by
  induction cs with
  | nil => intro acc; simp only [List.nil_append, List.append_nil]; unfold scanStringBody; simp
  | cons c t ih =>
    intro acc
    have hc := h c (List.mem_cons_self ..)
    have e1 : (c == q) = false := by simpa using hc.1
    have e2 : (c == '\\') = false := by simpa using hc.2
    simp only [List.cons_append]
    unfold scanStringBody
    simp only [e1, e2, Bool.false_eq_true, if_false]
    rw [ih (fun d hd => h d (List.mem_cons_of_mem _ hd)) (c :: acc)]
    simp

theorem decode_raw (cs : List Char) (h : ∀ c ∈ cs, c ≠ '\\') : ∀ (fuel : Nat) (acc : List Char), (backslashReplace cs).length < fuel →
    decodeEscapes fuel (backslashReplace cs) acc = .ok (acc.reverse ++ cs) := by
  induction cs with
  | nil =>
    intro fuel acc hf
    cases fuel with
    | zero => omega
    | succ f => simp [backslashReplace, decodeEscapes]
  | cons c t ih =>
    intro fuel acc hf
    have h1 : c ≠ '\\' := h c (List.mem_cons_self ..)
    have ht : ∀ d ∈ t, d ≠ '\\' := fun d hd => h d (List.mem_cons_of_mem _ hd)
    cases fuel with
    | zero => omega
    | succ f =>
      have hsplit : backslashReplace (c :: t) = backslashReplace [c] ++ backslashReplace t := by
        rw [show c :: t = [c] ++ t by rfl, C15.bsr_append]
      rw [hsplit] at hf ⊢
      by_cases hl : c.toNat ≤ 255
      · rw [C15.bsr_ascii c hl] at hf ⊢
        simp only [List.cons_append, List.nil_append] at hf ⊢
        rw [C15.dec_plain _ _ _ _ h1, ih ht f _ (by simp at hf ⊢; omega)]; simp
      · by_cases hm : c.toNat ≤ 0xFFFF
        · have hb : backslashReplace [c] = '\\' :: 'u' :: hexN 4 c.toNat := by simp [backslashReplace, hl, hm]
          rw [hb] at hf ⊢
          simp only [List.cons_append] at hf ⊢
          rw [C15.dec_bs_u f _ _ _ c.toNat (C15.hexRun4 c.toNat (by omega) _) (C15.char_not_surrogate c)]
          rw [ih ht f _ (by simp [C15.hexN4] at hf ⊢; omega)]
          simp [Char.ofNat_toNat]
        · have hb : backslashReplace [c] = '\\' :: 'U' :: hexN 8 c.toNat := by simp [backslashReplace, hl, hm]
          rw [hb] at hf ⊢
          simp only [List.cons_append] at hf ⊢
          have hmax := C15.char_le_max c
          rw [C15.dec_bs_U f _ _ _ c.toNat (C15.hexRun8 c.toNat (by omega) _) hmax (C15.char_not_surrogate c)]
          rw [ih ht f _ (by simp [C15.hexN8] at hf ⊢; omega)]
          simp [Char.ofNat_toNat]

theorem scanNum_quote (q : Char) (hq : q = '"' ∨ q = '\'') (l : List Char) : isIdStart q = false ∧ scanFloat (q :: l) = none ∧ scanInt (q :: l) = none := by
  have hos : optSign (q :: l) = (false, q :: l) := by
    rcases hq with rfl | rfl <;> rfl
  have hsp : spanDigits (q :: l) = ([], q :: l) := by
    rcases hq with rfl | rfl <;> simp [spanDigits, List.span, List.span.loop, isDig]
  refine ⟨by rcases hq with rfl | rfl <;> decide, ?_, ?_⟩
  · unfold scanFloat scanMantissa
    simp only [hos, hsp]
    rcases hq with rfl | rfl <;> simp
  · unfold scanInt
    simp only [hos, hsp]
    simp

/-- a quoted string written with either kind of quote, holding any characters except a backslash and the quote itself - blanks, tabs, raw line
breaks, delimiters, non-ASCII text - is one STRING token with exactly that content, on the line it starts on; the line counter moves on by the
line breaks inside it -/
theorem raw_string (q : Char) (hq : q = '"' ∨ q = '\'') (cs rest : List Char) (line : Nat) (h : ∀ c ∈ cs, c ≠ q ∧ c ≠ '\\') :
    scanOne (q :: (cs ++ q :: rest)) line = .tok ⟨.string, .str (String.ofList cs), line⟩ rest (line + countNewlines cs) := by
  obtain ⟨hid, hF, hI⟩ := scanNum_quote q hq (cs ++ q :: rest)
  have hqq : (q == '"' || q == '\'') = true := by rcases hq with rfl | rfl <;> decide
  unfold scanOne
  simp only [hid, Bool.false_eq_true, if_false, hF, hI, hqq, if_true]
  rw [scan_raw q cs rest h []]
  simp only [List.reverse_nil, List.nil_append]
  unfold stringValue
  rw [decode_raw cs (fun c hc => (h c hc).2) _ [] (Nat.lt_succ_self _)]
  simp

/-- `sp` spells the token `(k, v)` and contains `n` line breaks: what follows is read from line `line + n` on -/
def SpellsN (sp : List Char) (k : TokKind) (v : TVal) (n : Nat) (ok : List Char → Prop) : Prop :=
  ∀ rest line, ok rest → lexS (sp ++ rest) line = ⟨k, v, line⟩ :: lexS rest (line + n)

theorem Spells.toN {sp : List Char} {k : TokKind} {v : TVal} {ok : List Char → Prop} (h : Spells sp k v ok) : SpellsN sp k v 0 ok :=
  fun rest line hok => by rw [h rest line hok]; rfl

theorem spells_raw_string (q : Char) (hq : q = '"' ∨ q = '\'') (cs : List Char) (h : ∀ c ∈ cs, c ≠ q ∧ c ≠ '\\') :
    SpellsN (q :: (cs ++ [q])) .string (.str (String.ofList cs)) (countNewlines cs) (fun _ => True) := by
  intro rest line _
  have e : q :: (cs ++ [q]) ++ rest = q :: (cs ++ q :: rest) := by simp
  rw [e]
  have hb : q ≠ ' ' ∧ q ≠ '\t' := by rcases hq with rfl | rfl <;> decide
  exact lexS_tok q _ line _ _ _ hb (raw_string q hq cs rest line h)

/-- non-vacuity: a single-quoted string holding a raw line break; the word after it is on line 2 -/
example : (lexS "x = 'a\nb' y".toList 1).map (fun t => (t.kind, t.line)) = [(.id, 1), (.equal, 1), (.string, 1), (.id, 2)] := by decide +kernel

/-! ### quoted strings with escape sequences written by the user -/

/-- the inside of a quoted string as the grammar allows it: characters other than the quote and the backslash, and backslash pairs (the second
character is anything but a line feed - `\"`, `\\`, `\n`, `\x41`, `é`, `\101` all begin so) -/
inductive QBody (q : Char) : List Char → Prop
  | nil : QBody q []
  | char (c : Char) (cs : List Char) : c ≠ q → c ≠ '\\' → QBody q cs → QBody q (c :: cs)
  | esc (d : Char) (cs : List Char) : d ≠ '\n' → QBody q cs → QBody q ('\\' :: d :: cs)

theorem scan_qbody (q : Char) (hq : q = '"' ∨ q = '\'') {cs : List Char} (h : QBody q cs) : ∀ (rest acc : List Char),
    scanStringBody q (cs ++ q :: rest) acc = some (acc.reverse ++ cs, rest) := by
  have hbq : ('\\' == q) = false := by rcases hq with rfl | rfl <;> decide
  induction h with
  | nil => intro rest acc; simp only [List.nil_append, List.append_nil]; unfold scanStringBody; simp
  | char c cs hcq hb _ ih =>
    intro rest acc
    have h1 : (c == q) = false := by simpa using hcq
    have h2 : (c == '\\') = false := by simpa using hb
    simp only [List.cons_append]
    unfold scanStringBody
    simp only [h1, h2, Bool.false_eq_true, if_false]
    rw [ih rest (c :: acc)]
    simp
  | esc d cs hd _ ih =>
    intro rest acc
    have h3 : (d == '\n') = false := by simpa using hd
    simp only [List.cons_append]
    unfold scanStringBody
    simp only [hbq, Bool.false_eq_true, if_false, beq_self_eq_true, if_true, h3]
    rw [ih rest (d :: '\\' :: acc)]
    simp

/-- **any quoted string**: text between two equal quotes whose inside is made of ordinary characters and backslash pairs, and which the decoder
(`stringValue`: the model of `encode("latin-1", "backslashreplace").decode("unicode_escape")`) turns into `v`, is one STRING token with value `v`,
on the line it starts on; line breaks inside it are counted -/
theorem quoted_any (q : Char) (hq : q = '"' ∨ q = '\'') (cs rest : List Char) (line : Nat) (hb : QBody q cs) (v : List Char)
    (hv : stringValue cs = .ok v) :
    scanOne (q :: (cs ++ q :: rest)) line = .tok ⟨.string, .str (String.ofList v), line⟩ rest (line + countNewlines cs) := by
  obtain ⟨hid, hF, hI⟩ := scanNum_quote q hq (cs ++ q :: rest)
  have hqq : (q == '"' || q == '\'') = true := by rcases hq with rfl | rfl <;> decide
  unfold scanOne
  simp only [hid, Bool.false_eq_true, if_false, hF, hI, hqq, if_true]
  rw [scan_qbody q hq hb rest []]
  simp only [List.reverse_nil, List.nil_append, hv]

theorem spells_quoted_any (q : Char) (hq : q = '"' ∨ q = '\'') (cs : List Char) (hb : QBody q cs) (v : List Char) (hv : stringValue cs = .ok v) :
    SpellsN (q :: (cs ++ [q])) .string (.str (String.ofList v)) (countNewlines cs) (fun _ => True) := by
  intro rest line _
  have e : q :: (cs ++ [q]) ++ rest = q :: (cs ++ q :: rest) := by simp
  rw [e]
  have hbl : q ≠ ' ' ∧ q ≠ '\t' := by rcases hq with rfl | rfl <;> decide
  exact lexS_tok q _ line _ _ _ hbl (quoted_any q hq cs rest line hb v hv)

/-- and a quoted string whose escapes the decoder refuses (`"\x4"`, a lone `\N`) is a syntax error, not a token -/
theorem quoted_bad_escape (q : Char) (hq : q = '"' ∨ q = '\'') (cs rest : List Char) (line : Nat) (hb : QBody q cs) (hv : stringValue cs = .bad) :
    scanOne (q :: (cs ++ q :: rest)) line = .stop ⟨.errEscape, .none, line⟩ := by
  obtain ⟨hid, hF, hI⟩ := scanNum_quote q hq (cs ++ q :: rest)
  have hqq : (q == '"' || q == '\'') = true := by rcases hq with rfl | rfl <;> decide
  unfold scanOne
  simp only [hid, Bool.false_eq_true, if_false, hF, hI, hqq, if_true]
  rw [scan_qbody q hq hb rest []]
  simp only [List.reverse_nil, List.nil_append, hv]

/-- non-vacuity: escapes of every kind the decoder knows, as a user may write them -/
example : (lexS "P = \"a\\x41\\u00e9\\101\\n\\\\\\\"z\"".toList 1).map (fun t => (t.kind, t.val)) =
    [(.id, .str "P"), (.equal, .none), (.string, .str "aAéA\n\\\"z")] := by decide +kernel

/-- a command file as characters: layout, a token spelling, layout, ... - with the tokens it denotes and the lines they start on -/
inductive Text : List Char → Nat → List Tok → Prop
  | done (g : List Char) (n line : Nat) : Gap g n → Text g line []
  | tok (g sp tail : List Char) (n line : Nat) (k : TokKind) (v : TVal) (ok : List Char → Prop) (ts : List Tok) :
      Gap g n → Spells sp k v ok → ok tail → Text tail (line + n) ts → Text (g ++ (sp ++ tail)) line (⟨k, v, line + n⟩ :: ts)
  | tokN (g sp tail : List Char) (n m line : Nat) (k : TokKind) (v : TVal) (ok : List Char → Prop) (ts : List Tok) :
      Gap g n → SpellsN sp k v m ok → ok tail → Text tail (line + n + m) ts → Text (g ++ (sp ++ tail)) line (⟨k, v, line + n⟩ :: ts)

theorem lexS_text {cs : List Char} {line : Nat} {ts : List Tok} (h : Text cs line ts) : lexS cs line = ts := by
  induction h with
  | done g n line hg => have := lexS_gap hg [] line; simpa [lexS_nil] using this
  | tok g sp tail n line k v ok ts hg hsp hok _ ih => rw [lexS_gap hg, hsp tail (line + n) hok, ih]
  | tokN g sp tail n m line k v ok ts hg hsp hok _ ih => rw [lexS_gap hg, hsp tail (line + n) hok, ih]

/-- **C10, characters to program.**  A text made of token spellings (identifiers, integers, decimals with or without exponent, quoted strings
of any content - escaped as the serializer writes them, or written raw in single or double quotes, line breaks included -, punctuation)
separated by arbitrary layout - blanks, tabs, line feeds or CR LF, comments - whose tokens render the program `cs`
(lists nested to any depth, trailing commas or not) parses to exactly `cs`, every node carrying the line it really starts on. -/
theorem parse_text (chars : List Char) (ts : List Tok) (cs : List CNode) (ht : Text chars 1 ts) (hp : RProg ts cs) :
    parse (String.ofList chars) = .ok ⟨cs, 3⟩ := by
  unfold parse
  rw [lex_eq_lexS]
  simp only [String.toList_ofList]
  rw [lexS_text ht]
  exact program_renders hp

/-- non-vacuity: a concrete file meets the premises of `parse_text` -/
example : parse (String.ofList ['A', '=', 'B', '(', 'x', '=', '7', ')', '\n']) = .ok ⟨[⟨some "A", "B", [⟨"x", .mk (.int 7) 1, 1⟩], 1⟩], 3⟩ := by
  refine parse_text _ [⟨.id, .str "A", 1⟩, ⟨.equal, .none, 1⟩, ⟨.id, .str "B", 1⟩, ⟨.lparen, .none, 1⟩, ⟨.id, .str "x", 1⟩, ⟨.equal, .none, 1⟩,
    ⟨.int, .int 7, 1⟩, ⟨.rparen, .none, 1⟩] _ ?_ ?_
  · refine Text.tok [] ['A'] _ 0 1 _ _ _ _ Gap.nil (spells_ident 'A' [] (by decide) (by simp)) (stopsAt_cons (by decide)) ?_
    refine Text.tok [] ['='] _ 0 1 _ _ _ _ Gap.nil (spells_punct '=' .equal (by decide)) trivial ?_
    refine Text.tok [] ['B'] _ 0 1 _ _ _ _ Gap.nil (spells_ident 'B' [] (by decide) (by simp)) (stopsAt_cons (by decide)) ?_
    refine Text.tok [] ['('] _ 0 1 _ _ _ _ Gap.nil (spells_punct '(' .lparen (by decide)) trivial ?_
    refine Text.tok [] ['x'] _ 0 1 _ _ _ _ Gap.nil (spells_ident 'x' [] (by decide) (by simp)) (stopsAt_cons (by decide)) ?_
    refine Text.tok [] ['='] _ 0 1 _ _ _ _ Gap.nil (spells_punct '=' .equal (by decide)) trivial ?_
    refine Text.tok [] ['7'] _ 0 1 _ _ _ _ Gap.nil (spells_int false ['7'] (by simp) (by decide)) (stopsAt_cons (by decide)) ?_
    refine Text.tok [] [')'] _ 0 1 _ _ _ _ Gap.nil (spells_punct ')' .rparen (by decide)) trivial ?_
    exact Text.done ['\n'] 1 1 (Gap.lf [] 0 Gap.nil)
  · exact RProg.one _ _ (RCmd.args "A" "B" 1 1 1 1 1 _ _ (RArgs.one _ _ (RArg.mk "x" 1 1 _ _ (RVal.int 7 1))))

end MPilot.C10
