/-
C10 — parsing delivers exactly what was written, regardless of layout.

Part proved here (token level): for every value built from integers, decimals, quoted strings, bare identifiers and lists of
any nesting, *whatever lines the tokens are on and with or without a trailing comma*, the grammar reads the token sequence back
as exactly that value, with every node carrying the line of its first token (`expression_renders`).  The character level for the
hardest token class - quoted strings with arbitrary content - is `C15.quote_roundtrip`.  The remaining glue (identifier and number
scanning, layout between tokens, command/argument level) is not yet proved; until then the property as a whole is decided by the
correspondence of this executable parser with the real one and by the round-trip oracle (registered as translation validation).
-/
import MPilot.Model.Grammar
import Mathlib.Tactic.Common

namespace MPilot.C10
open MPilot

/-- the next token ends a value: `,` `]` or `)` -/
def IsTerm (ts : List Tok) : Prop := ∃ t r, ts = t :: r ∧ (t.kind = .comma ∨ t.kind = .rbrack ∨ t.kind = .rparen)

theorem term_facts {t : Tok} (h : t.kind = .comma ∨ t.kind = .rbrack ∨ t.kind = .rparen) :
    t.isErr = false ∧ isPsStart t.kind = false ∧ (t.kind == .colon) = false ∧ (t.kind == .string) = false := by
  rcases h with h | h | h <;> simp [Tok.isErr, isPsStart, h]

mutual
  /-- `RVal ts e`: the token sequence `ts` is a rendering of the value whose parse-tree node is `e` -/
  inductive RVal : List Tok → ENode → Prop
    | int (n : Int) (l : Nat) : RVal [⟨.int, .int n, l⟩] (.mk (.int n) l)
    | float (q : Rat) (l : Nat) : RVal [⟨.float, .float q, l⟩] (.mk (.float q) l)
    | qstr (s : String) (l : Nat) : RVal [⟨.string, .str s, l⟩] (.mk (.str s) l)
    | bare (s : String) (l : Nat) : RVal [⟨.id, .str s, l⟩] (.mk (.str s) l)
    | nil (l l' : Nat) : RVal [⟨.lbrack, .none, l⟩, ⟨.rbrack, .none, l'⟩] (.mk (.list []) l)
    | list (l l' : Nat) (ts : List Tok) (es : List ENode) : RElems ts es →
        RVal (⟨.lbrack, .none, l⟩ :: ts ++ [⟨.rbrack, .none, l'⟩]) (.mk (.list es) l)
  /-- one or more elements separated by commas, optionally followed by a trailing comma -/
  inductive RElems : List Tok → List ENode → Prop
    | one (ts : List Tok) (e : ENode) : RVal ts e → RElems ts [e]
    | oneComma (ts : List Tok) (e : ENode) (lc : Nat) : RVal ts e → RElems (ts ++ [⟨.comma, .none, lc⟩]) [e]
    | cons (ts : List Tok) (e : ENode) (lc : Nat) (ts' : List Tok) (es : List ENode) :
        RVal ts e → RElems ts' es → RElems (ts ++ ⟨.comma, .none, lc⟩ :: ts') (e :: es)
end

/-- a rendering is never empty and starts with a token that is no lexer error, no colon, no terminator -/
theorem RVal.head {ts : List Tok} {e : ENode} (h : RVal ts e) :
    ∃ t r, ts = t :: r ∧ t.isErr = false ∧ (t.kind = .int ∨ t.kind = .float ∨ t.kind = .string ∨ t.kind = .id ∨ t.kind = .lbrack) := by
  cases h <;> exact ⟨_, _, rfl, by simp [Tok.isErr], by simp⟩

theorem atPair_lbrack (l : Nat) (rest : List Tok) : atPair (⟨.lbrack, .none, l⟩ :: rest) = false := by
  have h4 : isPsStart TokKind.lbrack = false := rfl
  cases rest with
  | nil => unfold atPair; rfl
  | cons a b =>
    unfold atPair
    simp only [List.takeWhile_cons, h4, Bool.false_eq_true, if_false]
    simp

/-- a rendered value followed by a terminator is not mistaken for the start of a tuple (`key :`) -/
theorem atPair_false {ts : List Tok} {e : ENode} (h : RVal ts e) (rest : List Tok) (hr : IsTerm rest) : atPair (ts ++ rest) = false := by
  obtain ⟨t, r, rfl, ht⟩ := hr
  obtain ⟨_, hps, hcol, _⟩ := term_facts ht
  have h1 : isPsStart TokKind.int = true := rfl
  have h2 : isPsStart TokKind.float = true := rfl
  have h3 : isPsStart TokKind.id = true := rfl
  have h4 : isPsStart TokKind.lbrack = false := rfl
  cases h with
  | int n l =>
    simp only [List.cons_append, List.nil_append]
    unfold atPair
    simp only [List.takeWhile_cons, h1, hps, if_true, Bool.false_eq_true, if_false]
    simp
  | float q l =>
    simp only [List.cons_append, List.nil_append]
    unfold atPair
    simp only [List.takeWhile_cons, h2, hps, if_true, Bool.false_eq_true, if_false]
    simp
  | qstr s l =>
    simp only [List.cons_append, List.nil_append]
    unfold atPair
    simp [hcol]
  | bare s l =>
    simp only [List.cons_append, List.nil_append]
    unfold atPair
    simp only [List.takeWhile_cons, h3, hps, if_true, Bool.false_eq_true, if_false]
    simp [hcol]
  | nil l l' =>
    simp only [List.cons_append, List.nil_append]
    unfold atPair
    simp only [List.takeWhile_cons, h4, Bool.false_eq_true, if_false]
    simp
  | list l l' ts es he =>
    simp only [List.cons_append]
    exact atPair_lbrack _ _

theorem RElems.head {ts : List Tok} {es : List ENode} (h : RElems ts es) :
    ∃ t r, ts = t :: r ∧ t.isErr = false ∧ (t.kind = .int ∨ t.kind = .float ∨ t.kind = .string ∨ t.kind = .id ∨ t.kind = .lbrack) := by
  cases h with
  | one ts e hv => exact hv.head
  | oneComma ts e lc hv => obtain ⟨t, r, rfl, h1, h2⟩ := hv.head; exact ⟨t, r ++ [_], rfl, h1, h2⟩
  | cons ts e lc ts' es hv _ => obtain ⟨t, r, rfl, h1, h2⟩ := hv.head; exact ⟨t, r ++ _, rfl, h1, h2⟩

theorem peek_head {t : Tok} {r : List Tok} (h : t.isErr = false) : peek (t :: r) = .ok (some t.kind) := by
  simp [peek, h]

/-- starts with `]` -/
def IsClose (ts : List Tok) : Prop := ∃ t r, ts = t :: r ∧ t.kind = .rbrack

theorem IsClose.term {ts : List Tok} (h : IsClose ts) : IsTerm ts := by
  obtain ⟨t, r, rfl, hk⟩ := h; exact ⟨t, r, rfl, Or.inr (Or.inl hk)⟩

theorem go_stop {t : Tok} (r : List Tok) (acc : String) (last : Option TokKind) (he : t.isErr = false) (hps : isPsStart t.kind = false) :
    plainString.go (t :: r) acc last = .ok (acc, last, t :: r) := by
  rw [plainString.go]; simp [he, hps]

theorem plainString_id (s : String) (l : Nat) {t : Tok} (r : List Tok) (he : t.isErr = false) (hps : isPsStart t.kind = false) :
    plainString (⟨.id, .str s, l⟩ :: t :: r) = .ok ((s, l), t :: r) := by
  unfold plainString
  have h3 : isPsStart TokKind.id = true := rfl
  have h5 : (⟨.id, .str s, l⟩ : Tok).isErr = false := by simp [Tok.isErr]
  rw [plainString.go]
  simp only [h5, h3, tokText, go_stop r _ _ he hps]
  simp

theorem more_stop (f : Nat) (acc : String) {t : Tok} (r : List Tok) (he : t.isErr = false) (hc : (t.kind == .colon) = false) :
    permissive.more (f + 1) acc (t :: r) = .ok (acc, t :: r) := by
  rw [permissive.more, peek_head he]
  have : t.kind ≠ .colon := by simpa using hc
  split <;> simp_all

theorem expression_lbrack (f l : Nat) (r : List Tok) :
    expression (f + 1) (⟨.lbrack, .none, l⟩ :: r) =
      (match listBody f r with | .error e => .error e | .ok (v, rest) => .ok (.mk v l, rest)) := by
  rw [expression]; simp [Tok.isErr]
  rcases listBody f r with e | ⟨v, rest⟩ <;> rfl

theorem listBody_nonclose (f : Nat) {t : Tok} (r : List Tok) (he : t.isErr = false) (hk : t.kind ≠ .rbrack) :
    listBody (f + 1) (t :: r) =
      (match elements f (t :: r) with
       | .error e => .error e
       | .ok (v, rest) => match expect .rbrack rest with | .error e => .error e | .ok (_, rest') => .ok (v, rest')) := by
  rw [listBody, peek_head he]; split <;> simp_all
  rcases elements f (t :: r) with e | ⟨v, rest⟩
  · rfl
  · dsimp only; rcases expect TokKind.rbrack rest with e | ⟨_, rest'⟩ <;> rfl

theorem listBody_close (f l : Nat) (r : List Tok) : listBody (f + 1) (⟨.rbrack, .none, l⟩ :: r) = .ok (.list [], r) := by
  rw [listBody]; simp [peek, Tok.isErr]

mutual
  /-- **token-level round trip for values**: a rendering of a value, followed by a terminator, is read back as exactly that value -/
  theorem expression_renders : ∀ {ts : List Tok} {e : ENode}, RVal ts e → ∀ (rest : List Tok) (fuel : Nat), IsTerm rest → 2 * ts.length ≤ fuel →
      expression fuel (ts ++ rest) = .ok (e, rest)
    | _, _, .int n l, rest, fuel, hr, hf => by
        obtain ⟨t, r, rfl, ht⟩ := hr
        obtain ⟨he, hps, _, _⟩ := term_facts ht
        cases fuel with
        | zero => simp at hf
        | succ f =>
          simp only [List.cons_append, List.nil_append]
          unfold expression
          simp [isNumberHere, he, hps, numVal]
          simp [Tok.isErr]
    | _, _, .float q l, rest, fuel, hr, hf => by
        obtain ⟨t, r, rfl, ht⟩ := hr
        obtain ⟨he, hps, _, _⟩ := term_facts ht
        cases fuel with
        | zero => simp at hf
        | succ f =>
          simp only [List.cons_append, List.nil_append]
          unfold expression
          simp [isNumberHere, he, hps, numVal]
          simp [Tok.isErr]
    | _, _, .qstr s l, rest, fuel, hr, hf => by
        cases fuel with
        | zero => simp at hf
        | succ f =>
          simp only [List.cons_append, List.nil_append]
          unfold expression
          simp [Tok.isErr, numVal]
    | _, _, .bare s l, rest, fuel, hr, hf => by
        obtain ⟨t, r, rfl, ht⟩ := hr
        obtain ⟨he, hps, hcol, _⟩ := term_facts ht
        cases fuel with
        | zero => simp at hf
        | succ f =>
          simp only [List.cons_append, List.nil_append]
          unfold expression
          have hperm : permissive ((⟨.id, .str s, l⟩ :: t :: r : List Tok).length + 1) (⟨.id, .str s, l⟩ :: t :: r) = .ok ((s, l), t :: r) := by
            unfold permissive
            rw [plainString_id s l r he hps]
            simp only [List.length_cons]
            rw [more_stop _ _ _ he hcol]
          simp only [List.length_cons] at hperm
          simp [Tok.isErr, isNumberHere, isPsStart, hperm]
    | _, _, .nil l l', rest, fuel, hr, hf => by
        cases fuel with
        | zero => simp at hf
        | succ f =>
          cases f with
          | zero => simp at hf; try omega
          | succ f' =>
            simp only [List.cons_append, List.nil_append]
            rw [expression_lbrack, listBody_close]
    | _, _, .list l l' ts es hes, rest, fuel, hr, hf => by
        cases fuel with
        | zero => simp at hf
        | succ f =>
          cases f with
          | zero => simp at hf; try omega
          | succ f' =>
            have hclose : IsClose ((⟨.rbrack, .none, l'⟩ : Tok) :: rest) := ⟨_, _, rfl, rfl⟩
            have ih := elements_renders hes (⟨.rbrack, .none, l'⟩ :: rest) f' hclose (by simp at hf; omega)
            obtain ⟨t0, r0, rfl, h0e, h0k⟩ := hes.head
            simp only [List.cons_append, List.nil_append, List.append_assoc] at ih ⊢
            have : t0.kind ≠ .rbrack := by rcases h0k with h | h | h | h | h <;> simp [h]
            rw [expression_lbrack, listBody_nonclose _ _ h0e this, ih]
            simp [Tok.isErr, expect]

  theorem elements_renders : ∀ {ts : List Tok} {es : List ENode}, RElems ts es → ∀ (rest : List Tok) (fuel : Nat), IsClose rest → 2 * ts.length + 1 ≤ fuel →
      elements fuel (ts ++ rest) = .ok (.list es, rest)
    | _, _, .one ts e hv, rest, fuel, hr, hf => by
        cases fuel with
        | zero => simp at hf
        | succ f =>
          have hat := atPair_false hv rest hr.term
          have ih := expression_renders hv rest f hr.term (by omega)
          obtain ⟨t, r, rfl, hk⟩ := hr
          have he : t.isErr = false := by simp [Tok.isErr, hk]
          rw [elements]
          simp only [hat, Bool.false_eq_true, if_false, ih, peek_head he, hk]
    | _, _, .oneComma ts e lc hv, rest, fuel, hr, hf => by
        cases fuel with
        | zero => simp at hf
        | succ f =>
          have hterm : IsTerm ((⟨.comma, .none, lc⟩ : Tok) :: rest) := ⟨_, _, rfl, Or.inl rfl⟩
          have hat := atPair_false hv _ hterm
          have ih := expression_renders hv _ f hterm (by simp at hf; omega)
          obtain ⟨t, r, rfl, hk⟩ := hr
          have he : t.isErr = false := by simp [Tok.isErr, hk]
          simp only [List.append_assoc, List.cons_append, List.nil_append]
          rw [elements]
          simp only [hat, Bool.false_eq_true, if_false, ih]
          simp [peek, Tok.isErr, hk]
    | _, _, .cons ts e lc ts' es hv hes, rest, fuel, hr, hf => by
        cases fuel with
        | zero => simp at hf
        | succ f =>
          have hterm : IsTerm ((⟨.comma, .none, lc⟩ : Tok) :: (ts' ++ rest)) := ⟨_, _, rfl, Or.inl rfl⟩
          have hat := atPair_false hv _ hterm
          have ih := expression_renders hv _ f hterm (by simp at hf; omega)
          have ih2 := elements_renders hes rest f hr (by simp at hf; omega)
          obtain ⟨t0, r0, rfl, h0e, h0k⟩ := hes.head
          have hnc : t0.kind ≠ .rbrack := by rcases h0k with h | h | h | h | h <;> simp [h]
          simp only [List.append_assoc, List.cons_append, List.nil_append] at *
          rw [elements]
          simp only [hat, Bool.false_eq_true, if_false, ih]
          have hce : (⟨.comma, .none, lc⟩ : Tok).isErr = false := by simp [Tok.isErr]
          rw [peek_head hce]
          simp only [List.drop_one, List.tail_cons, List.drop_succ_cons, List.drop_zero]
          rw [peek_head h0e, ih2]
          split <;> simp_all
end

/-! ### arguments, commands, programs -/

/-- `name = value` -/
inductive RArg : List Tok → ANode → Prop
  | mk (n : String) (la le : Nat) (ts : List Tok) (e : ENode) : RVal ts e →
      RArg (⟨.id, .str n, la⟩ :: ⟨.equal, .none, le⟩ :: ts) ⟨n, e, la⟩

/-- one or more arguments separated by commas, optionally followed by a trailing comma -/
inductive RArgs : List Tok → List ANode → Prop
  | one (ts : List Tok) (a : ANode) : RArg ts a → RArgs ts [a]
  | oneComma (ts : List Tok) (a : ANode) (lc : Nat) : RArg ts a → RArgs (ts ++ [⟨.comma, .none, lc⟩]) [a]
  | cons (ts : List Tok) (a : ANode) (lc : Nat) (ts' : List Tok) (as : List ANode) :
      RArg ts a → RArgs ts' as → RArgs (ts ++ ⟨.comma, .none, lc⟩ :: ts') (a :: as)

/-- `Result = Command(arguments)`; the command node carries the line of the command name -/
inductive RCmd : List Tok → CNode → Prop
  | noArgs (r c : String) (l1 le lc lp lp' : Nat) :
      RCmd [⟨.id, .str r, l1⟩, ⟨.equal, .none, le⟩, ⟨.id, .str c, lc⟩, ⟨.lparen, .none, lp⟩, ⟨.rparen, .none, lp'⟩] ⟨some r, c, [], lc⟩
  | args (r c : String) (l1 le lc lp lp' : Nat) (ts : List Tok) (as : List ANode) : RArgs ts as →
      RCmd (⟨.id, .str r, l1⟩ :: ⟨.equal, .none, le⟩ :: ⟨.id, .str c, lc⟩ :: ⟨.lparen, .none, lp⟩ :: ts ++ [⟨.rparen, .none, lp'⟩]) ⟨some r, c, as, lc⟩

inductive RProg : List Tok → List CNode → Prop
  | one (ts : List Tok) (c : CNode) : RCmd ts c → RProg ts [c]
  | cons (ts : List Tok) (c : CNode) (ts' : List Tok) (cs : List CNode) : RCmd ts c → RProg ts' cs → RProg (ts ++ ts') (c :: cs)

theorem argument_renders {ts : List Tok} {a : ANode} (h : RArg ts a) (rest : List Tok) (hr : IsTerm rest) :
    argument (ts ++ rest) = .ok (a, rest) := by
  cases h with
  | mk n la le ts e hv =>
    have := expression_renders hv rest (2 * (ts.length + rest.length) + 2) hr (by omega)
    simp [argument, expect, Tok.isErr, this]

theorem RArg.head {ts : List Tok} {a : ANode} (h : RArg ts a) : ∃ t r, ts = t :: r ∧ t.isErr = false ∧ t.kind = .id := by
  cases h; exact ⟨_, _, rfl, by simp [Tok.isErr], rfl⟩

theorem RArgs.head {ts : List Tok} {as : List ANode} (h : RArgs ts as) : ∃ t r, ts = t :: r ∧ t.isErr = false ∧ t.kind = .id := by
  cases h with
  | one ts a ha => exact ha.head
  | oneComma ts a lc ha => obtain ⟨t, r, rfl, h1, h2⟩ := ha.head; exact ⟨t, r ++ [_], rfl, h1, h2⟩
  | cons ts a lc ts' as ha _ => obtain ⟨t, r, rfl, h1, h2⟩ := ha.head; exact ⟨t, r ++ _, rfl, h1, h2⟩

theorem RArg.len {ts : List Tok} {a : ANode} (h : RArg ts a) : 3 ≤ ts.length := by
  cases h with
  | mk n la le ts e hv => obtain ⟨t, r, rfl, _⟩ := hv.head; simp

theorem args_go_renders : ∀ {ts : List Tok} {as : List ANode}, RArgs ts as → ∀ (lp : Nat) (rest : List Tok) (fuel : Nat) (acc : List ANode),
    ts.length ≤ fuel → arguments.go fuel (ts ++ ⟨.rparen, .none, lp⟩ :: rest) acc = .ok (acc.reverse ++ as, rest)
  | _, _, .one ts a ha, lp, rest, fuel, acc, hf => by
      have hterm : IsTerm ((⟨.rparen, .none, lp⟩ : Tok) :: rest) := ⟨_, _, rfl, Or.inr (Or.inr rfl)⟩
      have hl := ha.len
      cases fuel with
      | zero => omega
      | succ f =>
        rw [arguments.go, argument_renders ha _ hterm]
        simp [peek, Tok.isErr]
  | _, _, .oneComma ts a lc ha, lp, rest, fuel, acc, hf => by
      have hterm : IsTerm ((⟨.comma, .none, lc⟩ : Tok) :: ⟨.rparen, .none, lp⟩ :: rest) := ⟨_, _, rfl, Or.inl rfl⟩
      cases fuel with
      | zero => simp at hf
      | succ f =>
        simp only [List.append_assoc, List.cons_append, List.nil_append]
        rw [arguments.go, argument_renders ha _ hterm]
        simp [peek, Tok.isErr]
  | _, _, .cons ts a lc ts' as ha has, lp, rest, fuel, acc, hf => by
      have hterm : IsTerm ((⟨.comma, .none, lc⟩ : Tok) :: (ts' ++ ⟨.rparen, .none, lp⟩ :: rest)) := ⟨_, _, rfl, Or.inl rfl⟩
      cases fuel with
      | zero => simp at hf
      | succ f =>
        have ih := args_go_renders has lp rest f (a :: acc) (by simp at hf; omega)
        obtain ⟨t0, r0, rfl, h0e, h0k⟩ := has.head
        simp only [List.append_assoc, List.cons_append, List.nil_append] at *
        rw [arguments.go, argument_renders ha _ hterm]
        have hce : (⟨.comma, .none, lc⟩ : Tok).isErr = false := by simp [Tok.isErr]
        simp only []
        rw [peek_head hce]
        simp only [List.drop_succ_cons, List.drop_zero]
        rw [peek_head h0e, ih, h0k]
        simp

theorem command_renders {ts : List Tok} {c : CNode} (h : RCmd ts c) (rest : List Tok) :
    command (ts ++ rest) = .ok ((c, false), rest) := by
  cases h with
  | noArgs r c l1 le lc lp lp' =>
    simp [command, expect, peek, Tok.isErr, arguments]
  | args r c l1 le lc lp lp' ts as has =>
    have hgo := args_go_renders has lp' rest ((ts ++ ⟨.rparen, .none, lp'⟩ :: rest).length + 1) [] (by simp; omega)
    obtain ⟨t0, r0, rfl, h0e, h0k⟩ := has.head
    simp only [List.append_assoc, List.cons_append, List.nil_append, List.length_cons, List.length_append] at *
    simp [command, expect, peek, Tok.isErr, arguments, h0e, h0k, hgo]

theorem RCmd.len {ts : List Tok} {c : CNode} (h : RCmd ts c) : 5 ≤ ts.length := by
  cases h <;> simp

theorem RProg.ne {ts : List Tok} {cs : List CNode} (h : RProg ts cs) : ts ≠ [] := by
  cases h with
  | one ts c hc => have := hc.len; intro h; simp [h] at this
  | cons ts c ts' cs hc _ => have := hc.len; intro h; simp at h; simp [h.1] at this

theorem parse_go_renders : ∀ {ts : List Tok} {cs : List CNode}, RProg ts cs → ∀ (fuel : Nat) (acc : List CNode),
    ts.length ≤ fuel → parseToks.go fuel ts acc false = .ok ⟨acc.reverse ++ cs, 3⟩
  | _, _, .one ts c hc, fuel, acc, hf => by
      have hl := hc.len
      cases fuel with
      | zero => omega
      | succ f =>
        have := command_renders hc []
        simp only [List.append_nil] at this
        rw [parseToks.go, this]
        simp
  | _, _, .cons ts c ts' cs hc hcs, fuel, acc, hf => by
      have hl := hc.len
      simp only [List.length_append] at hf
      cases fuel with
      | zero => omega
      | succ f =>
        have ih := parse_go_renders hcs f (c :: acc) (by omega)
        rw [parseToks.go, command_renders hc ts']
        have hne := hcs.ne
        cases ts' with
        | nil => exact absurd rfl hne
        | cons t r => simp [ih]

/-- **C10 at token level**: any rendering of a version-3 program - whatever lines its tokens are on, with or without trailing
commas, lists nested to any depth - is read back as exactly that program, each node carrying the line of its first token -/
theorem program_renders {ts : List Tok} {cs : List CNode} (h : RProg ts cs) : parseToks ts = .ok ⟨cs, 3⟩ := by
  have := parse_go_renders h (ts.length + 1) [] (by omega)
  simpa [parseToks] using this

end MPilot.C10
