/- C10 — theorems under construction -/
import MPilot.Model.Grammar
