/-
C08 - "CvtFromFuzzy is its inverse between the thresholds", for whole fields at the level of `exec`.

`fromFuzzy_toFuzzy` (Props/C08.lean) is the law for one number.  `cvtFromFuzzy_inverts_exec`: converting a field with `CvtToFuzzy(TrueThreshold = t,
FalseThreshold = f)` and the result back with `CvtFromFuzzy(TrueThreshold = t, FalseThreshold = f)` returns the field - the same cells missing, the same
values elsewhere - whenever its present cells lie between the thresholds (either order of the thresholds).
-/
import MPilot.Props.C08

namespace MPilot.C08
open MPilot

theorem toFuzzy_between' (t f x : Rat) (htf : t ≠ f) (h : (f ≤ x ∧ x ≤ t) ∨ (t ≤ x ∧ x ≤ f)) : toFuzzyVal t f x = lin t f 1 (-1) x := by
  rcases lt_or_gt_of_ne htf with hlt | hgt
  · -- t < f : the cell lies between t and f
    have hx : t ≤ x ∧ x ≤ f := by
      rcases h with ⟨h1, h2⟩ | h
      · exact ⟨by linarith, by linarith⟩
      · exact h
    unfold toFuzzyVal
    have hp : 0 < f - t := by linarith
    have e : lin t f 1 (-1) x = 1 - (x - t) * 2 / (f - t) := by
      unfold lin
      have : f - t ≠ 0 := ne_of_gt hp
      field_simp; ring
    have h0 : 0 ≤ (x - t) * 2 / (f - t) := div_nonneg (by linarith) (le_of_lt hp)
    have h2 : (x - t) * 2 / (f - t) ≤ 2 := by rw [div_le_iff₀ hp]; linarith
    have hl : -1 ≤ lin t f 1 (-1) x := by rw [e]; linarith
    have hu : lin t f 1 (-1) x ≤ 1 := by rw [e]; linarith
    unfold clampHiLo
    simp only
    split_ifs <;> linarith
  · have hx : f ≤ x ∧ x ≤ t := by
      rcases h with h | ⟨h1, h2⟩
      · exact h
      · exact ⟨by linarith, by linarith⟩
    exact toFuzzy_between t f x hgt hx.1 hx.2

/-- **CvtFromFuzzy inverts CvtToFuzzy between the thresholds, for whole fields** -/
theorem cvtFromFuzzy_inverts_exec (sqrt : Rat → Rat) (a r1 r2 : Arr) (t f : Num) (hv : a.valid ≠ []) (htf : t.val ≠ f.val)
    (hbetween : ∀ c ∈ a.cells, c.mask = false → (f.val ≤ c.val ∧ c.val ≤ t.val) ∨ (t.val ≤ c.val ∧ c.val ≤ f.val))
    (h1 : exec sqrt (.cvtToFuzzy (some t) (some f) none) [a] = .ok r1)
    (h2 : exec sqrt (.cvtFromFuzzy t f) [r1] = .ok r2) : r2.vis = a.vis := by
  have s1 := cvtToFuzzy_spec sqrt a r1 t f hv htf h1
  have s2 := cvtFromFuzzy_spec sqrt r1 r2 t f htf h2
  have hk : ∀ c : Cell, (if c.mask then none else some (lin 1 (-1) t.val f.val c.val)) = (Cell.vis c).map (lin 1 (-1) t.val f.val) := by
    intro c; unfold Cell.vis; cases c.mask <;> rfl
  have s2' : r2.vis = r1.vis.map (Option.map (lin 1 (-1) t.val f.val)) := by
    rw [s2]
    simp only [Arr.vis, List.map_map]
    apply List.map_congr_left
    intro c _
    exact hk c
  rw [s2', s1]
  simp only [Arr.vis, List.map_map]
  apply List.map_congr_left
  intro c hc
  simp only [Function.comp, Cell.vis]
  cases hm : c.mask with
  | true => simp
  | false =>
    simp only [Bool.false_eq_true, if_false, Option.map_some]
    rw [toFuzzy_between' t.val f.val c.val htf (hbetween c hc hm), fromFuzzy_toFuzzy t.val f.val c.val htf]

end MPilot.C08
