/-
C11 — line numbers in parse trees and errors are the true source lines.

In the model a parse is a *function of the text*: `parse : String → Except ParseErr PNode` takes no parser state, so "regardless of what
the same process or parser object parsed before" holds by construction; that the real `Parser` behaves like this function after any
history of earlier parses is what the correspondence checks (0-3 earlier parses on the same object, earlier loads in the process).

Proved here, about how the lexer numbers lines:
* every token carries the line on which it *starts* and the counter never runs backwards (`scanOne_tok_line`, `scanOne_skip_line`), so the
  lines of the token list are non-decreasing and never before the starting line (`lexAll_lines`);
* a line break is counted once whether written LF, CR or CRLF (`newline_counts`), also inside quoted strings (`scanOne` adds
  `countNewlines content`, stated in `quoted_newlines_counted`).
Which line an *error* carries is determined by the definitions characterised in C12 (`addCommand_errors`, `unknown_command`,
`prepassCmd_first_error`: the offending command's or argument's own line).
-/
import MPilot.Model.Grammar
import MPilot.Model.Eems2
import Mathlib.Tactic.Common

namespace MPilot.C11
open MPilot

/-- LF, CR and CRLF each count as one line break; LF+LF as two -/
theorem newline_counts :
    countNewlines ['\n'] = 1 ∧ countNewlines ['\r'] = 1 ∧ countNewlines ['\r', '\n'] = 1 ∧ countNewlines ['\n', '\n'] = 2 ∧
    countNewlines ['\r', '\n', '\r', '\n'] = 2 ∧ countNewlines ['a', '\r', '\n', 'b', '\n'] = 2 := by
  decide

/-- a token carries the line at which its scanning step started, and the counter does not run backwards -/
theorem scanOne_tok_line (cs : List Char) (line : Nat) (t : Tok) (rest : List Char) (line' : Nat)
    (h : scanOne cs line = .tok t rest line') : t.line = line ∧ line ≤ line' := by
  unfold scanOne at h
  repeat' (first | split at h | (dsimp only at h))
  all_goals first
    | (cases h; done)
    | (injection h with h1 h2 h3; subst h1; subst h3; exact ⟨rfl, Nat.le_refl _⟩)
    | (injection h with h1 h2 h3; subst h1; subst h3; exact ⟨rfl, Nat.le_add_right _ _⟩)

theorem scanOne_skip_line (cs : List Char) (line : Nat) (rest : List Char) (line' : Nat)
    (h : scanOne cs line = .skip rest line') : line ≤ line' := by
  unfold scanOne at h
  repeat' (first | split at h | (dsimp only at h))
  all_goals first
    | (cases h; done)
    | (injection h with h1 h2; subst h2; exact Nat.le_refl _)
    | (injection h with h1 h2; subst h2; exact Nat.le_add_right _ _)

theorem scanOne_stop_line (cs : List Char) (line : Nat) (t : Tok) (h : scanOne cs line = .stop t) : t.line = line := by
  unfold scanOne at h
  repeat' (first | split at h | (dsimp only at h))
  all_goals first
    | (cases h; done)
    | (injection h with h1; subst h1; rfl)

/-- **lines along the token stream**: no token lies before the line the scan started on, and lines never decrease from one token to the next -/
theorem lexAll_lines : ∀ (fuel : Nat) (cs : List Char) (line : Nat),
    (∀ t ∈ lexAll fuel cs line, line ≤ t.line) ∧ (lexAll fuel cs line).Pairwise (fun a b => a.line ≤ b.line) := by
  intro fuel
  induction fuel with
  | zero => intro cs line; simp [lexAll]
  | succ f ih =>
    intro cs line
    cases cs with
    | nil => simp [lexAll]
    | cons c r =>
      unfold lexAll
      split
      · exact ih r line
      · split
        · rename_i t rest line' hs
          have hm := scanOne_tok_line _ _ _ _ _ hs
          obtain ⟨h1, h2⟩ := ih rest line'
          refine ⟨?_, List.pairwise_cons.mpr ⟨?_, h2⟩⟩
          · intro x hx
            rcases List.mem_cons.mp hx with rfl | hx
            · exact Nat.le_of_eq hm.1.symm
            · exact Nat.le_trans hm.2 (h1 x hx)
          · intro x hx
            rw [hm.1]; exact Nat.le_trans hm.2 (h1 x hx)
        · rename_i rest line' hs
          have hm := scanOne_skip_line _ _ _ _ hs
          obtain ⟨h1, h2⟩ := ih rest line'
          exact ⟨fun x hx => Nat.le_trans hm (h1 x hx), h2⟩
        · rename_i t hs
          have hm := scanOne_stop_line _ _ _ hs
          exact ⟨by intro x hx; simp at hx; subst hx; exact Nat.le_of_eq hm.symm, by simp⟩

/-- the first command of a file that starts on its first line is numbered 1: `lex` starts counting at 1 -/
theorem lex_starts_at_one (src : String) : ∀ t ∈ lex src, 1 ≤ t.line := (lexAll_lines _ _ 1).1

/-- a quoted string that spans lines advances the counter by the line breaks it contains (the token itself keeps its starting line) -/
theorem quoted_newlines_counted (q : Char) (hq : q = '"' ∨ q = '\'') (r content rest : List Char) (v : List Char) (line : Nat)
    (hs : scanStringBody q r [] = some (content, rest)) (hv : stringValue content = .ok v) :
    scanOne (q :: r) line = .tok ⟨.string, .str (String.ofList v), line⟩ rest (line + countNewlines content) := by
  unfold scanOne
  have hid : isIdStart q = false := by rcases hq with rfl | rfl <;> decide
  have hf : scanFloat (q :: r) = none := by
    rcases hq with rfl | rfl
    · exact scanFloat_q r
    · unfold scanFloat scanMantissa optSign spanDigits; simp [List.span, List.span.loop, isDig]
  have hi : scanInt (q :: r) = none := by
    rcases hq with rfl | rfl
    · exact scanInt_q r
    · unfold scanInt optSign spanDigits; simp [List.span, List.span.loop, isDig]
  have hqq : (q == '"' || q == '\'') = true := by rcases hq with rfl | rfl <;> decide
  simp only [hid, Bool.false_eq_true, if_false, hf, hi, hqq, if_true, hs, hv]
where
  scanFloat_q (l : List Char) : scanFloat ('"' :: l) = none := by
    unfold scanFloat scanMantissa optSign spanDigits; simp [List.span, List.span.loop, isDig]
  scanInt_q (l : List Char) : scanInt ('"' :: l) = none := by
    unfold scanInt optSign spanDigits; simp [List.span, List.span.loop, isDig]

/-! ### the line an error carries

Load-time errors (`Program.from_source` / `add_command`) and validation errors (the pre-pass of `Program.run`) carry the line *of a command or
argument of the model* - namely the offending one; never a line that belongs to nothing in the file. -/

/-- what a load error can be, and where its line comes from -/
inductive LoadErrAt (lib : String → Option CmdDecl) (n : Node) : PErr → Prop
  | unknown : lib n.command = none → LoadErrAt lib n (.mp "CommandDoesNotExist" n.line)
  | duplicate : LoadErrAt lib n (.mp "DuplicateResult" n.line)
  | missing : LoadErrAt lib n (.mp "MissingParameters" n.line)
  | undeclared (decl : CmdDecl) (a : Arg) : lib n.command = some decl → a ∈ dedupArgs n.args → decl.input? a.name = none →
      LoadErrAt lib n (.mp "NoSuchParameter" a.line)

theorem addCommand_error_cases (p : Program) (decl : CmdDecl) (rn : String) (args : List Arg) (line : Option Nat) (e : PErr)
    (h : addCommand p decl rn args line = .error e) :
    e = .mp "DuplicateResult" line ∨ e = .mp "MissingParameters" line ∨
      ∃ a ∈ args, decl.input? a.name = none ∧ e = .mp "NoSuchParameter" a.line := by
  unfold addCommand at h
  split at h
  · left; injection h with h; exact h.symm
  · split at h
    · right; left; injection h with h; exact h.symm
    · split at h
      · rename_i a ha
        right; right
        have hm := List.mem_of_find?_eq_some ha
        have hp := List.find?_some ha
        injection h with h
        refine ⟨a, hm, ?_, h.symm⟩
        simp only [Bool.and_eq_true, Option.isNone_iff_eq_none] at hp
        exact hp.1
      · cases h

/-- **every load error carries the line of the offending command, or of the offending (undeclared) argument of that command**:
the first command that cannot be added decides, and the error names it -/
theorem load_error_line (lib : String → Option CmdDecl) : ∀ (nodes : List Node) (p : Program) (e : PErr),
    fromNodes lib p nodes = .error e → ∃ n ∈ nodes, LoadErrAt lib n e := by
  intro nodes
  induction nodes with
  | nil => intro p e h; simp [fromNodes] at h
  | cons n rest ih =>
    intro p e h
    unfold fromNodes at h
    split at h
    · rename_i hl
      injection h with h; subst h
      exact ⟨n, List.mem_cons_self, .unknown hl⟩
    · rename_i decl hl
      split at h
      · rename_i e' he
        injection h with h; subst h
        refine ⟨n, List.mem_cons_self, ?_⟩
        rcases addCommand_error_cases _ _ _ _ _ _ he with rfl | rfl | ⟨a, ha, hna, rfl⟩
        · exact .duplicate
        · exact .missing
        · exact .undeclared decl a hl ha hna
      · rename_i p' _
        obtain ⟨m, hm, hme⟩ := ih p' e h
        exact ⟨m, List.mem_cons_of_mem _ hm, hme⟩

/-- the same for a command file: the line is the line the parser gave to that command / argument (`toNode`, `toArg`), i.e. - by `lexAll_lines` and
the grammar - the source line on which it starts -/
theorem load_error_line_parsed (lib : String → Option CmdDecl) (p : Program) (cs : List CNode) (e : PErr)
    (h : fromNodes lib p (cs.map toNode) = .error e) :
    ∃ c ∈ cs, LoadErrAt lib (toNode c) e := by
  obtain ⟨n, hn, hne⟩ := load_error_line lib _ p e h
  obtain ⟨c, hc, rfl⟩ := List.mem_map.mp hn
  exact ⟨c, hc, hne⟩

/-- **every validation error of the pre-pass carries the line of the argument whose value was refused** (an argument of a command of the program,
declared by that command, whose cleaning fails with exactly that error class) -/
theorem prepassCmd_error_line (ctx : Ctx) (c : PCmd) : ∀ (args : List Arg) (e : PErr), prepassCmd ctx c args = .error e →
    ∃ a ∈ args, ∃ i ce, c.decl.input? a.name = some i ∧ clean ctx i.spec a.value = .error ce ∧ e = cleanErrToPErr ce a.line := by
  intro args
  induction args with
  | nil => intro e h; simp [prepassCmd] at h
  | cons a rest ih =>
    intro e h
    unfold prepassCmd at h
    split at h
    · obtain ⟨b, hb, hrest⟩ := ih e h
      exact ⟨b, List.mem_cons_of_mem _ hb, hrest⟩
    · rename_i i hi
      split at h
      · rename_i ce hce
        injection h with h
        exact ⟨a, List.mem_cons_self, i, ce, hi, hce, h.symm⟩
      · split at h
        · rename_i e' he
          injection h with h; subst h
          obtain ⟨b, hb, hrest⟩ := ih _ he
          exact ⟨b, List.mem_cons_of_mem _ hb, hrest⟩
        · exfalso
          split at h <;> cases h

theorem prepass_error_line (ctx : Ctx) : ∀ (cmds : List PCmd) (e : PErr), prepass ctx cmds = .error e →
    ∃ c ∈ cmds, ∃ a ∈ c.args, ∃ i ce, c.decl.input? a.name = some i ∧ clean ctx i.spec a.value = .error ce ∧ e = cleanErrToPErr ce a.line := by
  intro cmds
  induction cmds with
  | nil => intro e h; simp [prepass] at h
  | cons c rest ih =>
    intro e h
    unfold prepass at h
    split at h
    · rename_i e' he
      injection h with h; subst h
      obtain ⟨a, ha, hr⟩ := prepassCmd_error_line ctx c c.args _ he
      exact ⟨c, List.mem_cons_self, a, ha, hr⟩
    · split at h
      · rename_i e' he
        injection h with h; subst h
        obtain ⟨c', hc', hr⟩ := ih _ he
        exact ⟨c', List.mem_cons_of_mem _ hc', hr⟩
      · cases h

/-- and a refused value is reported with its argument's line whatever the error class (`cleanErrToPErr` attaches `a.line` to every MPilot error) -/
theorem cleanErr_line (ce : CleanErr) (line : Option Nat) (h : ce ≠ "OutsideModel") : cleanErrToPErr ce line = .mp ce line := by
  unfold cleanErrToPErr
  simp [h]

end MPilot.C11
