/- C11 — theorems under construction -/
import MPilot.Model.Grammar
