/-
C11 — line numbers in parse trees and errors are the true source lines.

In the model a parse is a *function of the text*: `parse : String → Except ParseErr PNode` takes no parser state, so "regardless of what
the same process or parser object parsed before" holds by construction; that the real `Parser` behaves like this function after any
history of earlier parses is what the correspondence checks (0-3 earlier parses on the same object, earlier loads in the process).

Proved here, about how the lexer numbers lines:
* every token carries the line on which it *starts* and the counter never runs backwards (`scanOne_tok_line`, `scanOne_skip_line`), so the
  lines of the token list are non-decreasing and never before the starting line (`lexAll_lines`);
* a line break is counted once whether written LF, CR or CRLF (`newline_counts`), also inside quoted strings (`scanOne` adds
  `countNewlines content`, stated in `quoted_newlines_counted`).
Which line an *error* carries is determined by the definitions characterised in C12 (`addCommand_errors`, `unknown_command`,
`prepassCmd_first_error`: the offending command's or argument's own line).
-/
import MPilot.Model.Grammar
import Mathlib.Tactic.Common

namespace MPilot.C11
open MPilot

/-- LF, CR and CRLF each count as one line break; LF+LF as two -/
theorem newline_counts :
    countNewlines ['\n'] = 1 ∧ countNewlines ['\r'] = 1 ∧ countNewlines ['\r', '\n'] = 1 ∧ countNewlines ['\n', '\n'] = 2 ∧
    countNewlines ['\r', '\n', '\r', '\n'] = 2 ∧ countNewlines ['a', '\r', '\n', 'b', '\n'] = 2 := by
  decide

/-- a token carries the line at which its scanning step started, and the counter does not run backwards -/
theorem scanOne_tok_line (cs : List Char) (line : Nat) (t : Tok) (rest : List Char) (line' : Nat)
    (h : scanOne cs line = .tok t rest line') : t.line = line ∧ line ≤ line' := by
  unfold scanOne at h
  repeat' (first | split at h | (dsimp only at h))
  all_goals first
    | (cases h; done)
    | (injection h with h1 h2 h3; subst h1; subst h3; exact ⟨rfl, Nat.le_refl _⟩)
    | (injection h with h1 h2 h3; subst h1; subst h3; exact ⟨rfl, Nat.le_add_right _ _⟩)

theorem scanOne_skip_line (cs : List Char) (line : Nat) (rest : List Char) (line' : Nat)
    (h : scanOne cs line = .skip rest line') : line ≤ line' := by
  unfold scanOne at h
  repeat' (first | split at h | (dsimp only at h))
  all_goals first
    | (cases h; done)
    | (injection h with h1 h2; subst h2; exact Nat.le_refl _)
    | (injection h with h1 h2; subst h2; exact Nat.le_add_right _ _)

theorem scanOne_stop_line (cs : List Char) (line : Nat) (t : Tok) (h : scanOne cs line = .stop t) : t.line = line := by
  unfold scanOne at h
  repeat' (first | split at h | (dsimp only at h))
  all_goals first
    | (cases h; done)
    | (injection h with h1; subst h1; rfl)

/-- **lines along the token stream**: no token lies before the line the scan started on, and lines never decrease from one token to the next -/
theorem lexAll_lines : ∀ (fuel : Nat) (cs : List Char) (line : Nat),
    (∀ t ∈ lexAll fuel cs line, line ≤ t.line) ∧ (lexAll fuel cs line).Pairwise (fun a b => a.line ≤ b.line) := by
  intro fuel
  induction fuel with
  | zero => intro cs line; simp [lexAll]
  | succ f ih =>
    intro cs line
    cases cs with
    | nil => simp [lexAll]
    | cons c r =>
      unfold lexAll
      split
      · exact ih r line
      · split
        · rename_i t rest line' hs
          have hm := scanOne_tok_line _ _ _ _ _ hs
          obtain ⟨h1, h2⟩ := ih rest line'
          refine ⟨?_, List.pairwise_cons.mpr ⟨?_, h2⟩⟩
          · intro x hx
            rcases List.mem_cons.mp hx with rfl | hx
            · exact Nat.le_of_eq hm.1.symm
            · exact Nat.le_trans hm.2 (h1 x hx)
          · intro x hx
            rw [hm.1]; exact Nat.le_trans hm.2 (h1 x hx)
        · rename_i rest line' hs
          have hm := scanOne_skip_line _ _ _ _ hs
          obtain ⟨h1, h2⟩ := ih rest line'
          exact ⟨fun x hx => Nat.le_trans hm (h1 x hx), h2⟩
        · rename_i t hs
          have hm := scanOne_stop_line _ _ _ hs
          exact ⟨by intro x hx; simp at hx; subst hx; exact Nat.le_of_eq hm.symm, by simp⟩

/-- the first command of a file that starts on its first line is numbered 1: `lex` starts counting at 1 -/
theorem lex_starts_at_one (src : String) : ∀ t ∈ lex src, 1 ≤ t.line := (lexAll_lines _ _ 1).1

/-- a quoted string that spans lines advances the counter by the line breaks it contains (the token itself keeps its starting line) -/
theorem quoted_newlines_counted (q : Char) (hq : q = '"' ∨ q = '\'') (r content rest : List Char) (v : List Char) (line : Nat)
    (hs : scanStringBody q r [] = some (content, rest)) (hv : stringValue content = .ok v) :
    scanOne (q :: r) line = .tok ⟨.string, .str (String.ofList v), line⟩ rest (line + countNewlines content) := by
  unfold scanOne
  have hid : isIdStart q = false := by rcases hq with rfl | rfl <;> decide
  have hf : scanFloat (q :: r) = none := by
    rcases hq with rfl | rfl
    · exact scanFloat_q r
    · unfold scanFloat scanMantissa optSign spanDigits; simp [List.span, List.span.loop, isDig]
  have hi : scanInt (q :: r) = none := by
    rcases hq with rfl | rfl
    · exact scanInt_q r
    · unfold scanInt optSign spanDigits; simp [List.span, List.span.loop, isDig]
  have hqq : (q == '"' || q == '\'') = true := by rcases hq with rfl | rfl <;> decide
  simp only [hid, Bool.false_eq_true, if_false, hf, hi, hqq, if_true, hs, hv]
where
  scanFloat_q (l : List Char) : scanFloat ('"' :: l) = none := by
    unfold scanFloat scanMantissa optSign spanDigits; simp [List.span, List.span.loop, isDig]
  scanInt_q (l : List Char) : scanInt ('"' :: l) = none := by
    unfold scanInt optSign spanDigits; simp [List.span, List.span.loop, isDig]

end MPilot.C11
