/-
C02 — "... or on metadata attached to commands".

`sol_unique` compares two programs whose commands are *equal*.  Here the comparison is up to a relation `R` between commands under which the
bodies behave alike (same reads, same computation): `sol_unique_rel`.  Instantiated with "equal except for the `Metadata` arguments"
(`SameButMetadata`) it gives `metadata_inert`: attaching, changing or removing metadata on any commands of a model changes no result -
provided the bodies do not look at that argument (`hsem`), which is a fact about the `execute` bodies established by the correspondence
(every real `execute` call is replayed on a model command that has no metadata field at all).
-/
import MPilot.Props.C02

namespace MPilot.C02
open MPilot MPilot.C01

variable {Val : Type}

/-- uniqueness of the evaluation up to a relation between the commands of two programs under which bodies read and compute alike -/
theorem sol_unique_rel (sem : Sem Val) (p1 p2 : Program) (r : String → Nat) (hr : Ranked sem p1 r) (S : String → Prop)
    (R : PCmd → PCmd → Prop) (hsem : ∀ c c', R c c' → sem.pulls c = sem.pulls c' ∧ sem.compute c = sem.compute c')
    (hagree : ∀ n c, S n → p1.find? n = some c → ∃ c', p2.find? n = some c' ∧ R c c')
    (hclosed : ∀ n c, S n → p1.find? n = some c → ∀ d ∈ sem.pulls c, S d)
    (st1 st2 : St Val) (h1 : Sol sem p1 st1) (h2 : Sol sem p2 st2) :
    ∀ (k : Nat) (n : String), r n < k → S n → ∀ v1 v2, st1.get? n = some v1 → st2.get? n = some v2 → v1 = v2 := by
  intro k
  induction k with
  | zero => intro n hk; omega
  | succ k ih =>
    intro n hk hS v1 v2 hg1 hg2
    obtain ⟨c1, vals1, hc1, hf1, hcomp1⟩ := h1 n v1 hg1
    obtain ⟨c2, vals2, hc2, hf2, hcomp2⟩ := h2 n v2 hg2
    obtain ⟨c', hc', hR⟩ := hagree n c1 hS hc1
    have hcc : c2 = c' := by rw [hc2] at hc'; injection hc'
    subst hcc
    obtain ⟨hpulls, hcompute⟩ := hsem c1 c2 hR
    have hvals : vals1 = vals2 := by
      have hall : ∀ d ∈ sem.pulls c1, r d < k ∧ S d := fun d hd =>
        ⟨by have := hr n c1 hc1 d hd; omega, hclosed n c1 hS hc1 d hd⟩
      rw [← hpulls] at hf2
      clear hcomp1 hcomp2
      generalize sem.pulls c1 = ds at hf1 hf2 hall
      induction hf1 generalizing vals2 with
      | nil => cases hf2; rfl
      | @cons d x ds xs hx _ ihf =>
        cases hf2 with
        | @cons _ y _ ys hy hf2' =>
          have hd := hall d (List.mem_cons_self ..)
          rw [ih d hd.1 hd.2 x y hx hy, ihf ys hf2' fun e he => hall e (List.mem_cons_of_mem _ he)]
    rw [hvals, hcompute, hcomp2] at hcomp1
    injection hcomp1 with hcomp1
    exact hcomp1.symm

/-- the two commands carry the same result name, are instances of the same declared command and have the same arguments apart from `Metadata` -/
def SameButMetadata (c c' : PCmd) : Prop :=
  c.resultName = c'.resultName ∧ c.decl.name = c'.decl.name ∧
    c.args.filter (fun a => a.name != "Metadata") = c'.args.filter (fun a => a.name != "Metadata")

/-- **C02 (metadata is inert).**  Two models whose commands correspond one to one and differ only in the metadata attached to them - added,
removed or changed, on any of the commands - compute the same result for every command, whenever both run (bodies that do not read the
`Metadata` argument: `hsem`). -/
theorem metadata_inert (sem : Sem Val) (p p' : Program) (r r' : String → Nat) (hr : Ranked sem p r) (hr' : Ranked sem p' r')
    (hsem : ∀ c c', SameButMetadata c c' → sem.pulls c = sem.pulls c' ∧ sem.compute c = sem.compute c')
    (hp : ∀ n c, p.find? n = some c → ∃ c', p'.find? n = some c' ∧ SameButMetadata c c')
    (st st' : St Val) (h : run sem p { memo := [], log := [] } = (st, none)) (h' : run sem p' { memo := [], log := [] } = (st', none)) :
    ∀ n v v', st.get? n = some v → st'.get? n = some v' → v = v' := by
  have s1 := run_sol sem p r hr _ st (inv_init sem p) (sol_init sem p) h
  have s2 := run_sol sem p' r' hr' _ st' (inv_init sem p') (sol_init sem p') h'
  intro n v v' hv hv'
  exact sol_unique_rel sem p p' r hr (fun _ => True) SameButMetadata hsem (fun n c _ hc => hp n c hc) (fun _ _ _ _ _ _ => trivial)
    st st' s1 s2 (r n + 1) n (Nat.lt_succ_self _) trivial v v' hv hv'

/-- non-vacuity of the relation: the same command with and without a metadata tuple, and with another one -/
example :
    let d : CmdDecl := ⟨"Copy", "mpilot.libraries.eems.basic", [], none, false, false⟩
    let a : Arg := ⟨"InFieldName", .str "A", some 1⟩
    SameButMetadata ⟨"X", d, [a], some 1⟩ ⟨"X", d, [a, ⟨"Metadata", .dict [("Note", .str "n")], some 1⟩], some 1⟩ ∧
    SameButMetadata ⟨"X", d, [⟨"Metadata", .dict [("Note", .str "m")], some 2⟩, a], some 1⟩ ⟨"X", d, [a, ⟨"Metadata", .dict [], some 1⟩], some 1⟩ := by
  refine ⟨⟨rfl, rfl, ?_⟩, ⟨rfl, rfl, ?_⟩⟩ <;> simp [List.filter]

end MPilot.C02
