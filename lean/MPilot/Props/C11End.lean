/-
C11, end to end in the model: the line of every command of an accepted LF / CRLF text is its true source line.

`command_line` (Props/C11Nodes.lean): a command node carries the line of its command-name token; `lex_line_exact` (Props/C11Exact.lean): a token
carries 1 + the line feeds before the position it was scanned at.  Together, for the whole pipeline `parse = parseToks ∘ lex`:
`command_lines_exact`: every command of the parsed program carries exactly the 1-based line on which its command name was scanned.
-/
import MPilot.Props.C11Nodes
import MPilot.Props.C11Exact

namespace MPilot.C11N
open MPilot MPilot.C10R MPilot.C11X

theorem parse_go_lines : ∀ (fuel : Nat) (ts : List Tok) (acc : List CNode) (v2 : Bool) (p : PNode),
    parseToks.go fuel ts acc v2 = .ok p → ∀ c ∈ p.commands, c ∈ acc ∨ ∃ t ∈ ts, t.kind = .id ∧ c.line = t.line
  | 0, ts, acc, v2, p, h => by rw [parseToks.go] at h; cases h
  | fuel + 1, ts, acc, v2, p, h => by
    rw [parseToks.go] at h
    split at h
    · cases h
    · rename_i c0 isV2 rest hc
      obtain ⟨t0, ht0, hk0, hl0⟩ := command_line ts c0 isV2 rest hc
      obtain ⟨pre, hpre, _⟩ := command_consumes hc
      split at h
      · injection h with h; subst h
        intro c hcm
        simp only [List.mem_reverse, List.mem_cons] at hcm
        rcases hcm with rfl | hcm
        · exact Or.inr ⟨t0, ht0, hk0, hl0⟩
        · exact Or.inl hcm
      · intro c hcm
        rcases parse_go_lines fuel rest (c0 :: acc) _ p h c hcm with hin | ⟨t, ht, hk, hl⟩
        · rcases List.mem_cons.mp hin with rfl | hin
          · exact Or.inr ⟨t0, ht0, hk0, hl0⟩
          · exact Or.inl hin
        · exact Or.inr ⟨t, by rw [hpre]; exact List.mem_append_right _ ht, hk, hl⟩

/-- **every command of an accepted text carries its true line**: one plus the number of line feeds before the position at which its command name
(the second name in `Result = Command(...)`, the first token of an EEMS 2.0 command) was scanned -/
theorem command_lines_exact (src : String) (hcr : NoLoneCR src.toList) (p : PNode) (hp : parse src = .ok p) :
    ∀ c ∈ p.commands, ∃ t ∈ lex src, t.kind = .id ∧ c.line = t.line ∧ ScannedAt src.toList t := by
  intro c hc
  unfold parse parseToks at hp
  rcases parse_go_lines _ _ _ _ p hp c hc with hin | ⟨t, ht, hk, hl⟩
  · cases hin
  · exact ⟨t, ht, hk, hl, lex_line_exact src hcr t ht⟩

end MPilot.C11N
