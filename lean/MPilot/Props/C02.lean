/- C02 — theorems under construction -/
import MPilot.Model.Program
