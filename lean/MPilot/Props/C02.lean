/-
C02 — model results equal the evaluation of the graph, whatever the file order.

`Sol`: the memo satisfies the defining equations of the graph (the result of each finished command is `compute` applied to the
results of the commands it reads).  `run_sol`: a successful run establishes it.  `sol_unique`: in an acyclic graph the equations
have at most one solution — the mathematical evaluation (denotation) of the graph.  Hence the results cannot depend on the
textual order, on further consumers, or on anything else that leaves the equations of a command unchanged (metadata never
enters `compute` of the data commands: `DataCmd` has no such field).
-/
import MPilot.Props.C01

namespace MPilot.C02
open MPilot MPilot.C01

variable {Val : Type}

section
variable (sem : Sem Val) (p : Program)

/-- the value `v` recorded for `n` satisfies the graph's equation at `n` -/
def SolAt (st : St Val) (n : String) (v : Val) : Prop :=
  ∃ c vals, p.find? n = some c ∧ List.Forall₂ (fun d x => st.get? d = some x) (sem.pulls c) vals ∧ sem.compute c vals = .ok v

def Sol (st : St Val) : Prop := ∀ n v, st.get? n = some v → SolAt sem p st n v

theorem get?_stable {st st' : St Val} {m : List (String × Val)} (hm : st'.memo = st.memo ++ m) {d : String} {x : Val}
    (h : st.get? d = some x) : st'.get? d = some x := by
  unfold St.get? at *
  rw [hm, List.find?_append]
  cases hf : st.memo.find? (·.1 == d) with
  | none => rw [hf] at h; cases h
  | some kv => rw [hf] at h; simpa using h

theorem solAt_stable {st st' : St Val} {m : List (String × Val)} (hm : st'.memo = st.memo ++ m) {n : String} {v : Val}
    (h : SolAt sem p st n v) : SolAt sem p st' n v := by
  obtain ⟨c, vals, hc, hf, hcomp⟩ := h
  exact ⟨c, vals, hc, hf.imp (fun _ _ hx => get?_stable hm hx), hcomp⟩

theorem get?_append_new {st : St Val} {n : String} {v : Val} {k : String} {x : Val}
    (h : ({ memo := st.memo ++ [(n, v)], log := st.log } : St Val).get? k = some x) (hn : n ∉ names st) :
    (st.get? k = some x) ∨ (k = n ∧ x = v) := by
  unfold St.get? at *
  rw [List.find?_append] at h
  cases hf : st.memo.find? (·.1 == k) with
  | none =>
    rw [hf] at h
    right
    simp only [Option.none_or, List.find?_cons, List.find?_nil] at h
    by_cases hk : n == k
    · simp only [hk] at h
      exact ⟨(beq_iff_eq.mp hk).symm, by simpa using h.symm⟩
    · simp [hk] at h
  | some kv => rw [hf] at h; left; simpa using h

variable (r : String → Nat)

/-- reading loop: the values handed to the body are the memoised results of what it reads, and `Sol` is maintained -/
theorem pull_sol (fuel : Nat) (hr : Ranked sem p r)
    (ih : ∀ O st n st', InvO sem p O st → Sol sem p st → runCmd sem p fuel st n = (st', none) → Sol sem p st')
    (O : List String) :
    ∀ (ds : List String) (s : St Val) (acc : List Val) (s' : St Val) (vals : List Val), InvO sem p O s → Sol sem p s →
      runCmd.pull sem p fuel ds s acc = (s', .ok vals) →
      Sol sem p s' ∧ ∃ vs, vals = acc.reverse ++ vs ∧ List.Forall₂ (fun d x => s'.get? d = some x) ds vs := by
  intro ds
  induction ds with
  | nil =>
    intro s acc s' vals _ hsol h
    unfold runCmd.pull at h
    injection h with h1 h2; subst h1; injection h2 with h2; subst h2
    exact ⟨hsol, [], by simp, .nil⟩
  | cons d ds ihd =>
    intro s acc s' vals hinv hsol h
    unfold runCmd.pull at h
    cases hrun : runCmd sem p fuel s d with
    | mk s1 oe =>
      rw [hrun] at h
      cases oe with
      | some e => simp at h
      | none =>
        simp only at h
        obtain ⟨step1, _⟩ := runCmd_ok sem p r hr fuel O s d s1 hinv hrun
        have hsol1 := ih O s d s1 hinv hsol hrun
        cases hget : s1.get? d with
        | none => rw [hget] at h; simp at h
        | some v =>
          rw [hget] at h
          simp only at h
          obtain ⟨hsol', vs, hvs, hf⟩ := ihd s1 (v :: acc) s' vals step1.inv hsol1 h
          obtain ⟨step2, _⟩ := pull_ok sem p r fuel (fun O st n st' hi hrn => runCmd_ok sem p r hr fuel O st n st' hi hrn) O
            (ds.foldl (fun b x => max b (r x + 1)) 0 + 1) ds s1 (v :: acc) s' vals (by
              intro x hx
              have : ∀ (l : List String) (b : Nat), x ∈ l → r x < l.foldl (fun b y => max b (r y + 1)) b := by
                intro l
                induction l with
                | nil => intro b hx; cases hx
                | cons y t iht =>
                  intro b hx
                  rw [List.foldl_cons]
                  rcases List.mem_cons.mp hx with rfl | hx
                  · have mono : ∀ (l : List String) (b : Nat), b ≤ l.foldl (fun b y => max b (r y + 1)) b := by
                      intro l; induction l with
                      | nil => intro b; exact Nat.le_refl _
                      | cons z t ihz => intro b; rw [List.foldl_cons]; exact Nat.le_trans (Nat.le_max_left _ _) (ihz _)
                    have := mono t (max b (r x + 1))
                    have h2 : r x + 1 ≤ max b (r x + 1) := Nat.le_max_right _ _
                    omega
                  · exact iht _ hx
              have := this ds 0 hx
              omega) step1.inv h
          obtain ⟨m2, hm2, _⟩ := step2.memoExt
          refine ⟨hsol', v :: vs, by rw [hvs]; simp, .cons (get?_stable hm2 hget) hf⟩

/-- a successful `Command.run` maintains `Sol` -/
theorem runCmd_sol (hr : Ranked sem p r) :
    ∀ (fuel : Nat) (O : List String) (st : St Val) (n : String) (st' : St Val), InvO sem p O st → Sol sem p st →
      runCmd sem p fuel st n = (st', none) → Sol sem p st' := by
  intro fuel
  induction fuel with
  | zero => intro O st n st' _ _ h; unfold runCmd at h; simp at h
  | succ fuel ih =>
    intro O st n st' hinv hsol h
    have hok := runCmd_ok sem p r hr (fuel + 1) O st n st' hinv h
    unfold runCmd at h
    by_cases hmemo : (st.get? n).isSome = true
    · rw [if_pos hmemo] at h; injection h with h1 _; subst h1; exact hsol
    · rw [if_neg hmemo] at h
      have hnot : n ∉ names st := fun hm => hmemo ((get?_isSome_iff st n).mpr hm)
      cases hfind : p.find? n with
      | none => rw [hfind] at h; simp at h
      | some c =>
        rw [hfind] at h
        simp only at h
        cases hval : validateParams (mkCtx sem p st) c with
        | error e => rw [hval] at h; simp at h
        | ok u =>
          rw [hval] at h
          simp only at h
          have hinv1 : InvO sem p (n :: O) { memo := st.memo, log := st.log ++ [Ev.start n] } := by
            refine ⟨hinv.nodup, ?_, ?_, hinv.ordered⟩
            · show finishes (st.log ++ [Ev.start n]) = names st
              rw [finishes_append, hinv.fin]; simp [finishes]
            · show (starts (st.log ++ [Ev.start n])).Perm (finishes (st.log ++ [Ev.start n]) ++ n :: O)
              rw [starts_append, finishes_append]
              have e1 : starts [Ev.start n] = [n] := rfl
              have e2 : finishes [Ev.start n] = [] := rfl
              rw [e1, e2, List.append_nil]
              exact (hinv.bal.append_right [n]).trans (by
                rw [List.append_assoc]
                exact List.Perm.append_left _ (List.perm_append_comm.trans (by simp)))
          have hsol1 : Sol sem p ({ memo := st.memo, log := st.log ++ [Ev.start n] } : St Val) := by
            intro k x hk; exact hsol k x hk
          cases hpull : runCmd.pull sem p fuel (sem.pulls c) { memo := st.memo, log := st.log ++ [Ev.start n] } [] with
          | mk s2 ev =>
            rw [hpull] at h
            cases ev with
            | error e => simp at h
            | ok vals =>
              simp only at h
              cases hcomp : sem.compute c vals with
              | error e => rw [hcomp] at h; simp at h
              | ok v =>
                rw [hcomp] at h
                simp only at h
                injection h with h1 _; subst h1
                obtain ⟨hsol2, vs, hvs, hf⟩ := pull_sol sem p r fuel hr ih (n :: O) (sem.pulls c) _ [] s2 vals hinv1 hsol1 hpull
                simp only [List.reverse_nil, List.nil_append] at hvs
                subst hvs
                obtain ⟨step2, _⟩ := pull_ok sem p r fuel (fun O st n st' hi hrn => runCmd_ok sem p r hr fuel O st n st' hi hrn)
                  (n :: O) (r n) (sem.pulls c) _ [] s2 vals (fun d hd => hr n c hfind d hd) hinv1 hpull
                obtain ⟨m, hm, hmr⟩ := step2.memoExt
                have hn2 : n ∉ names s2 := by
                  have : names s2 = names st ++ m.map (·.1) := by simp [names, hm]
                  rw [this]
                  intro hmem
                  rcases List.mem_append.mp hmem with hmem | hmem
                  · exact hnot hmem
                  · exact absurd (hmr n hmem) (Nat.lt_irrefl _)
                have hstab : ∀ {d : String} {x : Val}, s2.get? d = some x →
                    ({ memo := s2.memo ++ [(n, v)], log := s2.log ++ [Ev.finish n] } : St Val).get? d = some x :=
                  fun hx => get?_stable (m := [(n, v)]) rfl hx
                intro k x hk
                have hk' : ({ memo := s2.memo ++ [(n, v)], log := s2.log } : St Val).get? k = some x := hk
                rcases get?_append_new hk' hn2 with hold | ⟨rfl, rfl⟩
                · exact solAt_stable sem p (m := [(n, v)]) rfl (hsol2 k x hold)
                · exact ⟨c, vals, hfind, hf.imp (fun _ _ hx => hstab hx), hcomp⟩

theorem go_sol (hr : Ranked sem p r) :
    ∀ (leaves : List PCmd) (st st' : St Val), InvO sem p [] st → Sol sem p st → run.go sem p leaves st = (st', none) → Sol sem p st' := by
  intro leaves
  induction leaves with
  | nil => intro st st' _ hsol h; unfold run.go at h; injection h with h1 _; subst h1; exact hsol
  | cons c rest ih =>
    intro st st' hinv hsol h
    unfold run.go at h
    cases hrun : runCmd sem p (p.cmds.length + 1) st c.resultName with
    | mk s1 oe =>
      rw [hrun] at h
      cases oe with
      | some e => simp at h
      | none =>
        simp only at h
        obtain ⟨step1, _⟩ := runCmd_ok sem p r hr _ [] st c.resultName s1 hinv hrun
        exact ih s1 st' step1.inv (runCmd_sol sem p r hr _ [] st c.resultName s1 hinv hsol hrun) h

/-- **the run loop computes a solution of the graph's equations** -/
theorem run_sol (hr : Ranked sem p r) (st st' : St Val) (hinv : InvO sem p [] st) (hsol : Sol sem p st)
    (h : run sem p st = (st', none)) : Sol sem p st' := by
  unfold run at h
  split at h
  · simp at h
  · split at h
    · simp at h
    · exact go_sol sem p r hr _ st st' hinv hsol h

theorem sol_init : Sol sem p ({ memo := [], log := [] } : St Val) := by
  intro n v h; simp [St.get?] at h

end

/-- **uniqueness of the evaluation.**  Two programs that agree (same command, same reads, same computation) on a set `S` of result names
closed under "reads" assign the same value to every name of `S`, in any two states that satisfy their equations. -/
theorem sol_unique (sem : Sem Val) (p1 p2 : Program) (r : String → Nat) (hr : Ranked sem p1 r) (S : String → Prop)
    (hagree : ∀ n, S n → p1.find? n = p2.find? n)
    (hclosed : ∀ n c, S n → p1.find? n = some c → ∀ d ∈ sem.pulls c, S d)
    (st1 st2 : St Val) (h1 : Sol sem p1 st1) (h2 : Sol sem p2 st2) :
    ∀ (k : Nat) (n : String), r n < k → S n → ∀ v1 v2, st1.get? n = some v1 → st2.get? n = some v2 → v1 = v2 := by
  intro k
  induction k with
  | zero => intro n hk; omega
  | succ k ih =>
    intro n hk hS v1 v2 hg1 hg2
    obtain ⟨c1, vals1, hc1, hf1, hcomp1⟩ := h1 n v1 hg1
    obtain ⟨c2, vals2, hc2, hf2, hcomp2⟩ := h2 n v2 hg2
    have hc : c1 = c2 := by
      have := hagree n hS; rw [hc1, hc2] at this; injection this
    subst hc
    have hvals : vals1 = vals2 := by
      have hall : ∀ d ∈ sem.pulls c1, r d < k ∧ S d := fun d hd =>
        ⟨by have := hr n c1 hc1 d hd; omega, hclosed n c1 hS hc1 d hd⟩
      clear hcomp1 hcomp2
      generalize sem.pulls c1 = ds at hf1 hf2 hall
      induction hf1 generalizing vals2 with
      | nil => cases hf2; rfl
      | @cons d x ds xs hx _ ihf =>
        cases hf2 with
        | @cons _ y _ ys hy hf2' =>
          have hd := hall d (List.mem_cons_self ..)
          rw [ih d hd.1 hd.2 x y hx hy, ihf ys hf2' fun e he => hall e (List.mem_cons_of_mem _ he)]
    rw [hvals, hcomp2] at hcomp1
    injection hcomp1 with hcomp1
    exact hcomp1.symm

/-- lookups by result name do not depend on the order of the commands when result names are distinct -/
theorem find?_perm {l l' : List PCmd} (hp : l.Perm l') (hnd : (l.map (·.resultName)).Nodup) (n : String) :
    l.find? (·.resultName == n) = l'.find? (·.resultName == n) := by
  have hnd' : (l'.map (·.resultName)).Nodup := (hp.map _).nodup_iff.mp hnd
  have key : ∀ (L : List PCmd), (L.map (·.resultName)).Nodup → ∀ c, (L.find? (·.resultName == n) = some c ↔ c ∈ L ∧ c.resultName = n) := by
    intro L
    induction L with
    | nil => intro _ c; simp
    | cons a t iht =>
      intro hN c
      simp only [List.map_cons, List.nodup_cons] at hN
      simp only [List.find?_cons]
      by_cases ha : a.resultName == n
      · simp only [ha, Option.some.injEq, List.mem_cons]
        constructor
        · rintro rfl; exact ⟨Or.inl rfl, beq_iff_eq.mp ha⟩
        · rintro ⟨hc | hc, hn⟩
          · exact hc.symm
          · exfalso; apply hN.1
            rw [beq_iff_eq.mp ha, ← hn]
            exact List.mem_map.mpr ⟨c, hc, rfl⟩
      · simp only [ha]
        rw [iht hN.2 c]
        constructor
        · rintro ⟨hc, hn⟩; exact ⟨List.mem_cons_of_mem _ hc, hn⟩
        · rintro ⟨hc, hn⟩
          rcases List.mem_cons.mp hc with rfl | hc
          · exact absurd (beq_iff_eq.mpr hn) ha
          · exact ⟨hc, hn⟩
  cases h1 : l.find? (·.resultName == n) with
  | none =>
    cases h2 : l'.find? (·.resultName == n) with
    | none => rfl
    | some c =>
      have := (key l' hnd' c).mp h2
      have h3 := (key l hnd c).mpr ⟨hp.mem_iff.mpr this.1, this.2⟩
      rw [h1] at h3; cases h3
  | some c =>
    have := (key l hnd c).mp h1
    exact ((key l' hnd' c).mpr ⟨hp.mem_iff.mp this.1, this.2⟩).symm

/-- **C02 (order independence).**  Two command files that contain the same commands in different orders (distinct result names,
acyclic references) and both run successfully give every command the same result. -/
theorem results_order_independent (sem : Sem Val) (p p' : Program) (r : String → Nat) (hperm : p.cmds.Perm p'.cmds)
    (hnd : (p.cmds.map (·.resultName)).Nodup) (hr : Ranked sem p r)
    (st st' : St Val) (h : run sem p { memo := [], log := [] } = (st, none)) (h' : run sem p' { memo := [], log := [] } = (st', none)) :
    ∀ n v v', st.get? n = some v → st'.get? n = some v' → v = v' := by
  have hfind : ∀ n, p.find? n = p'.find? n := fun n => find?_perm hperm hnd n
  have hr' : Ranked sem p' r := fun n c hc d hd => hr n c (by rw [hfind n]; exact hc) d hd
  have s1 := run_sol sem p r hr _ st (inv_init sem p) (sol_init sem p) h
  have s2 := run_sol sem p' r hr' _ st' (inv_init sem p') (sol_init sem p') h'
  intro n v v' hv hv'
  exact sol_unique sem p p' r hr (fun _ => True) (fun n _ => hfind n) (fun _ _ _ _ _ _ => trivial) st st' s1 s2 (r n + 1) n
    (Nat.lt_succ_self _) trivial v v' hv hv'

/-- **C02 (other consumers are irrelevant).**  Adding commands to a model (further consumers of intermediate results, or anything else
with fresh result names) does not change the result of any command of the original model. -/
theorem results_unaffected_by_added_commands (sem : Sem Val) (p p' : Program) (r r' : String → Nat)
    (hr : Ranked sem p r) (hr' : Ranked sem p' r')
    (hext : ∀ n c, p.find? n = some c → p'.find? n = some c)
    (hinside : ∀ n c, p.find? n = some c → ∀ d ∈ sem.pulls c, (p.find? d).isSome = true)
    (st st' : St Val) (h : run sem p { memo := [], log := [] } = (st, none)) (h' : run sem p' { memo := [], log := [] } = (st', none)) :
    ∀ n v v', (p.find? n).isSome = true → st.get? n = some v → st'.get? n = some v' → v = v' := by
  have s1 := run_sol sem p r hr _ st (inv_init sem p) (sol_init sem p) h
  have s2 := run_sol sem p' r' hr' _ st' (inv_init sem p') (sol_init sem p') h'
  intro n v v' hn hv hv'
  refine sol_unique sem p p' r hr (fun k => (p.find? k).isSome = true) ?_ ?_ st st' s1 s2 (r n + 1) n (Nat.lt_succ_self _) hn v v' hv hv'
  · intro k hk
    obtain ⟨c, hc⟩ := Option.isSome_iff_exists.mp hk
    rw [hc, hext k c hc]
  · intro k c _ hc d hd
    exact hinside k c hc d hd

/-! ### "any data result may feed any data input of compatible fuzziness" -/

/-- **composability.**  A data input (a reference parameter asking for data, with or without a fuzziness requirement - directly or as an item of a list)
accepts the name of every command of the program that declares a data output and whose fuzziness is compatible: before that command has run
(its declaration is checked) and after it has run and holds an array (its result is checked).  Nothing else about the producer matters -
which command it is, where it stands in the file, who else consumes it. -/
theorem data_feeds_data (ctx : Ctx) (fz : Option Bool) (s : String) (info : CmdInfo)
    (hl : ctx.lookup s = some info) (hout : info.output = some .data)
    (hfz : fz = none ∨ fz = some info.isFuzzy) (hres : info.finished = true → info.resultKind = .array) :
    clean ctx (.result (some .data) fz) (.str s) = .ok (.cmd s) := by
  unfold clean
  have h1 : ¬ (fz == some true && !info.isFuzzy) = true := by
    rcases hfz with rfl | rfl
    · simp
    · cases info.isFuzzy <;> simp
  have h2 : ¬ (fz == some false && info.isFuzzy) = true := by
    rcases hfz with rfl | rfl
    · simp
    · cases info.isFuzzy <;> simp
  simp only [hl, Option.isSome_some, if_true]
  rw [if_neg h1, if_neg h2]
  cases hfin : info.finished with
  | true =>
    have := hres hfin
    simp [this]
    decide
  | false =>
    simp [hout, PClass.acceptsOutput, PClass.isStringClass, PClass.subclassOf]
    intro _ _; decide

/-- ... and an input that demands the other fuzziness refuses it with the specific error, whatever else holds -/
theorem data_wrong_fuzziness (ctx : Ctx) (ot : Option PClass) (s : String) (info : CmdInfo) (hl : ctx.lookup s = some info) :
    (info.isFuzzy = false → clean ctx (.result ot (some true)) (.str s) = .error "ResultNotFuzzy") ∧
    (info.isFuzzy = true → clean ctx (.result ot (some false)) (.str s) = .error "ResultIsFuzzy") := by
  constructor <;> intro h <;> unfold clean <;> simp [hl, h]

/-- a list of such names is accepted item by item -/
theorem data_list_feeds (ctx : Ctx) (fz : Option Bool) : ∀ (names : List String),
    (∀ s ∈ names, ∃ info, ctx.lookup s = some info ∧ info.output = some .data ∧ (fz = none ∨ fz = some info.isFuzzy) ∧
      (info.finished = true → info.resultKind = .array)) →
    clean ctx (.list (.result (some .data) fz)) (.list (names.map Raw.str)) = .ok (.list (names.map Clean.cmd)) := by
  intro names h
  have key : ∀ (ns : List String), (∀ s ∈ ns, s ∈ names) →
      cleanList ctx (.result (some .data) fz) (ns.map Raw.str) = .ok (ns.map Clean.cmd) := by
    intro ns
    induction ns with
    | nil => intro _; simp [cleanList]
    | cons n rest ih =>
      intro hsub
      obtain ⟨info, hl, hout, hfz, hres⟩ := h n (hsub n List.mem_cons_self)
      simp only [List.map_cons, cleanList]
      rw [data_feeds_data ctx fz n info hl hout hfz hres]
      simp only [ih (fun s hs => hsub s (List.mem_cons_of_mem _ hs))]
  unfold clean
  simp only [key names (fun s hs => hs), Except.map]

end MPilot.C02
