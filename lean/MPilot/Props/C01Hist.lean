/-
C01 (histories) — what holds after ANY outcome of `Command.run` / `Program.run`, failures included, and therefore at every point of
any history of runs and result reads over one program: runs that stop with an error (a failing body, a rejected argument, an unknown
name), whose cause is then removed (the body's behaviour may differ from one step of the history to the next), runs that are
repeated, results that are read in between.

`FInv` is the part of C01's invariant that does not speak about bodies still open: finished commands are recorded once, the log's
finishes are exactly the recorded commands in order, and every finished command's inputs finished before it.  It is preserved by
every outcome (`runCmd_any`, `run_any`), the memo only grows (`MemoExt`): a finished command never executes again and its stored
result never changes - whatever failed in between.
-/
import MPilot.Props.C01

namespace MPilot.C01
open MPilot

variable {Val : Type}

/-- the failure-proof part of the invariant -/
structure FInv (sem : Sem Val) (p : Program) (st : St Val) : Prop where
  nodup : (names st).Nodup
  fin : finishes st.log = names st
  ordered : ∀ pre n post, names st = pre ++ n :: post → ∀ c, p.find? n = some c → ∀ d ∈ sem.pulls c, d ∈ pre

/-- one evaluation step, whatever its outcome: invariant kept, log and memo only extended, nothing of rank ≥ `bound` finished -/
structure Ext (sem : Sem Val) (p : Program) (r : String → Nat) (bound : Nat) (st st' : St Val) : Prop where
  inv : FInv sem p st'
  logExt : ∃ ext, st'.log = st.log ++ ext
  memoExt : ∃ m, st'.memo = st.memo ++ m ∧ ∀ x ∈ m.map (·.1), r x < bound

theorem Ext.refl {sem : Sem Val} {p r b st} (h : FInv sem p st) : Ext sem p r b st st :=
  ⟨h, ⟨[], by simp⟩, ⟨[], by simp, by simp⟩⟩

theorem Ext.trans {sem : Sem Val} {p r b1 b2 st1 st2 st3} (h1 : Ext sem p r b1 st1 st2) (h2 : Ext sem p r b2 st2 st3)
    (b : Nat) (hb1 : b1 ≤ b) (hb2 : b2 ≤ b) : Ext sem p r b st1 st3 := by
  obtain ⟨e1, he1⟩ := h1.logExt
  obtain ⟨e2, he2⟩ := h2.logExt
  obtain ⟨m1, hm1, hr1⟩ := h1.memoExt
  obtain ⟨m2, hm2, hr2⟩ := h2.memoExt
  refine ⟨h2.inv, ⟨e1 ++ e2, by rw [he2, he1, List.append_assoc]⟩, ⟨m1 ++ m2, by rw [hm2, hm1, List.append_assoc], ?_⟩⟩
  intro x hx
  simp only [List.map_append, List.mem_append] at hx
  rcases hx with hx | hx
  · exact Nat.lt_of_lt_of_le (hr1 x hx) hb1
  · exact Nat.lt_of_lt_of_le (hr2 x hx) hb2

theorem Ext.names_ext {sem : Sem Val} {p r b st st'} (h : Ext sem p r b st st') :
    ∃ m : List String, names st' = names st ++ m ∧ ∀ x ∈ m, r x < b := by
  obtain ⟨m, hm, hr⟩ := h.memoExt
  exact ⟨m.map (·.1), by simp [names, hm], hr⟩

variable (sem : Sem Val) (p : Program) (r : String → Nat)

/-- the reading loop of a body, whatever its outcome -/
theorem pull_any (fuel : Nat)
    (ih : ∀ st n st' oe, FInv sem p st → runCmd sem p fuel st n = (st', oe) →
      Ext sem p r (r n + 1) st st' ∧ (oe = none → n ∈ names st'))
    (bound : Nat) :
    ∀ (ds : List String) (s : St Val) (acc : List Val) (s' : St Val) (res : Except PErr (List Val)),
      (∀ d ∈ ds, r d < bound) → FInv sem p s →
      runCmd.pull sem p fuel ds s acc = (s', res) →
      Ext sem p r bound s s' ∧ (∀ vals, res = .ok vals → ∀ d ∈ ds, d ∈ names s') := by
  intro ds
  induction ds with
  | nil =>
    intro s acc s' res _ hinv h
    unfold runCmd.pull at h
    injection h with h1 h2; subst h1
    exact ⟨Ext.refl hinv, by simp⟩
  | cons d ds ihd =>
    intro s acc s' res hds hinv h
    unfold runCmd.pull at h
    have hd := hds d (List.mem_cons_self ..)
    cases hrun : runCmd sem p fuel s d with
    | mk s1 oe =>
      rw [hrun] at h
      obtain ⟨step1, hmem1⟩ := ih s d s1 oe hinv hrun
      have step1' : Ext sem p r bound s s1 := Ext.trans (Ext.refl hinv) step1 bound (Nat.zero_le _ |> fun _ => by omega) (by omega)
      cases oe with
      | some e =>
        simp only at h
        injection h with h1 h2; subst h1; subst h2
        exact ⟨step1', by intro vals hv; cases hv⟩
      | none =>
        simp only at h
        cases hget : s1.get? d with
        | none =>
          rw [hget] at h
          simp only at h
          injection h with h1 h2; subst h1; subst h2
          exact ⟨step1', by intro vals hv; cases hv⟩
        | some v =>
          rw [hget] at h
          simp only at h
          obtain ⟨step2, hall⟩ := ihd s1 (v :: acc) s' res (fun x hx => hds x (List.mem_cons_of_mem _ hx)) step1.inv h
          refine ⟨Ext.trans step1' step2 bound (Nat.le_refl _) (Nat.le_refl _), ?_⟩
          intro vals hv x hx
          rcases List.mem_cons.mp hx with rfl | hx
          · obtain ⟨m, hm, _⟩ := step2.names_ext
            rw [hm]; exact List.mem_append_left _ (hmem1 rfl)
          · exact hall vals hv x hx

/-- **every outcome of `Command.run` / `.result` keeps the invariant** (acyclic program): whether the command finishes, its body or one of
its inputs fails, an argument is refused or the name is unknown - finished commands stay finished, exactly once, in dependency order;
nothing of higher rank than `n` finished; on success `n` is finished -/
theorem runCmd_any (hr : Ranked sem p r) :
    ∀ (fuel : Nat) (st : St Val) (n : String) (st' : St Val) (oe : Option PErr), FInv sem p st →
      runCmd sem p fuel st n = (st', oe) → Ext sem p r (r n + 1) st st' ∧ (oe = none → n ∈ names st') := by
  intro fuel
  induction fuel with
  | zero =>
    intro st n st' oe hinv h
    unfold runCmd at h
    injection h with h1 h2; subst h1; subst h2
    exact ⟨Ext.refl hinv, by intro h; cases h⟩
  | succ fuel ih =>
    intro st n st' oe hinv h
    unfold runCmd at h
    by_cases hmemo : (st.get? n).isSome = true
    · rw [if_pos hmemo] at h
      injection h with h1 _; subst h1
      exact ⟨Ext.refl hinv, fun _ => (get?_isSome_iff st n).mp hmemo⟩
    · rw [if_neg hmemo] at h
      have hnot : n ∉ names st := fun hm => hmemo ((get?_isSome_iff st n).mpr hm)
      cases hfind : p.find? n with
      | none =>
        rw [hfind] at h
        simp only at h
        injection h with h1 h2; subst h1; subst h2
        exact ⟨Ext.refl hinv, by intro h; cases h⟩
      | some c =>
        rw [hfind] at h
        simp only at h
        cases hval : validateParams (mkCtx sem p st) c with
        | error e =>
          rw [hval] at h
          simp only at h
          injection h with h1 h2; subst h1; subst h2
          exact ⟨Ext.refl hinv, by intro h; cases h⟩
        | ok u =>
          rw [hval] at h
          simp only at h
          -- state after entering the body: nothing finished, the invariant does not see the open body
          have hinv1 : FInv sem p { memo := st.memo, log := st.log ++ [Ev.start n] } := by
            refine ⟨hinv.nodup, ?_, hinv.ordered⟩
            show finishes (st.log ++ [Ev.start n]) = names st
            rw [finishes_append, hinv.fin]; simp [finishes]
          have hstart : Ext sem p r (r n + 1) st { memo := st.memo, log := st.log ++ [Ev.start n] } :=
            ⟨hinv1, ⟨[Ev.start n], rfl⟩, ⟨[], by simp, by simp⟩⟩
          cases hpull : runCmd.pull sem p fuel (sem.pulls c) { memo := st.memo, log := st.log ++ [Ev.start n] } [] with
          | mk s2 ev =>
            rw [hpull] at h
            obtain ⟨step2, hall⟩ := pull_any sem p r fuel ih (r n) (sem.pulls c) _ [] s2 ev
              (fun d hd => hr n c hfind d hd) hinv1 hpull
            have step2' : Ext sem p r (r n + 1) st s2 := Ext.trans hstart step2 (r n + 1) (Nat.le_refl _) (Nat.le_succ _)
            cases ev with
            | error e =>
              simp only at h
              injection h with h1 h2; subst h1; subst h2
              exact ⟨step2', by intro h; cases h⟩
            | ok vals =>
              simp only at h
              cases hcomp : sem.compute c vals with
              | error e =>
                rw [hcomp] at h
                simp only at h
                injection h with h1 h2; subst h1; subst h2
                exact ⟨step2', by intro h; cases h⟩
              | ok v =>
                rw [hcomp] at h
                simp only at h
                injection h with h1 _; subst h1
                obtain ⟨ext, hext⟩ := step2'.logExt
                obtain ⟨m, hm, hmr⟩ := step2.memoExt
                have hm' : s2.memo = st.memo ++ m := hm
                have hnames2 : names s2 = names st ++ m.map (·.1) := by simp [names, hm']
                have hn2 : n ∉ names s2 := by
                  rw [hnames2]
                  intro hmem
                  rcases List.mem_append.mp hmem with hmem | hmem
                  · exact hnot hmem
                  · exact absurd (hmr n hmem) (Nat.lt_irrefl _)
                have hN : names ({ memo := s2.memo ++ [(n, v)], log := s2.log ++ [Ev.finish n] } : St Val) = names s2 ++ [n] := by
                  simp [names]
                refine ⟨⟨⟨?_, ?_, ?_⟩, ⟨ext ++ [Ev.finish n], ?_⟩, ⟨m ++ [(n, v)], ?_, ?_⟩⟩, ?_⟩
                · rw [hN]
                  exact List.nodup_append.mpr ⟨step2.inv.nodup, by simp, by
                    intro a ha b hb; simp at hb; subst hb; intro e; subst e; exact hn2 ha⟩
                · rw [hN]
                  show finishes (s2.log ++ [Ev.finish n]) = names s2 ++ [n]
                  rw [finishes_append, step2.inv.fin]; rfl
                · intro pre x post hsplit cx hcx d hd
                  have hsplit' : names s2 ++ [n] = pre ++ x :: post := by rw [← hN]; exact hsplit
                  by_cases hpost : post = []
                  · subst hpost
                    have := List.append_inj' hsplit' (by simp)
                    obtain ⟨h1, h2⟩ := this
                    injection h2 with h2 _; subst h2; subst h1
                    rw [hfind] at hcx; injection hcx with hcx; subst hcx
                    exact hall vals rfl d hd
                  · obtain ⟨post', y, rfl⟩ : ∃ post' y, post = post' ++ [y] := by
                      exact ⟨post.dropLast, post.getLast hpost, (List.dropLast_append_getLast hpost).symm⟩
                    have : names s2 ++ [n] = (pre ++ x :: post') ++ [y] := by rw [hsplit']; simp
                    have h3 := List.append_inj' this (by simp)
                    exact step2.inv.ordered pre x post' (by rw [h3.1]) cx hcx d hd
                · show s2.log ++ [Ev.finish n] = st.log ++ (ext ++ [Ev.finish n])
                  rw [hext]; simp
                · show s2.memo ++ [(n, v)] = st.memo ++ (m ++ [(n, v)])
                  rw [hm']; simp
                · intro x hx
                  simp only [List.map_append, List.map_cons, List.map_nil, List.mem_append, List.mem_singleton] at hx
                  rcases hx with hx | hx
                  · have := hmr x hx; omega
                  · subst hx; exact Nat.lt_succ_self _
                · intro _; rw [hN]; simp

/-- the loop of `Program.run` over the leaves, whatever its outcome -/
theorem go_any (hr : Ranked sem p r) :
    ∀ (leaves : List PCmd) (st st' : St Val) (oe : Option PErr), FInv sem p st → run.go sem p leaves st = (st', oe) →
      FInv sem p st' ∧ (∃ ext, st'.log = st.log ++ ext) ∧ (∃ m, st'.memo = st.memo ++ m) := by
  intro leaves
  induction leaves with
  | nil =>
    intro st st' oe hinv h
    unfold run.go at h
    injection h with h1 _; subst h1
    exact ⟨hinv, ⟨[], by simp⟩, ⟨[], by simp⟩⟩
  | cons c rest ih =>
    intro st st' oe hinv h
    unfold run.go at h
    cases hrun : runCmd sem p (p.cmds.length + 1) st c.resultName with
    | mk s1 oe1 =>
      rw [hrun] at h
      obtain ⟨step1, _⟩ := runCmd_any sem p r hr _ st c.resultName s1 oe1 hinv hrun
      obtain ⟨e1, he1⟩ := step1.logExt
      obtain ⟨m1, hm1, _⟩ := step1.memoExt
      cases oe1 with
      | some e =>
        simp only at h
        injection h with h1 _; subst h1
        exact ⟨step1.inv, ⟨e1, he1⟩, ⟨m1, hm1⟩⟩
      | none =>
        simp only at h
        obtain ⟨hinv', ⟨e2, he2⟩, ⟨m2, hm2⟩⟩ := ih s1 st' oe step1.inv h
        exact ⟨hinv', ⟨e1 ++ e2, by rw [he2, he1, List.append_assoc]⟩, ⟨m1 ++ m2, by rw [hm2, hm1, List.append_assoc]⟩⟩

/-- **every outcome of `Program.run` keeps the invariant**: rejected before execution (nothing changes), stopped by a failing command, or
completed - the log and the stored results only grow -/
theorem run_any (hr : Ranked sem p r) (st st' : St Val) (oe : Option PErr) (hinv : FInv sem p st) (h : run sem p st = (st', oe)) :
    FInv sem p st' ∧ (∃ ext, st'.log = st.log ++ ext) ∧ (∃ m, st'.memo = st.memo ++ m) := by
  unfold run at h
  split at h
  · injection h with h1 _; subst h1; exact ⟨hinv, ⟨[], by simp⟩, ⟨[], by simp⟩⟩
  · split at h
    · injection h with h1 _; subst h1; exact ⟨hinv, ⟨[], by simp⟩, ⟨[], by simp⟩⟩
    · exact go_any sem p r hr _ st st' oe hinv h

theorem finv_init : FInv sem p ({ memo := [], log := [] } : St Val) :=
  ⟨by simp [names], by simp [finishes, names], by intro pre n post h; simp [names] at h⟩

/-! ### histories -/

/-- one step of a history: `Program.run()` or a read of one command's `.result`, under the bodies' behaviour of that moment -/
inductive HOp
  | run
  | result (n : String)

/-- the state after one step (the error, if any, is dropped: the caller catches it and goes on) -/
def hstep (p : Program) (st : St Val) (x : Sem Val × HOp) : St Val :=
  match x.2 with
  | .run => (run x.1 p st).1
  | .result n => (runCmd x.1 p (p.cmds.length + 1) st n).1

def history (p : Program) (ops : List (Sem Val × HOp)) : St Val := ops.foldl (hstep p) { memo := [], log := [] }

/-- `FInv` only looks at what the bodies read, not at what they compute: it can be carried from one behaviour to another -/
theorem FInv.congr {sem sem' : Sem Val} {p : Program} {st : St Val} (h : FInv sem p st) (hp : sem'.pulls = sem.pulls) : FInv sem' p st :=
  ⟨h.nodup, h.fin, by rw [hp]; exact h.ordered⟩

theorem Ranked.congr {sem sem' : Sem Val} {p : Program} {r : String → Nat} (h : Ranked sem p r) (hp : sem'.pulls = sem.pulls) : Ranked sem' p r := by
  unfold Ranked at *; rw [hp]; exact h

theorem hstep_any (hr : Ranked sem p r) (st : St Val) (x : Sem Val × HOp) (hx : x.1.pulls = sem.pulls) (hinv : FInv sem p st) :
    FInv sem p (hstep p st x) ∧ (∃ ext, (hstep p st x).log = st.log ++ ext) ∧ (∃ m, (hstep p st x).memo = st.memo ++ m) := by
  have hr' : Ranked x.1 p r := Ranked.congr hr hx
  have hinv' : FInv x.1 p st := hinv.congr hx
  unfold hstep
  cases hop : x.2 with
  | run =>
    simp only
    cases hrun : run x.1 p st with
    | mk s' oe =>
      obtain ⟨h1, h2, h3⟩ := run_any x.1 p r hr' st s' oe hinv' hrun
      exact ⟨h1.congr hx.symm, h2, h3⟩
  | result n =>
    simp only
    cases hrun : runCmd x.1 p (p.cmds.length + 1) st n with
    | mk s' oe =>
      obtain ⟨step, _⟩ := runCmd_any x.1 p r hr' _ st n s' oe hinv' hrun
      obtain ⟨m, hm, _⟩ := step.memoExt
      exact ⟨step.inv.congr hx.symm, step.logExt, ⟨m, hm⟩⟩

/-- **C01 over whole histories.**  Take any acyclic program and any sequence of `run()` calls and `.result` reads, each under its own behaviour of
the bodies (a body may fail at one step and succeed at a later one: a file repaired, a service back) as long as bodies read the same inputs.
After the whole history - failed steps included - and hence at every point of it:
* no command has completed twice (`(finishes log).Nodup`), the completed commands are exactly the recorded ones, in completion order,
* every completed command's inputs completed before it,
* what an earlier part of the history had stored is still stored, unchanged and in place (`memo` of any prefix is a prefix of the final `memo`). -/
theorem history_ok (hr : Ranked sem p r) (ops : List (Sem Val × HOp)) (hops : ∀ x ∈ ops, x.1.pulls = sem.pulls) :
    FInv sem p (history p ops) ∧ (finishes (history p ops).log).Nodup ∧
    ∀ (k : Nat), ∃ m, (history p ops).memo = (history p (ops.take k)).memo ++ m := by
  have key : ∀ (ops : List (Sem Val × HOp)) (st : St Val), (∀ x ∈ ops, x.1.pulls = sem.pulls) → FInv sem p st →
      FInv sem p (ops.foldl (hstep p) st) ∧ ∃ m, (ops.foldl (hstep p) st).memo = st.memo ++ m := by
    intro ops
    induction ops with
    | nil => intro st _ h; exact ⟨h, [], by simp⟩
    | cons x rest ih =>
      intro st hall h
      obtain ⟨h1, _, ⟨m1, hm1⟩⟩ := hstep_any sem p r hr st x (hall x List.mem_cons_self) h
      obtain ⟨h2, m2, hm2⟩ := ih (hstep p st x) (fun y hy => hall y (List.mem_cons_of_mem _ hy)) h1
      exact ⟨h2, m1 ++ m2, by rw [List.foldl_cons, hm2, hm1, List.append_assoc]⟩
  have hfin : FInv sem p (history p ops) := (key ops _ hops (finv_init sem p)).1
  refine ⟨hfin, by rw [hfin.fin]; exact hfin.nodup, ?_⟩
  intro k
  have hsplit : ops = ops.take k ++ ops.drop k := (List.take_append_drop k ops).symm
  have htake : FInv sem p (history p (ops.take k)) :=
    (key (ops.take k) _ (fun x hx => hops x (List.mem_of_mem_take hx)) (finv_init sem p)).1
  obtain ⟨_, m, hm⟩ := key (ops.drop k) (history p (ops.take k)) (fun x hx => hops x (List.mem_of_mem_drop hx)) htake
  refine ⟨m, ?_⟩
  have : history p ops = (ops.drop k).foldl (hstep p) (history p (ops.take k)) := by
    unfold history
    conv_lhs => rw [hsplit]
    rw [List.foldl_append]
  rw [this, hm]

/-- a step that succeeds completes what it was asked for: after a successful `run()` every leaf command is finished, after a successful read the
command read is - also when earlier steps of the history had failed (see `run_executes_all` in C01 for "every command" under the reading premise) -/
theorem result_after_history (hr : Ranked sem p r) (ops : List (Sem Val × HOp)) (hops : ∀ x ∈ ops, x.1.pulls = sem.pulls)
    (sem' : Sem Val) (hs : sem'.pulls = sem.pulls) (n : String) (st' : St Val)
    (h : runCmd sem' p (p.cmds.length + 1) (history p ops) n = (st', none)) :
    n ∈ names st' ∧ FInv sem p st' ∧ ∃ m, st'.memo = (history p ops).memo ++ m := by
  obtain ⟨hfin, _, _⟩ := history_ok sem p r hr ops hops
  obtain ⟨step, hmem⟩ := runCmd_any sem' p r (Ranked.congr hr hs) _ _ n st' none (hfin.congr hs) h
  obtain ⟨m, hm, _⟩ := step.memoExt
  exact ⟨hmem rfl, step.inv.congr hs.symm, m, hm⟩

/-! non-vacuity: two commands, `b` reads `a`; in the first run the body of `a` fails, in the second it works - both finish, once, in order -/
section
def exDecl : CmdDecl := { name := "N", module := "m", inputs := [], output := none, isFuzzy := false, allowExtra := true }
def exProg : Program := { cmds := [⟨"b", exDecl, [], some 2⟩, ⟨"a", exDecl, [], some 1⟩], workingDir := none, exists_ := fun _ => false }
def exSem (aFails : Bool) : Sem Nat :=
  { pulls := fun c => if c.resultName == "b" then ["a"] else []
    compute := fun c vals => if c.resultName == "a" && aFails then .error (.raw "IOError") else .ok vals.length
    kind := fun _ => .other }
def exRank : String → Nat := fun n => if n == "b" then 1 else 0

theorem exRanked : Ranked (exSem true) exProg exRank := by
  intro n c hc d hd
  unfold exProg Program.find? at hc
  simp only [List.find?_cons, List.find?_nil] at hc
  split at hc
  · injection hc with hc; subst hc
    rename_i hn
    simp only [beq_iff_eq] at hn
    simp [exSem] at hd; subst hd; subst hn; decide
  · split at hc
    · injection hc with hc; subst hc; simp [exSem] at hd
    · cases hc

/-- the premises of `history_ok` are met by a history in which the first run fails (the body of `a` raises) and the second succeeds
(the driver evaluates this history to the finished commands a, b - in that order) -/
example : FInv (exSem true) exProg (history exProg [(exSem true, .run), (exSem false, .result "a"), (exSem true, .run), (exSem false, .run)]) :=
  (history_ok (exSem true) exProg exRank exRanked _ (by intro x hx; simp at hx; rcases hx with rfl | rfl | rfl | rfl <;> rfl)).1
end

end MPilot.C01
