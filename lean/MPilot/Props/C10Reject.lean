/-
C10 — "malformed text is rejected with a syntax error": what the grammar model *cannot* accept.

`program_renders` / `parse_text` (Props/C10.lean) say that every well-formed text is accepted and read as written.  This file proves the
converse direction for two whole classes of malformed text, for token lists of any length and nesting:

* `accepted_no_error_token` / `error_token_rejected`: a text in which the lexer met an illegal character or a bad escape sequence *anywhere*
  (an error token at any position) is never accepted - the parser does not skip or swallow such a token, whatever surrounds it;
* `accepted_well_nested` / `unbalanced_rejected`: in every accepted token list the square brackets and parentheses are properly nested and all
  closed (`walk [] ts = some []`): a missing, surplus or crossed `[` `]` `(` `)` is rejected;
* `rejected_is_syntax`: when the tokens hold no value outside the model's domain (`errOutside`), every rejection is the syntax error;
* small shapes that are rejected outright: the empty file, a file that does not start with a name, a command without `(`, an argument without `=`.
The method: every parsing function consumes a prefix of its input that is free of error tokens and neutral for the bracket stack
(`Consumes`), by induction on the fuel of the mutually recursive functions.
-/
import MPilot.Model.Grammar
import Mathlib.Tactic.Common

namespace MPilot.C10R
open MPilot

/-- the stack of open brackets after reading the tokens (`none`: a closing bracket without its opening partner) -/
def walk : List TokKind → List Tok → Option (List TokKind)
  | st, [] => some st
  | st, t :: r =>
    if t.kind = .lbrack ∨ t.kind = .lparen then walk (t.kind :: st) r
    else if t.kind = .rbrack then (match st with | .lbrack :: st' => walk st' r | _ => none)
    else if t.kind = .rparen then (match st with | .lparen :: st' => walk st' r | _ => none)
    else walk st r

theorem walk_append : ∀ (a b : List Tok) (st : List TokKind), walk st (a ++ b) = (walk st a).bind (fun s => walk s b)
  | [], b, st => by simp [walk]
  | t :: a, b, st => by
    simp only [List.cons_append, walk]
    split
    · exact walk_append a b _
    · split
      · split
        · exact walk_append a b _
        · rfl
      · split
        · split
          · exact walk_append a b _
          · rfl
        · exact walk_append a b _

def isBracket (k : TokKind) : Bool := k == .lbrack || k == .lparen || k == .rbrack || k == .rparen

/-- a stretch of tokens without error tokens that leaves every bracket stack as it found it -/
def Neutral (pre : List Tok) : Prop := (∀ t ∈ pre, t.isErr = false) ∧ ∀ st, walk st pre = some st

theorem Neutral.nil : Neutral [] := ⟨by simp, fun _ => rfl⟩

theorem Neutral.append {a b : List Tok} (ha : Neutral a) (hb : Neutral b) : Neutral (a ++ b) := by
  refine ⟨?_, fun st => ?_⟩
  · intro t ht
    rcases List.mem_append.mp ht with h | h
    · exact ha.1 t h
    · exact hb.1 t h
  · rw [walk_append, ha.2 st]; exact hb.2 st

theorem Neutral.single {t : Tok} (he : t.isErr = false) (hk : isBracket t.kind = false) : Neutral [t] := by
  refine ⟨by simpa using he, fun st => ?_⟩
  simp only [isBracket, Bool.or_eq_false_iff, beq_eq_false_iff_ne] at hk
  obtain ⟨⟨⟨h1, h2⟩, h3⟩, h4⟩ := hk
  simp [walk, h1, h2, h3, h4]

theorem Neutral.cons {t : Tok} {a : List Tok} (he : t.isErr = false) (hk : isBracket t.kind = false) (ha : Neutral a) : Neutral (t :: a) :=
  Neutral.append (Neutral.single he hk) ha

/-- `[ ... ]` and `( ... )` around a neutral stretch are neutral -/
theorem Neutral.wrap {o c : Tok} {a : List Tok} (ho : o.isErr = false) (hc : c.isErr = false) (ha : Neutral a)
    (hk : (o.kind = .lbrack ∧ c.kind = .rbrack) ∨ (o.kind = .lparen ∧ c.kind = .rparen)) : Neutral (o :: a ++ [c]) := by
  refine ⟨?_, fun st => ?_⟩
  · intro t ht
    simp only [List.cons_append, List.mem_cons, List.mem_append, List.mem_nil_iff, or_false] at ht
    rcases ht with rfl | h | rfl
    · exact ho
    · exact ha.1 t h
    · exact hc
  · have hopen : walk st (o :: (a ++ [c])) = walk (o.kind :: st) (a ++ [c]) := by
      rcases hk with ⟨h1, _⟩ | ⟨h1, _⟩ <;> simp [walk, h1]
    show walk st (o :: (a ++ [c])) = some st
    rw [hopen, walk_append, ha.2]
    rcases hk with ⟨h1, h2⟩ | ⟨h1, h2⟩ <;> simp [walk, h1, h2]

/-- `ts` is a neutral stretch followed by `rest` -/
def Consumes (ts rest : List Tok) : Prop := ∃ pre, ts = pre ++ rest ∧ Neutral pre

theorem Consumes.refl (ts : List Tok) : Consumes ts ts := ⟨[], rfl, Neutral.nil⟩

theorem Consumes.trans {a b c : List Tok} (h1 : Consumes a b) (h2 : Consumes b c) : Consumes a c := by
  obtain ⟨p, rfl, hp⟩ := h1
  obtain ⟨q, rfl, hq⟩ := h2
  exact ⟨p ++ q, by simp, hp.append hq⟩

theorem Consumes.step {t : Tok} {r : List Tok} (he : t.isErr = false) (hk : isBracket t.kind = false) : Consumes (t :: r) r :=
  ⟨[t], rfl, Neutral.single he hk⟩

theorem Consumes.stepThen {t : Tok} {r rest : List Tok} (he : t.isErr = false) (hk : isBracket t.kind = false) (h : Consumes r rest) :
    Consumes (t :: r) rest := (Consumes.step he hk).trans h

/-! ### the token-level helpers -/

theorem peek_some {ts : List Tok} {k : TokKind} (h : peek ts = .ok (some k)) : ∃ t r, ts = t :: r ∧ t.isErr = false ∧ t.kind = k := by
  cases ts with
  | nil => simp [peek] at h
  | cons t r =>
    unfold peek at h
    by_cases he : t.isErr = true
    · simp [he] at h
    · simp only [he, Bool.false_eq_true, if_false] at h
      exact ⟨t, r, rfl, by simpa using he, by injection h with h; injection h⟩

theorem expect_ok {k : TokKind} {ts : List Tok} {t : Tok} {r : List Tok} (h : expect k ts = .ok (t, r)) :
    ts = t :: r ∧ t.isErr = false ∧ t.kind = k := by
  cases ts with
  | nil => simp [expect] at h
  | cons u s =>
    unfold expect at h
    by_cases he : u.isErr = true
    · simp [he] at h
    · simp only [he, Bool.false_eq_true, if_false] at h
      by_cases hk : (u.kind == k) = true
      · simp only [hk, if_true] at h
        injection h with h; injection h with h1 h2
        subst h1; subst h2
        exact ⟨rfl, by simpa using he, by simpa using hk⟩
      · simp [hk] at h

theorem psStart_not_bracket {k : TokKind} (h : isPsStart k = true) : isBracket k = false := by
  cases k <;> simp_all [isPsStart, isBracket]

/-! ### unquoted strings -/

theorem plain_go : ∀ (ts : List Tok) (acc : String) (last : Option TokKind) (s : String) (last' : Option TokKind) (rest : List Tok),
    plainString.go ts acc last = .ok (s, last', rest) → Consumes ts rest
  | [], acc, last, s, last', rest, h => by
    rw [plainString.go] at h
    injection h with h; injection h with _ h; injection h with _ h
    subst h; exact Consumes.refl _
  | t :: r, acc, last, s, last', rest, h => by
    rw [plainString.go] at h
    by_cases he : t.isErr = true
    · simp [he] at h
    · simp only [he, Bool.false_eq_true, if_false] at h
      by_cases hp : isPsStart t.kind = true
      · simp only [hp, if_true] at h
        split at h
        · cases h
        · exact Consumes.stepThen (by simpa using he) (psStart_not_bracket hp) (plain_go r _ _ _ _ _ h)
      · simp only [hp, Bool.false_eq_true, if_false] at h
        injection h with h; injection h with _ h; injection h with _ h
        subst h; exact Consumes.refl _

theorem plainString_consumes {ts : List Tok} {v : String × Nat} {rest : List Tok} (h : plainString ts = .ok (v, rest)) : Consumes ts rest := by
  unfold plainString at h
  cases ts with
  | nil => simp at h
  | cons t0 r0 =>
    simp only at h
    split at h
    · cases h
    · split at h
      · cases h
      · split at h
        · cases h
        · rename_i s last rest' hgo
          split at h
          · injection h with h; injection h with _ h
            subst h
            exact plain_go _ _ _ _ _ _ hgo
          · cases h

theorem more_consumes : ∀ (fuel : Nat) (acc : String) (ts : List Tok) (v : String) (rest : List Tok),
    permissive.more fuel acc ts = .ok (v, rest) → Consumes ts rest
  | 0, acc, ts, v, rest, h => by rw [permissive.more] at h; cases h
  | fuel + 1, acc, ts, v, rest, h => by
    rw [permissive.more] at h
    split at h
    · cases h
    · rename_i hp
      obtain ⟨t, r, rfl, he, hk⟩ := peek_some hp
      simp only [List.drop_succ_cons, List.drop_zero] at h
      split at h
      · cases h
      · rename_i w l rest' hps
        exact Consumes.stepThen he (by rw [hk]; rfl) ((plainString_consumes hps).trans (more_consumes fuel _ _ _ _ h))
    · injection h with h; injection h with _ h
      subst h; exact Consumes.refl _

theorem permissive_consumes {fuel : Nat} {ts : List Tok} {v : String × Nat} {rest : List Tok} (h : permissive fuel ts = .ok (v, rest)) :
    Consumes ts rest := by
  unfold permissive at h
  split at h
  · cases h
  · rename_i s line rest' hps
    split at h
    · cases h
    · rename_i v' rest'' hm
      injection h with h; injection h with _ h
      subst h
      exact (plainString_consumes hps).trans (more_consumes _ _ _ _ _ hm)

theorem isNumberHere_true {u : Tok} {r : List Tok} (h : isNumberHere (u :: r) = .ok true) : isBracket u.kind = false := by
  unfold isNumberHere at h
  by_cases hk : (u.kind == .int || u.kind == .float) = true
  · rcases Bool.or_eq_true_iff.mp hk with h1 | h1 <;> · have := eq_of_beq h1; rw [this]; rfl
  · simp [hk] at h

/-! ### tuples -/

theorem tuplePair_consumes {ts : List Tok} {v : String × ENode} {rest : List Tok} (h : tuplePair ts = .ok (v, rest)) : Consumes ts rest := by
  unfold tuplePair at h
  cases ts with
  | nil => simp at h
  | cons t r =>
    simp only at h
    split at h
    · cases h
    · rename_i k line rest0 hkey
      have hk0 : Consumes (t :: r) rest0 := by
        by_cases he : t.isErr = true
        · simp [he] at hkey
        · simp only [he, Bool.false_eq_true, if_false] at hkey
          by_cases hs : (t.kind == .string) = true
          · simp only [hs, if_true] at hkey
            split at hkey
            · injection hkey with hkey; injection hkey with _ hkey
              subst hkey
              exact Consumes.step (by simpa using he) (by rw [eq_of_beq hs]; rfl)
            · cases hkey
          · simp only [hs, Bool.false_eq_true, if_false] at hkey
            exact plainString_consumes hkey
      split at h
      · cases h
      · rename_i c rest1 hex
        obtain ⟨rfl, hce, hck⟩ := expect_ok hex
        have hk1 : Consumes (t :: r) rest1 := hk0.trans (Consumes.step hce (by rw [hck]; rfl))
        split at h
        · cases h
        · rename_i u r1
          by_cases hue : u.isErr = true
          · simp [hue] at h
          · simp only [hue, Bool.false_eq_true, if_false] at h
            by_cases hus : (u.kind == .string) = true
            · simp only [hus, if_true] at h
              injection h with h; injection h with _ h
              subst h
              exact hk1.trans (Consumes.step (by simpa using hue) (by rw [eq_of_beq hus]; rfl))
            · simp only [hus, Bool.false_eq_true, if_false] at h
              split at h
              · cases h
              · rename_i hnum
                injection h with h; injection h with _ h
                subst h
                exact hk1.trans (Consumes.step (by simpa using hue) (isNumberHere_true hnum))
              · split at h
                · cases h
                · rename_i s l rest2 hperm
                  injection h with h; injection h with _ h
                  subst h
                  exact hk1.trans (permissive_consumes hperm)

/-! ### expressions, lists, elements, tuple pairs (mutually recursive) -/

/-- what `listBody` consumes: a neutral stretch and the closing `]` -/
def ListTail (ts rest : List Tok) : Prop := ∃ inner rb, ts = inner ++ rb :: rest ∧ Neutral inner ∧ rb.isErr = false ∧ rb.kind = .rbrack

theorem comma_step {rest : List Tok} (hp : peek rest = .ok (some .comma)) : Consumes rest (rest.drop 1) := by
  obtain ⟨c, r, rfl, he, hk⟩ := peek_some hp
  exact Consumes.step he (by rw [hk]; rfl)

theorem mutual_consumes : ∀ fuel : Nat,
    (∀ ts v rest, expression fuel ts = .ok (v, rest) → Consumes ts rest) ∧
    (∀ ts v rest, listBody fuel ts = .ok (v, rest) → ListTail ts rest) ∧
    (∀ ts v rest, elements fuel ts = .ok (v, rest) → Consumes ts rest) ∧
    (∀ ts v rest, tuplePairs fuel ts = .ok (v, rest) → Consumes ts rest)
  | 0 => by
    refine ⟨?_, ?_, ?_, ?_⟩ <;> intro ts v rest h
    · rw [expression] at h; cases h
    · rw [listBody] at h; cases h
    · rw [elements] at h; cases h
    · rw [tuplePairs] at h; cases h
  | fuel + 1 => by
    obtain ⟨ihE, ihL, ihEl, ihT⟩ := mutual_consumes fuel
    refine ⟨?_, ?_, ?_, ?_⟩ <;> intro ts v rest h
    · -- expression
      cases ts with
      | nil => rw [expression] at h; cases h
      | cons t r =>
        rw [expression] at h
        by_cases he : t.isErr = true
        · simp [he] at h
        · simp only [he, Bool.false_eq_true, if_false] at h
          have he' : t.isErr = false := by simpa using he
          by_cases hs : (t.kind == .string) = true
          · simp only [hs, if_true] at h
            injection h with h; injection h with _ h; subst h
            exact Consumes.step he' (by rw [eq_of_beq hs]; rfl)
          · simp only [hs, Bool.false_eq_true, if_false] at h
            by_cases hl : (t.kind == .lbrack) = true
            · simp only [hl, if_true] at h
              split at h
              · cases h
              · rename_i v' rest' hlb
                injection h with h; injection h with _ h; subst h
                obtain ⟨inner, rb, rfl, hin, hre, hrk⟩ := ihL _ _ _ hlb
                exact ⟨t :: inner ++ [rb], by simp, Neutral.wrap he' hre hin (Or.inl ⟨eq_of_beq hl, hrk⟩)⟩
            · simp only [hl, Bool.false_eq_true, if_false] at h
              split at h
              · cases h
              · rename_i hnum
                injection h with h; injection h with _ h; subst h
                exact Consumes.step he' (isNumberHere_true hnum)
              · split at h
                · split at h
                  · cases h
                  · rename_i s line rest' hperm
                    injection h with h; injection h with _ h; subst h
                    exact permissive_consumes hperm
                · cases h
    · -- listBody
      rw [listBody] at h
      split at h
      · cases h
      · rename_i hp
        obtain ⟨t, r, rfl, he, hk⟩ := peek_some hp
        injection h with h; injection h with _ h
        simp only [List.drop_succ_cons, List.drop_zero] at h; subst h
        exact ⟨[], t, rfl, Neutral.nil, he, hk⟩
      · split at h
        · cases h
        · rename_i v' rest' hel
          split at h
          · cases h
          · rename_i rb rest'' hex
            injection h with h; injection h with _ h; subst h
            obtain ⟨rfl, hre, hrk⟩ := expect_ok hex
            obtain ⟨pre, rfl, hpre⟩ := ihEl _ _ _ hel
            exact ⟨pre, rb, rfl, hpre, hre, hrk⟩
    · -- elements
      rw [elements] at h
      split at h
      · split at h
        · cases h
        · rename_i kv rest' htp
          injection h with h; injection h with _ h; subst h
          exact ihT _ _ _ htp
      · split at h
        · cases h
        · rename_i e rest' hex
          have h1 := ihE _ _ _ hex
          split at h
          · cases h
          · rename_i hp
            have h2 := h1.trans (comma_step hp)
            dsimp only at h
            split at h
            · cases h
            · injection h with h; injection h with _ h; subst h
              exact h2
            · split at h
              · cases h
              · rename_i xs rest2 hel
                injection h with h; injection h with _ h; subst h
                exact h2.trans (ihEl _ _ _ hel)
              · cases h
          · injection h with h; injection h with _ h; subst h
            exact h1
    · -- tuplePairs
      rw [tuplePairs] at h
      split at h
      · cases h
      · rename_i k v' rest' htp
        have h1 := tuplePair_consumes htp
        split at h
        · cases h
        · rename_i hp
          have h2 := h1.trans (comma_step hp)
          dsimp only at h
          split at h
          · cases h
          · injection h with h; injection h with _ h; subst h
            exact h2
          · split at h
            · cases h
            · rename_i kv rest2 hrec
              injection h with h; injection h with _ h; subst h
              exact h2.trans (ihT _ _ _ hrec)
        · injection h with h; injection h with _ h; subst h
          exact h1

/-! ### arguments, commands, programs -/

theorem argument_consumes {ts : List Tok} {a : ANode} {rest : List Tok} (h : argument ts = .ok (a, rest)) : Consumes ts rest := by
  unfold argument at h
  split at h
  · cases h
  · rename_i t r hid
    obtain ⟨rfl, he, hk⟩ := expect_ok hid
    split at h
    · cases h
    · rename_i eq r1 heq
      obtain ⟨rfl, he2, hk2⟩ := expect_ok heq
      split at h
      · cases h
      · rename_i v rest' hex
        split at h
        · injection h with h; injection h with _ h; subst h
          exact Consumes.stepThen he (by rw [hk]; rfl) (Consumes.stepThen he2 (by rw [hk2]; rfl) ((mutual_consumes _).1 _ _ _ hex))
        · cases h

/-- what the argument loop consumes: a neutral stretch and the closing `)` -/
def ArgTail (ts rest : List Tok) : Prop := ∃ inner rp, ts = inner ++ rp :: rest ∧ Neutral inner ∧ rp.isErr = false ∧ rp.kind = .rparen

theorem ArgTail.of_close {ts rest0 : List Tok} (h1 : Consumes ts rest0) (hp : peek rest0 = .ok (some .rparen)) : ArgTail ts (rest0.drop 1) := by
  obtain ⟨rp, r, rfl, he, hk⟩ := peek_some hp
  obtain ⟨pre, rfl, hpre⟩ := h1
  exact ⟨pre, rp, rfl, hpre, he, hk⟩

theorem ArgTail.prepend {a b c : List Tok} (h1 : Consumes a b) (h2 : ArgTail b c) : ArgTail a c := by
  obtain ⟨p, rfl, hp⟩ := h1
  obtain ⟨inner, rp, rfl, hin, he, hk⟩ := h2
  exact ⟨p ++ inner, rp, by simp, hp.append hin, he, hk⟩

theorem args_go_consumes : ∀ (fuel : Nat) (ts : List Tok) (acc as : List ANode) (rest : List Tok),
    arguments.go fuel ts acc = .ok (as, rest) → ArgTail ts rest
  | 0, ts, acc, as, rest, h => by rw [arguments.go] at h; cases h
  | fuel + 1, ts, acc, as, rest, h => by
    rw [arguments.go] at h
    split at h
    · cases h
    · rename_i a rest1 harg
      have h1 := argument_consumes harg
      split at h
      · cases h
      · rename_i hp
        have h2 := h1.trans (comma_step hp)
        dsimp only at h
        split at h
        · cases h
        · rename_i hp2
          injection h with h; injection h with _ h; subst h
          exact ArgTail.of_close h2 hp2
        · exact ArgTail.prepend h2 (args_go_consumes fuel _ _ _ _ h)
      · rename_i hp
        injection h with h; injection h with _ h; subst h
        exact ArgTail.of_close h1 hp
      · cases h

theorem arguments_consumes {ts : List Tok} {as : List ANode} {rest : List Tok} (h : arguments ts = .ok (as, rest)) : Consumes ts rest := by
  unfold arguments at h
  split at h
  · cases h
  · rename_i lp r hlp
    obtain ⟨rfl, he, hk⟩ := expect_ok hlp
    have close : ∀ {rest}, ArgTail r rest → Consumes (lp :: r) rest := by
      intro rest ht
      obtain ⟨inner, rp, rfl, hin, hre, hrk⟩ := ht
      exact ⟨lp :: inner ++ [rp], by simp, Neutral.wrap he hre hin (Or.inr ⟨hk, hrk⟩)⟩
    split at h
    · cases h
    · rename_i hp
      injection h with h; injection h with _ h; subst h
      exact close (ArgTail.of_close (Consumes.refl r) hp)
    · exact close (args_go_consumes _ _ _ _ _ h)

theorem command_consumes {ts : List Tok} {c : CNode × Bool} {rest : List Tok} (h : command ts = .ok (c, rest)) : Consumes ts rest := by
  unfold command at h
  split at h
  · cases h
  · rename_i t r hid
    obtain ⟨rfl, he, hk⟩ := expect_ok hid
    split at h
    · cases h
    · rename_i hp
      obtain ⟨eq, r', rfl, he2, hk2⟩ := peek_some hp
      simp only [List.drop_succ_cons, List.drop_zero] at h
      split at h
      · cases h
      · rename_i cn r1 hcn
        obtain ⟨rfl, he3, hk3⟩ := expect_ok hcn
        split at h
        · cases h
        · rename_i args rest' hargs
          split at h
          · injection h with h; injection h with _ h; subst h
            exact Consumes.stepThen he (by rw [hk]; rfl) (Consumes.stepThen he2 (by rw [hk2]; rfl)
              (Consumes.stepThen he3 (by rw [hk3]; rfl) (arguments_consumes hargs)))
          · cases h
    · split at h
      · cases h
      · rename_i args rest' hargs
        split at h
        · injection h with h; injection h with _ h; subst h
          exact Consumes.stepThen he (by rw [hk]; rfl) (arguments_consumes hargs)
        · cases h

theorem parse_go_consumes : ∀ (fuel : Nat) (ts : List Tok) (acc : List CNode) (v2 : Bool) (p : PNode),
    parseToks.go fuel ts acc v2 = .ok p → Neutral ts
  | 0, ts, acc, v2, p, h => by rw [parseToks.go] at h; cases h
  | fuel + 1, ts, acc, v2, p, h => by
    rw [parseToks.go] at h
    split at h
    · cases h
    · rename_i c isV2 rest hc
      obtain ⟨pre, rfl, hpre⟩ := command_consumes hc
      split at h
      · simpa using hpre
      · exact hpre.append (parse_go_consumes fuel _ _ _ _ h)

/-- **every accepted token list is a neutral stretch**: no error token, brackets and parentheses properly nested and closed -/
theorem accepted_neutral {ts : List Tok} {p : PNode} (h : parseToks ts = .ok p) : Neutral ts :=
  parse_go_consumes _ _ _ _ _ h

/-- an accepted text holds no token at which the lexer reported an illegal character, a bad escape or a value outside the model -/
theorem accepted_no_error_token {ts : List Tok} {p : PNode} (h : parseToks ts = .ok p) : ∀ t ∈ ts, t.isErr = false :=
  (accepted_neutral h).1

/-- in an accepted text every `[` has its `]` and every `(` its `)`, properly nested, and none is left open -/
theorem accepted_well_nested {ts : List Tok} {p : PNode} (h : parseToks ts = .ok p) : walk [] ts = some [] :=
  (accepted_neutral h).2 []

/-- **an illegal character or a bad escape anywhere in the file makes the parser reject it**, whatever surrounds it -/
theorem error_token_rejected {ts : List Tok} (h : ∃ t ∈ ts, t.isErr = true) : ∀ p, parseToks ts ≠ .ok p := by
  intro p hp
  obtain ⟨t, ht, he⟩ := h
  rw [accepted_no_error_token hp t ht] at he
  cases he

/-- **a missing, surplus or crossed bracket or parenthesis makes the parser reject the file** -/
theorem unbalanced_rejected {ts : List Tok} (h : walk [] ts ≠ some []) : ∀ p, parseToks ts ≠ .ok p :=
  fun _ hp => h (accepted_well_nested hp)

/-- the same for texts: `Parser().parse(source)` succeeds only if the lexer met no illegal character and the brackets of the text are nested -/
theorem parse_ok_text (src : String) (p : PNode) (h : parse src = .ok p) :
    (∀ t ∈ lex src, t.isErr = false) ∧ walk [] (lex src) = some [] :=
  ⟨accepted_no_error_token h, accepted_well_nested h⟩

/-- the empty file (or one holding only comments and blank lines) is a syntax error -/
theorem empty_rejected : parseToks [] = .error .syntax := by
  simp [parseToks, parseToks.go, command, expect]

/-- a file must start with a name: any other first token is a syntax error (or the lexer's own error) -/
theorem bad_start_rejected (t : Tok) (r : List Tok) (hk : t.kind ≠ .id) : ∀ p, parseToks (t :: r) ≠ .ok p := by
  intro p h
  unfold parseToks at h
  rw [parseToks.go] at h
  split at h
  · cases h
  · rename_i c v rest hc
    unfold command at hc
    split at hc
    · cases hc
    · rename_i t' r' hid
      obtain ⟨h1, _, h3⟩ := expect_ok hid
      injection h1 with h1 _
      subst h1; exact hk h3

def isSyntaxError : Except ParseErr PNode → Bool
  | .error .syntax => true
  | _ => false

def isAccepted : Except ParseErr PNode → Bool
  | .ok _ => true
  | _ => false

/-- non-vacuity and concrete malformed token lists: `A = B(X = [1, 2])` is accepted; with `)` for `]`, with a surplus `]`, without the
closing `)`, without `(`, without `=`, or with an illegal character in the list it is a syntax error -/
example :
    let i (s : String) : Tok := ⟨.id, .str s, 1⟩
    let n (k : Int) : Tok := ⟨.int, .int k, 1⟩
    let p (k : TokKind) : Tok := ⟨k, .none, 1⟩
    isAccepted (parseToks [i "A", p .equal, i "B", p .lparen, i "X", p .equal, p .lbrack, n 1, p .comma, n 2, p .rbrack, p .rparen]) = true ∧
    isSyntaxError (parseToks [i "A", p .equal, i "B", p .lparen, i "X", p .equal, p .lbrack, n 1, p .comma, n 2, p .rparen]) = true ∧
    isSyntaxError (parseToks [i "A", p .equal, i "B", p .lparen, i "X", p .equal, p .lbrack, n 1, p .rbrack, p .rbrack, p .rparen]) = true ∧
    isSyntaxError (parseToks [i "A", p .equal, i "B", p .lparen, i "X", p .equal, n 1]) = true ∧
    isSyntaxError (parseToks [i "A", p .equal, i "B", i "X", p .equal, n 1, p .rparen]) = true ∧
    isSyntaxError (parseToks [i "A", p .equal, i "B", p .lparen, i "X", n 1, p .rparen]) = true ∧
    isSyntaxError (parseToks [i "A", p .equal, i "B", p .lparen, i "X", p .equal, p .lbrack, n 1, p .comma, p .errIllegal, p .rbrack, p .rparen]) = true ∧
    walk [] [i "A", p .equal, i "B", p .lparen, i "X", p .equal, p .lbrack, n 1, p .comma, n 2, p .rbrack, p .rparen] = some [] ∧
    walk [] [i "A", p .equal, i "B", p .lparen, i "X", p .equal, p .lbrack, n 1, p .comma, n 2, p .rparen] = none := by
  decide +kernel

end MPilot.C10R
