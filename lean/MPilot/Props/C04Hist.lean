/-
C04 — over histories: a fuzzy result is inside [-1, 1] when it is made (`C04.fuzzy_range`) *and stays there*, whatever is executed
afterwards on the same live objects - including the single-input FuzzyOr / FuzzyAnd, which hand their input back and limit it in place.
Built on the heap-level history of `Props/C09Hist` (`runOps`, `Disc`, `FuzzyInv`).
-/
import MPilot.Props.C09Hist

namespace MPilot.C04
open MPilot MPilot.C09

/-- the record of fuzzy objects only grows -/
theorem record_mono_step (sqrt : Rat → Rat) (s : HState) (op : Op) (id : ObjId) (h : id ∈ s.2) : id ∈ (stepOp sqrt s op).2 := by
  unfold stepOp
  split
  · dsimp only
    split
    · exact List.mem_cons_of_mem _ h
    · exact h
  · exact h

theorem record_mono (sqrt : Rat → Rat) : ∀ (ops : List Op) (s : HState) (id : ObjId), id ∈ s.2 → id ∈ (runOps sqrt ops s).2
  | [], _, _, h => h
  | op :: ops, s, id, h => record_mono sqrt ops (stepOp sqrt s op) id (record_mono_step sqrt s op id h)

/-- **a fuzzy result stays in range for the rest of the history.**  When a fuzzy-producing command succeeds, its result object is inside
[-1, 1] after *any* further executions - any commands, on any live objects (this one included), in any order, any number of times,
failing ones included - as long as the single-input fuzzy pair is only given fuzzy fields (`Disc`, what parameter validation enforces). -/
theorem fuzzy_result_in_range_forever (sqrt : Rat → Rat) (s : HState) (op : Op) (after : List Op) (hinv : FuzzyInv s)
    (hd : Disc sqrt (op :: after) s) (rid : ObjId) (h' : Heap) (hx : execH sqrt op.cmd op.ids s.1 = .ok (rid, h'))
    (hf : op.cmd.isFuzzyProducer = true) :
    ∃ a, (runOps sqrt (op :: after) s).1[rid]? = some a ∧ InFuzzyRange a := by
  have hinv1 := (stepOp_ok sqrt s op hinv hd.1).2
  have hrec : rid ∈ (stepOp sqrt s op).2 := by
    unfold stepOp
    rw [hx]
    simp [hf]
  have hinv2 := (history_preserves sqrt after (stepOp sqrt s op) hinv1 hd.2).2
  exact hinv2 rid (record_mono sqrt after _ rid hrec)

/-- the whole record is truthful at every point of every history -/
theorem fuzzy_record_in_range (sqrt : Rat → Rat) (ops : List Op) (s : HState) (hinv : FuzzyInv s) (hd : Disc sqrt ops s) :
    ∀ id ∈ (runOps sqrt ops s).2, ∃ a, (runOps sqrt ops s).1[id]? = some a ∧ InFuzzyRange a :=
  (history_preserves sqrt ops s hinv hd).2

end MPilot.C04
