/- C07 — theorems under construction -/
import MPilot.Model.Eems
