/-
C07 — arithmetic commands are correct for all numeric types and input orders.
-/
import MPilot.Lemmas.Perm
import Mathlib.Algebra.BigOperators.Group.List.Basic

namespace MPilot.C07
open MPilot

/-! ### cell definitions -/

/-- what an n-ary fold command leaves in cell `i`: missing iff some input is missing there, else the fold of the column -/
theorem naryFold_cell (ref : LineRef) (g : Rat → Rat → Rat) (a : Arr) (t : List Arr) (r : Arr) (i : Nat)
    (h : naryFold ref g (a :: t) = .ok r) (hi : ∀ x ∈ a :: t, i < x.cells.length) :
    ∃ c, r.cells[i]? = some c ∧ c.mask = (column (a :: t) i).any (·.mask) ∧
      (c.mask = false → c.val = fold1 g ((column (a :: t) i).map (·.val))) := by
  unfold naryFold at h
  obtain ⟨_, _, h⟩ := bind_ok h
  injection h with h; subst h
  have hc := column_spec (a :: t) i hi
  simp only [column, List.map_cons] at hc ⊢
  cases hc with
  | cons ha ht =>
    refine ⟨_, foldArr_column g _ a t i _ _ ha ht, foldCells_mask _ _ _, fun hm => ?_⟩
    rw [foldCells_mask] at hm
    exact foldCells_val g _ _ hm

theorem fold1_add (x : Rat) (l : List Rat) : fold1 (· + ·) (x :: l) = (x :: l).sum := by
  simp only [fold1_cons]
  induction l generalizing x with
  | nil => simp
  | cons y t ih => rw [List.foldl_cons, ih]; simp [add_assoc]

theorem fold1_mul (x : Rat) (l : List Rat) : fold1 (· * ·) (x :: l) = (x :: l).prod := by
  simp only [fold1_cons]
  induction l generalizing x with
  | nil => simp
  | cons y t ih => rw [List.foldl_cons, ih]; simp [mul_assoc]

/-- **Sum**: each result cell is missing iff some input cell is, and otherwise holds the sum of the input cells. -/
theorem sum_cell (sqrt : Rat → Rat) (a : Arr) (t : List Arr) (r : Arr) (i : Nat)
    (h : exec sqrt .sum (a :: t) = .ok r) (hi : ∀ x ∈ a :: t, i < x.cells.length) :
    ∃ c, r.cells[i]? = some c ∧ c.mask = (column (a :: t) i).any (·.mask) ∧
      (c.mask = false → c.val = ((column (a :: t) i).map (·.val)).sum) := by
  simp only [exec] at h
  obtain ⟨c, h1, h2, h3⟩ := naryFold_cell _ _ a t r i h hi
  refine ⟨c, h1, h2, fun hm => ?_⟩
  rw [h3 hm]; simp only [column, List.map_cons]; exact fold1_add _ _

/-- a fold of additions followed by a division by the number of operands: the common core of `Mean` and `FuzzyUnion` -/
theorem meanArr_cell (a : Arr) (t : List Arr) (i : Nat) (hi : ∀ x ∈ a :: t, i < x.cells.length) :
    ∃ c, (((foldArr (Cell.bin (· + ·)) .float a t).mapCells (Cell.divSc ((a :: t).length : Nat))).cells[i]? = some c) ∧
      c.mask = (column (a :: t) i).any (·.mask) ∧
      (c.mask = false → c.val = ((column (a :: t) i).map (·.val)).sum / ((a :: t).length : Nat)) := by
  have hc := column_spec (a :: t) i hi
  simp only [column, List.map_cons] at hc ⊢
  cases hc with
  | cons ha ht =>
    have hn : (((a :: t).length : Nat) : Rat) ≠ 0 := by
      have : 0 < (a :: t).length := by simp
      exact_mod_cast Nat.pos_iff_ne_zero.mp this
    have hn' : ((((a :: t).length : Nat) : Rat) == 0) = false := by simpa using hn
    refine ⟨Cell.divSc ((a :: t).length : Nat) (foldCells (· + ·) (a.cells.getD i default) (t.map fun x => x.cells.getD i default)), ?_, ?_, ?_⟩
    · simp only [Arr.mapCells, List.getElem?_map, foldArr_column (· + ·) _ a t i _ _ ha ht, Option.map_some]
    · simp only [Cell.divSc, hn', Bool.or_false, foldCells_mask]
    · intro hm
      simp only [Cell.divSc, hn', Bool.or_false, foldCells_mask] at hm
      have hv := foldCells_val (· + ·) _ _ hm
      simp only [Cell.divSc, hn', Bool.or_false, foldCells_mask, hm, Bool.false_eq_true, if_false, hv]
      rw [List.map_cons, fold1_add]

/-- **Mean**: each result cell is missing iff some input cell is, and otherwise holds the arithmetic mean of the input cells. -/
theorem mean_cell (sqrt : Rat → Rat) (a : Arr) (t : List Arr) (r : Arr) (i : Nat)
    (h : exec sqrt .mean (a :: t) = .ok r) (hi : ∀ x ∈ a :: t, i < x.cells.length) :
    ∃ c, r.cells[i]? = some c ∧ c.mask = (column (a :: t) i).any (·.mask) ∧
      (c.mask = false → c.val = ((column (a :: t) i).map (·.val)).sum / ((a :: t).length : Nat)) := by
  simp only [exec] at h
  obtain ⟨_, _, h⟩ := bind_ok h
  injection h with h; subst h
  exact meanArr_cell a t i hi

/-! ### weighted sums -/

/-- what `weightedAcc` leaves in cell `i`: missing iff some input is missing there, else the weighted sum of the column -/
theorem weightedAcc_cell (w : Num) (wr : List Num) (a : Arr) (as : List Arr) (dt : DType) (i : Nat) (hlen : wr.length = as.length)
    (hi : ∀ x ∈ a :: as, i < x.cells.length) :
    ∃ c, (weightedAcc (w :: wr) (a :: as) dt).cells[i]? = some c ∧ c.mask = (column (a :: as) i).any (·.mask) ∧
      (c.mask = false → c.val = (List.zipWith (fun (w : Num) (c : Cell) => c.val * w.val) (w :: wr) (column (a :: as) i)).sum) := by
  rw [weightedAcc_eq_foldArr w wr a as dt hlen]
  have hc := column_spec (a :: as) i hi
  simp only [column, List.map_cons] at hc ⊢
  cases hc with
  | cons ha ht =>
    -- the scaled column
    have hsa : (scaleArr w a).cells[i]? = some (Cell.sc (· * w.val) (a.cells.getD i default)) := by rw [scaleArr_getElem?, ha]; rfl
    have hst : List.Forall₂ (fun (b : Arr) d => b.cells[i]? = some d) (List.zipWith scaleArr wr as)
        (List.zipWith (fun (w : Num) (c : Cell) => Cell.sc (· * w.val) c) wr (as.map fun x => x.cells.getD i default)) := by
      clear hsa ha hi
      induction as generalizing wr with
      | nil => cases wr <;> exact .nil
      | cons b as ih =>
        cases wr with
        | nil => simp at hlen
        | cons w2 wr2 =>
          cases ht with
          | cons hb ht' =>
            simp only [List.zipWith_cons_cons, List.map_cons]
            exact .cons (by rw [scaleArr_getElem?, hb]; rfl) (ih wr2 (by simpa using hlen) ht')
    have hcl : (as.map fun x => x.cells.getD i default).length = wr.length := by simp [hlen]
    generalize a.cells.getD i default = c0 at *
    generalize (as.map fun x => x.cells.getD i default) = cs at *
    -- scaling keeps the masks and multiplies the values of present cells
    have hmask : ∀ (wr : List Num) (cs : List Cell), cs.length = wr.length →
        (List.zipWith (fun (w : Num) (c : Cell) => Cell.sc (· * w.val) c) wr cs).any (·.mask) = cs.any (·.mask) := by
      intro wr
      induction wr with
      | nil => intro cs h; cases cs <;> simp at h ⊢
      | cons w2 wr2 ih =>
        intro cs h
        cases cs with
        | nil => simp at h
        | cons d cs =>
          rw [List.zipWith_cons_cons, List.any_cons, List.any_cons, ih cs (by simpa using h)]
          rfl
    have hval : ∀ (wr : List Num) (cs : List Cell), cs.length = wr.length → cs.any (·.mask) = false →
        (List.zipWith (fun (w : Num) (c : Cell) => Cell.sc (· * w.val) c) wr cs).map (·.val) =
          List.zipWith (fun (w : Num) (c : Cell) => c.val * w.val) wr cs := by
      intro wr
      induction wr with
      | nil => intro cs h _; cases cs <;> simp at h ⊢
      | cons w2 wr2 ih =>
        intro cs h hm
        cases cs with
        | nil => simp at h
        | cons d cs =>
          rw [List.any_cons, Bool.or_eq_false_iff] at hm
          rw [List.zipWith_cons_cons, List.map_cons, List.zipWith_cons_cons, ih cs (by simpa using h) hm.2]
          congr 1
          simp only [Cell.sc, hm.1, Bool.false_eq_true, if_false]
    refine ⟨_, foldArr_column (· + ·) dt _ _ i _ _ hsa hst, ?_, ?_⟩
    · rw [foldCells_mask, List.any_cons, List.any_cons, hmask wr cs hcl]
      rfl
    · intro hm
      rw [foldCells_mask, List.any_cons, hmask wr cs hcl] at hm
      have hm' : (c0 :: cs).any (·.mask) = false := by rw [List.any_cons]; exact hm
      have hm0 : c0.mask = false := by
        rw [Bool.or_eq_false_iff] at hm; exact hm.1
      have hmc : cs.any (·.mask) = false := by
        rw [Bool.or_eq_false_iff] at hm; exact hm.2
      have hfm : (Cell.sc (· * w.val) c0 :: List.zipWith (fun (w : Num) (c : Cell) => Cell.sc (· * w.val) c) wr cs).any (·.mask) = false := by
        rw [List.any_cons, hmask wr cs hcl]; exact hm
      rw [foldCells_val _ _ _ hfm, List.map_cons, fold1_add, hval wr cs hcl hmc, List.zipWith_cons_cons]
      congr 2
      simp only [Cell.sc, hm0, Bool.false_eq_true, if_false]

/-- **WeightedSum**: each result cell is missing iff some input cell is, and otherwise holds Σ weightⱼ · inputⱼ. -/
theorem weightedSum_cell (sqrt : Rat → Rat) (w : Num) (wr : List Num) (a : Arr) (as : List Arr) (r : Arr) (i : Nat)
    (h : exec sqrt (.weightedSum (w :: wr)) (a :: as) = .ok r) (hi : ∀ x ∈ a :: as, i < x.cells.length) :
    ∃ c, r.cells[i]? = some c ∧ c.mask = (column (a :: as) i).any (·.mask) ∧
      (c.mask = false → c.val = (List.zipWith (fun (w : Num) (c : Cell) => c.val * w.val) (w :: wr) (column (a :: as) i)).sum) := by
  simp only [exec] at h
  split at h
  · cases h
  · rename_i hlen
    obtain ⟨_, _, h⟩ := bind_ok h
    injection h with h; subst h
    exact weightedAcc_cell w wr a as _ i (by simpa using hlen) hi

/-- **Multiply**: product of the input cells. -/
theorem multiply_cell (sqrt : Rat → Rat) (a : Arr) (t : List Arr) (r : Arr) (i : Nat)
    (h : exec sqrt .multiply (a :: t) = .ok r) (hi : ∀ x ∈ a :: t, i < x.cells.length) :
    ∃ c, r.cells[i]? = some c ∧ c.mask = (column (a :: t) i).any (·.mask) ∧
      (c.mask = false → c.val = ((column (a :: t) i).map (·.val)).prod) := by
  simp only [exec] at h
  obtain ⟨c, h1, h2, h3⟩ := naryFold_cell _ _ a t r i h hi
  refine ⟨c, h1, h2, fun hm => ?_⟩
  rw [h3 hm]; simp only [column, List.map_cons]; exact fold1_mul _ _

theorem fold1_min_le (x : Rat) (l : List Rat) : ∀ y ∈ x :: l, fold1 ratMin (x :: l) ≤ y := by
  simp only [fold1_cons]
  induction l generalizing x with
  | nil => intro y hy; simp at hy; simp [hy]
  | cons z t ih =>
    intro y hy
    rw [List.foldl_cons]
    have hle : ∀ w ∈ ratMin x z :: t, List.foldl ratMin (ratMin x z) t ≤ w := ih (ratMin x z)
    have hm : List.foldl ratMin (ratMin x z) t ≤ ratMin x z := hle _ (List.mem_cons_self ..)
    rcases List.mem_cons.mp hy with rfl | hy
    · exact le_trans hm (by rw [ratMin_eq_min]; exact min_le_left _ _)
    · rcases List.mem_cons.mp hy with rfl | hy
      · exact le_trans hm (by rw [ratMin_eq_min]; exact min_le_right _ _)
      · exact hle y (List.mem_cons_of_mem _ hy)

theorem fold1_min_mem (x : Rat) (l : List Rat) : fold1 ratMin (x :: l) ∈ x :: l := by
  simp only [fold1_cons]
  induction l generalizing x with
  | nil => simp
  | cons z t ih =>
    rw [List.foldl_cons]
    have := ih (ratMin x z)
    rcases List.mem_cons.mp this with h | h
    · rw [h]; unfold ratMin; split_ifs <;> simp
    · exact List.mem_cons_of_mem _ (List.mem_cons_of_mem _ h)

theorem fold1_max_ge (x : Rat) (l : List Rat) : ∀ y ∈ x :: l, y ≤ fold1 ratMax (x :: l) := by
  simp only [fold1_cons]
  induction l generalizing x with
  | nil => intro y hy; simp at hy; simp [hy]
  | cons z t ih =>
    intro y hy
    rw [List.foldl_cons]
    have hle := ih (ratMax x z)
    have hm : ratMax x z ≤ List.foldl ratMax (ratMax x z) t := hle _ (List.mem_cons_self ..)
    rcases List.mem_cons.mp hy with rfl | hy
    · exact le_trans (by rw [ratMax_eq_max]; exact le_max_left _ _) hm
    · rcases List.mem_cons.mp hy with rfl | hy
      · exact le_trans (by rw [ratMax_eq_max]; exact le_max_right _ _) hm
      · exact hle y (List.mem_cons_of_mem _ hy)

theorem fold1_max_mem (x : Rat) (l : List Rat) : fold1 ratMax (x :: l) ∈ x :: l := by
  simp only [fold1_cons]
  induction l generalizing x with
  | nil => simp
  | cons z t ih =>
    rw [List.foldl_cons]
    have := ih (ratMax x z)
    rcases List.mem_cons.mp this with h | h
    · rw [h]; unfold ratMax; split_ifs <;> simp
    · exact List.mem_cons_of_mem _ (List.mem_cons_of_mem _ h)

/-- **Minimum**: the result cell is one of the input cells and is ≤ every one of them (i.e. their minimum). -/
theorem minimum_cell (sqrt : Rat → Rat) (a : Arr) (t : List Arr) (r : Arr) (i : Nat)
    (h : exec sqrt .minimum (a :: t) = .ok r) (hi : ∀ x ∈ a :: t, i < x.cells.length) :
    ∃ c, r.cells[i]? = some c ∧ c.mask = (column (a :: t) i).any (·.mask) ∧
      (c.mask = false → c.val ∈ (column (a :: t) i).map (·.val) ∧ ∀ y ∈ (column (a :: t) i).map (·.val), c.val ≤ y) := by
  simp only [exec] at h
  obtain ⟨c, h1, h2, h3⟩ := naryFold_cell _ _ a t r i h hi
  refine ⟨c, h1, h2, fun hm => ?_⟩
  rw [h3 hm]; simp only [column, List.map_cons]
  exact ⟨fold1_min_mem _ _, fold1_min_le _ _⟩

/-- **Maximum**. -/
theorem maximum_cell (sqrt : Rat → Rat) (a : Arr) (t : List Arr) (r : Arr) (i : Nat)
    (h : exec sqrt .maximum (a :: t) = .ok r) (hi : ∀ x ∈ a :: t, i < x.cells.length) :
    ∃ c, r.cells[i]? = some c ∧ c.mask = (column (a :: t) i).any (·.mask) ∧
      (c.mask = false → c.val ∈ (column (a :: t) i).map (·.val) ∧ ∀ y ∈ (column (a :: t) i).map (·.val), y ≤ c.val) := by
  simp only [exec] at h
  obtain ⟨c, h1, h2, h3⟩ := naryFold_cell _ _ a t r i h hi
  refine ⟨c, h1, h2, fun hm => ?_⟩
  rw [h3 hm]; simp only [column, List.map_cons]
  exact ⟨fold1_max_mem _ _, fold1_max_ge _ _⟩

/-- **AMinusB**: cell-wise difference, missing iff either operand is. -/
theorem aMinusB_cells (sqrt : Rat → Rat) (a b r : Arr) (h : exec sqrt .aMinusB [a, b] = .ok r) :
    r.dtype = a.dtype.promote b.dtype ∧ r.cells = List.zipWith (Cell.bin (· - ·)) a.cells b.cells := by
  simp only [exec] at h
  obtain ⟨_, _, h⟩ := bind_ok h
  injection h with h; subst h
  exact ⟨rfl, rfl⟩

/-- **ADividedByB**: the result is floating; cell-wise quotient. -/
theorem aDividedByB_cells (sqrt : Rat → Rat) (a b r : Arr) (h : exec sqrt .aDividedByB [a, b] = .ok r) :
    r.dtype = .float ∧ r.cells = List.zipWith Cell.div a.cells b.cells := by
  simp only [exec] at h
  obtain ⟨_, _, h⟩ := bind_ok h
  injection h with h; subst h
  exact ⟨rfl, rfl⟩

/-- **Division by zero yields a missing cell, never an error**: a quotient cell is missing exactly when an operand is
missing or the divisor is 0, and otherwise holds `a / b`. -/
theorem div_zero_masked (x y : Cell) :
    ((Cell.div x y).mask = true ↔ x.mask = true ∨ y.mask = true ∨ y.val = 0) ∧
    ((Cell.div x y).mask = false → (Cell.div x y).val = x.val / y.val) := by
  unfold Cell.div
  constructor
  · simp [Bool.or_eq_true, or_assoc]
  · intro h; simp only at h ⊢; rw [if_neg (by simpa using h)]

/-- a same-shaped pair never makes `ADividedByB` fail, whatever the divisor holds -/
theorem aDividedByB_total (sqrt : Rat → Rat) (a b : Arr) (hs : a.shape = b.shape) :
    ∃ r, exec sqrt .aDividedByB [a, b] = .ok r := by
  simp only [exec, validateShapes, List.all_cons, List.all_nil, Bool.and_true, hs, beq_self_eq_true, if_true]
  exact ⟨_, rfl⟩

/-! ### every input order gives the same outcome (same error, or visibly equal results) -/

theorem sum_perm (sqrt : Rat → Rat) {xs xs' : List Arr} (h : xs.Perm xs') (n : Nat) (hn : ∀ x ∈ xs, x.cells.length = n) :
    ExceptR (exec sqrt .sum xs) (exec sqrt .sum xs') := by
  simp only [exec]; exact naryFold_perm _ _ (fun a b => add_comm a b) (fun a b c => add_assoc a b c) h n hn

theorem multiply_perm (sqrt : Rat → Rat) {xs xs' : List Arr} (h : xs.Perm xs') (n : Nat) (hn : ∀ x ∈ xs, x.cells.length = n) :
    ExceptR (exec sqrt .multiply xs) (exec sqrt .multiply xs') := by
  simp only [exec]; exact naryFold_perm _ _ (fun a b => mul_comm a b) (fun a b c => mul_assoc a b c) h n hn

theorem minimum_perm (sqrt : Rat → Rat) {xs xs' : List Arr} (h : xs.Perm xs') (n : Nat) (hn : ∀ x ∈ xs, x.cells.length = n) :
    ExceptR (exec sqrt .minimum xs) (exec sqrt .minimum xs') := by
  simp only [exec]; exact naryFold_perm _ _ ratMin_comm ratMin_assoc h n hn

theorem maximum_perm (sqrt : Rat → Rat) {xs xs' : List Arr} (h : xs.Perm xs') (n : Nat) (hn : ∀ x ∈ xs, x.cells.length = n) :
    ExceptR (exec sqrt .maximum xs) (exec sqrt .maximum xs') := by
  simp only [exec]; exact naryFold_perm _ _ ratMax_comm ratMax_assoc h n hn

theorem mean_perm (sqrt : Rat → Rat) {xs xs' : List Arr} (h : xs.Perm xs') (n : Nat) (hn : ∀ x ∈ xs, x.cells.length = n) :
    ExceptR (exec sqrt .mean xs) (exec sqrt .mean xs') := by
  simp only [exec]
  rw [← validateShapes_perm .cmd h, ← h.length_eq]
  rcases validateShapes_cases .cmd xs with hv | hv | hv <;> rw [hv]
  · cases xs with
    | nil => rw [List.nil_perm.mp h]; exact ExceptR.eMp _ _
    | cons a t =>
      cases xs' with
      | nil => exact absurd (List.perm_nil.mp h) (by simp)
      | cons a' t' =>
        have hs := (validateShapes_ok_iff .cmd (a :: t) (by simp)).mp hv
        have hf := foldArr_perm (· + ·) (fun a b => add_comm a b) (fun a b c => add_assoc a b c) .float h n hn
        refine ⟨?_, ?_, map_R (fun _ _ => divSc_R _) hf⟩
        · show (foldArr _ _ a t).dtype = (foldArr _ _ a' t').dtype
          rw [foldArr_dtype, foldArr_dtype]
        show (foldArr _ _ a t).shape = (foldArr _ _ a' t').shape
        rw [naryFold_perm.C05_foldArr_shape, naryFold_perm.C05_foldArr_shape]
        exact hs a (List.mem_cons_self ..) a' (h.mem_iff.mpr (List.mem_cons_self ..))
  · exact ExceptR.eMp _ _
  · exact ExceptR.eMp _ _

/-! ### the weighted pair: inputs and weights permuted alongside -/

theorem weightedAcc_as_fold (ws : List Num) (xs : List Arr) (dt : DType) (hlen : ws.length = xs.length) (a0 : Arr) (t0 : List Arr)
    (h : List.zipWith scaleArr ws xs = a0 :: t0) : weightedAcc ws xs dt = foldArr (Cell.bin (· + ·)) dt a0 t0 := by
  cases ws with
  | nil => simp at h
  | cons w wr =>
    cases xs with
    | nil => simp at h
    | cons a as =>
      rw [weightedAcc_eq_foldArr w wr a as dt (by simpa using hlen)]
      simp only [List.zipWith_cons_cons, List.cons.injEq] at h
      rw [h.1, h.2]

theorem zipWith_eq_map_zip (ws : List Num) (xs : List Arr) : List.zipWith scaleArr ws xs = (ws.zip xs).map fun p => scaleArr p.1 p.2 := by
  induction ws generalizing xs with
  | nil => simp
  | cons w wr ih => cases xs with
    | nil => simp
    | cons a as => simp [ih]

theorem numsAllInt_perm {ws ws' : List Num} (h : ws.Perm ws') : numsAllInt ws = numsAllInt ws' := by
  unfold numsAllInt
  induction h with
  | nil => rfl
  | cons x _ ih => simp [List.all_cons, ih]
  | swap x y l => simp [List.all_cons, Bool.and_left_comm]
  | trans _ _ ih1 ih2 => rw [ih1, ih2]

theorem sumL_eq_sum (l : List Rat) : sumL l = l.sum := by
  unfold sumL
  have : ∀ (acc : Rat), l.foldl (· + ·) acc = acc + l.sum := by
    induction l with
    | nil => intro acc; simp
    | cons x t ih => intro acc; rw [List.foldl_cons, ih, List.sum_cons]; ring
  rw [this]; simp

theorem sumNums_perm {ws ws' : List Num} (h : ws.Perm ws') : sumNums ws = sumNums ws' := by
  unfold sumNums
  rw [sumL_eq_sum, sumL_eq_sum]
  exact (h.map _).sum_eq

/-- the weighted accumulation over permuted (weight, input) pairs: visibly the same array -/
theorem weightedAcc_perm {ws ws' : List Num} {xs xs' : List Arr} (hl : ws.length = xs.length) (hl' : ws'.length = xs'.length)
    (h : (ws.zip xs).Perm (ws'.zip xs')) (n : Nat) (hn : ∀ x ∈ xs, x.cells.length = n) (hne : xs ≠ []) (hs : SameShape xs) (dt : DType) :
    ArrR (weightedAcc ws xs dt) (weightedAcc ws' xs' dt) := by
  have hsc : (List.zipWith scaleArr ws xs).Perm (List.zipWith scaleArr ws' xs') := by
    rw [zipWith_eq_map_zip, zipWith_eq_map_zip]; exact h.map _
  have hx : xs.Perm xs' := by
    have := h.map Prod.snd
    rwa [List.map_snd_zip (by omega), List.map_snd_zip (by omega)] at this
  cases hz : List.zipWith scaleArr ws xs with
  | nil =>
    cases xs with
    | nil => exact absurd rfl hne
    | cons a as => cases ws with
      | nil => simp at hl
      | cons w wr => simp at hz
  | cons a0 t0 =>
    cases hz' : List.zipWith scaleArr ws' xs' with
    | nil => rw [hz, hz'] at hsc; exact absurd (List.perm_nil.mp hsc) (by simp)
    | cons a0' t0' =>
      rw [hz, hz'] at hsc
      rw [weightedAcc_as_fold ws xs dt hl a0 t0 hz, weightedAcc_as_fold ws' xs' dt hl' a0' t0' hz']
      have hmem : ∀ y ∈ a0 :: t0, ∃ w x, x ∈ xs ∧ y = scaleArr w x := by
        intro y hy
        rw [← hz, zipWith_eq_map_zip, List.mem_map] at hy
        obtain ⟨p, hp, rfl⟩ := hy
        exact ⟨p.1, p.2, (List.of_mem_zip hp).2, rfl⟩
      have hn0 : ∀ y ∈ a0 :: t0, y.cells.length = n := by
        intro y hy
        obtain ⟨w, x, hx', rfl⟩ := hmem y hy
        simp [scaleArr, Arr.mapCells, hn x hx']
      refine ⟨?_, ?_, foldArr_perm (· + ·) (fun a b => add_comm a b) (fun a b c => add_assoc a b c) dt hsc n hn0⟩
      · rw [foldArr_dtype, foldArr_dtype]
      · rw [naryFold_perm.C05_foldArr_shape, naryFold_perm.C05_foldArr_shape]
        obtain ⟨w, x, hx1, e1⟩ := hmem a0 (List.mem_cons_self ..)
        obtain ⟨w', x', hx2, e2⟩ := hmem a0' (hsc.mem_iff.mpr (List.mem_cons_self ..))
        rw [e1, e2]
        simp only [scaleArr, Arr.mapCells]
        exact hs x hx1 x' hx2

theorem perm_of_zip_perm {ws ws' : List Num} {xs xs' : List Arr} (hl : ws.length = xs.length) (hl' : ws'.length = xs'.length)
    (h : (ws.zip xs).Perm (ws'.zip xs')) : ws.Perm ws' ∧ xs.Perm xs' := by
  constructor
  · have := h.map Prod.fst
    rwa [List.map_fst_zip (by omega), List.map_fst_zip (by omega)] at this
  · have := h.map Prod.snd
    rwa [List.map_snd_zip (by omega), List.map_snd_zip (by omega)] at this

/-- **WeightedSum is independent of the order of its inputs** (weights permuted alongside): the same error, or visibly equal results. -/
theorem weightedSum_perm (sqrt : Rat → Rat) {ws ws' : List Num} {xs xs' : List Arr} (hl : ws.length = xs.length) (hl' : ws'.length = xs'.length)
    (h : (ws.zip xs).Perm (ws'.zip xs')) (n : Nat) (hn : ∀ x ∈ xs, x.cells.length = n) :
    ExceptR (exec sqrt (.weightedSum ws) xs) (exec sqrt (.weightedSum ws') xs') := by
  obtain ⟨hw, hx⟩ := perm_of_zip_perm hl hl' h
  simp only [exec]
  have e1 : (ws.length != xs.length) = false := by simp [hl]
  have e2 : (ws'.length != xs'.length) = false := by simp [hl']
  simp only [e1, e2, Bool.false_eq_true, if_false]
  rw [← validateShapes_perm .cmd hx, ← promoteAll_perm hx, ← numsAllInt_perm hw]
  rcases validateShapes_cases .cmd xs with hv | hv | hv <;> rw [hv]
  · have hne : xs ≠ [] := by intro e; subst e; simp [validateShapes, eMp] at hv
    exact weightedAcc_perm hl hl' h n hn hne ((validateShapes_ok_iff .cmd xs hne).mp hv) _
  · exact ExceptR.eMp _ _
  · exact ExceptR.eMp _ _

/-- **WeightedMean is independent of the order of its inputs** (weights permuted alongside). -/
theorem weightedMean_perm (sqrt : Rat → Rat) {ws ws' : List Num} {xs xs' : List Arr} (hl : ws.length = xs.length) (hl' : ws'.length = xs'.length)
    (h : (ws.zip xs).Perm (ws'.zip xs')) (n : Nat) (hn : ∀ x ∈ xs, x.cells.length = n) :
    ExceptR (exec sqrt (.weightedMean ws) xs) (exec sqrt (.weightedMean ws') xs') := by
  obtain ⟨hw, hx⟩ := perm_of_zip_perm hl hl' h
  simp only [exec]
  have e1 : (ws.length != xs.length) = false := by simp [hl]
  have e2 : (ws'.length != xs'.length) = false := by simp [hl']
  simp only [e1, e2, Bool.false_eq_true, if_false]
  rw [← validateShapes_perm .cmd hx, ← sumNums_perm hw]
  rcases validateShapes_cases .cmd xs with hv | hv | hv <;> rw [hv]
  · have hne : xs ≠ [] := by intro e; subst e; simp [validateShapes, eMp] at hv
    exact mapCells_R (fun _ _ => divSc_R _) (weightedAcc_perm hl hl' h n hn hne ((validateShapes_ok_iff .cmd xs hne).mp hv) _)
  · exact ExceptR.eMp _ _
  · exact ExceptR.eMp _ _

/-! ### specific errors, in the order the bodies check them -/

/-- an empty input list is reported as `EmptyInputs` by every list-taking arithmetic command -/
theorem empty_inputs_error (sqrt : Rat → Rat) :
    exec sqrt .sum [] = eMp "EmptyInputs" .cmd ∧ exec sqrt .multiply [] = eMp "EmptyInputs" .cmd ∧
    exec sqrt .minimum [] = eMp "EmptyInputs" .cmd ∧ exec sqrt .maximum [] = eMp "EmptyInputs" .cmd ∧
    exec sqrt .mean [] = eMp "EmptyInputs" .cmd ∧ exec sqrt (.weightedSum []) [] = eMp "EmptyInputs" .cmd ∧
    exec sqrt (.weightedMean []) [] = eMp "EmptyInputs" .cmd := by
  refine ⟨rfl, rfl, rfl, rfl, rfl, rfl, rfl⟩

/-- two or more inputs that do not all have one shape are reported as `MixedArrayShapes` -/
theorem mixed_shapes_error (sqrt : Rat → Rat) (a b : Arr) (t : List Arr) (h : ¬SameShape (a :: b :: t)) :
    exec sqrt .sum (a :: b :: t) = eMp "MixedArrayShapes" .cmd ∧
    exec sqrt .multiply (a :: b :: t) = eMp "MixedArrayShapes" .cmd ∧
    exec sqrt .minimum (a :: b :: t) = eMp "MixedArrayShapes" .cmd ∧
    exec sqrt .maximum (a :: b :: t) = eMp "MixedArrayShapes" .cmd ∧
    exec sqrt .mean (a :: b :: t) = eMp "MixedArrayShapes" .cmd := by
  have hv : validateShapes .cmd (a :: b :: t) = eMp "MixedArrayShapes" .cmd := by
    rcases validateShapes_cases .cmd (a :: b :: t) with h1 | h1 | h1
    · exact absurd ((validateShapes_ok_iff .cmd _ (by simp)).mp h1) h
    · simp only [validateShapes] at h1; split at h1 <;> simp [eMp] at h1
    · exact h1
  simp only [exec, naryFold, hv]
  exact ⟨rfl, rfl, rfl, rfl, rfl⟩

/-- a weight count different from the input count is reported as `MismatchedWeights`, before shapes are looked at -/
theorem mismatched_weights_error (sqrt : Rat → Rat) (w : List Num) (xs : List Arr) (h : w.length ≠ xs.length) :
    exec sqrt (.weightedSum w) xs = eMp "MismatchedWeights" .none ∧
    exec sqrt (.weightedMean w) xs = eMp "MismatchedWeights" .none := by
  simp only [exec]
  have : (w.length != xs.length) = true := by simpa using h
  simp only [this, if_true, and_self]

/-- non-vacuity: a concrete two-input Sum of an integer and a floating array with a missing cell -/
example : exec (fun x => x) .sum [⟨.int, [2], [⟨1, false⟩, ⟨5, true⟩]⟩, ⟨.float, [2], [⟨1/2, false⟩, ⟨2, false⟩]⟩]
    = .ok ⟨.float, [2], [⟨3/2, false⟩, ⟨5, true⟩]⟩ := by decide +kernel

end MPilot.C07
