/-
C07 — "for integer and floating inputs in any combination": the element type of an arithmetic result.

* `promoteAll_int_iff`: the promoted type of a list of fields is whole-numbered exactly when every field is;
* `arith_result_dtype`: Sum, Multiply, Minimum, Maximum return the promoted type of their inputs; AMinusB the promoted type of its two inputs;
  Copy its input's type; ADividedByB, Mean and WeightedMean always decimals; WeightedSum the promoted type when every weight is a whole number
  and decimals otherwise - whatever the order of the inputs (`promoteAll_perm`).
-/
import MPilot.Props.C07

namespace MPilot.C07
open MPilot

theorem promote_int_iff (a b : DType) : a.promote b = .int ↔ a = .int ∧ b = .int := by
  cases a <;> cases b <;> simp [DType.promote]

theorem promoteAll_foldl (xs : List Arr) : ∀ d : DType, xs.foldl (fun d a => d.promote a.dtype) d = .int ↔ d = .int ∧ ∀ x ∈ xs, x.dtype = .int := by
  induction xs with
  | nil => intro d; simp
  | cons a rest ih =>
    intro d
    simp only [List.foldl_cons, ih, promote_int_iff, List.mem_cons, forall_eq_or_imp]
    tauto

/-- the promoted type of a list of fields is whole-numbered exactly when every field is -/
theorem promoteAll_int_iff (xs : List Arr) : promoteAll xs = .int ↔ ∀ x ∈ xs, x.dtype = .int := by
  unfold promoteAll
  rw [promoteAll_foldl]; simp

theorem promoteAll_perm {xs xs' : List Arr} (h : xs.Perm xs') : promoteAll xs = promoteAll xs' := by
  have e : ∀ l : List Arr, promoteAll l = .int ∨ promoteAll l = .float := fun l => by cases promoteAll l <;> simp
  have hiff : promoteAll xs = .int ↔ promoteAll xs' = .int := by
    rw [promoteAll_int_iff, promoteAll_int_iff]
    exact ⟨fun h1 x hx => h1 x (h.mem_iff.mpr hx), fun h1 x hx => h1 x (h.mem_iff.mp hx)⟩
  rcases e xs with h1 | h1 <;> rcases e xs' with h2 | h2
  · rw [h1, h2]
  · exact absurd (hiff.mp h1) (by rw [h2]; simp)
  · exact absurd (hiff.mpr h2) (by rw [h1]; simp)
  · rw [h1, h2]

theorem weightedAcc_dtype (ws : List Num) (a : Arr) (as : List Arr) (w : Num) (wr : List Num) (dt : DType) (hws : ws = w :: wr) :
    (weightedAcc ws (a :: as) dt).dtype = dt := by
  subst hws
  unfold weightedAcc
  simp only
  have : ∀ (l : List (Num × Arr)) (acc : Arr), acc.dtype = dt →
      (l.foldl (fun acc (wa : Num × Arr) => Arr.zip (Cell.bin (· + ·)) dt acc (wa.2.mapCells (Cell.sc (· * wa.1.val)))) acc).dtype = dt := by
    intro l
    induction l with
    | nil => intro acc h; exact h
    | cons x l ih => intro acc _; exact ih _ (by simp [Arr.zip])
  exact this _ _ rfl

/-- the element type the arithmetic commands return -/
def arithDtype : DataCmd → List Arr → Option DType
  | .copy, [a] => some a.dtype
  | .aMinusB, [a, b] => some (a.dtype.promote b.dtype)
  | .sum, xs | .multiply, xs | .minimum, xs | .maximum, xs => some (promoteAll xs)
  | .weightedSum w, xs => some (if numsAllInt w then promoteAll xs else .float)
  | .aDividedByB, _ | .mean, _ | .weightedMean _, _ => some .float
  | _, _ => none

/-- **the element type of an arithmetic result** -/
theorem arith_result_dtype (sqrt : Rat → Rat) (c : DataCmd) (xs : List Arr) (r : Arr) (dt : DType)
    (hd : arithDtype c xs = some dt) (h : exec sqrt c xs = .ok r) : r.dtype = dt := by
  have fold : ∀ (g : Rat → Rat → Rat), naryFold .cmd g xs = .ok r → r.dtype = promoteAll xs := by
    intro g hg
    unfold naryFold at hg
    simp only [bind, Except.bind] at hg
    split at hg
    · cases hg
    · split at hg
      · exact absurd hg (eMp_ne_ok _ _ _)
      · injection hg with hg; subst hg; exact foldArr_dtype _ _ _ _
  cases c <;> simp only [arithDtype] at hd <;> try (cases hd; done)
  case copy =>
    match xs, hd, h with
    | [a], hd, h => simp only [arithDtype, Option.some.injEq] at hd; simp only [exec] at h; injection h with h; subst h; exact hd
  case aMinusB =>
    match xs, hd, h with
    | [a, b], hd, h =>
      simp only [arithDtype, Option.some.injEq] at hd
      simp only [exec, bind, Except.bind] at h
      split at h
      · cases h
      · injection h with h; subst h; subst hd; simp [Arr.zip]
  case sum => injection hd with hd; subst hd; exact fold _ (by simpa [exec] using h)
  case multiply => injection hd with hd; subst hd; exact fold _ (by simpa [exec] using h)
  case minimum => injection hd with hd; subst hd; exact fold _ (by simpa [exec] using h)
  case maximum => injection hd with hd; subst hd; exact fold _ (by simpa [exec] using h)
  case weightedSum w =>
    injection hd with hd; subst hd
    simp only [exec, bind, Except.bind] at h
    split at h
    · exact absurd h (eMp_ne_ok _ _ _)
    · rename_i hlen
      split at h
      · cases h
      · injection h with h; subst h
        match xs, w, hlen with
        | a :: as, w0 :: wr, _ => exact weightedAcc_dtype _ a as w0 wr _ rfl
        | [], [], _ => simp [validateShapes] at *
        | [], _ :: _, hl => simp at hl
        | _ :: _, [], hl => simp at hl
  case aDividedByB =>
    injection hd with hd; subst hd
    match xs, h with
    | [a, b], h =>
      simp only [exec, bind, Except.bind] at h
      split at h
      · cases h
      · injection h with h; subst h; simp [Arr.zip]
    | [], h => simp [exec, eRaw] at h
    | [_], h => simp [exec, eRaw] at h
    | _ :: _ :: _ :: _, h => simp [exec, eRaw] at h
  case mean =>
    injection hd with hd; subst hd
    simp only [exec, bind, Except.bind] at h
    split at h
    · cases h
    · split at h
      · exact absurd h (eMp_ne_ok _ _ _)
      · injection h with h; subst h
        simp only [Arr.mapCells]
        exact foldArr_dtype _ _ _ _
  case weightedMean w =>
    injection hd with hd; subst hd
    simp only [exec, bind, Except.bind] at h
    split at h
    · exact absurd h (eMp_ne_ok _ _ _)
    · rename_i hlen
      split at h
      · cases h
      · injection h with h; subst h
        simp only [Arr.mapCells]
        match xs, w, hlen with
        | a :: as, w0 :: wr, _ => exact weightedAcc_dtype _ a as w0 wr _ rfl
        | [], [], _ => simp [validateShapes] at *
        | [], _ :: _, hl => simp at hl
        | _ :: _, [], hl => simp at hl

/-! ### Minimum ≤ Mean ≤ Maximum for whole fields -/

/-- a bound of every value of a non-empty column bounds their mean -/
theorem mean_between (l : List Rat) (hne : l ≠ []) (lo hi : Rat) (hlo : ∀ y ∈ l, lo ≤ y) (hhi : ∀ y ∈ l, y ≤ hi) :
    lo ≤ l.sum / (l.length : Rat) ∧ l.sum / (l.length : Rat) ≤ hi := by
  have hpos : (0 : Rat) < (l.length : Rat) := by
    have : 0 < l.length := List.length_pos_of_ne_nil hne
    exact_mod_cast this
  have hs : ∀ (l : List Rat), (∀ y ∈ l, lo ≤ y) → (∀ y ∈ l, y ≤ hi) → lo * l.length ≤ l.sum ∧ l.sum ≤ hi * l.length := by
    intro l
    induction l with
    | nil => intro _ _; simp
    | cons x l ih =>
      intro h1 h2
      obtain ⟨i1, i2⟩ := ih (fun y hy => h1 y (List.mem_cons_of_mem _ hy)) (fun y hy => h2 y (List.mem_cons_of_mem _ hy))
      have hx1 := h1 x List.mem_cons_self
      have hx2 := h2 x List.mem_cons_self
      simp only [List.sum_cons, List.length_cons, Nat.cast_add, Nat.cast_one]
      constructor <;> nlinarith
  obtain ⟨s1, s2⟩ := hs l hlo hhi
  exact ⟨by rw [le_div_iff₀ hpos]; exact s1, by rw [div_le_iff₀ hpos]; exact s2⟩

/-- **Minimum ≤ Mean ≤ Maximum, cell by cell, for whole fields and any inputs**: the three results are missing in the same cells, and ordered elsewhere -/
theorem min_mean_max_exec (sqrt : Rat → Rat) (a : Arr) (t : List Arr) (rmin rmean rmax : Arr) (i : Nat)
    (hmin : exec sqrt .minimum (a :: t) = .ok rmin) (hmean : exec sqrt .mean (a :: t) = .ok rmean) (hmax : exec sqrt .maximum (a :: t) = .ok rmax)
    (hi : ∀ x ∈ a :: t, i < x.cells.length) :
    ∃ c1 c2 c3, rmin.cells[i]? = some c1 ∧ rmean.cells[i]? = some c2 ∧ rmax.cells[i]? = some c3 ∧ c1.mask = c2.mask ∧ c2.mask = c3.mask ∧
      (c1.mask = false → c1.val ≤ c2.val ∧ c2.val ≤ c3.val) := by
  obtain ⟨c1, h1, m1, v1⟩ := minimum_cell sqrt a t rmin i hmin hi
  obtain ⟨c2, h2, m2, v2⟩ := mean_cell sqrt a t rmean i hmean hi
  obtain ⟨c3, h3, m3, v3⟩ := maximum_cell sqrt a t rmax i hmax hi
  refine ⟨c1, c2, c3, h1, h2, h3, by rw [m1, m2], by rw [m2, m3], ?_⟩
  intro hm
  have hm2 : c2.mask = false := by rw [m2, ← m1]; exact hm
  have hm3 : c3.mask = false := by rw [m3, ← m1]; exact hm
  have hne : (column (a :: t) i).map (·.val) ≠ [] := by simp [column]
  have hlen : (((a :: t).length : Nat) : Rat) = ((((column (a :: t) i).map (·.val)).length : Nat) : Rat) := by simp [column]
  rw [v2 hm2, hlen]
  exact mean_between _ hne c1.val c3.val (v1 hm).2 (v3 hm3).2

end MPilot.C07
