/-
C11 — the line a parse-tree node carries is the line of the token it starts with, for every accepted token list.

Together with `lex_line_exact` (Props/C11Exact.lean: a token's line is exactly 1 + the line feeds before it) this gives the first sentence of the
property for every text the parser accepts, not only for the renderings of `parse_text`:
* `expression_line`: an expression node (a value, a list, a list element, an unquoted string of several tokens) carries the line of its first token;
* `argument_line`: an argument node carries the line of its name;
* `command_line`: a command node carries the line of its command name (`B` in `A = B(...)`; in EEMS 2.0 form the first token);
* `tuplePair_line`: a tuple value carries the line of its key.
-/
import MPilot.Props.C10Reject

namespace MPilot.C11N
open MPilot MPilot.C10R

theorem plainString_line {ts : List Tok} {s : String} {l : Nat} {rest : List Tok} (h : plainString ts = .ok ((s, l), rest)) :
    ∃ t r, ts = t :: r ∧ l = t.line := by
  unfold plainString at h
  cases ts with
  | nil => simp at h
  | cons t0 r0 =>
    simp only at h
    split at h
    · cases h
    · split at h
      · cases h
      · split at h
        · cases h
        · split at h
          · injection h with h; injection h with h1 _; injection h1 with _ h1
            exact ⟨t0, r0, rfl, h1.symm⟩
          · cases h

theorem permissive_line {fuel : Nat} {ts : List Tok} {s : String} {l : Nat} {rest : List Tok} (h : permissive fuel ts = .ok ((s, l), rest)) :
    ∃ t r, ts = t :: r ∧ l = t.line := by
  unfold permissive at h
  split at h
  · cases h
  · rename_i s0 line rest' hps
    split at h
    · cases h
    · injection h with h; injection h with h1 _; injection h1 with _ h1
      obtain ⟨t, r, rfl, hl⟩ := plainString_line hps
      exact ⟨t, r, rfl, by rw [← h1, hl]⟩

/-- **an expression node carries the line of its first token** -/
theorem expression_line (fuel : Nat) (ts : List Tok) (e : ENode) (rest : List Tok) (h : expression fuel ts = .ok (e, rest)) :
    ∃ t r, ts = t :: r ∧ e.line = t.line := by
  cases fuel with
  | zero => rw [expression] at h; cases h
  | succ fuel =>
    cases ts with
    | nil => rw [expression] at h; cases h
    | cons t r =>
      rw [expression] at h
      refine ⟨t, r, rfl, ?_⟩
      split at h
      · cases h
      · split at h
        · injection h with h; injection h with h1 _; subst h1; rfl
        · split at h
          · split at h
            · cases h
            · injection h with h; injection h with h1 _; subst h1; rfl
          · split at h
            · cases h
            · injection h with h; injection h with h1 _; subst h1; rfl
            · split at h
              · split at h
                · cases h
                · rename_i s line rest' hperm
                  injection h with h; injection h with h1 _; subst h1
                  obtain ⟨t', r', heq, hl⟩ := permissive_line hperm
                  injection heq with h1 _
                  subst h1
                  exact hl
              · cases h

/-- **an argument node carries the line of its name** -/
theorem argument_line (ts : List Tok) (a : ANode) (rest : List Tok) (h : argument ts = .ok (a, rest)) :
    ∃ t r, ts = t :: r ∧ t.kind = .id ∧ a.line = t.line := by
  unfold argument at h
  split at h
  · cases h
  · rename_i t r hid
    split at h
    · cases h
    · split at h
      · cases h
      · split at h
        · injection h with h; injection h with h1 _; subst h1
          obtain ⟨rfl, _, hk⟩ := expect_ok hid
          exact ⟨t, r, rfl, hk, rfl⟩
        · cases h

/-- **a command node carries the line of its command name** (second name in `Result = Command(...)`, first token in EEMS 2.0 form) -/
theorem command_line (ts : List Tok) (c : CNode) (v2 : Bool) (rest : List Tok) (h : command ts = .ok ((c, v2), rest)) :
    ∃ t ∈ ts, t.kind = .id ∧ c.line = t.line := by
  unfold command at h
  split at h
  · cases h
  · rename_i t r hid
    have hts : ts = t :: r ∧ t.kind = .id := by
      obtain ⟨h1, _, h3⟩ := expect_ok hid
      exact ⟨h1, h3⟩
    obtain ⟨rfl, htk⟩ := hts
    split at h
    · cases h
    · split at h
      · cases h
      · rename_i cn r1 hcn
        split at h
        · cases h
        · split at h
          · injection h with h; injection h with h1 _; injection h1 with h1 _; subst h1
            have hmem : cn ∈ r ∧ cn.kind = .id := by
              obtain ⟨h1, _, h3⟩ := expect_ok hcn
              exact ⟨List.mem_of_mem_drop (by rw [h1]; exact List.mem_cons_self), h3⟩
            exact ⟨cn, List.mem_cons_of_mem _ hmem.1, hmem.2, rfl⟩
          · cases h
    · split at h
      · cases h
      · split at h
        · injection h with h; injection h with h1 _; injection h1 with h1 _; subst h1
          exact ⟨t, List.mem_cons_self, htk, rfl⟩
        · cases h

/-- **a tuple value carries the line of its key** -/
theorem tuplePair_line (ts : List Tok) (k : String) (v : ENode) (rest : List Tok) (h : tuplePair ts = .ok ((k, v), rest)) :
    ∃ t r, ts = t :: r ∧ v.line = t.line := by
  unfold tuplePair at h
  cases ts with
  | nil => simp at h
  | cons t r =>
    refine ⟨t, r, rfl, ?_⟩
    simp only at h
    split at h
    · cases h
    · rename_i k0 line rest0 hkey
      have hline : line = t.line := by
        by_cases he : t.isErr = true
        · simp [he] at hkey
        · simp only [he, Bool.false_eq_true, if_false] at hkey
          by_cases hs : (t.kind == .string) = true
          · simp only [hs, if_true] at hkey
            split at hkey
            · injection hkey with hkey; injection hkey with h1 _; injection h1 with _ h1; exact h1.symm
            · cases hkey
          · simp only [hs, Bool.false_eq_true, if_false] at hkey
            obtain ⟨t', r', heq, hl⟩ := plainString_line hkey
            injection heq with h1 _; subst h1; exact hl
      split at h
      · cases h
      · split at h
        · cases h
        · split at h
          · cases h
          · split at h
            · injection h with h; injection h with h1 _; injection h1 with _ h1; subst h1; exact hline
            · split at h
              · cases h
              · injection h with h; injection h with h1 _; injection h1 with _ h1; subst h1; exact hline
              · split at h
                · cases h
                · injection h with h; injection h with h1 _; injection h1 with _ h1; subst h1; exact hline

end MPilot.C11N
