/-
C05 — results keep the input shape; cells are computed independently.

`shape_preserved` : every data command that succeeds returns an array with exactly the shape of its first input
                    (all inputs have that shape, or the command fails with MixedArrayShapes — see C07), for any rank.
`rearr_equivariant` : rearranging the cells of all inputs in the same way (any permutation of the positions, and/or a new shape such as a
                    vector reshaped to a grid) rearranges the outcome identically - all 31 commands; the whole-array statistics are shown
                    to be invariant under permutation (Lemmas/Rearr: `minL_perm`, `maxL_perm`, `meanL_perm`, `varL_perm`, `mtmStats_perm`).
-/
import MPilot.Lemmas.ArrR
import MPilot.Lemmas.Rearr

namespace MPilot.C05
open MPilot

theorem mapCells_shape (f : Cell → Cell) (a : Arr) : (a.mapCells f).shape = a.shape := rfl
theorem insure_shape (lo hi : Rat) (a : Arr) : (a.insure lo hi).shape = a.shape := rfl
theorem linMap_shape (x1 x2 y1 y2 : Rat) (a : Arr) : (linMap x1 x2 y1 y2 a).shape = a.shape := rfl
theorem curveArr_shape (a : Arr) (pts) : (curveArr a pts).shape = a.shape := rfl

theorem foldArr_shape (f : Cell → Cell → Cell) (dt : DType) (a : Arr) (rest : List Arr) :
    (foldArr f dt a rest).shape = a.shape := by
  unfold foldArr
  have : ∀ acc : Arr, (rest.foldl (fun acc a => Arr.zip f dt acc a) acc).shape = acc.shape := by
    induction rest with
    | nil => intro acc; rfl
    | cons b t ih => intro acc; rw [List.foldl_cons, ih]; rfl
  rw [this]

theorem weightedAcc_shape (dt : DType) (a : Arr) (t : List Arr) (w : Num) (wr : List Num) :
    (weightedAcc (w :: wr) (a :: t) dt).shape = a.shape := by
  simp only [weightedAcc]
  have : ∀ (l : List (Num × Arr)) (acc : Arr),
      (l.foldl (fun acc (wa : Num × Arr) => Arr.zip (Cell.bin (· + ·)) dt acc (wa.2.mapCells (Cell.sc (· * wa.1.val)))) acc).shape = acc.shape := by
    intro l
    induction l with
    | nil => intro acc; rfl
    | cons b t ih => intro acc; rw [List.foldl_cons, ih]; rfl
  rw [this]

theorem fuzzyClamp_shape {x : Except Err Arr} {r : Arr} {s : List Nat} (h : fuzzyClamp x = .ok r)
    (hx : ∀ y, x = .ok y → y.shape = s) : r.shape = s := by
  unfold fuzzyClamp at h
  cases x with
  | error e => simp [Except.map] at h
  | ok a => simp only [Except.map, Except.ok.injEq] at h; subst h; exact hx a rfl

theorem ok_inj {a b : Arr} (h : (Except.ok a : Except Err Arr) = .ok b) : a = b := by injection h

/-- split every `if`/`match` of hypothesis `h : … = .ok r`, discard error branches, close `ok` branches by `tac` -/
macro "ok_cases" h:ident " => " tac:tacticSeq : tactic =>
  `(tactic| (repeat' (first | split at $h:ident | (dsimp only at $h:ident))
             all_goals first
               | exact absurd $h:ident (eRaw_ne_ok _ _)
               | exact absurd $h:ident (eMp_ne_ok _ _ _)
               | ($tac)))

theorem zScoreBody_shape {sqrt a tt ft s e r} (h : zScoreBody sqrt a tt ft s e = .ok r) : r.shape = a.shape := by
  unfold zScoreBody at h
  ok_cases h => (have := ok_inj h; subst this; rfl)

theorem catBody_shape {a raw nv d r} (h : catBody a raw nv d = .ok r) : r.shape = a.shape := by
  unfold catBody at h
  ok_cases h => (have := ok_inj h; subst this; rfl)

theorem curveBody_shape {ref a raw nv r} (h : curveBody ref a raw nv = .ok r) : r.shape = a.shape := by
  unfold curveBody at h
  ok_cases h => (have := ok_inj h; subst this; rfl)

theorem curveZBody_shape {sqrt a z nv r} (h : curveZBody sqrt a z nv = .ok r) : r.shape = a.shape := by
  unfold curveZBody at h
  ok_cases h => (have := ok_inj h; subst this; rfl)

theorem meanToMidBody_shape {a iz nv r} (h : meanToMidBody a iz nv = .ok r) : r.shape = a.shape := by
  unfold meanToMidBody at h
  split at h
  · cases h
  · exact curveBody_shape h

theorem stackMap_shape (f) (a : Arr) (t : List Arr) : (stackMap (a :: t) f).shape = a.shape := rfl

theorem naryFold_shape {ref g a t r} (h : naryFold ref g (a :: t) = .ok r) : r.shape = a.shape := by
  unfold naryFold at h
  obtain ⟨_, _, h⟩ := bind_ok h
  have := ok_inj h; subst this
  exact foldArr_shape _ _ _ _

theorem go_shape {a tt ft hl r} (h : exec.go a tt ft hl = .ok r) : r.shape = a.shape := by
  unfold exec.go at h
  ok_cases h => exact fuzzyClamp_shape h (fun y hy => by have := ok_inj hy; subst this; rfl)

theorem clamp_of {x : Except Err Arr} {r : Arr} {s : List Nat} (hx : ∀ y, x = .ok y → y.shape = s)
    (h : fuzzyClamp x = .ok r) : r.shape = s := fuzzyClamp_shape h hx

/-- **C05 (shape).** A data command that succeeds returns an array of exactly the shape of its first input, for any
number of dimensions.  (Inputs of differing shapes are rejected with `MixedArrayShapes`, so this is "the shape of its inputs".) -/
theorem shape_preserved (sqrt : Rat → Rat) (c : DataCmd) (a : Arr) (t : List Arr) (r : Arr)
    (h : exec sqrt c (a :: t) = .ok r) : r.shape = a.shape := by
  cases c
  -- two-input commands
  case aMinusB =>
    rcases t with _ | ⟨b, _ | ⟨_, _⟩⟩ <;> simp only [exec] at h <;> try exact absurd h (eRaw_ne_ok _ _)
    obtain ⟨_, _, h⟩ := bind_ok h
    have := ok_inj h; subst this; rfl
  case aDividedByB =>
    rcases t with _ | ⟨b, _ | ⟨_, _⟩⟩ <;> simp only [exec] at h <;> try exact absurd h (eRaw_ne_ok _ _)
    obtain ⟨_, _, h⟩ := bind_ok h
    have := ok_inj h; subst this; rfl
  -- n-ary commands
  case sum => simp only [exec] at h; exact naryFold_shape h
  case multiply => simp only [exec] at h; exact naryFold_shape h
  case minimum => simp only [exec] at h; exact naryFold_shape h
  case maximum => simp only [exec] at h; exact naryFold_shape h
  case fuzzyOr => simp only [exec] at h; exact clamp_of (fun _ hy => naryFold_shape hy) h
  case fuzzyAnd => simp only [exec] at h; exact clamp_of (fun _ hy => naryFold_shape hy) h
  case mean =>
    simp only [exec] at h
    obtain ⟨_, _, h⟩ := bind_ok h
    have := ok_inj h; subst this
    exact foldArr_shape _ _ _ _
  case fuzzyUnion =>
    simp only [exec] at h
    obtain ⟨_, _, h⟩ := bind_ok h
    exact clamp_of (fun y hy => by have := ok_inj hy; subst this; exact foldArr_shape _ _ _ _) h
  case weightedSum w =>
    simp only [exec] at h
    split at h
    next => exact absurd h (eMp_ne_ok _ _ _)
    next hne =>
      obtain ⟨_, _, h⟩ := bind_ok h
      have := ok_inj h; subst this
      cases w with
      | nil => simp at hne
      | cons w0 wr => exact weightedAcc_shape _ _ _ _ _
  case weightedMean w =>
    simp only [exec] at h
    split at h
    next => exact absurd h (eMp_ne_ok _ _ _)
    next hne =>
      obtain ⟨_, _, h⟩ := bind_ok h
      have := ok_inj h; subst this
      cases w with
      | nil => simp at hne
      | cons w0 wr => exact weightedAcc_shape _ _ _ _ _
  case fuzzyWeightedUnion w =>
    simp only [exec] at h
    split at h
    next => exact absurd h (eMp_ne_ok _ _ _)
    next hne =>
      obtain ⟨_, _, h⟩ := bind_ok h
      refine clamp_of (fun y hy => ?_) h
      have := ok_inj hy; subst this
      cases w with
      | nil => simp at hne
      | cons w0 wr => exact weightedAcc_shape _ _ _ _ _
  case fuzzySelectedUnion sel k =>
    simp only [exec] at h
    obtain ⟨_, _, h⟩ := bind_ok h
    ok_cases h => exact clamp_of (fun y hy => by have := ok_inj hy; subst this; rfl) h
  case fuzzyXOr =>
    simp only [exec] at h
    obtain ⟨_, _, h⟩ := bind_ok h
    ok_cases h => exact clamp_of (fun y hy => by have := ok_inj hy; subst this; rfl) h
  -- single-input commands
  all_goals (rcases t with _ | ⟨_, _⟩ <;> simp only [exec] at h <;> try exact absurd h (eRaw_ne_ok _ _))
  case copy => have := ok_inj h; subst this; rfl
  case normalize s e => ok_cases h => (have := ok_inj h; subst this; rfl)
  case normalizeZScore tt ft s e => exact zScoreBody_shape h
  case normalizeCat raw nv d => exact catBody_shape h
  case normalizeCurve raw nv => exact curveBody_shape h
  case normalizeMeanToMid iz nv => exact meanToMidBody_shape h
  case normalizeCurveZScore z nv => exact curveZBody_shape h
  case cvtToFuzzy tt ft dir => ok_cases h => exact go_shape h
  case cvtToFuzzyZScore tt ft => exact clamp_of (fun _ hy => zScoreBody_shape hy) h
  case cvtToFuzzyCat raw fz d => exact clamp_of (fun _ hy => catBody_shape hy) h
  case cvtToFuzzyCurve raw fz => exact clamp_of (fun _ hy => curveBody_shape hy) h
  case cvtToFuzzyMeanToMid iz fz => exact clamp_of (fun _ hy => meanToMidBody_shape hy) h
  case cvtToFuzzyCurveZScore z fz => exact clamp_of (fun _ hy => curveZBody_shape hy) h
  case cvtToBinary th dir => ok_cases h => exact clamp_of (fun y hy => by have := ok_inj hy; subst this; rfl) h
  case fuzzyNot => exact clamp_of (fun y hy => by have := ok_inj hy; subst this; rfl) h
  case cvtFromFuzzy tt ft => ok_cases h => (have := ok_inj h; subst this; rfl)

/-! ### rearranging the cells of all inputs in the same way rearranges the result identically -/

theorem bind_unit_map (x : Except Err Unit) (f : Unit → Except Err Arr) (g : Arr → Arr) :
    (x >>= f).map g = x >>= fun u => (f u).map g := by
  cases x <;> rfl

theorem naryFold_rearr (ref : LineRef) (g : Rat → Rat → Rat) (xs : List Arr) (n : Nat) (s σ : List Nat) (hσ : σ.Perm (List.range n))
    (hn : ∀ a ∈ xs, a.cells.length = n) (hs : SameShape xs) :
    naryFold ref g (xs.map (Arr.rearr s σ)) = (naryFold ref g xs).map (Arr.rearr s σ) := by
  unfold naryFold
  rw [validateShapes_rearr ref s σ xs hs, promoteAll_rearr, bind_unit_map]
  congr 1; funext _
  cases xs with
  | nil => rfl
  | cons a t => simp only [List.map_cons, except_map_ok, rearr_foldArr s σ _ _ n hσ a t hn]

theorem go_rearr (a : Arr) (tt ft : Option Num) (hl : Bool) (s σ : List Nat) (hσ : σ.Perm (List.range a.cells.length)) :
    exec.go (a.rearr s σ) tt ft hl = (exec.go a tt ft hl).map (Arr.rearr s σ) := by
  unfold exec.go
  have hp := rearr_valid_perm s σ a hσ
  rw [minL_perm hp, maxL_perm hp]
  have key : ∀ (t f : Rat), fuzzyClamp (.ok (linMap t f 1 (-1) (a.rearr s σ))) = (fuzzyClamp (.ok (linMap t f 1 (-1) a))).map (Arr.rearr s σ) := by
    intro t f
    rw [← fuzzyClamp_map_rearr, except_map_ok, rearr_linMap]
  have ite_key : ∀ (c : Prop) [Decidable c] (t f : Rat),
      (if c then (eMp "InvalidThresholds" .cmd : Except Err Arr) else fuzzyClamp (.ok (linMap t f 1 (-1) (a.rearr s σ)))) =
        (if c then (eMp "InvalidThresholds" .cmd : Except Err Arr) else fuzzyClamp (.ok (linMap t f 1 (-1) a))).map (Arr.rearr s σ) := by
    intro c _ t f
    split
    · rfl
    · exact key t f
  have second : (match tt, ft with
      | some t, some f => if t.val == f.val then (eMp "InvalidThresholds" .cmd : Except Err Arr) else fuzzyClamp (.ok (linMap t.val f.val 1 (-1) (a.rearr s σ)))
      | _, _ => eRaw "Degenerate") =
      (match tt, ft with
      | some t, some f => if t.val == f.val then (eMp "InvalidThresholds" .cmd : Except Err Arr) else fuzzyClamp (.ok (linMap t.val f.val 1 (-1) a))
      | _, _ => eRaw "Degenerate").map (Arr.rearr s σ) := by
    cases tt <;> cases ft <;> first | rfl | exact ite_key _ _ _
  cases minL a.valid with
  | none => cases maxL a.valid <;> exact second
  | some mn =>
    cases maxL a.valid with
    | none => exact second
    | some mx => exact ite_key _ _ _

/-- **C05 (cells are computed independently).**  Apply one rearrangement to every input - the same permutation `σ` of the cell positions
and/or a new shape `s` (e.g. a vector reshaped to a grid) - and the outcome is the original outcome rearranged in exactly the same way:
the same error, or the same cells at the new positions under the new shape, hidden payloads included.  All 31 commands, whole-array
statistics (minimum, maximum, mean, standard deviation, mean-to-mid points) included.  (Inputs: one common shape and `n` cells each.) -/
theorem rearr_equivariant (sqrt : Rat → Rat) (c : DataCmd) (xs : List Arr) (n : Nat) (s σ : List Nat) (hσ : σ.Perm (List.range n))
    (hn : ∀ a ∈ xs, a.cells.length = n) (hs : SameShape xs) :
    exec sqrt c (xs.map (Arr.rearr s σ)) = (exec sqrt c xs).map (Arr.rearr s σ) := by
  cases c
  case sum => simp only [exec]; exact naryFold_rearr _ _ xs n s σ hσ hn hs
  case multiply => simp only [exec]; exact naryFold_rearr _ _ xs n s σ hσ hn hs
  case minimum => simp only [exec]; exact naryFold_rearr _ _ xs n s σ hσ hn hs
  case maximum => simp only [exec]; exact naryFold_rearr _ _ xs n s σ hσ hn hs
  case fuzzyOr => simp only [exec]; rw [naryFold_rearr _ _ xs n s σ hσ hn hs, fuzzyClamp_map_rearr]
  case fuzzyAnd => simp only [exec]; rw [naryFold_rearr _ _ xs n s σ hσ hn hs, fuzzyClamp_map_rearr]
  case aMinusB =>
    rcases xs with _ | ⟨a, _ | ⟨b, _ | ⟨c, t⟩⟩⟩ <;> simp only [List.map_cons, List.map_nil, exec] <;> try rfl
    have := validateShapes_rearr .cmd s σ [a, b] hs
    simp only [List.map_cons, List.map_nil] at this
    rw [this, bind_unit_map]
    congr 1; funext _
    simp only [except_map_ok]
    congr 1
    exact (rearr_zip s σ _ _ a b n (perm_range_lt hσ) (hn a (by simp)) (hn b (by simp))).symm
  case aDividedByB =>
    rcases xs with _ | ⟨a, _ | ⟨b, _ | ⟨c, t⟩⟩⟩ <;> simp only [List.map_cons, List.map_nil, exec] <;> try rfl
    have := validateShapes_rearr .cmd s σ [a, b] hs
    simp only [List.map_cons, List.map_nil] at this
    rw [this, bind_unit_map]
    congr 1; funext _
    simp only [except_map_ok]
    congr 1
    exact (rearr_zip s σ _ _ a b n (perm_range_lt hσ) (hn a (by simp)) (hn b (by simp))).symm
  case mean =>
    simp only [exec]
    rw [validateShapes_rearr .cmd s σ xs hs, bind_unit_map]
    congr 1; funext _
    cases xs with
    | nil => rfl
    | cons a t =>
      simp only [List.map_cons, except_map_ok, List.length_cons, List.length_map]
      rw [← rearr_foldArr s σ _ _ n hσ a t hn, ← rearr_mapCells]
  case fuzzyUnion =>
    simp only [exec]
    rw [validateShapes_rearr _ s σ xs hs, bind_unit_map]
    congr 1; funext _
    cases xs with
    | nil => rfl
    | cons a t =>
      simp only [List.map_cons, List.length_cons, List.length_map]
      rw [← rearr_foldArr s σ _ _ n hσ a t hn, ← rearr_mapCells, ← except_map_ok, fuzzyClamp_map_rearr]
  case weightedSum w =>
    simp only [exec, List.length_map]
    split
    · rfl
    · rename_i hlen
      rw [validateShapes_rearr .cmd s σ xs hs, promoteAll_rearr, bind_unit_map]
      cases hv : validateShapes .cmd xs with
      | error e => rfl
      | ok u =>
        have hne : xs ≠ [] := by intro e; subst e; simp [validateShapes, eMp] at hv
        simp only [bind, Except.bind, except_map_ok]
        rw [rearr_weightedAcc s σ n hσ w xs _ (by simpa using hlen) hne hn]
  case weightedMean w =>
    simp only [exec, List.length_map]
    split
    · rfl
    · rename_i hlen
      rw [validateShapes_rearr .cmd s σ xs hs, bind_unit_map]
      cases hv : validateShapes .cmd xs with
      | error e => rfl
      | ok u =>
        have hne : xs ≠ [] := by intro e; subst e; simp [validateShapes, eMp] at hv
        simp only [bind, Except.bind, except_map_ok]
        rw [rearr_weightedAcc s σ n hσ w xs _ (by simpa using hlen) hne hn, rearr_mapCells]
  case fuzzyWeightedUnion w =>
    simp only [exec, List.length_map]
    split
    · rfl
    · rename_i hlen
      rw [validateShapes_rearr _ s σ xs hs, bind_unit_map]
      cases hv : validateShapes (.arg "InFieldNames") xs with
      | error e => rfl
      | ok u =>
        have hne : xs ≠ [] := by intro e; subst e; simp [validateShapes, eMp] at hv
        simp only [bind, Except.bind]
        rw [rearr_weightedAcc s σ n hσ w xs _ (by have := hlen; simp at this; omega) hne hn, ← rearr_mapCells, ← except_map_ok,
          fuzzyClamp_map_rearr]
  case fuzzySelectedUnion sel k =>
    simp only [exec, List.length_map]
    rw [validateShapes_rearr _ s σ xs hs, bind_unit_map]
    cases hv : validateShapes (.arg "InFieldNames") xs with
    | error e => rfl
    | ok u =>
      simp only [bind, Except.bind]
      cases xs with
      | nil => simp [validateShapes, eMp] at hv
      | cons a t =>
        rw [rearr_stackMap s σ n hσ _ a t hn, ← except_map_ok, fuzzyClamp_map_rearr]
        by_cases h1 : (((a :: t).length : Nat) : Rat) < k.val
        · simp only [h1, if_true]; rfl
        · simp only [h1, if_false]
          by_cases h2 : (sel != "Truest" && sel != "Falsest") = true
          · simp only [h2, if_true]; rfl
          · simp only [h2, if_false]
            by_cases h3 : (!k.isInt) = true
            · simp only [h3, if_true]; rfl
            · simp only [h3, if_false]
              by_cases h4 : k.val < 1
              · simp only [h4, if_true]; rfl
              · simp only [h4, if_false]; rfl
  case fuzzyXOr =>
    simp only [exec, List.length_map]
    rw [validateShapes_rearr _ s σ xs hs, bind_unit_map]
    cases hv : validateShapes (.arg "InFieldNames") xs with
    | error e => rfl
    | ok u =>
      simp only [bind, Except.bind]
      split
      · rfl
      · cases xs with
        | nil => simp [validateShapes, eMp] at hv
        | cons a t => rw [rearr_stackMap s σ n hσ _ a t hn, ← except_map_ok, fuzzyClamp_map_rearr]
  -- single-input commands
  all_goals (rcases xs with _ | ⟨a, _ | ⟨b, t⟩⟩ <;> simp only [List.map_cons, List.map_nil, exec] <;> try rfl)
  all_goals (have hσa : σ.Perm (List.range a.cells.length) := by rw [hn a (List.mem_cons_self ..)]; exact hσ)
  case normalize st e =>
    have hp := rearr_valid_perm s σ a hσa
    rw [minL_perm hp, maxL_perm hp]
    cases minL a.valid <;> cases maxL a.valid <;> simp only [except_map_ok] <;> (congr 1; simp only [Arr.rearr, permute_map])
  case normalizeZScore tt ft st e => exact rearr_zScoreBody s σ sqrt a _ _ _ _ hσa
  case normalizeCat raw nv d => exact rearr_catBody s σ a raw nv d
  case normalizeCurve raw nv => exact rearr_curveBody s σ _ a _ _
  case normalizeMeanToMid iz nv => exact rearr_meanToMidBody s σ a iz nv hσa
  case normalizeCurveZScore z nv => exact rearr_curveZBody s σ sqrt a z nv hσa
  case cvtToFuzzyZScore tt ft => rw [rearr_zScoreBody s σ sqrt a _ _ _ _ hσa, fuzzyClamp_map_rearr]
  case cvtToFuzzyCat raw fz d => rw [rearr_catBody, fuzzyClamp_map_rearr]
  case cvtToFuzzyCurve raw fz => rw [rearr_curveBody, fuzzyClamp_map_rearr]
  case cvtToFuzzyMeanToMid iz fz => rw [rearr_meanToMidBody s σ a iz fz hσa, fuzzyClamp_map_rearr]
  case cvtToFuzzyCurveZScore z fz => rw [rearr_curveZBody s σ sqrt a z fz hσa, fuzzyClamp_map_rearr]
  case cvtToBinary th dir =>
    split
    · rfl
    · rw [← fuzzyClamp_map_rearr, except_map_ok]; congr 2; simp only [Arr.rearr, permute_map]
  case fuzzyNot => rw [← fuzzyClamp_map_rearr, except_map_ok, rearr_mapCells]
  case cvtFromFuzzy tt ft =>
    split
    · rfl
    · rw [except_map_ok, rearr_linMap]
  case cvtToFuzzy tt ft dir =>
    cases dir with
    | none => exact go_rearr a tt ft false s σ hσa
    | some d =>
      simp only
      split
      · rfl
      · exact go_rearr a tt ft _ s σ hσa

/-- non-vacuity: swapping the two cells of two-cell arrays is a rearrangement in the sense of `rearr_equivariant` -/
example : ([1, 0] : List Nat).Perm (List.range 2) := by decide

end MPilot.C05
