/- C05 — theorems under construction -/
import MPilot.Model.Eems
