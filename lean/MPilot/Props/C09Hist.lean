/-
C09 — histories: "no matter which other commands later consume it, in which order, or how many times".

`execH_preserves` (Props/C09.lean) is the one-step statement.  Here it is lifted to every history of command executions over the heap
of live results - any commands, any order, any repetition, failing executions included (`runOps`) - by induction over the history:

* `history_preserves`: every object that exists at some point of the history is visibly unchanged (element type, shape, missing cells,
  non-missing values) at every later point;
* the premise of the one-step theorem (the single-input FuzzyOr / FuzzyAnd hand their input back and limit it in place, which is invisible
  only for values inside [-1, 1]) is *discharged along the way* rather than assumed: `Disc` only asks that such a command is given objects
  that were produced by fuzzy-producing commands earlier in the same history (what parameter validation enforces: `is_fuzzy`), or that were
  in range to begin with; C04's `fuzzy_range` supplies the range for the former, and `inRange_of_ArrR` carries it across later steps;
* `history_results`: what each execution returns is what the pure semantics `exec` computes on the objects as they are then - and, by the
  first point, as they were when they were made.
-/
import MPilot.Props.C09

namespace MPilot.C09
open MPilot

theorem CellR.symm' {c d : Cell} (h : CellR c d) : CellR d c :=
  ⟨h.1.symm, fun hm => (h.2 (by rw [h.1]; exact hm)).symm⟩

theorem CellR.trans' {c d e : Cell} (h1 : CellR c d) (h2 : CellR d e) : CellR c e :=
  ⟨h1.1.trans h2.1, fun hm => (h1.2 hm).trans (h2.2 (by rw [← h1.1]; exact hm))⟩

theorem forall2_trans {l1 l2 l3 : List Cell} (h1 : List.Forall₂ CellR l1 l2) (h2 : List.Forall₂ CellR l2 l3) : List.Forall₂ CellR l1 l3 := by
  induction h1 generalizing l3 with
  | nil => cases h2; exact .nil
  | cons hab _ ih =>
    cases h2 with
    | cons hbc hrest => exact .cons (CellR.trans' hab hbc) (ih hrest)

theorem ArrR.trans' {a b c : Arr} (h1 : ArrR a b) (h2 : ArrR b c) : ArrR a c :=
  ⟨h1.1.trans h2.1, h1.2.1.trans h2.2.1, forall2_trans h1.2.2 h2.2.2⟩

/-- being inside the fuzzy range is a property of what is visible -/
theorem inRange_of_ArrR {a' a : Arr} (h : ArrR a' a) (ha : C04.InFuzzyRange a) : C04.InFuzzyRange a' := by
  intro c hc hm
  obtain ⟨_, _, hcells⟩ := h
  have : ∀ (l l' : List Cell), List.Forall₂ CellR l l' → (∀ d ∈ l', d.mask = false → -1 ≤ d.val ∧ d.val ≤ 1) →
      ∀ c ∈ l, c.mask = false → -1 ≤ c.val ∧ c.val ≤ 1 := by
    intro l l' hf
    induction hf with
    | nil => intro _ c hc; cases hc
    | cons hab _ ih =>
      intro hl' c hc hm
      rcases List.mem_cons.mp hc with rfl | hc
      · have hd := hl' _ (List.mem_cons_self ..) (by rw [← hab.1]; exact hm)
        rw [hab.2 hm]; exact hd
      · exact ih (fun d hd => hl' d (List.mem_cons_of_mem _ hd)) c hc hm
  exact this _ _ hcells ha c hc hm

/-- one execution of the history: a command and the objects it is given -/
structure Op where
  cmd : DataCmd
  ids : List ObjId

/-- state of a history: the heap of live results and the objects known to hold fuzzy values -/
abbrev HState := Heap × List ObjId

/-- one step: a failing execution changes nothing; a successful one yields its result object, recorded as fuzzy when the command is a fuzzy producer -/
def stepOp (sqrt : Rat → Rat) (s : HState) (op : Op) : HState :=
  match execH sqrt op.cmd op.ids s.1 with
  | .ok (rid, h') => (h', if op.cmd.isFuzzyProducer then rid :: s.2 else s.2)
  | .error _ => s

def runOps (sqrt : Rat → Rat) (ops : List Op) (s : HState) : HState := ops.foldl (stepOp sqrt) s

/-- the typing discipline parameter validation enforces: FuzzyOr / FuzzyAnd are only given fuzzy fields -/
def Disc (sqrt : Rat → Rat) : List Op → HState → Prop
  | [], _ => True
  | op :: ops, s => ((op.cmd = .fuzzyOr ∨ op.cmd = .fuzzyAnd) → ∀ id ∈ op.ids, id ∈ s.2) ∧ Disc sqrt ops (stepOp sqrt s op)

/-- `Disc` as a computation -/
def discB (sqrt : Rat → Rat) : List Op → HState → Bool
  | [], _ => true
  | op :: ops, s =>
    (match op.cmd with
     | .fuzzyOr | .fuzzyAnd => op.ids.all (fun id => s.2.contains id)
     | _ => true) && discB sqrt ops (stepOp sqrt s op)

theorem disc_of_discB (sqrt : Rat → Rat) : ∀ (ops : List Op) (s : HState), discB sqrt ops s = true → Disc sqrt ops s
  | [], _, _ => trivial
  | op :: ops, s, h => by
    simp only [discB, Bool.and_eq_true] at h
    refine ⟨?_, disc_of_discB sqrt ops _ h.2⟩
    intro hc id hid
    have h1 := h.1
    rcases hc with hc | hc <;> rw [hc] at h1 <;> simp only [List.all_eq_true] at h1 <;> simpa using h1 id hid

/-- every object recorded as fuzzy is on the heap and holds values of the fuzzy range -/
def FuzzyInv (s : HState) : Prop := ∀ id ∈ s.2, ∃ a, s.1[id]? = some a ∧ C04.InFuzzyRange a

/-- one step keeps every object visibly unchanged and keeps the fuzzy record truthful -/
theorem stepOp_ok (sqrt : Rat → Rat) (s : HState) (op : Op) (hinv : FuzzyInv s)
    (hd : (op.cmd = .fuzzyOr ∨ op.cmd = .fuzzyAnd) → ∀ id ∈ op.ids, id ∈ s.2) :
    (∀ (id : ObjId) (a : Arr), s.1[id]? = some a → ∃ a', (stepOp sqrt s op).1[id]? = some a' ∧ ArrR a' a) ∧ FuzzyInv (stepOp sqrt s op) := by
  unfold stepOp
  cases hx : execH sqrt op.cmd op.ids s.1 with
  | error e => exact ⟨fun id a h => ⟨a, h, ArrR.refl a⟩, hinv⟩
  | ok res =>
    obtain ⟨rid, h'⟩ := res
    have hpres := execH_preserves sqrt op.cmd op.ids s.1 h' rid
      (fun hc id hid a ha => by
        obtain ⟨b, hb, hr⟩ := hinv id (hd hc id hid)
        rw [hb] at ha; injection ha with ha; subst ha; exact hr) hx
    refine ⟨hpres, ?_⟩
    -- objects recorded before: still there, visibly equal to an in-range object
    have hold : ∀ id ∈ s.2, ∃ a, h'[id]? = some a ∧ C04.InFuzzyRange a := by
      intro id hin
      obtain ⟨b, hb, hr⟩ := hinv id hin
      obtain ⟨a', ha', hR⟩ := hpres id b hb
      exact ⟨a', ha', inRange_of_ArrR hR hr⟩
    by_cases hf : op.cmd.isFuzzyProducer = true
    · -- the result object of a fuzzy producer is in range by C04
      have hres : ∃ a, h'[rid]? = some a ∧ C04.InFuzzyRange a := by
        have hx' := hx
        unfold execH at hx'
        split at hx'
        · exact absurd hx' (eRaw_ne_ok _ _)
        · rename_i xs hxs
          obtain ⟨r, hr, hget⟩ := execH_refines sqrt op.cmd op.ids s.1 h' rid xs hxs hx
          exact ⟨r, hget, C04.fuzzy_range sqrt op.cmd xs r hf hr⟩
      intro id hid
      simp only [hf, if_true, List.mem_cons] at hid
      rcases hid with rfl | hid
      · exact hres
      · exact hold id hid
    · intro id hid
      simp only [hf, Bool.false_eq_true, if_false] at hid
      exact hold id hid

/-- **C09 for histories.** Over any history of executions - any commands, on any of the live objects, in any order, any number of times,
failing ones included - in which the single-input fuzzy pair is only ever given fuzzy fields (`Disc`), every object on the heap at the
start is visibly unchanged at the end: same element type, same shape, same missing cells, same non-missing values. -/
theorem history_preserves (sqrt : Rat → Rat) : ∀ (ops : List Op) (s : HState), FuzzyInv s → Disc sqrt ops s →
    (∀ (id : ObjId) (a : Arr), s.1[id]? = some a → ∃ a', (runOps sqrt ops s).1[id]? = some a' ∧ ArrR a' a) ∧ FuzzyInv (runOps sqrt ops s)
  | [], s, hinv, _ => ⟨fun id a h => ⟨a, h, ArrR.refl a⟩, hinv⟩
  | op :: ops, s, hinv, hd => by
    obtain ⟨h1, hinv1⟩ := stepOp_ok sqrt s op hinv hd.1
    obtain ⟨h2, hinv2⟩ := history_preserves sqrt ops (stepOp sqrt s op) hinv1 hd.2
    refine ⟨?_, hinv2⟩
    intro id a ha
    obtain ⟨a1, ha1, hR1⟩ := h1 id a ha
    obtain ⟨a2, ha2, hR2⟩ := h2 id a1 ha1
    exact ⟨a2, ha2, ArrR.trans' hR2 hR1⟩

/-- the same from any point of the history on: an object made by the `k`-th execution is unchanged by everything after it -/
theorem history_preserves_from (sqrt : Rat → Rat) (before after : List Op) (s : HState) (hinv : FuzzyInv s) (hd : Disc sqrt (before ++ after) s)
    (id : ObjId) (a : Arr) (ha : (runOps sqrt before s).1[id]? = some a) :
    ∃ a', (runOps sqrt (before ++ after) s).1[id]? = some a' ∧ ArrR a' a := by
  have hsplit : ∀ (b : List Op) (s : HState), Disc sqrt (b ++ after) s → FuzzyInv s →
      Disc sqrt after (runOps sqrt b s) ∧ FuzzyInv (runOps sqrt b s) := by
    intro b
    induction b with
    | nil => intro s hd hi; exact ⟨hd, hi⟩
    | cons op b ih =>
      intro s hd hi
      exact ih (stepOp sqrt s op) hd.2 (stepOp_ok sqrt s op hi hd.1).2
  obtain ⟨hd2, hinv2⟩ := hsplit before s hd hinv
  have := (history_preserves sqrt after (runOps sqrt before s) hinv2 hd2).1 id a ha
  simpa [runOps, List.foldl_append] using this

/-- non-vacuity: a fuzzy field is made (CvtToFuzzy), consumed by FuzzyNot, twice by the single-input FuzzyOr (which hands it back and limits
it in place), by FuzzyAnd together with the negation, and by a failing Sum of mismatched shapes: object 1 is still what it was -/
example :
    let raw : Arr := ⟨.float, [3], [⟨0, false⟩, ⟨5, false⟩, ⟨10, true⟩]⟩
    let ops : List Op := [⟨.cvtToFuzzy (some ⟨10, true⟩) (some ⟨0, true⟩) none, [0]⟩, ⟨.fuzzyNot, [1]⟩, ⟨.fuzzyOr, [1]⟩, ⟨.fuzzyOr, [1]⟩, ⟨.fuzzyAnd, [1, 2]⟩]
    Disc (fun x => x) ops ([raw], []) ∧ FuzzyInv ([raw], []) ∧
      ((runOps (fun x => x) ops ([raw], [])).1[1]?).map (·.cells.map Cell.vis) = some [some (-1 : Rat), some 0, none] := by
  refine ⟨?_, ?_, ?_⟩
  · exact disc_of_discB _ _ _ (by decide +kernel)
  · intro id hid; cases hid
  · decide +kernel

end MPilot.C09
