/- C14 — theorems under construction -/
import MPilot.Model.Program
