/-
C14 — cyclic models are rejected, never silently skipped.

* `cycle_rejected_before_execution` : when the check finds a cycle, `run` returns the recursive-model error and the state
  (log, memo) is untouched — nothing executed.
* `no_cycle_ranked` (soundness of acceptance): when the check finds no cycle, the reference graph of the program has a rank
  function (every reference goes to a strictly smaller rank) — exactly the acyclicity premise under which C01 shows that every
  command is executed once and evaluation needs no more fuel than there are commands.  So a cyclic model can never be accepted.
-/
import MPilot.Props.C01
import Mathlib.Data.List.Perm.Subperm

namespace MPilot.C14
open MPilot

variable {Val : Type}

/-- **rejected before anything runs** -/
theorem cycle_rejected_before_execution (sem : Sem Val) (p : Program) (st : St Val)
    (info : List (String × List String × List String)) (hpre : prepass (mkCtx sem p st) p.cmds = .ok info)
    (hcyc : hasCycle p (depsOf info) = true) :
    run sem p st = (st, some (.mp "RecursiveModelStructure" none)) := by
  unfold run
  rw [hpre]
  simp only [hcyc, if_true]

/-! ### the depth-first check is sound -/

section
variable (deps : String → List String) (known : String → Bool)

/-- every element's known references occur later in the list -/
def Topo (d : List String) : Prop :=
  d.Nodup ∧ ∀ pre x post, d = pre ++ x :: post → ∀ r ∈ deps x, known r = true → r ∈ post

theorem topo_nil : Topo deps known [] := ⟨List.nodup_nil, by intro pre x post h; simp at h⟩

/-- what a successful visit guarantees -/
structure VisitOk (path done done' : List String) : Prop where
  topo : Topo deps known done'
  ext : ∃ pre, done' = pre ++ done
  fresh : ∀ x ∈ done', x ∈ done ∨ x ∉ path

theorem go_sound (fuel : Nat) (n : String) (path : List String)
    (ih : ∀ path done m done', visit deps known fuel path done m = some done' → Topo deps known done → m ∉ path →
      VisitOk deps known path done done' ∧ m ∈ done') :
    ∀ (rs : List String) (d d' : List String), visit.go deps known fuel path n rs d = some d' → Topo deps known d →
      VisitOk deps known (n :: path) d d' ∧ ∀ r ∈ rs, known r = true → r ∈ d' := by
  intro rs
  induction rs with
  | nil =>
    intro d d' h ht
    unfold visit.go at h
    injection h with h; subst h
    exact ⟨⟨ht, ⟨[], by simp⟩, fun x hx => Or.inl hx⟩, by simp⟩
  | cons r rs ihr =>
    intro d d' h ht
    unfold visit.go at h
    by_cases hc : (n :: path).contains r = true
    · rw [if_pos hc] at h; cases h
    · rw [if_neg hc] at h
      by_cases hs : (d.contains r || !known r) = true
      · rw [if_pos hs] at h
        obtain ⟨vo, hall⟩ := ihr d d' h ht
        refine ⟨vo, ?_⟩
        intro x hx hk
        rcases List.mem_cons.mp hx with rfl | hx
        · obtain ⟨pre, hpre⟩ := vo.ext
          rw [hpre]
          apply List.mem_append_right
          simp only [Bool.or_eq_true, List.contains_iff_mem, Bool.not_eq_eq_eq_not, Bool.not_true] at hs
          rcases hs with hs | hs
          · exact hs
          · rw [hk] at hs; cases hs
        · exact hall x hx hk
      · rw [if_neg hs] at h
        cases hv : visit deps known fuel (n :: path) d r with
        | none => rw [hv] at h; cases h
        | some d1 =>
          rw [hv] at h
          simp only at h
          have hrp : r ∉ n :: path := by simpa using hc
          obtain ⟨vo1, hr1⟩ := ih (n :: path) d r d1 hv ht hrp
          obtain ⟨vo2, hall⟩ := ihr d1 d' h vo1.topo
          obtain ⟨p1, hp1⟩ := vo1.ext
          obtain ⟨p2, hp2⟩ := vo2.ext
          refine ⟨⟨vo2.topo, ⟨p2 ++ p1, by rw [hp2, hp1, List.append_assoc]⟩, ?_⟩, ?_⟩
          · intro x hx
            rcases vo2.fresh x hx with h1 | h1
            · exact vo1.fresh x h1
            · exact Or.inr h1
          · intro x hx hk
            rcases List.mem_cons.mp hx with rfl | hx
            · rw [hp2]; exact List.mem_append_right _ hr1
            · exact hall x hx hk

theorem visit_sound : ∀ (fuel : Nat) (path done : List String) (n : String) (done' : List String),
    visit deps known fuel path done n = some done' → Topo deps known done → n ∉ path →
    VisitOk deps known path done done' ∧ n ∈ done' := by
  intro fuel
  induction fuel with
  | zero => intro path done n done' h; unfold visit at h; cases h
  | succ fuel ih =>
    intro path done n done' h ht hnp
    unfold visit at h
    by_cases hd : done.contains n = true
    · rw [if_pos hd] at h
      injection h with h; subst h
      exact ⟨⟨ht, ⟨[], by simp⟩, fun x hx => Or.inl hx⟩, by simpa using hd⟩
    · rw [if_neg hd] at h
      have hnd : n ∉ done := by simpa using hd
      cases hg : visit.go deps known fuel path n (deps n) done with
      | none => rw [hg] at h; cases h
      | some d =>
        rw [hg] at h
        simp only at h
        injection h with h; subst h
        obtain ⟨vo, hall⟩ := go_sound deps known fuel n path ih (deps n) done d hg ht
        obtain ⟨pre, hpre⟩ := vo.ext
        have hnd' : n ∉ d := by
          intro hm
          rcases vo.fresh n hm with h1 | h1
          · exact hnd h1
          · exact h1 (List.mem_cons_self ..)
        refine ⟨⟨⟨List.nodup_cons.mpr ⟨hnd', vo.topo.1⟩, ?_⟩, ⟨n :: pre, by rw [hpre]; rfl⟩, ?_⟩, List.mem_cons_self ..⟩
        · intro pre' x post hsplit r hr hk
          cases pre' with
          | nil =>
            simp only [List.nil_append, List.cons.injEq] at hsplit
            obtain ⟨rfl, rfl⟩ := hsplit
            exact hall r hr hk
          | cons y pre'' =>
            simp only [List.cons_append, List.cons.injEq] at hsplit
            exact vo.topo.2 pre'' x post hsplit.2 r hr hk
        · intro x hx
          rcases List.mem_cons.mp hx with rfl | hx
          · exact Or.inr hnp
          · rcases vo.fresh x hx with h1 | h1
            · exact Or.inl h1
            · exact Or.inr fun hp => h1 (List.mem_cons_of_mem _ hp)

end

/-- the outer loop of the check: visits every command -/
theorem hasCycle_go_sound (p : Program) (deps : String → List String) :
    ∀ (cs : List PCmd) (done : List String), hasCycle.go p deps (fun n => (p.find? n).isSome) cs done = false →
      Topo deps (fun n => (p.find? n).isSome) done →
      ∃ D, Topo deps (fun n => (p.find? n).isSome) D ∧ (∀ c ∈ cs, c.resultName ∈ D) ∧ ∀ x ∈ done, x ∈ D := by
  intro cs
  induction cs with
  | nil => intro done _ ht; exact ⟨done, ht, by simp, fun x hx => hx⟩
  | cons c rest ih =>
    intro done h ht
    unfold hasCycle.go at h
    cases hv : visit deps (fun n => (p.find? n).isSome) (p.cmds.length + 1) [] done c.resultName with
    | none => rw [hv] at h; cases h
    | some d =>
      rw [hv] at h
      simp only at h
      obtain ⟨vo, hmem⟩ := visit_sound deps _ _ [] done c.resultName d hv ht (by simp)
      obtain ⟨D, hD, hall, hsub⟩ := ih d h vo.topo
      obtain ⟨pre, hpre⟩ := vo.ext
      refine ⟨D, hD, ?_, fun x hx => hsub x (by rw [hpre]; exact List.mem_append_right _ hx)⟩
      intro x hx
      rcases List.mem_cons.mp hx with rfl | hx
      · exact hsub _ hmem
      · exact hall x hx

/-- position-based rank: commands nearer the end of the finishing order have smaller rank; names that are not commands have rank 0 -/
def rankOf (D : List String) (x : String) : Nat := D.length - D.idxOf x

/-- **soundness of acceptance.**  If the check reports no cycle, every reference between commands goes to a strictly smaller rank:
the reference graph is acyclic.  Contrapositive: a model whose references contain a cycle (a self-reference included) is always rejected. -/
theorem no_cycle_ranked (p : Program) (deps : String → List String) (h : hasCycle p deps = false) :
    ∃ r : String → Nat, ∀ c ∈ p.cmds, ∀ d ∈ deps c.resultName, (p.find? d).isSome = true → r d < r c.resultName := by
  unfold hasCycle at h
  obtain ⟨D, ⟨hnd, htopo⟩, hall, _⟩ := hasCycle_go_sound p deps p.cmds [] h (topo_nil deps _)
  refine ⟨rankOf D, ?_⟩
  intro c hc d hd hk
  have hcD := hall c hc
  obtain ⟨pre, post, hsplit⟩ := List.append_of_mem hcD
  have hdpost := htopo pre c.resultName post hsplit d hd hk
  -- positions: c at |pre|, d somewhere in post
  have hnd' : (pre ++ c.resultName :: post).Nodup := hsplit ▸ hnd
  have hcpre : c.resultName ∉ pre := by
    intro hm
    have := List.nodup_append.mp hnd'
    exact this.2.2 _ hm _ (List.mem_cons_self ..) rfl
  have hic : D.idxOf c.resultName = pre.length := by
    rw [hsplit, List.idxOf_append_of_notMem hcpre]; simp
  have hdpre : d ∉ pre := by
    intro hm
    have := List.nodup_append.mp hnd'
    exact this.2.2 _ hm _ (List.mem_cons_of_mem _ hdpost) rfl
  have hdc : d ≠ c.resultName := by
    intro e
    have := (List.nodup_cons.mp (List.nodup_append.mp hnd').2.1).1
    exact this (e ▸ hdpost)
  have hid : D.idxOf d = pre.length + 1 + post.idxOf d := by
    rw [hsplit, List.idxOf_append_of_notMem hdpre, List.idxOf_cons_ne _ (Ne.symm hdc)]; omega
  have hlt : post.idxOf d < post.length := List.idxOf_lt_length_of_mem hdpost
  have hlen : D.length = pre.length + 1 + post.length := by rw [hsplit]; simp; omega
  unfold rankOf
  omega

/-! ### the check is complete: an acyclic model is never rejected -/

section
variable (p : Program) (deps : String → List String) (r : String → Nat)

/-- the names on a search path are distinct commands, so there are at most as many as commands -/
theorem path_short (l : List String) (hnd : l.Nodup) (hk : ∀ x ∈ l, (p.find? x).isSome = true) : l.length ≤ p.cmds.length := by
  have hsub : l ⊆ p.cmds.map (·.resultName) := by
    intro x hx
    have := hk x hx
    rw [Program.find?, List.find?_isSome] at this
    obtain ⟨c, hc, he⟩ := this
    exact List.mem_map.mpr ⟨c, hc, by simpa using he⟩
  have := (List.Nodup.subperm hnd hsub).length_le
  simpa using this

/-- a visit under an acyclic (ranked) reference relation never reports a cycle -/
theorem visit_complete (hr : ∀ x d, (p.find? x).isSome = true → d ∈ deps x → (p.find? d).isSome = true → r d < r x) :
    ∀ (fuel : Nat) (path done : List String) (n : String),
      (p.find? n).isSome = true → (n :: path).Nodup → (∀ q ∈ path, (p.find? q).isSome = true ∧ r n < r q) →
      fuel + path.length = p.cmds.length + 1 →
      ∃ d', visit deps (fun n => (p.find? n).isSome) fuel path done n = some d' := by
  intro fuel
  induction fuel with
  | zero =>
    intro path done n hk hnd hp hf
    have := path_short p (n :: path) hnd (by
      intro x hx
      rcases List.mem_cons.mp hx with rfl | hx
      · exact hk
      · exact (hp x hx).1)
    simp at this hf
    omega
  | succ fuel ih =>
    intro path done n hk hnd hp hf
    unfold visit
    by_cases hd : done.contains n = true
    · exact ⟨done, by rw [if_pos hd]⟩
    · rw [if_neg hd]
      -- the inner loop over the references of `n`
      have hgo : ∀ (rs : List String) (d : List String), (∀ x ∈ rs, x ∈ deps n) →
          ∃ d', visit.go deps (fun n => (p.find? n).isSome) fuel path n rs d = some d' := by
        intro rs
        induction rs with
        | nil => intro d _; exact ⟨d, by unfold visit.go; rfl⟩
        | cons x rs ihr =>
          intro d hsub
          have hx : x ∈ deps n := hsub x (List.mem_cons_self ..)
          have hrest : ∀ y ∈ rs, y ∈ deps n := fun y hy => hsub y (List.mem_cons_of_mem _ hy)
          unfold visit.go
          have hnot : (n :: path).contains x = false := by
            by_contra hc
            simp only [Bool.not_eq_false] at hc
            have hmem : x ∈ n :: path := by simpa using hc
            rcases List.mem_cons.mp hmem with rfl | hq
            · exact absurd (hr _ _ hk hx hk) (Nat.lt_irrefl _)
            · have := hp x hq
              have h1 := hr n x hk hx this.1
              omega
          simp only [hnot, Bool.false_eq_true, if_false]
          by_cases hskip : (d.contains x || !(fun n => (p.find? n).isSome) x) = true
          · simp only [hskip, if_true]; exact ihr d hrest
          · simp only [hskip, Bool.false_eq_true, if_false]
            have hkx : (p.find? x).isSome = true := by
              cases hfx : (p.find? x).isSome with
              | true => rfl
              | false => exact absurd (by simp [hfx]) hskip
            have hxn : x ∉ n :: path := by
              intro hm; have : (n :: path).contains x = true := by simpa using hm
              rw [hnot] at this; cases this
            obtain ⟨d1, hd1⟩ := ih (n :: path) d x hkx (List.nodup_cons.mpr ⟨hxn, hnd⟩) (by
              intro q hq
              rcases List.mem_cons.mp hq with rfl | hq
              · exact ⟨hk, hr _ _ hk hx hkx⟩
              · have := hp q hq
                exact ⟨this.1, Nat.lt_trans (hr _ _ hk hx hkx) this.2⟩) (by simp; omega)
            rw [hd1]
            exact ihr d1 hrest
      obtain ⟨d', hd'⟩ := hgo (deps n) done (fun x hx => hx)
      exact ⟨n :: d', by rw [hd']⟩

/-- **completeness of the check.**  If the references between commands are acyclic (a rank function exists), the check reports
no cycle: an acyclic model - diamonds, forward references, repeated references included - is never rejected as recursive. -/
theorem acyclic_accepted (hr : ∀ x d, (p.find? x).isSome = true → d ∈ deps x → (p.find? d).isSome = true → r d < r x) :
    hasCycle p deps = false := by
  unfold hasCycle
  have : ∀ (cs : List PCmd) (done : List String), (∀ c ∈ cs, c ∈ p.cmds) →
      hasCycle.go p deps (fun n => (p.find? n).isSome) cs done = false := by
    intro cs
    induction cs with
    | nil => intro done _; unfold hasCycle.go; rfl
    | cons c rest ih =>
      intro done hsub
      have hc : c ∈ p.cmds := hsub c (List.mem_cons_self ..)
      have hk : (p.find? c.resultName).isSome = true := by
        rw [Program.find?, List.find?_isSome]; exact ⟨c, hc, by simp⟩
      obtain ⟨d, hd⟩ := visit_complete p deps r hr (p.cmds.length + 1) [] done c.resultName hk (by simp) (by simp) (by simp)
      unfold hasCycle.go
      rw [hd]
      exact ih d (fun x hx => hsub x (List.mem_cons_of_mem _ hx))
  exact this p.cmds [] (fun c hc => hc)

end

end MPilot.C14
