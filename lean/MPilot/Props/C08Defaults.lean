/-
C08 - an optional parameter left out behaves exactly like its documented default written out.

For every input, every other parameter and every `sqrt`:
* `normalize_defaults`: `Normalize` without StartVal / EndVal is `Normalize(StartVal = 0, EndVal = 1)`;
* `normalizeZScore_defaults`: `NormalizeZScore` without its four optional values is the one with TrueThresholdZScore 0, FalseThresholdZScore 1,
  StartVal 0, EndVal 1 (the values the code uses; the documentation's wording of the first two is the other way round - noted in DESIGN.md 5/C08);
* `cvtToFuzzyZScore_defaults`: `CvtToFuzzyZScore` without thresholds is the one with +1 / -1 - whichever other commands ran before it (the
  model's `exec` is a function of the command and its inputs: nothing an earlier command was given can enter);
* `cvtToFuzzy_direction_default`: `CvtToFuzzy` without Direction is `CvtToFuzzy(Direction = LowToHigh)`, and an empty Direction too;
* each default can be given on one side only (`*_partial`).
-/
import MPilot.Model.Eems

namespace MPilot.C08D
open MPilot

theorem normalize_defaults (sqrt : Rat → Rat) (xs : List Arr) :
    exec sqrt (.normalize none none) xs = exec sqrt (.normalize (some ⟨0, true⟩) (some ⟨1, true⟩)) xs := by
  match xs with
  | [a] => simp [exec, numOr]
  | [] => simp [exec]
  | _ :: _ :: _ => simp [exec]

theorem normalize_defaults_partial (sqrt : Rat → Rat) (xs : List Arr) (e s : Num) :
    exec sqrt (.normalize none (some e)) xs = exec sqrt (.normalize (some ⟨0, true⟩) (some e)) xs ∧
    exec sqrt (.normalize (some s) none) xs = exec sqrt (.normalize (some s) (some ⟨1, true⟩)) xs := by
  match xs with
  | [a] => simp [exec, numOr]
  | [] => simp [exec]
  | _ :: _ :: _ => simp [exec]

theorem normalizeZScore_defaults (sqrt : Rat → Rat) (xs : List Arr) :
    exec sqrt (.normalizeZScore none none none none) xs =
      exec sqrt (.normalizeZScore (some ⟨0, true⟩) (some ⟨1, true⟩) (some ⟨0, true⟩) (some ⟨1, true⟩)) xs := by
  match xs with
  | [a] => simp [exec, numOr]
  | [] => simp [exec]
  | _ :: _ :: _ => simp [exec]

theorem cvtToFuzzyZScore_defaults (sqrt : Rat → Rat) (xs : List Arr) :
    exec sqrt (.cvtToFuzzyZScore none none) xs = exec sqrt (.cvtToFuzzyZScore (some ⟨1, true⟩) (some ⟨-1, true⟩)) xs := by
  match xs with
  | [a] => simp [exec, numOr]
  | [] => simp [exec]
  | _ :: _ :: _ => simp [exec]

theorem cvtToFuzzyZScore_defaults_partial (sqrt : Rat → Rat) (xs : List Arr) (t f : Num) :
    exec sqrt (.cvtToFuzzyZScore none (some f)) xs = exec sqrt (.cvtToFuzzyZScore (some ⟨1, true⟩) (some f)) xs ∧
    exec sqrt (.cvtToFuzzyZScore (some t) none) xs = exec sqrt (.cvtToFuzzyZScore (some t) (some ⟨-1, true⟩)) xs := by
  match xs with
  | [a] => simp [exec, numOr]
  | [] => simp [exec]
  | _ :: _ :: _ => simp [exec]

theorem cvtToFuzzy_direction_default (sqrt : Rat → Rat) (tt ft : Option Num) (xs : List Arr) :
    exec sqrt (.cvtToFuzzy tt ft none) xs = exec sqrt (.cvtToFuzzy tt ft (some "LowToHigh")) xs ∧
    exec sqrt (.cvtToFuzzy tt ft (some "")) xs = exec sqrt (.cvtToFuzzy tt ft (some "LowToHigh")) xs := by
  match xs with
  | [a] => simp [exec]
  | [] => simp [exec]
  | _ :: _ :: _ => simp [exec]

/-- **a defaulted threshold is a threshold**: whenever the thresholds `CvtToFuzzy` ends up with - given, or taken from the field's minimum and maximum
according to the direction - coincide, the command is refused with `InvalidThresholds`, exactly as for two equal thresholds written out; in particular
a field whose valid cells all hold one value cannot be converted without thresholds -/
theorem cvtToFuzzy_equal_after_defaults (a : Arr) (tt ft : Option Num) (h2l : Bool) (mn mx : Rat)
    (hmn : minL a.valid = some mn) (hmx : maxL a.valid = some mx)
    (heq : numOr tt (if h2l then mn else mx) = numOr ft (if h2l then mx else mn)) :
    exec.go a tt ft h2l = eMp "InvalidThresholds" .cmd := by
  unfold exec.go
  simp only [hmn, hmx]
  simp [heq]

theorem cvtToFuzzy_constant_field_rejected (a : Arr) (h2l : Bool) (v : Rat) (hmn : minL a.valid = some v) (hmx : maxL a.valid = some v) :
    exec.go a none none h2l = eMp "InvalidThresholds" .cmd :=
  cvtToFuzzy_equal_after_defaults a none none h2l v v hmn hmx (by cases h2l <;> simp [numOr])

/-- e.g. `TrueThreshold = 0` on data whose minimum is 0 (the false threshold defaults to the minimum) -/
theorem cvtToFuzzy_given_equals_default (a : Arr) (t : Num) (mn mx : Rat) (hmn : minL a.valid = some mn) (hmx : maxL a.valid = some mx) (ht : t.val = mn) :
    exec.go a (some t) none false = eMp "InvalidThresholds" .cmd :=
  cvtToFuzzy_equal_after_defaults a (some t) none false mn mx hmn hmx (by simp [numOr, ht])

end MPilot.C08D
