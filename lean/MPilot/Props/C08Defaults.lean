/-
C08 - an optional parameter left out behaves exactly like its documented default written out.

For every input, every other parameter and every `sqrt`:
* `normalize_defaults`: `Normalize` without StartVal / EndVal is `Normalize(StartVal = 0, EndVal = 1)`;
* `normalizeZScore_defaults`: `NormalizeZScore` without its four optional values is the one with TrueThresholdZScore 0, FalseThresholdZScore 1,
  StartVal 0, EndVal 1 (the values the code uses; the documentation's wording of the first two is the other way round - noted in DESIGN.md 5/C08);
* `cvtToFuzzyZScore_defaults`: `CvtToFuzzyZScore` without thresholds is the one with +1 / -1 - whichever other commands ran before it (the
  model's `exec` is a function of the command and its inputs: nothing an earlier command was given can enter);
* `cvtToFuzzy_direction_default`: `CvtToFuzzy` without Direction is `CvtToFuzzy(Direction = LowToHigh)`, and an empty Direction too;
* each default can be given on one side only (`*_partial`).
-/
import MPilot.Model.Eems

namespace MPilot.C08D
open MPilot

theorem normalize_defaults (sqrt : Rat → Rat) (xs : List Arr) :
    exec sqrt (.normalize none none) xs = exec sqrt (.normalize (some ⟨0, true⟩) (some ⟨1, true⟩)) xs := by
  match xs with
  | [a] => simp [exec, numOr]
  | [] => simp [exec]
  | _ :: _ :: _ => simp [exec]

theorem normalize_defaults_partial (sqrt : Rat → Rat) (xs : List Arr) (e s : Num) :
    exec sqrt (.normalize none (some e)) xs = exec sqrt (.normalize (some ⟨0, true⟩) (some e)) xs ∧
    exec sqrt (.normalize (some s) none) xs = exec sqrt (.normalize (some s) (some ⟨1, true⟩)) xs := by
  match xs with
  | [a] => simp [exec, numOr]
  | [] => simp [exec]
  | _ :: _ :: _ => simp [exec]

theorem normalizeZScore_defaults (sqrt : Rat → Rat) (xs : List Arr) :
    exec sqrt (.normalizeZScore none none none none) xs =
      exec sqrt (.normalizeZScore (some ⟨0, true⟩) (some ⟨1, true⟩) (some ⟨0, true⟩) (some ⟨1, true⟩)) xs := by
  match xs with
  | [a] => simp [exec, numOr]
  | [] => simp [exec]
  | _ :: _ :: _ => simp [exec]

theorem cvtToFuzzyZScore_defaults (sqrt : Rat → Rat) (xs : List Arr) :
    exec sqrt (.cvtToFuzzyZScore none none) xs = exec sqrt (.cvtToFuzzyZScore (some ⟨1, true⟩) (some ⟨-1, true⟩)) xs := by
  match xs with
  | [a] => simp [exec, numOr]
  | [] => simp [exec]
  | _ :: _ :: _ => simp [exec]

theorem cvtToFuzzyZScore_defaults_partial (sqrt : Rat → Rat) (xs : List Arr) (t f : Num) :
    exec sqrt (.cvtToFuzzyZScore none (some f)) xs = exec sqrt (.cvtToFuzzyZScore (some ⟨1, true⟩) (some f)) xs ∧
    exec sqrt (.cvtToFuzzyZScore (some t) none) xs = exec sqrt (.cvtToFuzzyZScore (some t) (some ⟨-1, true⟩)) xs := by
  match xs with
  | [a] => simp [exec, numOr]
  | [] => simp [exec]
  | _ :: _ :: _ => simp [exec]

theorem cvtToFuzzy_direction_default (sqrt : Rat → Rat) (tt ft : Option Num) (xs : List Arr) :
    exec sqrt (.cvtToFuzzy tt ft none) xs = exec sqrt (.cvtToFuzzy tt ft (some "LowToHigh")) xs ∧
    exec sqrt (.cvtToFuzzy tt ft (some "")) xs = exec sqrt (.cvtToFuzzy tt ft (some "LowToHigh")) xs := by
  match xs with
  | [a] => simp [exec]
  | [] => simp [exec]
  | _ :: _ :: _ => simp [exec]

end MPilot.C08D
