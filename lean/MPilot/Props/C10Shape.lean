/-
C10 — rejection of malformed text, continued: the *shape* every accepted command and argument has.

`Props/C10Reject` proves that illegal characters and unbalanced brackets are rejected.  Here: whatever else the file holds, a command the
parser accepts starts `NAME = NAME (` or (EEMS 2.0 form) `NAME (`, and an argument starts `NAME =`; so a command without its opening
parenthesis, a result name with `=` but no command name behind it, and an argument without `=` are all rejected.
-/
import MPilot.Props.C10Reject

namespace MPilot.C10R
open MPilot

/-- the head of a token list: `NAME = NAME (` or `NAME (` -/
def CommandHead (ts : List Tok) : Prop :=
  ∃ t r, ts = t :: r ∧ t.kind = .id ∧ t.isErr = false ∧
    ((∃ e c l r', r = e :: c :: l :: r' ∧ e.kind = .equal ∧ c.kind = .id ∧ l.kind = .lparen) ∨ (∃ l r', r = l :: r' ∧ l.kind = .lparen))

theorem arguments_head {ts : List Tok} {a : List ANode} {rest : List Tok} (h : arguments ts = .ok (a, rest)) :
    ∃ l r, ts = l :: r ∧ l.kind = .lparen := by
  unfold arguments at h
  split at h
  · cases h
  · rename_i t r hl
    obtain ⟨h1, _, h3⟩ := expect_ok hl
    exact ⟨t, r, h1, h3⟩

/-- **every accepted command starts `NAME = NAME (` or `NAME (`** -/
theorem command_head {ts : List Tok} {c : CNode × Bool} {rest : List Tok} (h : command ts = .ok (c, rest)) : CommandHead ts := by
  unfold command at h
  split at h
  · cases h
  · rename_i t r hid
    obtain ⟨h1, he, h3⟩ := expect_ok hid
    refine ⟨t, r, h1, h3, he, ?_⟩
    split at h
    · cases h
    · rename_i hpk
      obtain ⟨e, r0, hr, _, hek⟩ := peek_some hpk
      subst hr
      simp only [List.drop_succ_cons, List.drop_zero] at h
      split at h
      · cases h
      · rename_i c' r1 hc
        obtain ⟨hc1, _, hc3⟩ := expect_ok hc
        split at h
        · cases h
        · rename_i args rest' ha
          obtain ⟨l, r', hl, hlk⟩ := arguments_head ha
          exact .inl ⟨e, c', l, r', by rw [hc1, hl], hek, hc3, hlk⟩
    · split at h
      · cases h
      · rename_i args rest' ha
        obtain ⟨l, r', hl, hlk⟩ := arguments_head ha
        exact .inr ⟨l, r', hl, hlk⟩

/-- **a file the parser accepts starts with the head of a command** -/
theorem accepted_head {ts : List Tok} {p : PNode} (h : parseToks ts = .ok p) : CommandHead ts := by
  unfold parseToks at h
  rw [parseToks.go] at h
  split at h
  · cases h
  · rename_i c v rest hc
    exact command_head hc

/-- a command without its opening parenthesis (`A = B X = 1)`, `A X = 1)`) is rejected -/
theorem missing_lparen_rejected (t e c u : Tok) (r : List Tok) (he : e.kind = .equal) (hu : u.kind ≠ .lparen) :
    ∀ p, parseToks (t :: e :: c :: u :: r) ≠ .ok p := by
  intro p h
  obtain ⟨t', r', h1, _, _, h2 | h2⟩ := accepted_head h
  · obtain ⟨e', c', l, r'', hr, _, _, hl⟩ := h2
    injection h1 with _ h1; subst h1
    injection hr with _ hr; injection hr with _ hr; injection hr with hr _
    subst hr; exact hu hl
  · obtain ⟨l, r'', hr, hl⟩ := h2
    injection h1 with _ h1; subst h1
    injection hr with hr _
    subst hr; rw [he] at hl; cases hl

/-- a result name with `=` but no command name behind it (`A = (X = 1)`, `A = 3(…)`) is rejected -/
theorem missing_command_name_rejected (t e u : Tok) (r : List Tok) (he : e.kind = .equal) (hu : u.kind ≠ .id) :
    ∀ p, parseToks (t :: e :: u :: r) ≠ .ok p := by
  intro p h
  obtain ⟨t', r', h1, _, _, h2 | h2⟩ := accepted_head h
  · obtain ⟨e', c', l, r'', hr, _, hc, _⟩ := h2
    injection h1 with _ h1; subst h1
    injection hr with _ hr; injection hr with hr _
    subst hr; exact hu hc
  · obtain ⟨l, r'', hr, hl⟩ := h2
    injection h1 with _ h1; subst h1
    injection hr with hr _
    subst hr; rw [he] at hl; cases hl

/-- a name followed by neither `=` nor `(` is rejected -/
theorem name_alone_rejected (t u : Tok) (r : List Tok) (h1 : u.kind ≠ .equal) (h2 : u.kind ≠ .lparen) :
    ∀ p, parseToks (t :: u :: r) ≠ .ok p := by
  intro p h
  obtain ⟨t', r', e1, _, _, e2 | e2⟩ := accepted_head h
  · obtain ⟨e', c', l, r'', hr, hek, _, _⟩ := e2
    injection e1 with _ e1; subst e1
    injection hr with hr _
    subst hr; exact h1 hek
  · obtain ⟨l, r'', hr, hl⟩ := e2
    injection e1 with _ e1; subst e1
    injection hr with hr _
    subst hr; exact h2 hl

/-- **every accepted argument starts `NAME =`**; an argument without `=` is rejected -/
theorem argument_head {ts : List Tok} {a : ANode} {rest : List Tok} (h : argument ts = .ok (a, rest)) :
    ∃ n e r, ts = n :: e :: r ∧ n.kind = .id ∧ e.kind = .equal := by
  unfold argument at h
  split at h
  · cases h
  · rename_i t r hid
    obtain ⟨h1, _, h3⟩ := expect_ok hid
    split at h
    · cases h
    · rename_i e r1 heq
      obtain ⟨g1, _, g3⟩ := expect_ok heq
      exact ⟨t, e, r1, by rw [h1, g1], h3, g3⟩

/-- **every argument of an accepted argument list is followed by `,` or `)`**: whatever `argument` consumed, the parser goes on only if the next
token is a comma or the closing parenthesis - two arguments in a row without a comma, or anything else after a value, is rejected -/
theorem argument_followed_by_separator (fuel : Nat) (ts : List Tok) (acc : List ANode) (as : List ANode) (rest : List Tok)
    (h : arguments.go fuel ts acc = .ok (as, rest)) :
    ∃ a r, argument ts = .ok (a, r) ∧ ∃ t r', r = t :: r' ∧ t.isErr = false ∧ (t.kind = .comma ∨ t.kind = .rparen) := by
  cases fuel with
  | zero => simp [arguments.go] at h
  | succ fuel =>
    rw [arguments.go] at h
    split at h
    · cases h
    · rename_i a r ha
      refine ⟨a, r, ha, ?_⟩
      split at h
      · cases h
      · rename_i hpk
        obtain ⟨t, r', hr, he, hk⟩ := peek_some hpk
        exact ⟨t, r', hr, he, .inl hk⟩
      · rename_i hpk
        obtain ⟨t, r', hr, he, hk⟩ := peek_some hpk
        exact ⟨t, r', hr, he, .inr hk⟩
      · cases h

/-- **every first item of an accepted list is followed by `,` or `]`** (and so, by the recursion of `elements`, every item): in a list of
plain values the parser goes on after an item only at a comma, and closes the list only at `]` - two items in a row are rejected -/
theorem list_item_followed_by_separator (fuel : Nat) (ts : List Tok) (v : EVal) (rest : List Tok)
    (h : listBody fuel ts = .ok (v, rest)) (hne : peek ts ≠ .ok (some .rbrack)) (hp : atPair ts = false) :
    ∃ f e r, expression f ts = .ok (e, r) ∧ ∃ t r', r = t :: r' ∧ t.isErr = false ∧ (t.kind = .comma ∨ t.kind = .rbrack) := by
  cases fuel with
  | zero => rw [listBody] at h; cases h
  | succ fuel =>
    rw [listBody] at h
    split at h
    · cases h
    · rename_i hpk; exact absurd hpk hne
    · split at h
      · cases h
      · rename_i v' rest' hel
        cases fuel with
        | zero => rw [elements] at hel; cases hel
        | succ fuel =>
          rw [elements] at hel
          simp only [hp, Bool.false_eq_true, if_false] at hel
          split at hel
          · cases hel
          · rename_i e r hex
            refine ⟨fuel, e, r, hex, ?_⟩
            split at hel
            · cases hel
            · rename_i hpk
              obtain ⟨t, r', hr, he, hk⟩ := peek_some hpk
              exact ⟨t, r', hr, he, .inl hk⟩
            · injection hel with hel
              injection hel with _ hrest
              subst hrest
              split at h
              · cases h
              · rename_i t r' hx
                obtain ⟨h1, he, hk⟩ := expect_ok hx
                exact ⟨t, r', h1, he, .inr hk⟩

/-- non-vacuity: the head of `A = B(X = 1)` and of the EEMS 2.0 form `B(X = 1)`; `A = B(X = "a", Y = 2)` is accepted, without the comma it is a syntax error -/
example :
    let i (s : String) : Tok := ⟨.id, .str s, 1⟩
    let p (k : TokKind) : Tok := ⟨k, .none, 1⟩
    CommandHead [i "A", p .equal, i "B", p .lparen, i "X", p .equal, ⟨.int, .int 1, 1⟩, p .rparen] ∧
    CommandHead [i "B", p .lparen, i "X", p .equal, ⟨.int, .int 1, 1⟩, p .rparen] ∧
    isAccepted (parseToks [i "B", p .lparen, i "X", p .equal, ⟨.int, .int 1, 1⟩, p .rparen]) = true ∧
    isAccepted (parseToks [i "A", p .equal, i "B", p .lparen, i "X", p .equal, ⟨.string, .str "a", 1⟩, p .comma, i "Y", p .equal, ⟨.int, .int 2, 1⟩, p .rparen]) = true ∧
    isSyntaxError (parseToks [i "A", p .equal, i "B", p .lparen, i "X", p .equal, ⟨.string, .str "a", 1⟩, i "Y", p .equal, ⟨.int, .int 2, 1⟩, p .rparen]) = true ∧
    isAccepted (parseToks [i "A", p .equal, i "B", p .lparen, i "X", p .equal, p .lbrack, ⟨.string, .str "a", 1⟩, p .comma, ⟨.string, .str "b", 1⟩, p .rbrack, p .rparen]) = true ∧
    isSyntaxError (parseToks [i "A", p .equal, i "B", p .lparen, i "X", p .equal, p .lbrack, ⟨.string, .str "a", 1⟩, ⟨.string, .str "b", 1⟩, p .rbrack, p .rparen]) = true := by
  refine ⟨⟨_, _, rfl, rfl, rfl, .inl ⟨_, _, _, _, rfl, rfl, rfl, rfl⟩⟩, ⟨_, _, rfl, rfl, rfl, .inr ⟨_, _, rfl, rfl⟩⟩, by decide +kernel, by decide +kernel, by decide +kernel, by decide +kernel, by decide +kernel⟩

end MPilot.C10R
