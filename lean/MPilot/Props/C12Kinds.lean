/-
C12 — "every argument has the declared kind": which raw values the container kinds accept.

* `tuple_accepts_iff`: a Tuple parameter (every command's `Metadata`) accepts exactly a key-value map or the empty list; every other raw value - a
  number (zero included), a text (the empty one included), a boolean, `None`, a non-empty list, a command - is `ParameterNotValid`;
* `tuple_rejects_falsy`: in particular the falsy values of the other kinds are refused like any other value of those kinds;
* `list_accepts_only_lists`: a List parameter accepts only lists (whatever the item kind), and accepts a list exactly when every item is accepted.
-/
import MPilot.Model.Params
import Mathlib.Tactic.Common

namespace MPilot.C12K
open MPilot

/-- a Tuple parameter accepts (or finds outside the model's text domain) exactly key-value maps and the empty list -/
theorem tuple_accepts_iff (ctx : Ctx) (raw : Raw) :
    clean ctx .tuple raw ≠ .error "ParameterNotValid" ↔ (raw = .list [] ∨ ∃ kv, raw = .dict kv) := by
  constructor
  · intro h
    unfold clean at h
    cases raw with
    | list xs =>
      cases xs with
      | nil => exact Or.inl rfl
      | cons x xs => simp at h
    | dict kv => exact Or.inr ⟨kv, rfl⟩
    | _ => simp at h
  · rintro (rfl | ⟨kv, rfl⟩)
    · unfold clean; simp
    · unfold clean
      simp only
      split <;> simp

/-- the falsy values of other kinds are values of other kinds: refused -/
theorem tuple_rejects_falsy (ctx : Ctx) :
    clean ctx .tuple (.int 0) = .error "ParameterNotValid" ∧ clean ctx .tuple (.float 0) = .error "ParameterNotValid" ∧
    clean ctx .tuple (.str "") = .error "ParameterNotValid" ∧ clean ctx .tuple (.bool false) = .error "ParameterNotValid" ∧
    clean ctx .tuple .none = .error "ParameterNotValid" := by
  refine ⟨?_, ?_, ?_, ?_, ?_⟩ <;> (unfold clean; rfl)

/-- a List parameter accepts only lists -/
theorem list_accepts_only_lists (ctx : Ctx) (item : PSpec) (raw : Raw) (c : Clean) (h : clean ctx (.list item) raw = .ok c) :
    ∃ xs cs, raw = .list xs ∧ c = .list cs ∧ cleanList ctx item xs = .ok cs := by
  unfold clean at h
  cases raw with
  | list xs =>
    simp only at h
    cases hc : cleanList ctx item xs with
    | error e => rw [hc] at h; simp [Except.map] at h
    | ok cs =>
      rw [hc] at h
      simp only [Except.map, Except.ok.injEq] at h
      exact ⟨xs, cs, rfl, h.symm, hc⟩
  | _ => simp at h

/-- ... and a list exactly when every item is accepted, item by item, in order -/
theorem cleanList_ok_iff (ctx : Ctx) (item : PSpec) : ∀ (xs : List Raw) (cs : List Clean),
    cleanList ctx item xs = .ok cs ↔ List.Forall₂ (fun x c => clean ctx item x = .ok c) xs cs := by
  intro xs
  induction xs with
  | nil =>
    intro cs
    unfold cleanList
    constructor
    · intro h; injection h with h; subst h; exact .nil
    · intro h; cases h; rfl
  | cons x xs ih =>
    intro cs
    unfold cleanList
    constructor
    · intro h
      split at h
      · cases h
      · rename_i c hc
        split at h
        · cases h
        · rename_i cs' hcs
          injection h with h; subst h
          exact .cons hc ((ih cs').mp hcs)
    · intro h
      cases h with
      | cons hc hrest =>
        rw [hc]
        simp only
        rw [(ih _).mpr hrest]

end MPilot.C12K
