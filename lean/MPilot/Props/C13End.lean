/-
C13, end to end in the model: what `Program.run()` ends with, as the command-line tool reports it.

`run_not_raw` (Props/C13Run.lean) says that only MPilot errors leave `Program.run()`; `mp_error_reported` (Props/C13Cli.lean) says how the tool
reports an MPilot error.  `outcomeOf` is the glue the tool's `try / except MPilotError` performs: an MPilot error - whether it carries a line the
tool may mark is read off the regenerated exception table - is reported, anything else escapes.  Then:
* `cli_reports_run_errors`: for every program, every behaviour of the bodies and every file text, when `Program.run()` fails (inside the model's
  cleaning domain, with an error that names no line or a line of the file) the tool exits with status -1, no exception escapes it, and standard
  error starts with the header line and the error's own text;
* `cli_silent_on_success`: and when it succeeds the tool exits 0 silently.
The text of an error (`msg`) is a parameter: messages are not modelled.
-/
import MPilot.Props.C13Run
import MPilot.Props.C13Cli

namespace MPilot.C13
open MPilot MPilot.Cli

variable {Val : Type}

/-- is `cls` a `ProgramError` according to the regenerated table (classes the table does not know count as plain MPilot errors) -/
def isProgramErrorClass (cls : String) : Bool :=
  match Generated.errClasses.find? (·.1 == cls) with
  | some (_, _, isProg) => isProg
  | none => false

/-- the tool's `try: ... except MPilotError as ex:` seen from the model -/
def outcomeOf (msg : PErr → List Char) : Option PErr → Outcome
  | none => .done
  | some (.mp cls line) => .mpError (msg (.mp cls line)) (isProgramErrorClass cls) line
  | some (.unexpected exc line) => .mpError (msg (.unexpected exc line)) (isProgramErrorClass "UnexpectedError") line
  | some (.raw e) => .other e
  | some .syntax => .other "SyntaxError"

def PErr.line? : PErr → Option Nat
  | .mp _ l => l
  | .unexpected _ l => l
  | _ => none

/-- **a failing run is reported by the tool** -/
theorem cli_reports_run_errors (sem : Sem Val) (p : Program) (st st' : St Val) (e : PErr) (msg : PErr → List Char) (path text : List Char)
    (hdom : InDomain (mkCtx sem p st) p.cmds) (hrun : run sem p st = (st', some e)) (hsyn : e ≠ .syntax)
    (hline : ∀ n, PErr.line? e = some n → 1 ≤ n ∧ n ≤ (fileLines text).length) :
    let r := main true path text (fun _ => outcomeOf msg (some e))
    r.exit = -1 ∧ r.exit ≠ 0 ∧ r.crash = none ∧ (header ++ '\n' :: msg e ++ ['\n']) <+: r.stderr := by
  have hraw := run_not_raw sem p st st' e hdom hrun
  cases e with
  | raw x => simp [PErr.isRaw] at hraw
  | «syntax» => exact absurd rfl hsyn
  | mp cls line =>
    exact C13Cli.mp_error_reported path text (msg (.mp cls line)) (isProgramErrorClass cls) line _ rfl
      (fun n _ hl => hline n (by simpa [PErr.line?] using hl))
  | unexpected exc line =>
    exact C13Cli.mp_error_reported path text (msg (.unexpected exc line)) (isProgramErrorClass "UnexpectedError") line _ rfl
      (fun n _ hl => hline n (by simpa [PErr.line?] using hl))

/-- a run that succeeds: exit status 0, nothing on standard error -/
theorem cli_silent_on_success (msg : PErr → List Char) (path text : List Char) :
    main true path text (fun _ => outcomeOf msg none) = { exit := 0, stderr := [], crash := none } :=
  C13Cli.success_silent path text _ rfl

/-- the table agrees with the model on which program-layer errors carry a line the tool marks -/
theorem program_errors_are_marked : ∀ cls ∈ C13E.programModelClasses ++ C13E.eemsModelClasses, isProgramErrorClass cls = true := by decide

end MPilot.C13
