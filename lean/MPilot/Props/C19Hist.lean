/-
C19 — the outcome of a construction is a function of what is registered UNDER the requested libraries, library loading included.

`register_outside_irrelevant` / `history_outside_irrelevant` (Props/C19.lean) say that registering commands outside the requested libraries
changes nothing.  Here the step `Program.__init__` itself performs - loading the requested libraries, which registers their built-in classes -
is included, and the statement is about two arbitrary process histories:
* `filter_register`: selecting the entries under some libraries commutes with registering a class;
* `construction_determined`: two registries that agree on the entries under the requested libraries give the same outcome for that request
  (the same table, or the same clash), whatever else differs between them - other programs constructed earlier (which loaded other libraries),
  other user libraries imported, classes defined in modules whose names merely share a prefix;
* `runHistory_construct_determined`: hence in any two histories, constructions for the same libraries made at points where the registries agree
  under those libraries have the same outcome.
-/
import MPilot.Props.C19

namespace MPilot.C19
open MPilot

/-- an entry clashes (same module and name) only with entries of its own module: the test `register` makes can be made on the selected part -/
theorem any_same_filter (reg : Registry) (libs : List String) (e : RegEntry) (he : inLibs libs e = true) :
    (reg.filter (inLibs libs)).any (fun i => i.module == e.module && i.name == e.name) = reg.any (fun i => i.module == e.module && i.name == e.name) := by
  induction reg with
  | nil => rfl
  | cons x rest ih =>
    simp only [List.filter_cons, List.any_cons]
    by_cases hx : inLibs libs x = true
    · simp only [hx, if_true, List.any_cons, ih]
    · simp only [hx, Bool.false_eq_true, if_false, ih]
      have : (x.module == e.module && x.name == e.name) = false := by
        by_contra hc
        have hc' : (x.module == e.module && x.name == e.name) = true := by simpa using hc
        have hm : x.module = e.module := by
          have := (Bool.and_eq_true _ _).mp hc'
          exact eq_of_beq this.1
        apply hx
        unfold inLibs at he ⊢
        rw [hm]; exact he
      rw [this]; simp

/-- selecting the entries under `libs` commutes with registering a class -/
theorem filter_register (reg : Registry) (libs : List String) (e : RegEntry) :
    (register reg e).filter (inLibs libs) = if inLibs libs e then register (reg.filter (inLibs libs)) e else reg.filter (inLibs libs) := by
  by_cases he : inLibs libs e = true
  · simp only [he, if_true]
    unfold register
    rw [any_same_filter reg libs e he]
    split
    · rfl
    · simp [List.filter_append, he]
  · simp only [he, Bool.false_eq_true, if_false]
    unfold register
    split
    · rfl
    · simp [List.filter_append, he]

theorem filter_foldl_register (libs : List String) (es : List RegEntry) : ∀ (reg reg' : Registry),
    reg.filter (inLibs libs) = reg'.filter (inLibs libs) →
    (es.foldl register reg).filter (inLibs libs) = (es.foldl register reg').filter (inLibs libs) := by
  induction es with
  | nil => intro reg reg' h; exact h
  | cons e rest ih =>
    intro reg reg' h
    simp only [List.foldl_cons]
    apply ih
    rw [filter_register, filter_register, h]

/-- **the outcome of a construction is determined by what is registered under the requested libraries** - loading those libraries included -/
theorem construction_determined (builtin : List RegEntry) (reg reg' : Registry) (libs : List String)
    (h : reg.filter (inLibs libs) = reg'.filter (inLibs libs)) :
    lookup (loadLibs builtin reg libs) libs = lookup (loadLibs builtin reg' libs) libs := by
  apply lookup_congr
  unfold loadLibs
  exact filter_foldl_register libs _ reg reg' h

/-- registries after two histories: the first construction for `libs` made next has the same outcome in both whenever the histories left the same
entries under `libs` - in particular when they differ only by definitions and constructions that touch nothing under `libs` -/
theorem runHistory_construct_determined (builtin : List RegEntry) (reg reg' : Registry) (libs : List String) (rest rest' : List RegEv)
    (h : reg.filter (inLibs libs) = reg'.filter (inLibs libs)) :
    (runHistory builtin reg (.construct libs :: rest)).head? = (runHistory builtin reg' (.construct libs :: rest')).head? := by
  simp only [runHistory, List.head?_cons]
  rw [construction_determined builtin reg reg' libs h]

/-- loading OTHER libraries (an earlier program's) leaves the selection under `libs` alone as far as their entries lie outside `libs` -/
theorem other_program_irrelevant (builtin : List RegEntry) (reg : Registry) (libs other : List String)
    (hout : ∀ e ∈ builtin.filter (inLibs other), inLibs libs e = false) :
    lookup (loadLibs builtin (loadLibs builtin reg other) libs) libs = lookup (loadLibs builtin reg libs) libs := by
  apply construction_determined
  unfold loadLibs
  have : ∀ (es : List RegEntry) (r : Registry), (∀ e ∈ es, inLibs libs e = false) → (es.foldl register r).filter (inLibs libs) = r.filter (inLibs libs) := by
    intro es
    induction es with
    | nil => intro r _; rfl
    | cons e rest ih =>
      intro r hall
      simp only [List.foldl_cons]
      rw [ih (register r e) (fun x hx => hall x (List.mem_cons_of_mem _ hx)), filter_register]
      simp [hall e List.mem_cons_self]
  exact this _ reg hout

/-- **a request for no libraries is offered no commands** - whatever is registered, whatever was loaded before (an explicit empty request is not
"the default request") -/
theorem empty_request_offers_nothing (builtin : List RegEntry) (reg : Registry) :
    lookup (loadLibs builtin reg []) [] = .ok [] := by
  have h : ∀ r : Registry, r.filter (inLibs []) = [] := by
    intro r; simp [inLibs]
  unfold lookup
  simp only [h]
  rfl

end MPilot.C19
