/-
C20 — parameter cleaning is typed, pure and idempotent.

Determinism is definitional in a functional model.  Purity (no mutation of the raw argument or of the program) cannot be a
theorem about a pure model: it is established by the correspondence/oracles only (snapshot comparison) — stated as such.
-/
import MPilot.Model.Params
import Mathlib.Tactic.Common

namespace MPilot.C20
open MPilot

/-- the parameter errors (all `MPilotError`s).  `OutsideModel` marks raw values whose cleaning the model does not describe
(text form of floats and containers, inf/nan, foreign Command objects); the correspondence skips and counts them. -/
def IsParamErr (e : CleanErr) : Prop :=
  e = "ParameterNotValid" ∨ e = "PathDoesNotExist" ∨ e = "InvalidRelativePath" ∨ e = "ResultDoesNotExist" ∨
  e = "ResultTypeNotValid" ∨ e = "ResultNotFuzzy" ∨ e = "ResultIsFuzzy" ∨ e = "OutsideModel"

/-- the documented type of a cleaned value -/
def HasType : PSpec → Clean → Prop
  | .any, .raw _ => True
  | .str, .str _ => True
  | .num, .int _ => True
  | .num, .float _ => True
  | .num, .bool _ => True          -- Python: `bool` is a `Number`
  | .bool, .bool _ => True
  | .path _, .str _ => True
  | .result _ _, .cmd _ => True
  | .list item, .list xs => ∀ x ∈ xs, HasType item x
  | .tuple, .dict _ => True
  | .dtype types, .pytype t => types.any (·.2 == t) = true
  | _, _ => False

macro "perr" : tactic => `(tactic| (unfold IsParamErr; simp))

/-- split every branch of `h : … = .error e`; `ok = error` branches are absurd, `error c = error e` branches name a parameter error -/
macro "err_cases" h:ident : tactic => `(tactic| (
  repeat' (first | split at $h:ident | (dsimp only at $h:ident))
  all_goals first
    | (injection $h:ident with hh; subst hh; perr)
    | (injection $h:ident)))

/-- **only parameter errors**: whatever the raw value, a failing `clean` fails with one of the parameter errors -/
theorem clean_err_is_param_error (ctx : Ctx) : ∀ (s : PSpec) (v : Raw) (e : CleanErr), clean ctx s v = .error e → IsParamErr e := by
  intro s
  induction s with
  | any => intro v e h; unfold clean at h; simp at h
  | str => intro v e h; unfold clean at h; err_cases h
  | num =>
    intro v e h; unfold clean at h
    err_cases h
  | bool =>
    intro v e h; unfold clean at h
    err_cases h
  | path m =>
    intro v e h; unfold clean at h
    err_cases h
  | result ot fz =>
    intro v e h; unfold clean at h
    err_cases h
  | list item ih =>
    intro v e h; unfold clean at h
    split at h
    · rename_i xs
      have hl : ∀ (xs : List Raw) (e : CleanErr), cleanList ctx item xs = .error e → IsParamErr e := by
        intro xs
        induction xs with
        | nil => intro e h; unfold cleanList at h; simp at h
        | cons x t iht =>
          intro e h
          unfold cleanList at h
          split at h
          · rename_i e' he; simp at h; subst h; exact ih x _ he
          · split at h
            · rename_i e' he; simp at h; subst h; exact iht _ he
            · simp at h
      cases hc : cleanList ctx item xs with
      | error e' => rw [hc] at h; simp [Except.map] at h; subst h; exact hl xs _ hc
      | ok cs => rw [hc] at h; simp [Except.map] at h
    · injection h with hh; subst hh; perr
  | tuple =>
    intro v e h; unfold clean at h
    err_cases h
  | data => intro v e h; unfold clean at h; err_cases h
  | dtype types =>
    intro v e h; unfold clean at h
    err_cases h

/-- split every branch of `h : … = .ok w`; `error = ok` branches are absurd; in the others `w` is substituted and `tac` runs -/
macro "okc" h:ident " => " tac:tacticSeq : tactic => `(tactic| (
  repeat' (first | split at $h:ident | (dsimp only at $h:ident))
  all_goals first
    | (injection $h:ident with hh; subst hh; ($tac))
    | (injection $h:ident)))

/-- **typed**: a successful `clean` returns a value of the documented type (integers stay integers, decimals decimals,
booleans for Boolean parameters, text for String/Path, a command for Result, item-wise for lists, text pairs for tuples, a listed type for DataType) -/
theorem clean_typed (ctx : Ctx) : ∀ (s : PSpec) (v : Raw) (w : Clean), clean ctx s v = .ok w → HasType s w := by
  intro s
  induction s with
  | any => intro v w h; unfold clean at h; okc h => simp [HasType]
  | str => intro v w h; unfold clean at h; okc h => simp [HasType]
  | num => intro v w h; unfold clean at h; okc h => simp [HasType]
  | bool => intro v w h; unfold clean at h; okc h => simp [HasType]
  | path m => intro v w h; unfold clean at h; okc h => simp [HasType]
  | result ot fz => intro v w h; unfold clean at h; okc h => simp [HasType]
  | tuple => intro v w h; unfold clean at h; okc h => simp [HasType]
  | data => intro v w h; unfold clean at h; okc h => simp [HasType]
  | dtype types =>
    intro v w h; unfold clean at h
    repeat' (first | split at h | (dsimp only at h))
    all_goals first | (injection h; done) | skip
    · rename_i hany; injection h with hh; subst hh; simpa [HasType] using hany
    · rename_i hf; injection h with hh; subst hh
      simp only [HasType, List.any_eq_true]
      exact ⟨_, List.mem_of_find?_eq_some hf, by simp⟩
  | list item ih =>
    intro v w h; unfold clean at h
    split at h
    · rename_i xs
      have hl : ∀ (xs : List Raw) (cs : List Clean), cleanList ctx item xs = .ok cs → ∀ c ∈ cs, HasType item c := by
        intro xs
        induction xs with
        | nil => intro cs h; unfold cleanList at h; injection h with hh; subst hh; simp
        | cons x t iht =>
          intro cs h
          unfold cleanList at h
          split at h
          · injection h
          · rename_i c hc
            split at h
            · injection h
            · rename_i cs' hcs
              injection h with hh; subst hh
              intro d hd
              rcases List.mem_cons.mp hd with rfl | hd
              · exact ih x _ hc
              · exact iht _ hcs d hd
      cases hc : cleanList ctx item xs with
      | error e' => rw [hc] at h; simp [Except.map] at h
      | ok cs => rw [hc] at h; simp only [Except.map, Except.ok.injEq] at h; subst h; exact hl xs cs hc
    · injection h

theorem mapM_text (kv : List (String × String)) :
    (kv.map fun (k, v) => (k, Raw.str v)).mapM (fun (k, x) => (pyText x).map fun t => (k, t)) = some kv := by
  induction kv with
  | nil => rfl
  | cons p t ih =>
    obtain ⟨k, v⟩ := p
    rw [List.map_cons, List.mapM_cons, ih]
    rfl

/-- **idempotent**: cleaning an already-cleaned value returns it unchanged.  For relative paths this needs the working
directory to be absolute (premise `habs`: a path joined onto it is absolute) — with a relative working directory the
code joins it a second time (`rel/rel/a.csv`), which is why the property states "under an absolute working directory". -/
theorem clean_idempotent (ctx : Ctx)
    (habs : ∀ wd s, ctx.workingDir = some wd → posixIsAbs (posixJoin wd s) = true) :
    ∀ (s : PSpec) (v : Raw) (w : Clean), clean ctx s v = .ok w → clean ctx s w.embed = .ok w := by
  intro s
  induction s with
  | any => intro v w h; unfold clean at h; injection h with hh; subst hh; simp [Clean.embed, clean]
  | str => intro v w h; unfold clean at h; okc h => simp [Clean.embed, clean, pyText]
  | num => intro v w h; unfold clean at h; okc h => simp [Clean.embed, clean]
  | bool => intro v w h; unfold clean at h; okc h => simp [Clean.embed, clean]
  | data => intro v w h; unfold clean at h; injection h
  | tuple =>
    intro v w h; unfold clean at h
    repeat' (first | split at h | (dsimp only at h))
    all_goals first | (injection h; done) | skip
    · injection h with hh; subst hh; simp [Clean.embed, clean]
    · rename_i kv' hconv
      injection h with hh; subst hh
      simp only [Clean.embed]
      unfold clean
      simp only [mapM_text]
  | dtype types =>
    intro v w h; unfold clean at h
    repeat' (first | split at h | (dsimp only at h))
    all_goals first | (injection h; done) | skip
    · rename_i hany; injection h with hh; subst hh; simp only [Clean.embed]; unfold clean; simp [hany]
    · rename_i p t hf; injection h with hh; subst hh
      simp only [Clean.embed]; unfold clean
      have : types.any (fun x => x.2 == t) = true := by
        simp only [List.any_eq_true]; exact ⟨_, List.mem_of_find?_eq_some hf, by simp⟩
      simp [this]
  | path m =>
    intro v w h; unfold clean at h
    repeat' (first | split at h | (dsimp only at h))
    all_goals first | (injection h; done) | skip
    all_goals (injection h with hh; subst hh; simp only [Clean.embed]; unfold clean; simp only [pyText])
    all_goals simp_all
  | result ot fz =>
    intro v w h; unfold clean at h
    repeat' (first | split at h | (dsimp only at h))
    all_goals first | (injection h; done) | skip
    all_goals (injection h with hh; subst hh; simp only [Clean.embed]; unfold clean; simp_all)
    all_goals (repeat' split)
    all_goals simp_all
  | list item ih =>
    intro v w h; unfold clean at h
    split at h
    · rename_i xs
      have hl : ∀ (xs : List Raw) (cs : List Clean), cleanList ctx item xs = .ok cs →
          cleanList ctx item (Clean.embed.embedList cs) = .ok cs := by
        intro xs
        induction xs with
        | nil => intro cs h; unfold cleanList at h; injection h with hh; subst hh; simp [Clean.embed.embedList, cleanList]
        | cons x t iht =>
          intro cs h
          unfold cleanList at h
          split at h
          · injection h
          · rename_i c hc
            split at h
            · injection h
            · rename_i cs' hcs
              injection h with hh; subst hh
              simp only [Clean.embed.embedList]
              unfold cleanList
              rw [ih x _ hc, iht _ hcs]
      cases hc : cleanList ctx item xs with
      | error e' => rw [hc] at h; simp [Except.map] at h
      | ok cs =>
        rw [hc] at h; simp only [Except.map, Except.ok.injEq] at h; subst h
        simp only [Clean.embed]
        unfold clean
        show Except.map Clean.list (cleanList ctx item (Clean.embed.embedList cs)) = _
        rw [hl xs cs hc]; rfl
    · injection h

/-- integers stay integers and decimals decimals -/
theorem clean_int_stays_int (ctx : Ctx) (n : Int) : clean ctx .num (.int n) = .ok (.int n) := by unfold clean; rfl
theorem clean_float_stays_float (ctx : Ctx) (q : Rat) : clean ctx .num (.float q) = .ok (.float q) := by unfold clean; rfl

/-- booleans from the true/false/0/1 forms -/
theorem clean_bool_forms (ctx : Ctx) :
    clean ctx .bool (.str "true") = .ok (.bool true) ∧ clean ctx .bool (.str "False") = .ok (.bool false) ∧
    clean ctx .bool (.str "TRUE") = .ok (.bool true) ∧ clean ctx .bool (.str "0") = .ok (.bool false) ∧
    clean ctx .bool (.str "1") = .ok (.bool true) ∧ clean ctx .bool (.int 0) = .ok (.bool false) ∧
    clean ctx .bool (.int 1) = .ok (.bool true) ∧ clean ctx .bool (.bool true) = .ok (.bool true) := by
  refine ⟨?_, ?_, ?_, ?_, ?_, ?_, ?_, ?_⟩ <;> (unfold clean; rfl)

/-- witness that the absolute-working-directory premise is needed: with the relative working directory `rel`,
`a.csv` is resolved to `rel/a.csv`, which is again relative and would be resolved to `rel/rel/a.csv` by a second cleaning -/
theorem relative_wd_not_idempotent :
    posixIsAbs "a.csv" = false ∧ posixJoin "rel" "a.csv" = "rel/a.csv" ∧
    posixIsAbs "rel/a.csv" = false ∧ posixJoin "rel" "rel/a.csv" = "rel/rel/a.csv" := by
  decide +kernel

end MPilot.C20
