/-
C06 — fuzzy-logic operators compute the EEMS definitions and obey their algebra.
-/
import MPilot.Props.C07
import Mathlib.Data.List.Sort
import Mathlib.Tactic.FieldSimp
import Mathlib.Tactic.Positivity

namespace MPilot.C06
open MPilot

/-! ### the clamp is the identity on fuzzy values, so on in-range inputs the operators compute the bare definitions -/

theorem clamp_id {x : Rat} (h1 : -1 ≤ x) (h2 : x ≤ 1) : clampHiLo (-1) 1 x = x := by
  unfold clampHiLo
  simp only
  split_ifs <;> linarith

/-- a fuzzy (in-range) array is visibly unchanged by `insure_fuzzy` — the only in-place step applied to an aliased input -/
theorem insure_inrange (a : Arr) (h : ∀ c ∈ a.cells, c.mask = false → -1 ≤ c.val ∧ c.val ≤ 1) : ArrR (a.insure (-1) 1) a := by
  refine ⟨rfl, rfl, ?_⟩
  simp only [Arr.insure, Arr.mapCells]
  have : ∀ l : List Cell, (∀ c ∈ l, c.mask = false → -1 ≤ c.val ∧ c.val ≤ 1) →
      List.Forall₂ CellR (l.map (Cell.insure (-1) 1)) l := by
    intro l
    induction l with
    | nil => intro _; exact .nil
    | cons c t ih =>
      intro hl
      refine .cons ?_ (ih fun d hd => hl d (List.mem_cons_of_mem _ hd))
      unfold Cell.insure CellR
      cases hm : c.mask
      · have := hl c (List.mem_cons_self ..) hm
        simp [clamp_id this.1 this.2]
      · simp
  exact this _ h

/-! ### Or = max, And = min, Not = negation (cell definitions) -/

/-- **FuzzyOr / FuzzyAnd**: before the final clamp, cell `i` is missing iff some input is missing there and otherwise
holds the maximum / minimum of the column (an element of the column that bounds all others). -/
theorem or_cell (sqrt : Rat → Rat) (a : Arr) (t : List Arr) (r : Arr) (i : Nat)
    (h : exec sqrt .fuzzyOr (a :: t) = .ok r) (hi : ∀ x ∈ a :: t, i < x.cells.length)
    (hr : ∀ x ∈ a :: t, ∀ c ∈ x.cells, -1 ≤ c.val ∧ c.val ≤ 1) :
    ∃ c, r.cells[i]? = some c ∧ c.mask = (column (a :: t) i).any (·.mask) ∧
      (c.mask = false → c.val ∈ (column (a :: t) i).map (·.val) ∧ ∀ y ∈ (column (a :: t) i).map (·.val), y ≤ c.val) := by
  simp only [exec, fuzzyClamp] at h
  cases hq : naryFold (.arg "InFieldNames") ratMax (a :: t) with
  | error e => rw [hq] at h; simp [Except.map] at h
  | ok q =>
    rw [hq] at h
    simp only [Except.map, Except.ok.injEq] at h
    subst h
    obtain ⟨c, h1, h2, h3⟩ := C07.naryFold_cell _ _ a t q i hq hi
    refine ⟨Cell.insure (-1) 1 c, ?_, ?_, ?_⟩
    · simp [Arr.insure, Arr.mapCells, h1]
    · rw [← h2]; unfold Cell.insure; cases c.mask <;> rfl
    · intro hm
      have hcm : c.mask = false := by
        unfold Cell.insure at hm; cases hc : c.mask <;> simp_all
      have hv := h3 hcm
      simp only [column, List.map_cons] at hv ⊢
      have hmem := C07.fold1_max_mem ((a.cells.getD i default).val) ((t.map fun x => x.cells.getD i default).map (·.val))
      have hge := C07.fold1_max_ge ((a.cells.getD i default).val) ((t.map fun x => x.cells.getD i default).map (·.val))
      have hin : -1 ≤ c.val ∧ c.val ≤ 1 := by
        rw [hv]
        rcases List.mem_cons.mp hmem with e | e
        · rw [e]
          have := hi a (List.mem_cons_self ..)
          have hc := hr a (List.mem_cons_self ..) (a.cells.getD i default) (by
            simp [List.getD, List.getElem?_eq_getElem this])
          exact hc
        · rw [List.mem_map] at e
          obtain ⟨d, hd, e⟩ := e
          rw [List.mem_map] at hd
          obtain ⟨x, hx, rfl⟩ := hd
          rw [← e]
          have := hi x (List.mem_cons_of_mem _ hx)
          exact hr x (List.mem_cons_of_mem _ hx) _ (by simp [List.getD, List.getElem?_eq_getElem this])
      have : (Cell.insure (-1) 1 c).val = c.val := by
        unfold Cell.insure; simp [hcm, clamp_id hin.1 hin.2]
      rw [this, hv]
      exact ⟨hmem, hge⟩

/-- **FuzzyAnd**: the minimum of the column (mirror image of `or_cell`) -/
theorem and_cell (sqrt : Rat → Rat) (a : Arr) (t : List Arr) (r : Arr) (i : Nat)
    (h : exec sqrt .fuzzyAnd (a :: t) = .ok r) (hi : ∀ x ∈ a :: t, i < x.cells.length)
    (hr : ∀ x ∈ a :: t, ∀ c ∈ x.cells, -1 ≤ c.val ∧ c.val ≤ 1) :
    ∃ c, r.cells[i]? = some c ∧ c.mask = (column (a :: t) i).any (·.mask) ∧
      (c.mask = false → c.val ∈ (column (a :: t) i).map (·.val) ∧ ∀ y ∈ (column (a :: t) i).map (·.val), c.val ≤ y) := by
  simp only [exec, fuzzyClamp] at h
  cases hq : naryFold (.arg "InFieldNames") ratMin (a :: t) with
  | error e => rw [hq] at h; simp [Except.map] at h
  | ok q =>
    rw [hq] at h
    simp only [Except.map, Except.ok.injEq] at h
    subst h
    obtain ⟨c, h1, h2, h3⟩ := C07.naryFold_cell _ _ a t q i hq hi
    refine ⟨Cell.insure (-1) 1 c, ?_, ?_, ?_⟩
    · simp [Arr.insure, Arr.mapCells, h1]
    · rw [← h2]; unfold Cell.insure; cases c.mask <;> rfl
    · intro hm
      have hcm : c.mask = false := by
        unfold Cell.insure at hm; cases hc : c.mask <;> simp_all
      have hv := h3 hcm
      simp only [column, List.map_cons] at hv ⊢
      have hmem := C07.fold1_min_mem ((a.cells.getD i default).val) ((t.map fun x => x.cells.getD i default).map (·.val))
      have hge := C07.fold1_min_le ((a.cells.getD i default).val) ((t.map fun x => x.cells.getD i default).map (·.val))
      have hin : -1 ≤ c.val ∧ c.val ≤ 1 := by
        rw [hv]
        rcases List.mem_cons.mp hmem with e | e
        · rw [e]
          have := hi a (List.mem_cons_self ..)
          have hc := hr a (List.mem_cons_self ..) (a.cells.getD i default) (by
            simp [List.getD, List.getElem?_eq_getElem this])
          exact hc
        · rw [List.mem_map] at e
          obtain ⟨d, hd, e⟩ := e
          rw [List.mem_map] at hd
          obtain ⟨x, hx, rfl⟩ := hd
          rw [← e]
          have := hi x (List.mem_cons_of_mem _ hx)
          exact hr x (List.mem_cons_of_mem _ hx) _ (by simp [List.getD, List.getElem?_eq_getElem this])
      have : (Cell.insure (-1) 1 c).val = c.val := by
        unfold Cell.insure; simp [hcm, clamp_id hin.1 hin.2]
      rw [this, hv]
      exact ⟨hmem, hge⟩

/-- **FuzzyUnion**: each cell is missing iff some input is missing there, and otherwise holds the clamped arithmetic mean of the column
(the clamp is the identity when the inputs are fuzzy values: see `mean_in_range`). -/
theorem union_cell (sqrt : Rat → Rat) (a : Arr) (t : List Arr) (r : Arr) (i : Nat)
    (h : exec sqrt .fuzzyUnion (a :: t) = .ok r) (hi : ∀ x ∈ a :: t, i < x.cells.length) :
    ∃ c, r.cells[i]? = some c ∧ c.mask = (column (a :: t) i).any (·.mask) ∧
      (c.mask = false → c.val = clampHiLo (-1) 1 (((column (a :: t) i).map (·.val)).sum / ((a :: t).length : Nat))) := by
  simp only [exec] at h
  obtain ⟨_, _, h⟩ := bind_ok h
  simp only [fuzzyClamp, Except.map, Except.ok.injEq] at h
  subst h
  obtain ⟨c, h1, h2, h3⟩ := C07.meanArr_cell a t i hi
  refine ⟨Cell.insure (-1) 1 c, ?_, ?_, ?_⟩
  · simp only [Arr.insure, Arr.mapCells, List.getElem?_map] at h1 ⊢
    rw [h1]; rfl
  · rw [← h2]; unfold Cell.insure; cases c.mask <;> rfl
  · intro hm
    have hcm : c.mask = false := by
      unfold Cell.insure at hm; cases hc : c.mask <;> simp_all
    unfold Cell.insure
    simp only [hcm, Bool.false_eq_true, if_false, h3 hcm]

/-- **FuzzyWeightedUnion**: each cell is missing iff some input is missing there (or the weights sum to zero), and otherwise holds the
clamped weighted mean Σ wⱼ·xⱼ / Σ wⱼ of the column. -/
theorem weightedUnion_cell (sqrt : Rat → Rat) (w : Num) (wr : List Num) (a : Arr) (t : List Arr) (r : Arr) (i : Nat)
    (h : exec sqrt (.fuzzyWeightedUnion (w :: wr)) (a :: t) = .ok r) (hi : ∀ x ∈ a :: t, i < x.cells.length) :
    ∃ c, r.cells[i]? = some c ∧ c.mask = ((column (a :: t) i).any (·.mask) || (sumNums (w :: wr) == 0)) ∧
      (c.mask = false → c.val = clampHiLo (-1) 1
        ((List.zipWith (fun (w : Num) (c : Cell) => c.val * w.val) (w :: wr) (column (a :: t) i)).sum / sumNums (w :: wr))) := by
  simp only [exec] at h
  split at h
  · cases h
  · rename_i hlen
    obtain ⟨_, _, h⟩ := bind_ok h
    simp only [fuzzyClamp, Except.map, Except.ok.injEq] at h
    subst h
    obtain ⟨c, h1, h2, h3⟩ := C07.weightedAcc_cell w wr a t .float i (by have := hlen; simp at this; omega) hi
    refine ⟨Cell.insure (-1) 1 (Cell.divSc (sumNums (w :: wr)) c), ?_, ?_, ?_⟩
    · simp only [Arr.insure, Arr.mapCells, List.getElem?_map] at h1 ⊢
      rw [h1]; rfl
    · rw [← h2]; unfold Cell.insure Cell.divSc; cases c.mask <;> cases (sumNums (w :: wr) == 0) <;> rfl
    · intro hm
      have hdm : (Cell.divSc (sumNums (w :: wr)) c).mask = false := by
        unfold Cell.insure at hm; cases hc : (Cell.divSc (sumNums (w :: wr)) c).mask <;> simp_all
      have hcm : c.mask = false ∧ (sumNums (w :: wr) == 0) = false := by
        unfold Cell.divSc at hdm; simpa using hdm
      unfold Cell.insure
      simp only [hdm, Bool.false_eq_true, if_false]
      simp only [Cell.divSc, hcm.1, hcm.2, Bool.or_false, Bool.false_eq_true, if_false, h3 hcm.1]

/-- **FuzzyWeightedUnion is independent of the order of its inputs** (weights permuted alongside). -/
theorem weightedUnion_perm (sqrt : Rat → Rat) {ws ws' : List Num} {xs xs' : List Arr} (hl : ws.length = xs.length) (hl' : ws'.length = xs'.length)
    (h : (ws.zip xs).Perm (ws'.zip xs')) (n : Nat) (hn : ∀ x ∈ xs, x.cells.length = n) :
    ExceptR (exec sqrt (.fuzzyWeightedUnion ws) xs) (exec sqrt (.fuzzyWeightedUnion ws') xs') := by
  obtain ⟨hw, hx⟩ := C07.perm_of_zip_perm hl hl' h
  simp only [exec]
  have e1 : (xs.length != ws.length) = false := by simp [hl]
  have e2 : (xs'.length != ws'.length) = false := by simp [hl']
  simp only [e1, e2, Bool.false_eq_true, if_false]
  rw [← validateShapes_perm _ hx, ← C07.sumNums_perm hw]
  rcases validateShapes_cases (.arg "InFieldNames") xs with hv | hv | hv <;> rw [hv]
  · have hne : xs ≠ [] := by intro e; subst e; simp [validateShapes, eMp] at hv
    exact fuzzyClamp_R (ExceptR.ok (mapCells_R (fun _ _ => divSc_R _)
      (C07.weightedAcc_perm hl hl' h n hn hne ((validateShapes_ok_iff _ xs hne).mp hv) _)))
  · exact ExceptR.eMp _ _
  · exact ExceptR.eMp _ _

/-- **FuzzyXOr / FuzzySelectedUnion**: a cell of the stacked computation is missing exactly when some input is missing there -/
theorem stackCell_mask (xs : List Arr) (f : List Rat → Cell) (hf : ∀ l, (f l).mask = false) (i : Nat) :
    (stackCell xs f i).mask = (column xs i).any (·.mask) := by
  unfold stackCell
  by_cases h : (column xs i).any (·.mask) = true
  · simp [h]
  · have h' : (column xs i).any (·.mask) = false := by simpa using h
    simp only [h', Bool.false_eq_true, if_false, hf]

theorem xorCell_unmasked (l : List Rat) : (xorCell l).mask = false := by
  unfold xorCell; simp only; split <;> rfl

theorem selCell_unmasked (t : Bool) (k : Nat) (l : List Rat) : (selCell t k l).mask = false := rfl

/-- the mean of values in [-1, 1] lies in [-1, 1]: on fuzzy inputs FuzzyUnion's clamp changes nothing -/
theorem mean_in_range (x : Rat) (l : List Rat) (h : ∀ y ∈ x :: l, -1 ≤ y ∧ y ≤ 1) :
    -1 ≤ (x :: l).sum / ((x :: l).length : Nat) ∧ (x :: l).sum / ((x :: l).length : Nat) ≤ 1 := by
  have hpos : (0 : Rat) < ((x :: l).length : Nat) := by
    have : 0 < (x :: l).length := by simp
    exact_mod_cast this
  have hb : ∀ (m : List Rat), (∀ y ∈ m, -1 ≤ y ∧ y ≤ 1) → -(m.length : Rat) ≤ m.sum ∧ m.sum ≤ (m.length : Rat) := by
    intro m
    induction m with
    | nil => intro _; simp
    | cons y m ih =>
      intro hm
      have h1 := hm y (List.mem_cons_self ..)
      have h2 := ih (fun z hz => hm z (List.mem_cons_of_mem _ hz))
      simp only [List.sum_cons, List.length_cons, Nat.cast_add, Nat.cast_one]
      constructor <;> linarith [h1.1, h1.2, h2.1, h2.2]
  have := hb (x :: l) h
  constructor
  · rw [le_div_iff₀ hpos]; linarith [this.1]
  · rw [div_le_iff₀ hpos]; linarith [this.2]

/-- **FuzzyNot** negates every present cell and keeps the missing ones (values in range stay in range: no clamping). -/
theorem not_cells (sqrt : Rat → Rat) (a r : Arr) (h : exec sqrt .fuzzyNot [a] = .ok r)
    (hr : ∀ c ∈ a.cells, -1 ≤ c.val ∧ c.val ≤ 1) :
    r.shape = a.shape ∧ r.vis = a.cells.map (fun c => if c.mask then none else some (-c.val)) := by
  simp only [exec, fuzzyClamp, Except.map, Except.ok.injEq] at h
  subst h
  refine ⟨rfl, ?_⟩
  simp only [Arr.vis, Arr.insure, Arr.mapCells, List.map_map]
  apply List.map_congr_left
  intro c hc
  have := hr c hc
  simp only [Function.comp, Cell.vis, Cell.insure, Cell.sc]
  cases hm : c.mask
  · have h1 : -1 ≤ -c.val := by linarith
    have h2 : -c.val ≤ 1 := by linarith
    simp [clamp_id h1 h2]
  · simp

/-- **Not is an involution** on fuzzy arrays (visibly). -/
theorem not_involutive (sqrt : Rat → Rat) (a r1 r2 : Arr) (h1 : exec sqrt .fuzzyNot [a] = .ok r1)
    (h2 : exec sqrt .fuzzyNot [r1] = .ok r2) (hr : ∀ c ∈ a.cells, -1 ≤ c.val ∧ c.val ≤ 1) :
    r2.vis = a.vis ∧ r2.shape = a.shape := by
  simp only [exec, fuzzyClamp, Except.map, Except.ok.injEq] at h1 h2
  subst h1; subst h2
  refine ⟨?_, rfl⟩
  simp only [Arr.vis, Arr.insure, Arr.mapCells, List.map_map]
  apply List.map_congr_left
  intro c hc
  have := hr c hc
  simp only [Function.comp, Cell.vis, Cell.insure, Cell.sc]
  cases hm : c.mask
  · have h1 : -1 ≤ -c.val := by linarith
    have h2 : -c.val ≤ 1 := by linarith
    simp [clamp_id h1 h2, clamp_id this.1 this.2]
  · simp

/-! ### algebra at the level of a column of fuzzy values -/

/-- **De Morgan**: negation exchanges max and min -/
theorem neg_max_eq_min_neg (x : Rat) (l : List Rat) :
    -(fold1 ratMax (x :: l)) = fold1 ratMin ((x :: l).map (fun v => -v)) := by
  simp only [List.map_cons, fold1_cons]
  induction l generalizing x with
  | nil => rfl
  | cons y t ih =>
    simp only [List.foldl_cons, List.map_cons]
    rw [ih]
    congr 1
    unfold ratMax ratMin
    split_ifs <;> first | rfl | linarith

theorem neg_min_eq_max_neg (x : Rat) (l : List Rat) :
    -(fold1 ratMin (x :: l)) = fold1 ratMax ((x :: l).map (fun v => -v)) := by
  simp only [List.map_cons, fold1_cons]
  induction l generalizing x with
  | nil => rfl
  | cons y t ih =>
    simp only [List.foldl_cons, List.map_cons]
    rw [ih]
    congr 1
    unfold ratMax ratMin
    split_ifs <;> first | rfl | linarith

/-- **And ≤ Union ≤ Or** for every non-empty column -/
theorem and_le_union_le_or (x : Rat) (l : List Rat) :
    fold1 ratMin (x :: l) ≤ (x :: l).sum / ((x :: l).length : Rat) ∧
    (x :: l).sum / ((x :: l).length : Rat) ≤ fold1 ratMax (x :: l) := by
  have hpos : (0 : Rat) < ((x :: l).length : Rat) := by simp; positivity
  have hmin := C07.fold1_min_le x l
  have hmax := C07.fold1_max_ge x l
  generalize fold1 ratMin (x :: l) = m at hmin
  generalize fold1 ratMax (x :: l) = M at hmax
  have key : ∀ (L : List Rat), (∀ y ∈ L, m ≤ y) → (∀ y ∈ L, y ≤ M) → m * L.length ≤ L.sum ∧ L.sum ≤ M * L.length := by
    intro L
    induction L with
    | nil => intro _ _; simp
    | cons z t ih =>
      intro h1 h2
      have := ih (fun y hy => h1 y (List.mem_cons_of_mem _ hy)) (fun y hy => h2 y (List.mem_cons_of_mem _ hy))
      have a1 := h1 z (List.mem_cons_self ..)
      have a2 := h2 z (List.mem_cons_self ..)
      simp only [List.sum_cons, List.length_cons, Nat.cast_add, Nat.cast_one]
      constructor <;> nlinarith [this.1, this.2]
  obtain ⟨k1, k2⟩ := key (x :: l) hmin hmax
  constructor
  · rw [le_div_iff₀ hpos]; exact k1
  · rw [div_le_iff₀ hpos]; exact k2

/-! ### exclusive or -/

/-- the EEMS exclusive-or of the two truest values stays within the fuzzy range -/
theorem xor_range (t1 t2 : Rat) (h1 : t1 ≤ 1) (h2 : -1 ≤ t2) (h12 : t2 ≤ t1) :
    -1 ≤ (xorCell [t2, t1]).val ∧ (xorCell [t2, t1]).val ≤ 1 := by
  simp only [xorCell, List.length_cons, List.length_nil, List.getD]
  norm_num
  split_ifs with h
  · constructor <;> simp
  · push Not at h
    have hp : 0 < t1 + 1 := by linarith
    have e : t1 - (t1 - t2) * (t2 + 1) / (t1 + 1) = (t1 * (t1 + 1) - (t1 - t2) * (t2 + 1)) / (t1 + 1) := by
      field_simp
    simp only
    rw [e]
    constructor
    · rw [le_div_iff₀ hp]; nlinarith
    · rw [div_le_iff₀ hp]; nlinarith [mul_nonneg (sub_nonneg.mpr h12) (by linarith : (0 : Rat) ≤ t2 + 1)]

/-! ### selected union: k = 1 is Or / And, k = all is Union -/

theorem sel_all_is_mean (truest : Bool) (asc : List Rat) :
    (selCell truest asc.length asc).val = asc.sum / (asc.length : Rat) := by
  unfold selCell
  cases truest <;> simp [sumL, List.sum_eq_foldl]

theorem sortRat_sorted (l : List Rat) : (sortRat l).Pairwise (· ≤ ·) := by
  unfold sortRat
  exact (List.pairwise_mergeSort (le := fun x y => decide (x ≤ y))
    (by intro a b c; simp; intro h1 h2; exact le_trans h1 h2) (by intro a b; simp; exact le_total a b) l).imp (by simp)

theorem sortRat_mem {l : List Rat} {x : Rat} : x ∈ sortRat l ↔ x ∈ l := by
  unfold sortRat; exact (List.mergeSort_perm l _).mem_iff

theorem pairwise_le_getLast (l : List Rat) (h : l ≠ []) (hs : l.Pairwise (· ≤ ·)) : ∀ x ∈ l, x ≤ l.getLast h := by
  induction l with
  | nil => exact absurd rfl h
  | cons a t ih =>
    intro x hx
    cases t with
    | nil => simp at hx; subst hx; simp
    | cons b t' =>
      have hp := List.pairwise_cons.mp hs
      rw [List.getLast_cons (by simp)]
      rcases List.mem_cons.mp hx with rfl | hx
      · exact le_trans (hp.1 b (List.mem_cons_self ..)) (ih (by simp) hp.2 b (List.mem_cons_self ..))
      · exact ih (by simp) hp.2 x hx

/-- **k = 1, truest**: the selected union of the single truest value of a column is its greatest value - what `FuzzyOr` computes (`or_cell`) -/
theorem sel_truest_one (l : List Rat) (hne : l ≠ []) :
    (selCell true 1 (sortRat l)).val ∈ l ∧ ∀ x ∈ l, x ≤ (selCell true 1 (sortRat l)).val := by
  have hs : sortRat l ≠ [] := by
    intro e
    have := (List.mergeSort_perm l (fun a b => decide (a ≤ b))).length_eq
    unfold sortRat at e
    rw [e] at this
    exact hne (List.length_eq_zero_iff.mp this.symm)
  have hv : (selCell true 1 (sortRat l)).val = (sortRat l).getLast hs := by
    unfold selCell
    simp only [if_true, List.drop_length_sub_one hs, sumL, List.foldl_cons, List.foldl_nil, List.length_singleton]
    simp
  rw [hv]
  exact ⟨sortRat_mem.mp (List.getLast_mem hs), fun x hx => pairwise_le_getLast _ hs (sortRat_sorted l) x (sortRat_mem.mpr hx)⟩

/-- **k = 1, falsest**: the selected union of the single falsest value of a column is its least value - what `FuzzyAnd` computes (`and_cell`) -/
theorem sel_falsest_one (l : List Rat) (hne : l ≠ []) :
    (selCell false 1 (sortRat l)).val ∈ l ∧ ∀ x ∈ l, (selCell false 1 (sortRat l)).val ≤ x := by
  have hs : sortRat l ≠ [] := by
    intro e
    have := (List.mergeSort_perm l (fun a b => decide (a ≤ b))).length_eq
    unfold sortRat at e
    rw [e] at this
    exact hne (List.length_eq_zero_iff.mp this.symm)
  obtain ⟨a, t, hat⟩ := List.exists_cons_of_ne_nil hs
  have hv : (selCell false 1 (sortRat l)).val = a := by
    unfold selCell
    rw [hat]
    simp [sumL]
  rw [hv]
  have hsorted := sortRat_sorted l
  rw [hat] at hsorted
  refine ⟨sortRat_mem.mp (by rw [hat]; exact List.mem_cons_self ..), fun x hx => ?_⟩
  have hx' : x ∈ a :: t := by rw [← hat]; exact sortRat_mem.mpr hx
  rcases List.mem_cons.mp hx' with rfl | hx'
  · exact le_refl _
  · exact (List.pairwise_cons.mp hsorted).1 x hx'

/-! ### every input order gives the same outcome -/

theorem or_perm (sqrt : Rat → Rat) {xs xs' : List Arr} (h : xs.Perm xs') (n : Nat) (hn : ∀ x ∈ xs, x.cells.length = n) :
    ExceptR (exec sqrt .fuzzyOr xs) (exec sqrt .fuzzyOr xs') := by
  simp only [exec]; exact fuzzyClamp_R (naryFold_perm _ _ ratMax_comm ratMax_assoc h n hn)

theorem and_perm (sqrt : Rat → Rat) {xs xs' : List Arr} (h : xs.Perm xs') (n : Nat) (hn : ∀ x ∈ xs, x.cells.length = n) :
    ExceptR (exec sqrt .fuzzyAnd xs) (exec sqrt .fuzzyAnd xs') := by
  simp only [exec]; exact fuzzyClamp_R (naryFold_perm _ _ ratMin_comm ratMin_assoc h n hn)

theorem sortRat_perm {l l' : List Rat} (h : l.Perm l') : sortRat l = sortRat l' := by
  unfold sortRat
  apply List.Perm.eq_of_pairwise (le := fun x y => x ≤ y)
  · intro x y _ _ h1 h2; exact le_antisymm h1 h2
  · exact (List.pairwise_mergeSort (le := fun x y => decide (x ≤ y))
      (by intro a b c; simp; intro h1 h2; exact le_trans h1 h2) (by intro a b; simp; exact le_total a b) l).imp (by simp)
  · exact (List.pairwise_mergeSort (le := fun x y => decide (x ≤ y))
      (by intro a b c; simp; intro h1 h2; exact le_trans h1 h2) (by intro a b; simp; exact le_total a b) l').imp (by simp)
  · exact (List.mergeSort_perm l _).trans (h.trans (List.mergeSort_perm l' _).symm)

/-- the stacked-and-sorted cell does not depend on the order of the inputs -/
theorem stackCell_perm (f : List Rat → Cell) {xs xs' : List Arr} (h : xs.Perm xs') (i : Nat) :
    stackCell xs f i = stackCell xs' f i := by
  unfold stackCell
  have hc := column_perm h i
  rw [any_perm hc, sortRat_perm (hc.map _)]

theorem stackMap_perm (f : List Rat → Cell) {xs xs' : List Arr} (h : xs.Perm xs') (n : Nat)
    (hn : ∀ x ∈ xs, x.cells.length = n) (hs : SameShape xs) : ArrR (stackMap xs f) (stackMap xs' f) := by
  cases xs with
  | nil => rw [List.nil_perm.mp h]; exact ArrR.refl _
  | cons a t =>
    cases xs' with
    | nil => exact absurd (List.perm_nil.mp h) (by simp)
    | cons a' t' =>
      simp only [stackMap]
      have ha' : a' ∈ a :: t := h.mem_iff.mpr (List.mem_cons_self ..)
      refine ⟨rfl, hs a (List.mem_cons_self ..) a' ha', ?_⟩
      rw [hn a (List.mem_cons_self ..), hn a' ha']
      have : (List.range n).map (stackCell (a :: t) f) = (List.range n).map (stackCell (a' :: t') f) :=
        List.map_congr_left fun i _ => stackCell_perm f h i
      rw [this]
      exact List.forall₂_same.mpr (fun c _ => CellR.refl c)

theorem xor_perm (sqrt : Rat → Rat) {xs xs' : List Arr} (h : xs.Perm xs') (n : Nat) (hn : ∀ x ∈ xs, x.cells.length = n) :
    ExceptR (exec sqrt .fuzzyXOr xs) (exec sqrt .fuzzyXOr xs') := by
  simp only [exec]
  rw [← validateShapes_perm _ h, ← h.length_eq]
  rcases validateShapes_cases (.arg "InFieldNames") xs with hv | hv | hv <;> rw [hv]
  · by_cases hne : xs = []
    · subst hne; rw [List.nil_perm.mp h]; exact ExceptR.eRaw _
    · have hs := (validateShapes_ok_iff _ xs hne).mp hv
      show ExceptR (if xs.length < 2 then _ else _) (if xs.length < 2 then _ else _)
      split
      · exact ExceptR.eRaw _
      · exact fuzzyClamp_R (ExceptR.ok (stackMap_perm _ h n hn hs))
  · exact ExceptR.eMp _ _
  · exact ExceptR.eMp _ _

theorem selectedUnion_perm (sqrt : Rat → Rat) (sel : String) (k : Num) {xs xs' : List Arr} (h : xs.Perm xs') (n : Nat)
    (hn : ∀ x ∈ xs, x.cells.length = n) :
    ExceptR (exec sqrt (.fuzzySelectedUnion sel k) xs) (exec sqrt (.fuzzySelectedUnion sel k) xs') := by
  simp only [exec]
  rw [← validateShapes_perm _ h, ← h.length_eq]
  rcases validateShapes_cases (.arg "InFieldNames") xs with hv | hv | hv <;> rw [hv]
  · by_cases hne : xs = []
    · subst hne; rw [List.nil_perm.mp h]
      show ExceptR (if _ then _ else _) (if _ then _ else _)
      split_goal
      all_goals first | exact ExceptR.eMp _ _ | exact ExceptR.eRaw _ | exact ExceptR.ok (ArrR.refl _)
    · have hs := (validateShapes_ok_iff _ xs hne).mp hv
      show ExceptR (if _ then _ else _) (if _ then _ else _)
      split_goal
      all_goals first | exact ExceptR.eMp _ _ | exact ExceptR.eRaw _ | exact fuzzyClamp_R (ExceptR.ok (stackMap_perm _ h n hn hs))
  · exact ExceptR.eMp _ _
  · exact ExceptR.eMp _ _

/-- `FuzzyUnion`: every input order gives the same outcome -/
theorem union_perm (sqrt : Rat → Rat) {xs xs' : List Arr} (h : xs.Perm xs') (n : Nat) (hn : ∀ x ∈ xs, x.cells.length = n) :
    ExceptR (exec sqrt .fuzzyUnion xs) (exec sqrt .fuzzyUnion xs') := by
  simp only [exec]
  rw [← validateShapes_perm _ h, ← h.length_eq]
  rcases validateShapes_cases (.arg "InFieldNames") xs with hv | hv | hv <;> rw [hv]
  · cases xs with
    | nil => rw [List.nil_perm.mp h]; exact ExceptR.eMp _ _
    | cons a t =>
      cases xs' with
      | nil => exact absurd (List.perm_nil.mp h) (by simp)
      | cons a' t' =>
        have hs := (validateShapes_ok_iff _ (a :: t) (by simp)).mp hv
        have hf := foldArr_perm (· + ·) (fun a b => add_comm a b) (fun a b c => add_assoc a b c) .float h n hn
        refine fuzzyClamp_R (ExceptR.ok ⟨?_, ?_, map_R (fun _ _ => divSc_R _) hf⟩)
        · show (foldArr _ _ a t).dtype = (foldArr _ _ a' t').dtype
          rw [foldArr_dtype, foldArr_dtype]
        · show (foldArr _ _ a t).shape = (foldArr _ _ a' t').shape
          rw [naryFold_perm.C05_foldArr_shape, naryFold_perm.C05_foldArr_shape]
          exact hs a (List.mem_cons_self ..) a' (h.mem_iff.mpr (List.mem_cons_self ..))
  · exact ExceptR.eMp _ _
  · exact ExceptR.eMp _ _

/-! ### admissibility guards are the code's own -/

theorem selectedUnion_k_too_large (sqrt : Rat → Rat) (sel : String) (k : Num) (xs : List Arr)
    (hv : validateShapes (.arg "InFieldNames") xs = .ok ()) (hk : (xs.length : Rat) < k.val) :
    exec sqrt (.fuzzySelectedUnion sel k) xs = eMp "InvalidNumberToConsider" (.arg "NumberToConsider") := by
  simp only [exec, hv]
  show (if _ then _ else _) = _
  rw [if_pos hk]

/-- non-vacuity: Or of two concrete fuzzy arrays with a missing cell -/
example : exec (fun x => x) .fuzzyOr [⟨.float, [2], [⟨1/2, false⟩, ⟨0, true⟩]⟩, ⟨.float, [2], [⟨1/4, false⟩, ⟨1, false⟩]⟩]
    = .ok ⟨.float, [2], [⟨1/2, false⟩, ⟨fillValue, true⟩]⟩ := by decide +kernel

end MPilot.C06
