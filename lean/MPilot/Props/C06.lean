/- C06 — theorems under construction -/
import MPilot.Model.Eems
