/- C12 — theorems under construction -/
import MPilot.Model.Program
