/-
C12 — models are accepted iff well-formed, and rejected before any side effect.
-/
import MPilot.Props.C20
import MPilot.Model.Program

namespace MPilot.C12
open MPilot

variable {Val : Type}

/-! ### loading: `add_command` accepts exactly the well-formed commands, and names the offender otherwise -/

/-- a command as written is acceptable to `add_command` -/
def CmdOK (p : Program) (decl : CmdDecl) (resultName : String) (args : List Arg) : Prop :=
  (p.find? resultName).isSome = false ∧
  (∀ i ∈ decl.inputs, i.required = true → ∃ a ∈ args, a.name = i.name) ∧
  (decl.allowExtra = true ∨ ∀ a ∈ args, (decl.input? a.name).isSome = true)

theorem addCommand_ok_iff (p : Program) (decl : CmdDecl) (rn : String) (args : List Arg) (line : Option Nat) :
    (∃ p', addCommand p decl rn args line = .ok p') ↔ CmdOK p decl rn args := by
  unfold addCommand CmdOK
  constructor
  · rintro ⟨p', h⟩
    split at h
    · cases h
    · rename_i h1
      split at h
      · cases h
      · rename_i h2
        split at h
        · cases h
        · rename_i h3
          refine ⟨by simpa using h1, ?_, ?_⟩
          · intro i hi hreq
            simp only [List.any_eq_true, List.mem_filter, Bool.not_eq_true', not_exists, not_and, and_imp] at h2
            have := h2 i hi hreq
            simp only [Bool.not_eq_false, List.any_eq_true, beq_iff_eq] at this
            exact this
          · by_cases hx : decl.allowExtra = true
            · exact Or.inl hx
            · right
              intro a ha
              have := List.find?_eq_none.mp h3 a ha
              simp only [hx, Bool.not_false, Bool.and_true, Bool.not_eq_true'] at this
              cases hq : decl.input? a.name with
              | none => simp [hq] at this
              | some _ => rfl
  · rintro ⟨h1, h2, h3⟩
    rw [if_neg (by simpa using h1)]
    have e2 : ((decl.inputs.filter (·.required)).any fun i => !(args.any (·.name == i.name))) = false := by
      simp only [List.any_eq_false, List.mem_filter, Bool.not_eq_true', and_imp]
      intro i hi hreq
      obtain ⟨a, ha, hn⟩ := h2 i hi hreq
      intro hno
      exact hno a ha (by simpa using hn)
    rw [if_neg (by simp [e2])]
    have e3 : args.find? (fun a => (decl.input? a.name).isNone && !decl.allowExtra) = none := by
      apply List.find?_eq_none.mpr
      intro a ha
      rcases h3 with h3 | h3
      · simp [h3]
      · have := h3 a ha
        simp [Option.isNone_iff_eq_none, Option.isSome_iff_ne_none.mp this]
    rw [e3]
    exact ⟨_, rfl⟩

/-- the specific error, in the code's order of checks: duplicate result before missing parameters before undeclared parameter;
each carries the line of the offending command (or of the offending argument) -/
theorem addCommand_errors (p : Program) (decl : CmdDecl) (rn : String) (args : List Arg) (line : Option Nat) :
    ((p.find? rn).isSome = true → addCommand p decl rn args line = .error (.mp "DuplicateResult" line)) ∧
    ((p.find? rn).isSome = false → (∃ i ∈ decl.inputs, i.required = true ∧ ∀ a ∈ args, a.name ≠ i.name) →
        addCommand p decl rn args line = .error (.mp "MissingParameters" line)) := by
  unfold addCommand
  constructor
  · intro h; rw [if_pos h]
  · intro h1 ⟨i, hi, hreq, hno⟩
    rw [if_neg (by simpa using h1)]
    have : ((decl.inputs.filter (·.required)).any fun i => !(args.any (·.name == i.name))) = true := by
      simp only [List.any_eq_true, List.mem_filter]
      refine ⟨i, ⟨hi, hreq⟩, ?_⟩
      simp only [Bool.not_eq_true', List.any_eq_false, beq_iff_eq]
      intro a ha; exact hno a ha
    rw [if_pos this]

/-- an unknown command name is reported with the line of that command -/
theorem unknown_command (lib : String → Option CmdDecl) (p : Program) (n : Node) (rest : List Node) (h : lib n.command = none) :
    fromNodes lib p (n :: rest) = .error (.mp "CommandDoesNotExist" n.line) := by
  unfold fromNodes; rw [h]

/-! ### the pre-pass accepts exactly the programs all of whose declared arguments clean -/

theorem prepassCmd_ok_iff (ctx : Ctx) (c : PCmd) : ∀ (args : List Arg),
    (∃ r, prepassCmd ctx c args = .ok r) ↔
      ∀ a ∈ args, ∀ i, c.decl.input? a.name = some i → ∃ w, clean ctx i.spec a.value = .ok w := by
  intro args
  induction args with
  | nil => simp [prepassCmd]
  | cons a rest ih =>
    unfold prepassCmd
    cases hi : c.decl.input? a.name with
    | none =>
      simp only
      rw [ih]
      constructor
      · intro h b hb i hbi
        rcases List.mem_cons.mp hb with rfl | hb
        · rw [hi] at hbi; cases hbi
        · exact h b hb i hbi
      · intro h b hb; exact h b (List.mem_cons_of_mem _ hb)
    | some i =>
      simp only
      cases hc : clean ctx i.spec a.value with
      | error e =>
        simp only
        constructor
        · rintro ⟨r, hr⟩; cases hr
        · intro h
          obtain ⟨w, hw⟩ := h a (List.mem_cons_self ..) i hi
          rw [hc] at hw; cases hw
      | ok v =>
        simp only
        constructor
        · rintro ⟨r, hr⟩
          cases hrest : prepassCmd ctx c rest with
          | error e => rw [hrest] at hr; cases hr
          | ok t =>
            have hall := ih.mp ⟨t, hrest⟩
            intro b hb j hbj
            rcases List.mem_cons.mp hb with rfl | hb
            · rw [hi] at hbj; injection hbj with hbj; subst hbj; exact ⟨v, hc⟩
            · exact hall b hb j hbj
        · intro h
          obtain ⟨t, ht⟩ := ih.mpr fun b hb => h b (List.mem_cons_of_mem _ hb)
          rw [ht]
          obtain ⟨d, al⟩ := t
          simp only
          split <;> exact ⟨_, rfl⟩

/-- the first argument (in file order) that does not clean is the one reported, with its own line -/
theorem prepassCmd_first_error (ctx : Ctx) (c : PCmd) (a : Arg) (rest : List Arg) (i : InputDecl) (e : CleanErr)
    (hi : c.decl.input? a.name = some i) (he : clean ctx i.spec a.value = .error e) :
    prepassCmd ctx c (a :: rest) = .error (cleanErrToPErr e a.line) := by
  unfold prepassCmd; rw [hi]; simp only [he]

/-! ### whole models -/

/-- **the pre-pass of `Program.run` accepts a model exactly when every declared argument of every command cleans** (existence, output kind and
fuzziness of referenced results are part of cleaning a reference: `result_ref_ok_iff`) -/
theorem prepass_ok_iff (ctx : Ctx) : ∀ (cmds : List PCmd),
    (∃ info, prepass ctx cmds = .ok info) ↔
      ∀ c ∈ cmds, ∀ a ∈ c.args, ∀ i, c.decl.input? a.name = some i → ∃ w, clean ctx i.spec a.value = .ok w := by
  intro cmds
  induction cmds with
  | nil => simp [prepass]
  | cons c rest ih =>
    unfold prepass
    constructor
    · rintro ⟨info, h⟩
      split at h
      · cases h
      · rename_i d al hc
        split at h
        · cases h
        · rename_i t ht
          intro c' hc'
          rcases List.mem_cons.mp hc' with rfl | hc'
          · exact (prepassCmd_ok_iff ctx c' c'.args).mp ⟨_, hc⟩
          · exact (ih.mp ⟨t, ht⟩) c' hc'
    · intro h
      obtain ⟨⟨d, al⟩, hc⟩ := (prepassCmd_ok_iff ctx c c.args).mpr (h c List.mem_cons_self)
      obtain ⟨t, ht⟩ := ih.mpr (fun c' hc' => h c' (List.mem_cons_of_mem _ hc'))
      rw [hc]
      simp only [ht]
      exact ⟨_, rfl⟩

/-- **a file is loaded exactly when every command, in file order, can be added to what the commands before it built**: its name is a command of
the selected libraries and `add_command` accepts it (`addCommand_ok_iff`: result name free, required parameters present, nothing undeclared) -/
theorem fromNodes_ok_iff (lib : String → Option CmdDecl) : ∀ (nodes : List Node) (p : Program),
    (∃ q, fromNodes lib p nodes = .ok q) ↔
      ∃ ps : List Program, ps.length = nodes.length + 1 ∧ ps[0]? = some p ∧
        ∀ k (hk : k < nodes.length), ∃ decl pk pk', lib nodes[k].command = some decl ∧ ps[k]? = some pk ∧ ps[k + 1]? = some pk' ∧
          addCommand pk decl nodes[k].resultName (dedupArgs nodes[k].args) nodes[k].line = .ok pk' := by
  intro nodes
  induction nodes with
  | nil =>
    intro p
    constructor
    · intro _; exact ⟨[p], rfl, rfl, by intro k hk; cases hk⟩
    · intro _; exact ⟨p, rfl⟩
  | cons n rest ih =>
    intro p
    constructor
    · rintro ⟨q, h⟩
      unfold fromNodes at h
      split at h
      · cases h
      · rename_i decl hl
        split at h
        · cases h
        · rename_i p' hadd
          obtain ⟨ps, hlen, h0, hstep⟩ := (ih p').mp ⟨q, h⟩
          refine ⟨p :: ps, by simp [hlen], rfl, ?_⟩
          intro k hk
          cases k with
          | zero => exact ⟨decl, p, p', hl, rfl, by simpa using h0, hadd⟩
          | succ k =>
            obtain ⟨d, pk, pk', h1, h2, h3, h4⟩ := hstep k (by simpa using hk)
            exact ⟨d, pk, pk', by simpa using h1, by simpa using h2, by simpa using h3, by simpa using h4⟩
    · rintro ⟨ps, hlen, h0, hstep⟩
      obtain ⟨decl, pk, pk', hl, hpk, hpk', hadd⟩ := hstep 0 (by simp)
      have hpkp : pk = p := by rw [h0] at hpk; injection hpk with hpk; exact hpk.symm
      subst hpkp
      unfold fromNodes
      simp only [List.getElem_cons_zero] at hl hadd
      rw [hl]
      simp only [hadd]
      apply (ih pk').mpr
      cases ps with
      | nil => simp at hlen
      | cons p0 ps' =>
        refine ⟨ps', by simpa using hlen, by simpa using hpk', ?_⟩
        intro k hk
        obtain ⟨d, a, b, h1, h2, h3, h4⟩ := hstep (k + 1) (by simpa using hk)
        exact ⟨d, a, b, by simpa using h1, by simpa using h2, by simpa using h3, by simpa using h4⟩

/-- **acceptance end to end**: `Program.run` gets past validation exactly when the pre-pass accepts and the reference graph has no loop; otherwise it
returns the specific error with nothing executed -/
theorem run_validates_first (sem : Sem Val) (p : Program) (st : St Val) :
    (∃ e, prepass (mkCtx sem p st) p.cmds = .error e ∧ run sem p st = (st, some e)) ∨
    (∃ info, prepass (mkCtx sem p st) p.cmds = .ok info ∧ hasCycle p (depsOf info) = true ∧ run sem p st = (st, some (.mp "RecursiveModelStructure" none))) ∨
    (∃ info, prepass (mkCtx sem p st) p.cmds = .ok info ∧ hasCycle p (depsOf info) = false ∧ run sem p st = run.go sem p (leavesOf p info) st) := by
  unfold run
  cases h : prepass (mkCtx sem p st) p.cmds with
  | error e => exact .inl ⟨e, rfl, rfl⟩
  | ok info =>
    cases hc : hasCycle p (depsOf info) with
    | true => exact .inr (.inl ⟨info, rfl, hc, by simp [hc]⟩)
    | false => exact .inr (.inr ⟨info, rfl, hc, by simp [hc]⟩)

/-! ### rejection happens before anything executes -/

/-- **rejected before any side effect**: whatever error the pre-pass raises, `run` returns it with the state untouched —
no command body entered, no result produced -/
theorem reject_no_effects (sem : Sem Val) (p : Program) (st : St Val) (e : PErr)
    (h : prepass (mkCtx sem p st) p.cmds = .error e) : run sem p st = (st, some e) := by
  unfold run; rw [h]

/-- all load-time rejections happen before a `Program` exists at all: `fromNodes` returns no program -/
theorem load_reject_no_program (lib : String → Option CmdDecl) (p : Program) (nodes : List Node) (e : PErr)
    (h : fromNodes lib p nodes = .error e) : ¬∃ p', fromNodes lib p nodes = .ok p' := by
  rintro ⟨p', hp⟩; rw [h] at hp; cases hp

/-- a reference parameter accepts exactly: an existing result, of the required fuzziness, whose declared output kind is accepted -/
theorem result_ref_ok_iff (ctx : Ctx) (ot : Option PClass) (fz : Option Bool) (s : String) (info : CmdInfo)
    (hl : ctx.lookup s = some info) (hnf : info.finished = false) :
    (∃ w, clean ctx (.result ot fz) (.str s) = .ok w) ↔
      (fz = some true → info.isFuzzy = true) ∧ (fz = some false → info.isFuzzy = false) ∧
      (∀ want, ot = some want → ∀ out, info.output = some out → want.acceptsOutput out = true) := by
  unfold clean
  simp only [hl, Option.isSome_some, if_true]
  constructor
  · rintro ⟨w, h⟩
    repeat' (first | split at h | (dsimp only at h))
    all_goals first | (injection h; done) | skip
    all_goals simp_all
  · rintro ⟨h1, h2, h3⟩
    repeat' (first | split | (dsimp only))
    all_goals first | exact ⟨_, rfl⟩ | skip
    all_goals simp_all

/-- a reference to a result that does not exist is reported as such -/
theorem result_ref_missing (ctx : Ctx) (ot : Option PClass) (fz : Option Bool) (s : String) (hl : ctx.lookup s = none) :
    clean ctx (.result ot fz) (.str s) = .error "ResultDoesNotExist" := by
  unfold clean; simp [hl]

end MPilot.C12
