/-
C16 — EEMS 2.0 command files translate to equivalent MPilot programs.
-/
import MPilot.Model.Eems2
import MPilot.Generated.Eems2Table
import MPilot.Generated.Decls
import Mathlib.Data.List.Forall2

namespace MPilot.C16
open MPilot MPilot.Generated

def csvNames : List String := csvDecls.map (·.name)
def netcdfNames : List String := netcdfDecls.map (·.name)

/-- EEMS 2.0 names whose target command does not exist in the libraries (known finding C16-F13-scorerange) -/
def knownMissing : List String := ["SCORERANGEBENEFIT", "SCORERANGECOST"]

/-- **every mapped EEMS 2.0 name resolves to an existing command** in both library sets — re-checked against the table and the
registry extracted from the source on every run.  The two ScoreRange rows are the listed known finding; they are excluded
here and their failure is proved below, so any *other* unmapped name breaks this obligation. -/
theorem table_total_except_known :
    ∀ kv ∈ eems2Table, kv.1 ∉ knownMissing → kv.2 ∈ csvNames ∧ kv.2 ∈ netcdfNames := by
  decide +kernel

/-- the known finding, as a theorem about the current tables: the ScoreRange targets exist in neither library set -/
theorem scorerange_targets_missing :
    ("SCORERANGEBENEFIT", "ScoreRangeBenefit") ∈ eems2Table ∧ "ScoreRangeBenefit" ∉ csvNames ∧ "ScoreRangeBenefit" ∉ netcdfNames ∧
    ("SCORERANGECOST", "ScoreRangeCost") ∈ eems2Table ∧ "ScoreRangeCost" ∉ csvNames ∧ "ScoreRangeCost" ∉ netcdfNames := by
  decide +kernel

/-- the table has 25 rows with pairwise different EEMS 2.0 names -/
theorem table_shape : eems2Table.length = 25 ∧ (eems2Table.map (·.1)).Nodup := by decide +kernel

/-! ### what conversion does to one command -/

/-- **the translation rule**: the command is renamed through the table (names not in the table are kept), its result name is its own
result name or else the new field name or else the input field name, and the output-file / new-field arguments are dropped; the line is kept -/
theorem convertNode_spec (table : List (String × String)) (n c : CNode) (h : convertNode table n = .ok c) :
    c.command = (match table.find? (·.1 == n.command) with | some (_, v) => v | none => n.command) ∧
    c.args = n.args.filter (fun a => a.name != "NewFieldName" && a.name != "OutFileName") ∧
    c.line = n.line ∧ ∃ s, c.resultName = some s ∧ v2ResultName n = some (.str s) := by
  unfold convertNode at h
  split at h
  · rename_i s hs
    injection h with h; subst h
    exact ⟨rfl, rfl, rfl, s, rfl, hs⟩
  · cases h

/-- a command written with its own result name keeps it (MPilot-style commands inside an EEMS 2.0 file) -/
theorem result_name_own (n : CNode) (r : String) (h : n.resultName = some r) (hr : r ≠ "") :
    v2ResultName n = some (.str r) := by
  unfold v2ResultName
  simp [h, EVal.truthy, hr]

/-- without a result name, a non-empty `NewFieldName` is the result name -/
theorem result_name_new_field (n : CNode) (s : String) (h : n.resultName = none)
    (hn : findArgument n "NewFieldName" = some (.str s)) (hs : s ≠ "") : v2ResultName n = some (.str s) := by
  unfold v2ResultName
  simp [h, hn, EVal.truthy, hs]

/-- without result name and `NewFieldName`, a non-empty `InFieldName` is the result name -/
theorem result_name_in_field (n : CNode) (s : String) (h : n.resultName = none)
    (hn : findArgument n "NewFieldName" = none) (hi : findArgument n "InFieldName" = some (.str s)) (hs : s ≠ "") :
    v2ResultName n = some (.str s) := by
  unfold v2ResultName
  simp [h, hn, hi, EVal.truthy, hs]

/-- a command with no usable name is rejected with a program error at its own line — never loaded with a missing name -/
theorem no_result_name_rejected (table : List (String × String)) (n : CNode) (h : n.resultName = none)
    (hn : findArgument n "NewFieldName" = none) (hi : findArgument n "InFieldName" = none) :
    convertNode table n = .error (.mp "ProgramError" (some n.line)) := by
  unfold convertNode v2ResultName
  simp [h, hn, hi]

/-- conversion is applied exactly when the parser saw EEMS 2.0 syntax or some command carries an EEMS 2.0 name -/
theorem trigger (table : List (String × String)) (p : PNode) :
    needsConversion table p = true ↔ p.version = 2 ∨ ∃ c ∈ p.commands, ∃ kv ∈ table, kv.1 = c.command := by
  unfold needsConversion
  simp only [Bool.or_eq_true, beq_iff_eq, List.any_eq_true]

/-- converting an already-converted MPilot-style command changes nothing but dropping the two EEMS 2.0-only arguments:
an MPilot file that happens to be treated as EEMS 2.0 (mixed files) loads to the same commands -/
theorem convert_mpilot_style (table : List (String × String)) (n : CNode) (r : String) (h : n.resultName = some r) (hr : r ≠ "")
    (hcmd : table.find? (·.1 == n.command) = none)
    (hargs : ∀ a ∈ n.args, a.name ≠ "NewFieldName" ∧ a.name ≠ "OutFileName") :
    convertNode table n = .ok n := by
  unfold convertNode
  rw [result_name_own n r h hr]
  simp only [hcmd]
  have : n.args.filter (fun a => a.name != "NewFieldName" && a.name != "OutFileName") = n.args := by
    apply List.filter_eq_self.mpr
    intro a ha
    have := hargs a ha
    simp [this.1, this.2]
  rw [this]
  cases n
  simp_all

/-! ### whole files: an EEMS 2.0 file loads to the same program as the MPilot file obtained by the mapping -/

/-- the MPilot command the rule maps an EEMS 2.0 command to, given the result name `s` the rule finds for it -/
def mapped (table : List (String × String)) (n : CNode) (s : String) : CNode :=
  { resultName := some s,
    command := match table.find? (·.1 == n.command) with | some (_, v) => v | none => n.command,
    args := n.args.filter (fun a => a.name != "NewFieldName" && a.name != "OutFileName"),
    line := n.line }

/-- no target of the table is itself an EEMS 2.0 name: a translated file is not translated again -/
def TargetsNotKeys (table : List (String × String)) : Prop := ∀ kv ∈ table, ∀ kv' ∈ table, kv.2 ≠ kv'.1

instance (table : List (String × String)) : Decidable (TargetsNotKeys table) := by unfold TargetsNotKeys; infer_instance

/-- re-checked against the table extracted from the source on every run -/
theorem targets_not_keys : TargetsNotKeys eems2Table := by decide +kernel

theorem convertNode_eq_mapped (table : List (String × String)) (n c : CNode) (h : convertNode table n = .ok c) :
    ∃ s, v2ResultName n = some (.str s) ∧ c = mapped table n s := by
  unfold convertNode at h
  split at h
  · rename_i s hs
    injection h with h; subst h
    exact ⟨s, hs, rfl⟩
  · cases h

/-- **conversion of a whole file is the mapping applied command by command, in order** -/
theorem convertAll_spec (table : List (String × String)) : ∀ (ns cs : List CNode), convertAll table ns = .ok cs →
    List.Forall₂ (fun n c => ∃ s, v2ResultName n = some (.str s) ∧ c = mapped table n s) ns cs := by
  intro ns
  induction ns with
  | nil => intro cs h; simp [convertAll] at h; subst h; exact .nil
  | cons n rest ih =>
    intro cs h
    simp only [convertAll] at h
    split at h
    · cases h
    · rename_i c hc
      split at h
      · cases h
      · rename_i cs' hcs
        injection h with h; subst h
        exact .cons (convertNode_eq_mapped table n c hc) (ih cs' hcs)

/-- and the first command without a usable name stops the conversion with its own line -/
theorem convertAll_error (table : List (String × String)) : ∀ (ns : List CNode) (e : PErr), convertAll table ns = .error e →
    ∃ n ∈ ns, e = .mp "ProgramError" (some n.line) ∧ ∀ s, v2ResultName n ≠ some (.str s) := by
  intro ns
  induction ns with
  | nil => intro e h; simp [convertAll] at h
  | cons n rest ih =>
    intro e h
    simp only [convertAll] at h
    split at h
    · rename_i e' he
      injection h with h; subst h
      refine ⟨n, List.mem_cons_self, ?_, ?_⟩
      · unfold convertNode at he; split at he
        · cases he
        · injection he with he; exact he.symm
      · intro s hs; unfold convertNode at he; rw [hs] at he; cases he
    · split at h
      · rename_i e' he
        injection h with h; subst h
        obtain ⟨m, hm, h1, h2⟩ := ih _ he
        exact ⟨m, List.mem_cons_of_mem _ hm, h1, h2⟩
      · cases h

/-- a mapped command does not carry an EEMS 2.0 name any more -/
theorem mapped_not_key (table : List (String × String)) (ht : TargetsNotKeys table) (n : CNode) (s : String) :
    table.any (·.1 == (mapped table n s).command) = false := by
  unfold mapped
  simp only
  split
  · rename_i k v hf
    have hmem := List.mem_of_find?_eq_some hf
    rw [Bool.eq_false_iff]; intro hany
    rw [List.any_eq_true] at hany
    obtain ⟨kv', hkv', heq⟩ := hany
    have heq' : kv'.1 = v := by simpa using heq
    exact ht _ hmem _ hkv' heq'.symm
  · rename_i hf
    rw [Bool.eq_false_iff]; intro hany
    rw [List.any_eq_true] at hany
    obtain ⟨kv', hkv', heq⟩ := hany
    have := List.find?_eq_none.mp hf kv' hkv'
    exact this heq

theorem converted_needs_no_conversion (table : List (String × String)) (ht : TargetsNotKeys table) (ns cs : List CNode)
    (v : Nat) (hv : v ≠ 2) (h : convertAll table ns = .ok cs) : needsConversion table ⟨cs, v⟩ = false := by
  have hs := convertAll_spec table ns cs h
  unfold needsConversion
  have hv' : (v == 2) = false := by simpa using hv
  simp only [hv', Bool.false_or]
  rw [Bool.eq_false_iff]; intro hany
  rw [List.any_eq_true] at hany
  obtain ⟨c, hc, hk⟩ := hany
  clear h
  induction hs with
  | nil => cases hc
  | cons hnc _ ih =>
    rcases List.mem_cons.mp hc with rfl | hc'
    · obtain ⟨s, _, rfl⟩ := hnc
      rw [mapped_not_key table ht] at hk; cases hk
    · exact ih hc'

/-- **C16, whole files.**  Let `src2` be a command file the loader treats as EEMS 2.0 (EEMS 2.0 syntax, or some EEMS 2.0 command name), and let
`src1` be a file in MPilot syntax whose commands are exactly the mapped ones (renamed through the table, result name = own name, else
`NewFieldName`, else `InFieldName`; `NewFieldName`/`OutFileName` dropped; same lines).  Then loading either - with any libraries, into any
program - gives the same outcome: the same program (commands, order, result names, declarations, arguments, lines) or the same error. -/
theorem eems2_file_equiv (table : List (String × String)) (ht : TargetsNotKeys table) (lib : String → Option CmdDecl) (p0 : Program)
    (src2 src1 : String) (pn2 pn1 : PNode) (h2 : parse src2 = .ok pn2) (h1 : parse src1 = .ok pn1) (hv : pn1.version ≠ 2)
    (hconv : needsConversion table pn2 = true) (hmap : convertAll table pn2.commands = .ok pn1.commands) :
    loadSource table lib p0 src2 = loadSource table lib p0 src1 := by
  have hno : needsConversion table pn1 = false := by
    have := converted_needs_no_conversion table ht pn2.commands pn1.commands pn1.version hv hmap
    cases pn1; exact this
  unfold loadSource
  simp only [h2, h1, hconv, hno, hmap, if_true]
  rfl

/-- the same for the pinned table (side condition discharged on the regenerated table) -/
theorem eems2_file_equiv_builtin (lib : String → Option CmdDecl) (p0 : Program)
    (src2 src1 : String) (pn2 pn1 : PNode) (h2 : parse src2 = .ok pn2) (h1 : parse src1 = .ok pn1) (hv : pn1.version ≠ 2)
    (hconv : needsConversion eems2Table pn2 = true) (hmap : convertAll eems2Table pn2.commands = .ok pn1.commands) :
    loadSource eems2Table lib p0 src2 = loadSource eems2Table lib p0 src1 :=
  eems2_file_equiv eems2Table targets_not_keys lib p0 src2 src1 pn2 pn1 h2 h1 hv hconv hmap

/-- **"the two therefore compute identical results"**: running what the two files load to - for any command semantics, from any state - is the same
computation: same final state (results, execution log) and same error, or the same load error. -/
theorem eems2_results_equal {Val : Type} (sem : Sem Val) (st : St Val) (table : List (String × String)) (ht : TargetsNotKeys table)
    (lib : String → Option CmdDecl) (p0 : Program)
    (src2 src1 : String) (pn2 pn1 : PNode) (h2 : parse src2 = .ok pn2) (h1 : parse src1 = .ok pn1) (hv : pn1.version ≠ 2)
    (hconv : needsConversion table pn2 = true) (hmap : convertAll table pn2.commands = .ok pn1.commands) :
    (loadSource table lib p0 src2).map (fun p => run sem p st) = (loadSource table lib p0 src1).map (fun p => run sem p st) := by
  rw [eems2_file_equiv table ht lib p0 src2 src1 pn2 pn1 h2 h1 hv hconv hmap]

/-- a file that cannot be converted is rejected as a whole: nothing is loaded -/
theorem eems2_unconvertible_rejected (table : List (String × String)) (lib : String → Option CmdDecl) (p0 : Program)
    (src2 : String) (pn2 : PNode) (h2 : parse src2 = .ok pn2) (hconv : needsConversion table pn2 = true)
    (n : CNode) (hn : n ∈ pn2.commands) (hbad : ∀ s, v2ResultName n ≠ some (.str s)) :
    ∃ m ∈ pn2.commands, loadSource table lib p0 src2 = .error (.mp "ProgramError" (some m.line)) := by
  unfold loadSource
  simp only [h2, hconv, if_true]
  cases hc : convertAll table pn2.commands with
  | error e =>
    obtain ⟨m, hm, he, _⟩ := convertAll_error table _ e hc
    exact ⟨m, hm, by simp [he]⟩
  | ok cs =>
    exfalso
    have hs := convertAll_spec table _ _ hc
    clear hc h2 hconv
    generalize pn2.commands = ns at hs hn
    induction hs with
    | nil => cases hn
    | cons hnc _ ih =>
      rcases List.mem_cons.mp hn with rfl | hn'
      · obtain ⟨s, hs', _⟩ := hnc; exact hbad s hs'
      · exact ih hn'

/-! non-vacuity: a concrete EEMS 2.0 file and its MPilot counterpart satisfy the premises (parsed by the model's own parser) -/
section
def src2 : String := "READ(InFileName = a.csv, InFieldName = elev, OutFileName = o.csv)\nCVTTOFUZZY(InFieldName = elev, NewFieldName = f, TrueThreshold = 2, FalseThreshold = 0)\n"
def src1 : String := "elev = EEMSRead(InFileName = a.csv, InFieldName = elev)\nf = CvtToFuzzy(InFieldName = elev, TrueThreshold = 2, FalseThreshold = 0)\n"

def cnodeSig (c : CNode) : Option String × String × List (String × Nat) × Nat := (c.resultName, c.command, c.args.map (fun a => (a.name, a.line)), c.line)

example : (match parse src2, parse src1 with
    | .ok pn2, .ok pn1 =>
        pn1.version != 2 && needsConversion eems2Table pn2 &&
        (match convertAll eems2Table pn2.commands with
         | .ok cs => cs.map cnodeSig == pn1.commands.map cnodeSig
         | .error _ => false)
    | _, _ => false) = true := by decide +kernel
end

end MPilot.C16
