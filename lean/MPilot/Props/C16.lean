/-
C16 — EEMS 2.0 command files translate to equivalent MPilot programs.
-/
import MPilot.Model.Eems2
import MPilot.Generated.Eems2Table
import MPilot.Generated.Decls

namespace MPilot.C16
open MPilot MPilot.Generated

def csvNames : List String := csvDecls.map (·.name)
def netcdfNames : List String := netcdfDecls.map (·.name)

/-- EEMS 2.0 names whose target command does not exist in the libraries (known finding C16-F13-scorerange) -/
def knownMissing : List String := ["SCORERANGEBENEFIT", "SCORERANGECOST"]

/-- **every mapped EEMS 2.0 name resolves to an existing command** in both library sets — re-checked against the table and the
registry extracted from the source on every run.  The two ScoreRange rows are the listed known finding; they are excluded
here and their failure is proved below, so any *other* unmapped name breaks this obligation. -/
theorem table_total_except_known :
    ∀ kv ∈ eems2Table, kv.1 ∉ knownMissing → kv.2 ∈ csvNames ∧ kv.2 ∈ netcdfNames := by
  decide +kernel

/-- the known finding, as a theorem about the current tables: the ScoreRange targets exist in neither library set -/
theorem scorerange_targets_missing :
    ("SCORERANGEBENEFIT", "ScoreRangeBenefit") ∈ eems2Table ∧ "ScoreRangeBenefit" ∉ csvNames ∧ "ScoreRangeBenefit" ∉ netcdfNames ∧
    ("SCORERANGECOST", "ScoreRangeCost") ∈ eems2Table ∧ "ScoreRangeCost" ∉ csvNames ∧ "ScoreRangeCost" ∉ netcdfNames := by
  decide +kernel

/-- the table has 25 rows with pairwise different EEMS 2.0 names -/
theorem table_shape : eems2Table.length = 25 ∧ (eems2Table.map (·.1)).Nodup := by decide +kernel

/-! ### what conversion does to one command -/

/-- **the translation rule**: the command is renamed through the table (names not in the table are kept), its result name is its own
result name or else the new field name or else the input field name, and the output-file / new-field arguments are dropped; the line is kept -/
theorem convertNode_spec (table : List (String × String)) (n c : CNode) (h : convertNode table n = .ok c) :
    c.command = (match table.find? (·.1 == n.command) with | some (_, v) => v | none => n.command) ∧
    c.args = n.args.filter (fun a => a.name != "NewFieldName" && a.name != "OutFileName") ∧
    c.line = n.line ∧ ∃ s, c.resultName = some s ∧ v2ResultName n = some (.str s) := by
  unfold convertNode at h
  split at h
  · rename_i s hs
    injection h with h; subst h
    exact ⟨rfl, rfl, rfl, s, rfl, hs⟩
  · cases h

/-- a command written with its own result name keeps it (MPilot-style commands inside an EEMS 2.0 file) -/
theorem result_name_own (n : CNode) (r : String) (h : n.resultName = some r) (hr : r ≠ "") :
    v2ResultName n = some (.str r) := by
  unfold v2ResultName
  simp [h, EVal.truthy, hr]

/-- without a result name, a non-empty `NewFieldName` is the result name -/
theorem result_name_new_field (n : CNode) (s : String) (h : n.resultName = none)
    (hn : findArgument n "NewFieldName" = some (.str s)) (hs : s ≠ "") : v2ResultName n = some (.str s) := by
  unfold v2ResultName
  simp [h, hn, EVal.truthy, hs]

/-- without result name and `NewFieldName`, a non-empty `InFieldName` is the result name -/
theorem result_name_in_field (n : CNode) (s : String) (h : n.resultName = none)
    (hn : findArgument n "NewFieldName" = none) (hi : findArgument n "InFieldName" = some (.str s)) (hs : s ≠ "") :
    v2ResultName n = some (.str s) := by
  unfold v2ResultName
  simp [h, hn, hi, EVal.truthy, hs]

/-- a command with no usable name is rejected with a program error at its own line — never loaded with a missing name -/
theorem no_result_name_rejected (table : List (String × String)) (n : CNode) (h : n.resultName = none)
    (hn : findArgument n "NewFieldName" = none) (hi : findArgument n "InFieldName" = none) :
    convertNode table n = .error (.mp "ProgramError" (some n.line)) := by
  unfold convertNode v2ResultName
  simp [h, hn, hi]

/-- conversion is applied exactly when the parser saw EEMS 2.0 syntax or some command carries an EEMS 2.0 name -/
theorem trigger (table : List (String × String)) (p : PNode) :
    needsConversion table p = true ↔ p.version = 2 ∨ ∃ c ∈ p.commands, ∃ kv ∈ table, kv.1 = c.command := by
  unfold needsConversion
  simp only [Bool.or_eq_true, beq_iff_eq, List.any_eq_true]

/-- converting an already-converted MPilot-style command changes nothing but dropping the two EEMS 2.0-only arguments:
an MPilot file that happens to be treated as EEMS 2.0 (mixed files) loads to the same commands -/
theorem convert_mpilot_style (table : List (String × String)) (n : CNode) (r : String) (h : n.resultName = some r) (hr : r ≠ "")
    (hcmd : table.find? (·.1 == n.command) = none)
    (hargs : ∀ a ∈ n.args, a.name ≠ "NewFieldName" ∧ a.name ≠ "OutFileName") :
    convertNode table n = .ok n := by
  unfold convertNode
  rw [result_name_own n r h hr]
  simp only [hcmd]
  have : n.args.filter (fun a => a.name != "NewFieldName" && a.name != "OutFileName") = n.args := by
    apply List.filter_eq_self.mpr
    intro a ha
    have := hargs a ha
    simp [this.1, this.2]
  rw [this]
  cases n
  simp_all

end MPilot.C16
