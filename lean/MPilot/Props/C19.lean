/-
C19 — command lookup depends only on the libraries requested.
-/
import MPilot.Model.Registry
import MPilot.Generated.Decls
import MPilot.Generated.Libraries
import Mathlib.Data.List.Perm.Basic
import Mathlib.Tactic.Common

namespace MPilot.C19
open MPilot MPilot.Generated

/-- **the lookup is a function of the registered entries that lie under the requested libraries** — nothing else of the registry matters -/
theorem lookup_congr (reg reg' : Registry) (libs : List String)
    (h : reg.filter (inLibs libs) = reg'.filter (inLibs libs)) : lookup reg libs = lookup reg' libs := by
  unfold lookup; rw [h]

/-- registering a class in a module that is not under any requested library never changes the lookup … -/
theorem register_outside_irrelevant (reg : Registry) (libs : List String) (e : RegEntry) (h : inLibs libs e = false) :
    lookup (register reg e) libs = lookup reg libs := by
  apply lookup_congr
  unfold register
  split
  · rfl
  · rw [List.filter_append]; simp [h]

/-- … and neither does any history of such definitions (other programs' libraries, user libraries with look-alike names) -/
theorem history_outside_irrelevant (libs : List String) (es : List RegEntry) (h : ∀ e ∈ es, inLibs libs e = false) :
    ∀ reg : Registry, lookup (es.foldl register reg) libs = lookup reg libs := by
  induction es with
  | nil => intro reg; rfl
  | cons e t ih =>
    intro reg
    rw [List.foldl_cons, ih (fun x hx => h x (List.mem_cons_of_mem _ hx)), register_outside_irrelevant reg libs e (h e (List.mem_cons_self ..))]

/-- **no prefix capture**: every command offered comes from a requested library itself or from a module *beneath* it (`lib.`…),
never from a module whose name merely starts with the library's name -/
theorem no_prefix_capture (reg : Registry) (libs : List String) (sel : List RegEntry) (h : lookup reg libs = .ok sel) :
    ∀ e ∈ sel, ∃ l ∈ libs, e.module = l ∨ e.module.startsWith (l ++ ".") = true := by
  unfold lookup at h
  dsimp only at h
  split at h
  · injection h with h; subst h
    intro e he
    have := (List.mem_filter.mp he).2
    unfold inLibs at this
    obtain ⟨l, hl, hu⟩ := List.any_eq_true.mp this
    refine ⟨l, hl, ?_⟩
    unfold underLib at hu
    rcases Bool.or_eq_true_iff.mp hu with h1 | h1
    · exact Or.inl (beq_iff_eq.mp h1)
    · exact Or.inr h1
  · cases h

/-- the order in which libraries are requested does not matter -/
theorem lookup_perm (reg : Registry) {libs libs' : List String} (h : libs.Perm libs') : lookup reg libs = lookup reg libs' := by
  have hf : reg.filter (inLibs libs) = reg.filter (inLibs libs') := by
    apply List.filter_congr
    intro e _
    unfold inLibs
    rw [Bool.eq_iff_iff]
    simp only [List.any_eq_true]
    exact ⟨fun ⟨l, hl, hu⟩ => ⟨l, h.mem_iff.mp hl, hu⟩, fun ⟨l, hl, hu⟩ => ⟨l, h.mem_iff.mpr hl, hu⟩⟩
  unfold lookup
  rw [hf]

theorem two_le_length {α : Type} {L : List α} {a b : α} (ha : a ∈ L) (hb : b ∈ L) (hne : a ≠ b) : 2 ≤ L.length := by
  match L, ha, hb with
  | [x], ha, hb =>
    simp only [List.mem_singleton] at ha hb
    exact absurd (ha.trans hb.symm) hne
  | _ :: _ :: _, _, _ => simp

/-- **same-named commands from the requested libraries fail at construction** -/
theorem duplicates_rejected (reg : Registry) (libs : List String) (a b : RegEntry)
    (ha : a ∈ reg.filter (inLibs libs)) (hb : b ∈ reg.filter (inLibs libs)) (hne : a ≠ b) (hn : a.name = b.name)
    : ∃ d, lookup reg libs = .error d ∧ a.name ∈ d := by
  unfold lookup
  have hmem : a.name ∈ duplicates (reg.filter (inLibs libs)) := by
    unfold duplicates
    apply List.mem_filter.mpr
    refine ⟨List.mem_eraseDups.mpr (List.mem_map.mpr ⟨a, ha, rfl⟩), ?_⟩
    simp only [decide_eq_true_eq]
    have ha' : a ∈ (reg.filter (inLibs libs)).filter (·.name == a.name) := List.mem_filter.mpr ⟨ha, by simp⟩
    have hb' : b ∈ (reg.filter (inLibs libs)).filter (·.name == a.name) := List.mem_filter.mpr ⟨hb, by simp [hn]⟩
    exact two_le_length ha' hb' hne
  have hne' : (duplicates (reg.filter (inLibs libs))).isEmpty = false := by
    cases hd : duplicates (reg.filter (inLibs libs)) with
    | nil => rw [hd] at hmem; cases hmem
    | cons _ _ => rfl
  simp only [hne', Bool.false_eq_true, if_false]
  exact ⟨_, rfl, hmem⟩

/-! ### the built-in library tuples (regenerated from the source on every run) -/

/-- neither built-in library set defines a command name twice, so constructing a program for them succeeds -/
theorem builtin_libraries_duplicate_free :
    (csvDecls.map (·.name)).Nodup ∧ (netcdfDecls.map (·.name)).Nodup := by
  decide +kernel

/-- CSV and NetCDF programs resolve `EEMSRead` / `EEMSWrite` to their own modules -/
theorem readers_resolve_to_own_library :
    (csvDecls.filter (·.name == "EEMSRead")).map (·.module) = ["mpilot.libraries.eems.csv.io"] ∧
    (csvDecls.filter (·.name == "EEMSWrite")).map (·.module) = ["mpilot.libraries.eems.csv.io"] ∧
    (netcdfDecls.filter (·.name == "EEMSRead")).map (·.module) = ["mpilot.libraries.eems.netcdf.io"] ∧
    (netcdfDecls.filter (·.name == "EEMSWrite")).map (·.module) = ["mpilot.libraries.eems.netcdf.io"] := by
  decide +kernel

/-- every built-in command lives in a module under one of the requested library names, and in no other -/
theorem builtin_modules_under_libraries :
    (∀ d ∈ csvDecls, eemsCsvLibraries.any (fun l => underLib l d.module) = true) ∧
    (∀ d ∈ netcdfDecls, eemsNetcdfLibraries.any (fun l => underLib l d.module) = true) := by
  decide +kernel

/-- witness for prefix capture: a module `libx_extra` is not under the library `libx` -/
example : underLib "libx" "libx_extra" = false ∧ underLib "libx" "libx.sub" = true ∧ underLib "libx" "libx" = true := by
  decide +kernel

end MPilot.C19
