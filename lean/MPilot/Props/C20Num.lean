/-
C20 - "integers stay integers", at any magnitude, when they are written as text.

`clean_int_stays_int` (Props/C20.lean) is about integer values.  A number given as TEXT (a quoted value in a command file, a list item, an API
string) goes through Python's `int(text)` first: `num_text_digits_exact` - a run of decimal digits of ANY length, with or without a sign, is
cleaned to exactly the whole number it spells: no route through a decimal, no rounding beyond 2^53, no overflow at hundreds of digits.
-/
import MPilot.Model.Params
import Mathlib.Tactic.Common

namespace MPilot.C20N
open MPilot

theorem digit_not_ws {c : Char} (h : c.isDigit = true) : isWs c = false := by
  have h1 : 48 ≤ c.val ∧ c.val ≤ 57 := by simpa [Char.isDigit] using h
  unfold isWs
  have ne : ∀ (v : Nat), v < 48 → c ≠ Char.ofNat v := by
    intro v hv e
    have : c.val = (Char.ofNat v).val := by rw [e]
    have hv' : (Char.ofNat v).val.toNat = v := by
      simp [Char.ofNat, Char.ofNatAux, Nat.isValidChar, show v < 55296 by omega]
    have h2 : c.val.toNat = v := by rw [this, hv']
    have h3 : 48 ≤ c.val.toNat := by simpa using (UInt32.le_iff_toNat_le.mp h1.1)
    omega
  have e1 := ne 32 (by omega); have e2 := ne 9 (by omega); have e3 := ne 10 (by omega)
  have e4 := ne 13 (by omega); have e5 := ne 11 (by omega); have e6 := ne 12 (by omega)
  simp only [Bool.or_eq_false_iff, beq_eq_false_iff_ne]
  exact ⟨⟨⟨⟨⟨e1, e2⟩, e3⟩, e4⟩, e5⟩, e6⟩

theorem dropWhile_ws_digits : ∀ (ds : List Char), ds ≠ [] → (∀ c ∈ ds, c.isDigit = true) → ds.dropWhile isWs = ds
  | [], h, _ => absurd rfl h
  | c :: r, _, hd => by
    rw [List.dropWhile_cons_of_neg]
    simp [digit_not_ws (hd c List.mem_cons_self)]

theorem stripWs_digits (ds : List Char) (hne : ds ≠ []) (hd : ∀ c ∈ ds, c.isDigit = true) : stripWs ds = ds := by
  unfold stripWs
  rw [dropWhile_ws_digits ds hne hd]
  have hr : ds.reverse ≠ [] := by simpa using hne
  rw [dropWhile_ws_digits ds.reverse hr (fun c hc => hd c (List.mem_reverse.mp hc))]
  simp

theorem go_digits : ∀ (r acc : List Char), (∀ c ∈ r, c.isDigit = true) → digitsUnderscore.go r acc = some (acc.reverse ++ r)
  | [], acc, _ => by simp [digitsUnderscore.go]
  | d :: r, acc, hd => by
    have hdd : d.isDigit = true := hd d List.mem_cons_self
    have hne : d ≠ '_' := by intro e; subst e; simp [Char.isDigit] at hdd
    rw [digitsUnderscore.go]
    · simp only [hdd, if_true]
      rw [go_digits r (d :: acc) (fun c hc => hd c (List.mem_cons_of_mem _ hc))]
      simp
    · intro d' r' h _; exact hne h

theorem digitsUnderscore_digits (ds : List Char) (hne : ds ≠ []) (hd : ∀ c ∈ ds, c.isDigit = true) : digitsUnderscore ds = some ds := by
  cases ds with
  | nil => exact absurd rfl hne
  | cons c r =>
    unfold digitsUnderscore
    simp only [hd c List.mem_cons_self, Bool.not_true, Bool.false_eq_true, if_false]
    rw [go_digits r [c] (fun x hx => hd x (List.mem_cons_of_mem _ hx))]
    simp

/-- **a whole number written as text is cleaned to exactly that whole number, however many digits it has** -/
theorem num_text_digits_exact (ctx : Ctx) (ds : List Char) (hne : ds ≠ []) (hd : ∀ c ∈ ds, c.isDigit = true) :
    clean ctx .num (.str (String.ofList ds)) = .ok (.int (natOfDigits ds)) := by
  have hint : pyInt (String.ofList ds) = some (natOfDigits ds : Int) := by
    unfold pyInt
    simp only [String.toList_ofList, stripWs_digits ds hne hd]
    cases ds with
    | nil => exact absurd rfl hne
    | cons c r =>
      have hc := hd c List.mem_cons_self
      have h1 : c ≠ '-' := by intro e; subst e; simp [Char.isDigit] at hc
      have h2 : c ≠ '+' := by intro e; subst e; simp [Char.isDigit] at hc
      split
      · rename_i heq; injection heq with h _; exact absurd h h1
      · rename_i heq; injection heq with h _; exact absurd h h2
      · rename_i heq
        simp only at heq ⊢
        rw [digitsUnderscore_digits (c :: r) (by simp) hd]
        rfl
  unfold clean
  simp only [hint]

/-- non-vacuity: 2^53 + 1 and a 30-digit number, written as text -/
example (ctx : Ctx) : clean ctx .num (.str (String.ofList ['9', '0', '0', '7', '1', '9', '9', '2', '5', '4', '7', '4', '0', '9', '9', '3'])) = .ok (.int 9007199254740993) := by
  rw [num_text_digits_exact ctx _ (by simp) (by decide)]
  rfl

end MPilot.C20N
