/-
C15 (second part) — the text the serializer writes is read back as the program it was written from.

Built on C10 (`lexS_gap`, `Spells`, `program_renders`): the serializer's output is described as a sequence of *segments* (layout and token
spellings), each of which lexes to known tokens on known lines whatever follows; the tokens are then shown to render the expected parse tree.
-/
import MPilot.Props.C10

namespace MPilot.C15P
open MPilot MPilot.Lex MPilot.C10

/-- `cs` is a segment: followed by any text that satisfies `ok`, it lexes to the tokens `mk line` (as a function of the line it starts on)
and leaves the line counter at `line + n` -/
def Seg (cs : List Char) (n : Nat) (mk : Nat → List Tok) (ok : List Char → Prop) : Prop :=
  ∀ rest line, ok rest → lexS (cs ++ rest) line = mk line ++ lexS rest (line + n)

theorem Seg.of_spells {sp : List Char} {k : TokKind} {v : TVal} {ok : List Char → Prop} (h : Spells sp k v ok) :
    Seg sp 0 (fun l => [⟨k, v, l⟩]) ok := fun rest line hok => by rw [h rest line hok]; rfl

theorem Seg.of_gap {g : List Char} {n : Nat} (h : Gap g n) : Seg g n (fun _ => []) (fun _ => True) :=
  fun rest line _ => by rw [lexS_gap h]; rfl

theorem Seg.nil : Seg [] 0 (fun _ => []) (fun _ => True) := fun rest line _ => by simp

/-- segments compose when the second one starts the way the first one needs -/
theorem Seg.append {a b : List Char} {n1 n2 : Nat} {mk1 mk2 : Nat → List Tok} {ok1 ok2 : List Char → Prop}
    (h1 : Seg a n1 mk1 ok1) (h2 : Seg b n2 mk2 ok2) (hok : ∀ rest, ok2 rest → ok1 (b ++ rest)) :
    Seg (a ++ b) (n1 + n2) (fun l => mk1 l ++ mk2 (l + n1)) ok2 := by
  intro rest line hr
  rw [List.append_assoc, h1 (b ++ rest) line (hok rest hr), h2 rest (line + n1) hr, List.append_assoc, Nat.add_assoc]

/-- weakening the condition on what follows -/
theorem Seg.weaken {a : List Char} {n : Nat} {mk : Nat → List Tok} {ok ok' : List Char → Prop} (h : Seg a n mk ok)
    (hw : ∀ r, ok' r → ok r) : Seg a n mk ok' := fun rest line hr => h rest line (hw rest hr)

/-- a whole text: a segment that needs nothing of what follows, followed by nothing -/
theorem Seg.lex {cs : List Char} {n : Nat} {mk : Nat → List Tok} {ok : List Char → Prop} (h : Seg cs n mk ok) (hnil : ok []) (line : Nat) :
    lexS cs line = mk line := by
  have := h [] line hnil
  simpa [lexS_nil] using this

/-! ### integers as the serializer prints them -/

theorem digitsVal_append (l : List Char) (d : Char) : digitsVal (l ++ [d]) = digitsVal l * 10 + (d.toNat - '0'.toNat) := by
  simp [digitsVal, List.foldl_append]

theorem digitsVal_single (d : Nat) (h : d < 10) : digitsVal [d.digitChar] = d := by
  interval_cases d <;> rfl

theorem digitsVal_toDigits (m : Nat) : digitsVal (Nat.toDigits 10 m) = m := by
  induction m using Nat.strongRecOn with
  | _ m ih =>
    by_cases h : m < 10
    · rw [Nat.toDigits_of_lt_base h]; exact digitsVal_single m h
    · have hq : 0 < m / 10 := by omega
      have hd : m % 10 < 10 := Nat.mod_lt _ (by decide)
      have := Nat.toDigits_append_toDigits (b := 10) (n := m / 10) (d := m % 10) (by decide) hq hd
      have e : 10 * (m / 10) + m % 10 = m := by omega
      rw [e] at this
      rw [← this, Nat.toDigits_of_lt_base hd, digitsVal_append, ih (m / 10) (by omega)]
      have : (m % 10).digitChar.toNat - '0'.toNat = m % 10 := by
        have := digitsVal_single (m % 10) hd
        simpa [digitsVal] using this
      rw [this]; omega

theorem isDig_toDigits (m : Nat) : ∀ c ∈ Nat.toDigits 10 m, isDig c = true :=
  fun c hc => Nat.isDigit_of_mem_toDigits (by decide) (by decide) hc

/-- **every integer, printed by `str()`, is read back as that integer** (followed by anything but a digit or a point) -/
theorem spells_toString_int (n : Int) : Spells (toString n).toList .int (.int n) (StopsAt (fun c => isDig c || c == '.')) := by
  cases n with
  | ofNat m =>
    have h := spells_int false (Nat.toDigits 10 m) Nat.toDigits_ne_nil (isDig_toDigits m)
    have e : (toString (Int.ofNat m)).toList = signChars false ++ Nat.toDigits 10 m := by
      show (Nat.repr m).toList = _
      simp [signChars, Nat.toList_repr]
    rw [e]
    simpa [digitsVal_toDigits] using h
  | negSucc m =>
    have h := spells_int true (Nat.toDigits 10 (m + 1)) Nat.toDigits_ne_nil (isDig_toDigits (m + 1))
    have e : (toString (Int.negSucc m)).toList = signChars true ++ Nat.toDigits 10 (m + 1) := by
      show ("-" ++ Nat.repr (m + 1)).toList = _
      simp [signChars, String.toList_append, Nat.toList_repr]
    rw [e]
    have hv : (if true = true then -((digitsVal (Nat.toDigits 10 (m + 1)) : Nat) : Int) else (digitsVal (Nat.toDigits 10 (m + 1)) : Nat)) = Int.negSucc m := by
      simp [digitsVal_toDigits, Int.negSucc_eq]
    rw [hv] at h
    exact h

/-! ### values -/

/-- identifier-shaped text: a letter or underscore, then letters, digits, underscores -/
def IsIdent (s : String) : Prop := ∃ c w, s.toList = c :: w ∧ isIdStart c = true ∧ ∀ x ∈ w, isIdCont x = true

theorem spells_identStr (s : String) (h : IsIdent s) : Spells s.toList .id (.str s) (StopsAt isIdCont) := by
  obtain ⟨c, w, hs, hc, hw⟩ := h
  have := spells_ident c w hc hw
  rw [← hs] at this
  simpa using this

/-- what follows a value in serialised text: a comma, a closing bracket or the end of the line -/
def Delim (rest : List Char) : Prop := ∃ c r, rest = c :: r ∧ (c = ',' ∨ c = ']' ∨ c = '\n')

theorem Delim.stops_id {rest : List Char} (h : Delim rest) : StopsAt isIdCont rest := by
  obtain ⟨c, r, rfl, hc⟩ := h
  apply stopsAt_cons
  rcases hc with rfl | rfl | rfl <;> decide

theorem Delim.stops_num {rest : List Char} (h : Delim rest) : StopsAt (fun c => isDig c || c == '.') rest := by
  obtain ⟨c, r, rfl, hc⟩ := h
  apply stopsAt_cons
  rcases hc with rfl | rfl | rfl <;> decide

mutual
  /-- the values the theorem covers: quoted text, integers, booleans, `None`, words that are identifiers (references to results, unquoted
  identifiers), and lists of such values to any depth.  (Not covered: decimals, whose positional printing is not characterised here, and metadata tuples.) -/
  def Covered (isRes : Bool) : Raw → Prop
    | .str s => isRes = true → IsIdent s
    | .int _ => True
    | .bool _ => True
    | .none => True
    | .cmd n => IsIdent n
    | .list xs => CoveredL isRes xs
    | .float _ => False
    | .dict _ => False
    | .pytype _ => False
  def CoveredL (isRes : Bool) : List Raw → Prop
    | [] => True
    | x :: xs => Covered isRes x ∧ CoveredL isRes xs
end

mutual
  /-- the tokens of a serialised value, all on line `l` -/
  def valToks (isRes : Bool) : Raw → Nat → List Tok
    | .str s, l => [⟨if isRes then .id else .string, .str s, l⟩]
    | .int n, l => [⟨.int, .int n, l⟩]
    | .bool b, l => [⟨.id, .str (if b then "True" else "False"), l⟩]
    | .none, l => [⟨.id, .str "None", l⟩]
    | .cmd n, l => [⟨.id, .str n, l⟩]
    | .list xs, l => ⟨.lbrack, .none, l⟩ :: (match xs with | [] => [] | x :: t => valToks isRes x l ++ restToks isRes t l) ++ [⟨.rbrack, .none, l⟩]
    | .float _, _ => []
    | .dict _, _ => []
    | .pytype _, _ => []
  /-- `, item` for every further item -/
  def restToks (isRes : Bool) : List Raw → Nat → List Tok
    | [], _ => []
    | y :: ys, l => ⟨.comma, .none, l⟩ :: (valToks isRes y l ++ restToks isRes ys l)
end

mutual
  /-- the parse-tree node a serialised value is read back as (strings and words as text, integers as integers, lists as lists) -/
  def valNode (isRes : Bool) : Raw → Nat → ENode
    | .str s, l => .mk (.str s) l
    | .int n, l => .mk (.int n) l
    | .bool b, l => .mk (.str (if b then "True" else "False")) l
    | .none, l => .mk (.str "None") l
    | .cmd n, l => .mk (.str n) l
    | .list xs, l => .mk (.list (nodesOf isRes xs l)) l
    | .float _, l => .mk (.str "") l
    | .dict _, l => .mk (.str "") l
    | .pytype _, l => .mk (.str "") l
  def nodesOf (isRes : Bool) : List Raw → Nat → List ENode
    | [], _ => []
    | x :: xs, l => valNode isRes x l :: nodesOf isRes xs l
end

theorem ident_True : IsIdent "True" := ⟨'T', ['r', 'u', 'e'], rfl, by decide, by decide⟩
theorem ident_False : IsIdent "False" := ⟨'F', ['a', 'l', 's', 'e'], rfl, by decide, by decide⟩
theorem ident_None : IsIdent "None" := ⟨'N', ['o', 'n', 'e'], rfl, by decide, by decide⟩

/-! ### tokens of a value render its node -/

mutual
  theorem valRVal (isRes : Bool) : ∀ (r : Raw), Covered isRes r → ∀ l, RVal (valToks isRes r l) (valNode isRes r l)
    | .str s, _, l => by
        cases isRes
        · exact RVal.qstr s l
        · exact RVal.bare s l
    | .int n, _, l => RVal.int n l
    | .bool b, _, l => RVal.bare _ l
    | .none, _, l => RVal.bare _ l
    | .cmd n, _, l => RVal.bare n l
    | .list [], _, l => RVal.nil l l
    | .list (x :: t), h, l => by
        have hx := valRVal isRes x h.1 l
        have := restRElems isRes t h.2 l x hx
        exact RVal.list l l _ _ this
    | .float _, h, _ => absurd h (by simp [Covered])
    | .dict _, h, _ => absurd h (by simp [Covered])
    | .pytype _, h, _ => absurd h (by simp [Covered])
  theorem restRElems (isRes : Bool) : ∀ (t : List Raw), CoveredL isRes t → ∀ l (x : Raw), RVal (valToks isRes x l) (valNode isRes x l) →
      RElems (valToks isRes x l ++ restToks isRes t l) (valNode isRes x l :: nodesOf isRes t l)
    | [], _, l, x, hx => by
        simp only [restToks, nodesOf, List.append_nil]
        exact RElems.one _ _ hx
    | y :: ys, h, l, x, hx => by
        have hy := valRVal isRes y h.1 l
        have := restRElems isRes ys h.2 l y hy
        simp only [restToks, nodesOf]
        exact RElems.cons _ _ l _ _ hx this
end

/-! ### the text of a value lexes to its tokens -/

/-- `, item` for every further item of a list, as characters -/
def restChars (ss : List String) : List Char := ss.flatMap fun s => ',' :: ' ' :: s.toList

theorem intercalate_chars (a : String) (ss : List String) : (", ".intercalate (a :: ss)).toList = a.toList ++ restChars ss := by
  induction ss generalizing a with
  | nil => simp [restChars]
  | cons b t ih =>
    rw [String.intercalate_cons_cons]
    simp only [String.toList_append, List.append_assoc, ih b]
    simp [restChars]

theorem Delim.restChars {rest : List Char} (h : Delim rest) (ss : List String) : Delim (restChars ss ++ rest) := by
  cases ss with
  | nil => simpa [C15P.restChars] using h
  | cons b t => exact ⟨',', ' ' :: (b.toList ++ (C15P.restChars t ++ rest)), by simp [C15P.restChars], Or.inl rfl⟩

theorem delim_rbrack (r : List Char) : Delim (']' :: r) := ⟨']', r, rfl, Or.inr (Or.inl rfl)⟩
theorem delim_comma (r : List Char) : Delim (',' :: r) := ⟨',', r, rfl, Or.inl rfl⟩
theorem delim_nl (r : List Char) : Delim ('\n' :: r) := ⟨'\n', r, rfl, Or.inr (Or.inr rfl)⟩

theorem serializeValues_cons {isRes : Bool} {x : Raw} {xs : List Raw} {ss : List String} (h : serializeValues isRes (x :: xs) = some ss) :
    ∃ a b, serializeValue isRes x = some a ∧ serializeValues isRes xs = some b ∧ ss = a :: b := by
  rw [serializeValues] at h
  cases ha : serializeValue isRes x with
  | none => rw [ha] at h; cases h
  | some a =>
    rw [ha] at h
    cases hb : serializeValues isRes xs with
    | none => rw [hb] at h; cases h
    | some b => rw [hb] at h; simp only [Option.some.injEq] at h; exact ⟨a, b, rfl, rfl, h.symm⟩

mutual
  /-- **the serialised text of a value**, followed by a delimiter, lexes to the value's tokens, all on the line the value starts on -/
  theorem valSeg (isRes : Bool) : ∀ (r : Raw), Covered isRes r → ∀ (txt : String), serializeValue isRes r = some txt →
      ∀ rest line, Delim rest → lexS (txt.toList ++ rest) line = valToks isRes r line ++ lexS rest line
    | .str s, h, txt, ht, rest, line, hd => by
        rw [serializeValue] at ht
        cases isRes with
        | false =>
          simp only [Bool.false_eq_true, if_false, Option.some.injEq] at ht
          subst ht
          rw [spells_quoted s rest line trivial]; rfl
        | true =>
          simp only [if_true, Option.some.injEq] at ht
          subst ht
          rw [spells_identStr s (h rfl) rest line hd.stops_id]; rfl
    | .int n, _, txt, ht, rest, line, hd => by
        rw [serializeValue, scalarText] at ht
        simp only [Option.some.injEq] at ht
        subst ht
        rw [spells_toString_int n rest line hd.stops_num]; rfl
    | .bool b, _, txt, ht, rest, line, hd => by
        rw [serializeValue, scalarText] at ht
        simp only [Option.some.injEq] at ht
        subst ht
        cases b
        · show lexS ("False".toList ++ rest) line = _
          rw [spells_identStr "False" ident_False rest line hd.stops_id]; rfl
        · show lexS ("True".toList ++ rest) line = _
          rw [spells_identStr "True" ident_True rest line hd.stops_id]; rfl
    | .none, _, txt, ht, rest, line, hd => by
        rw [serializeValue, scalarText] at ht
        simp only [Option.some.injEq] at ht
        subst ht
        rw [spells_identStr "None" ident_None rest line hd.stops_id]; rfl
    | .cmd n, h, txt, ht, rest, line, hd => by
        rw [serializeValue] at ht
        simp only [Option.some.injEq] at ht
        subst ht
        rw [spells_identStr n h rest line hd.stops_id]; rfl
    | .list [], _, txt, ht, rest, line, _ => by
        rw [serializeValue, serializeValues] at ht
        simp only [Option.map_some, Option.some.injEq] at ht
        subst ht
        have e : ("[" ++ ", ".intercalate [] ++ "]").toList = ['[', ']'] := by simp [String.toList_append]
        rw [e]
        show lexS ('[' :: (']' :: rest)) line = _
        rw [lexS_punct '[' .lbrack _ line (by decide), lexS_punct ']' .rbrack _ line (by decide)]
        rfl
    | .list (x :: t), h, txt, ht, rest, line, _ => by
        rw [serializeValue] at ht
        cases hs : serializeValues isRes (x :: t) with
        | none => rw [hs] at ht; cases ht
        | some ss =>
          rw [hs] at ht
          simp only [Option.map_some, Option.some.injEq] at ht
          subst ht
          obtain ⟨a, b, ha, hb, rfl⟩ := serializeValues_cons hs
          have e : ("[" ++ ", ".intercalate (a :: b) ++ "]").toList ++ rest = '[' :: (a.toList ++ (restChars b ++ (']' :: rest))) := by
            rw [String.toList_append, String.toList_append, intercalate_chars]
            show (['['] ++ (a.toList ++ restChars b) ++ [']']) ++ rest = _
            simp only [List.append_assoc, List.cons_append, List.nil_append]
          rw [e, lexS_punct '[' .lbrack _ line (by decide)]
          rw [valSeg isRes x h.1 a ha _ line ((delim_rbrack rest).restChars b)]
          rw [restSeg isRes t h.2 b hb _ line (delim_rbrack rest)]
          rw [lexS_punct ']' .rbrack _ line (by decide)]
          simp only [valToks, List.cons_append, List.append_assoc, List.nil_append]
    | .float _, h, _, _, _, _, _ => absurd h (by simp [Covered])
    | .dict _, h, _, _, _, _, _ => absurd h (by simp [Covered])
    | .pytype _, h, _, _, _, _, _ => absurd h (by simp [Covered])
  theorem restSeg (isRes : Bool) : ∀ (t : List Raw), CoveredL isRes t → ∀ (ss : List String), serializeValues isRes t = some ss →
      ∀ rest line, Delim rest → lexS (restChars ss ++ rest) line = restToks isRes t line ++ lexS rest line
    | [], _, ss, hs, rest, line, _ => by
        rw [serializeValues] at hs
        simp only [Option.some.injEq] at hs
        subst hs
        simp [restChars, restToks]
    | y :: ys, h, ss, hs, rest, line, hd => by
        obtain ⟨a, b, ha, hb, rfl⟩ := serializeValues_cons hs
        have e : restChars (a :: b) ++ rest = ',' :: ' ' :: (a.toList ++ (restChars b ++ rest)) := by simp [restChars]
        rw [e, lexS_punct ',' .comma _ line (by decide), lexS_blank ' ' _ line (Or.inl rfl)]
        rw [valSeg isRes y h.1 a ha _ line (hd.restChars b), restSeg isRes ys h.2 b hb rest line hd]
        simp only [restToks, List.cons_append, List.append_assoc]
end

/-! ### arguments (one per line) -/

/-- is the parameter an argument is given for a result parameter (lists unwrapped)? - decides whether text is written bare or quoted -/
def argIsRes (c : PCmd) (a : Arg) : Bool := match c.decl.input? a.name with | some i => specIsResult i.spec | none => false

/-- an argument the theorem covers: identifier name, a covered value that is not a metadata tuple -/
def ArgCovered (c : PCmd) (a : Arg) : Prop := IsIdent a.name ∧ Covered (argIsRes c a) a.value

def rowToks (c : PCmd) (a : Arg) (l : Nat) : List Tok :=
  ⟨.id, .str a.name, l⟩ :: ⟨.equal, .none, l⟩ :: valToks (argIsRes c a) a.value l

def argNode (c : PCmd) (a : Arg) (l : Nat) : ANode := ⟨a.name, valNode (argIsRes c a) a.value l, l⟩

theorem covered_not_dict {isRes : Bool} {r : Raw} (h : Covered isRes r) : ∀ kv, r ≠ .dict kv := by
  intro kv e; subst e; simp [Covered] at h

theorem serializeArgument_eq (c : PCmd) (a : Arg) (h : ArgCovered c a) : serializeArgument (argIsRes c a) a = serializeValue (argIsRes c a) a.value := by
  unfold serializeArgument
  split
  · rename_i kv hv; exact absurd hv (covered_not_dict h.2 kv)
  · rfl

/-- one `name = value` row, followed by a delimiter -/
theorem rowSeg (c : PCmd) (a : Arg) (h : ArgCovered c a) (t : String) (ht : serializeArgument (argIsRes c a) a = some t)
    (rest : List Char) (l : Nat) (hd : Delim rest) :
    lexS ((a.name ++ " = " ++ t).toList ++ rest) l = rowToks c a l ++ lexS rest l := by
  rw [serializeArgument_eq c a h] at ht
  have e : (a.name ++ " = " ++ t).toList ++ rest = a.name.toList ++ (' ' :: '=' :: ' ' :: (t.toList ++ rest)) := by
    rw [String.toList_append, String.toList_append]
    show (a.name.toList ++ [' ', '=', ' '] ++ t.toList) ++ rest = _
    simp only [List.append_assoc, List.cons_append, List.nil_append]
  rw [e, spells_identStr a.name h.1 _ l (stopsAt_cons (by decide)), lexS_blank ' ' _ l (Or.inl rfl),
    lexS_punct '=' .equal _ l (by decide), lexS_blank ' ' _ l (Or.inl rfl), valSeg _ a.value h.2 t ht rest l hd]
  rfl

theorem rowRArg (c : PCmd) (a : Arg) (h : ArgCovered c a) (l : Nat) : RArg (rowToks c a l) (argNode c a l) :=
  RArg.mk a.name l l _ _ (valRVal _ a.value h.2 l)

/-- the rows after the first: `,` at the end of the previous line, then the row on the next line -/
def moreChars (rows : List String) : List Char := rows.flatMap fun r => ',' :: '\n' :: ' ' :: ' ' :: ' ' :: ' ' :: r.toList

def moreToks (c : PCmd) : List Arg → Nat → List Tok
  | [], _ => []
  | b :: bs, l => ⟨.comma, .none, l⟩ :: (rowToks c b (l + 1) ++ moreToks c bs (l + 1))

def moreNodes (c : PCmd) : List Arg → Nat → List ANode
  | [], _ => []
  | b :: bs, l => argNode c b (l + 1) :: moreNodes c bs (l + 1)

def rowTexts (c : PCmd) (as : List Arg) : Option (List String) :=
  as.mapM fun a => (serializeArgument (argIsRes c a) a).map fun t => a.name ++ " = " ++ t

theorem rowTexts_cons {c : PCmd} {a : Arg} {as : List Arg} {rows : List String} (h : rowTexts c (a :: as) = some rows) :
    ∃ t rs, serializeArgument (argIsRes c a) a = some t ∧ rowTexts c as = some rs ∧ rows = (a.name ++ " = " ++ t) :: rs := by
  unfold rowTexts at h ⊢
  rw [List.mapM_cons] at h
  cases ht : serializeArgument (argIsRes c a) a with
  | none => rw [ht] at h; simp at h
  | some t =>
    rw [ht] at h
    cases hr : (List.mapM (fun a => (serializeArgument (argIsRes c a) a).map fun t => a.name ++ " = " ++ t) as) with
    | none => rw [hr] at h; simp at h
    | some rs =>
      rw [hr] at h
      simp only [Option.map_some, Option.bind_eq_bind, Option.bind_some, Option.pure_def, Option.some.injEq] at h
      exact ⟨t, rs, rfl, rfl, h.symm⟩

theorem moreSeg (c : PCmd) : ∀ (as : List Arg), (∀ a ∈ as, ArgCovered c a) → ∀ (rows : List String), rowTexts c as = some rows →
    ∀ rest l, Delim rest → lexS (moreChars rows ++ rest) l = moreToks c as l ++ lexS rest (l + as.length)
  | [], _, rows, hr, rest, l, _ => by
      have : rows = [] := by simpa [rowTexts] using hr.symm
      subst this; simp [moreChars, moreToks]
  | b :: bs, h, rows, hr, rest, l, hd => by
      obtain ⟨t, rs, ht, hrs, rfl⟩ := rowTexts_cons hr
      have hb := h b (List.mem_cons_self ..)
      have e : moreChars ((b.name ++ " = " ++ t) :: rs) ++ rest =
          ',' :: '\n' :: ' ' :: ' ' :: ' ' :: ' ' :: ((b.name ++ " = " ++ t).toList ++ (moreChars rs ++ rest)) := by
        simp [moreChars]
      have hd' : Delim (moreChars rs ++ rest) := by
        cases rs with
        | nil => simpa [moreChars] using hd
        | cons r rs' =>
          exact ⟨',', '\n' :: ' ' :: ' ' :: ' ' :: ' ' :: (r.toList ++ (moreChars rs' ++ rest)), by simp [moreChars], Or.inl rfl⟩
      rw [e, lexS_punct ',' .comma _ l (by decide), lexS_lf, lexS_blank ' ' _ _ (Or.inl rfl), lexS_blank ' ' _ _ (Or.inl rfl),
        lexS_blank ' ' _ _ (Or.inl rfl), lexS_blank ' ' _ _ (Or.inl rfl), rowSeg c b hb t ht _ (l + 1) hd',
        moreSeg c bs (fun a ha => h a (List.mem_cons_of_mem _ ha)) rs hrs rest (l + 1) hd]
      simp only [moreToks, List.cons_append, List.append_assoc, List.length_cons]
      have : l + 1 + bs.length = l + (bs.length + 1) := by omega
      rw [this]

theorem moreRArgs (c : PCmd) : ∀ (as : List Arg), (∀ a ∈ as, ArgCovered c a) → ∀ (l : Nat) (ts : List Tok) (n : ANode),
    RArg ts n → RArgs (ts ++ moreToks c as l) (n :: moreNodes c as l)
  | [], _, l, ts, n, hn => by simpa [moreToks, moreNodes] using RArgs.one ts n hn
  | b :: bs, h, l, ts, n, hn => by
      have hb := rowRArg c b (h b (List.mem_cons_self ..)) (l + 1)
      have := moreRArgs c bs (fun a ha => h a (List.mem_cons_of_mem _ ha)) (l + 1) _ _ hb
      simp only [moreToks, moreNodes]
      exact RArgs.cons ts n l _ _ hn this

/-! ### commands -/

theorem rows_chars (r : String) (rs : List String) : (",\n    ".intercalate (r :: rs)).toList = r.toList ++ moreChars rs := by
  induction rs generalizing r with
  | nil => simp [moreChars]
  | cons b t ih =>
    rw [String.intercalate_cons_cons]
    simp only [String.toList_append, List.append_assoc, ih b]
    simp [moreChars]

/-- a command the theorem covers: identifier result and command names, covered arguments -/
def CmdCovered (c : PCmd) : Prop := IsIdent c.resultName ∧ IsIdent c.decl.name ∧ ∀ a ∈ c.args, ArgCovered c a

def cmdToks (c : PCmd) (L : Nat) : List Tok :=
  ⟨.id, .str c.resultName, L⟩ :: ⟨.equal, .none, L⟩ :: ⟨.id, .str c.decl.name, L⟩ :: ⟨.lparen, .none, L⟩ ::
    (match c.args with
     | [] => [⟨.rparen, .none, L + 2⟩]
     | a :: as => (rowToks c a (L + 1) ++ moreToks c as (L + 1)) ++ [⟨.rparen, .none, L + 1 + as.length + 1⟩])

/-- line breaks inside the text of a command -/
def cmdNl (c : PCmd) : Nat := match c.args with | [] => 2 | _ :: as => as.length + 2

def cmdNode (c : PCmd) (L : Nat) : CNode :=
  ⟨some c.resultName, c.decl.name, (match c.args with | [] => [] | a :: as => argNode c a (L + 1) :: moreNodes c as (L + 1)), L⟩

theorem serializeCommand_eq (c : PCmd) : serializeCommand c =
    (rowTexts c c.args).map fun rows => c.resultName ++ " = " ++ c.decl.name ++ "(" ++ "\n    " ++ ",\n    ".intercalate rows ++ "\n" ++ ")" := rfl

theorem cmdSeg (c : PCmd) (h : CmdCovered c) (txt : String) (ht : serializeCommand c = some txt) (rest : List Char) (L : Nat) :
    lexS (txt.toList ++ rest) L = cmdToks c L ++ lexS rest (L + cmdNl c) := by
  rw [serializeCommand_eq] at ht
  cases hr : rowTexts c c.args with
  | none => rw [hr] at ht; cases ht
  | some rows =>
    rw [hr] at ht
    simp only [Option.map_some, Option.some.injEq] at ht
    subst ht
    obtain ⟨hR, hC, hA⟩ := h
    -- the header `R = C(` and the line break behind it
    have head : ∀ (tail : List Char), lexS (c.resultName.toList ++ (' ' :: '=' :: ' ' :: (c.decl.name.toList ++ ('(' :: '\n' :: ' ' :: ' ' :: ' ' :: ' ' :: tail)))) L =
        ⟨.id, .str c.resultName, L⟩ :: ⟨.equal, .none, L⟩ :: ⟨.id, .str c.decl.name, L⟩ :: ⟨.lparen, .none, L⟩ :: lexS tail (L + 1) := by
      intro tail
      rw [spells_identStr _ hR _ L (stopsAt_cons (by decide)), lexS_blank ' ' _ L (Or.inl rfl), lexS_punct '=' .equal _ L (by decide),
        lexS_blank ' ' _ L (Or.inl rfl), spells_identStr _ hC _ L (stopsAt_cons (by decide)), lexS_punct '(' .lparen _ L (by decide),
        lexS_lf, lexS_blank ' ' _ _ (Or.inl rfl), lexS_blank ' ' _ _ (Or.inl rfl), lexS_blank ' ' _ _ (Or.inl rfl), lexS_blank ' ' _ _ (Or.inl rfl)]
    cases hargs : c.args with
    | nil =>
      rw [hargs] at hr
      have : rows = [] := by simpa [rowTexts] using hr.symm
      subst this
      have e : (c.resultName ++ " = " ++ c.decl.name ++ "(" ++ "\n    " ++ ",\n    ".intercalate [] ++ "\n" ++ ")").toList ++ rest =
          c.resultName.toList ++ (' ' :: '=' :: ' ' :: (c.decl.name.toList ++ ('(' :: '\n' :: ' ' :: ' ' :: ' ' :: ' ' :: ('\n' :: ')' :: rest)))) := by
        simp only [String.toList_append, String.intercalate_nil]
        show ((((((c.resultName.toList ++ [' ', '=', ' ']) ++ c.decl.name.toList) ++ ['(']) ++ ['\n', ' ', ' ', ' ', ' ']) ++ []) ++ ['\n']) ++ [')'] ++ rest = _
        simp only [List.append_assoc, List.cons_append, List.nil_append]
      rw [e, head, lexS_lf, lexS_punct ')' .rparen _ _ (by decide)]
      simp only [cmdToks, cmdNl, hargs]
      rfl
    | cons a as =>
      rw [hargs] at hr
      obtain ⟨t, rs, hta, hrs, rfl⟩ := rowTexts_cons hr
      have ha := hA a (by rw [hargs]; exact List.mem_cons_self ..)
      have has : ∀ b ∈ as, ArgCovered c b := fun b hb => hA b (by rw [hargs]; exact List.mem_cons_of_mem _ hb)
      have e : (c.resultName ++ " = " ++ c.decl.name ++ "(" ++ "\n    " ++ ",\n    ".intercalate ((a.name ++ " = " ++ t) :: rs) ++ "\n" ++ ")").toList ++ rest =
          c.resultName.toList ++ (' ' :: '=' :: ' ' :: (c.decl.name.toList ++ ('(' :: '\n' :: ' ' :: ' ' :: ' ' :: ' ' ::
            ((a.name ++ " = " ++ t).toList ++ (moreChars rs ++ ('\n' :: ')' :: rest)))))) := by
        rw [String.toList_append, String.toList_append, String.toList_append, String.toList_append, String.toList_append, String.toList_append,
          String.toList_append, rows_chars]
        show ((((((c.resultName.toList ++ [' ', '=', ' ']) ++ c.decl.name.toList) ++ ['(']) ++ ['\n', ' ', ' ', ' ', ' ']) ++
          ((a.name ++ " = " ++ t).toList ++ moreChars rs)) ++ ['\n']) ++ [')'] ++ rest = _
        simp only [List.append_assoc, List.cons_append, List.nil_append]
      have hd : Delim (moreChars rs ++ ('\n' :: ')' :: rest)) := by
        cases rs with
        | nil => exact ⟨'\n', ')' :: rest, by simp [moreChars], Or.inr (Or.inr rfl)⟩
        | cons r rs' =>
          exact ⟨',', '\n' :: ' ' :: ' ' :: ' ' :: ' ' :: (r.toList ++ (moreChars rs' ++ ('\n' :: ')' :: rest))), by simp [moreChars], Or.inl rfl⟩
      rw [e, head, rowSeg c a ha t hta _ (L + 1) hd, moreSeg c as has rs hrs _ (L + 1) (delim_nl _), lexS_lf,
        lexS_punct ')' .rparen _ _ (by decide)]
      simp only [cmdToks, cmdNl, hargs, List.cons_append, List.append_assoc, List.nil_append]
      have : L + 1 + as.length + 1 = L + (as.length + 2) := by omega
      rw [this]

theorem cmdRCmd (c : PCmd) (h : CmdCovered c) (L : Nat) : RCmd (cmdToks c L) (cmdNode c L) := by
  obtain ⟨_, _, hA⟩ := h
  unfold cmdToks cmdNode
  cases hargs : c.args with
  | nil => exact RCmd.noArgs _ _ L L L L (L + 2)
  | cons a as =>
    have ha := hA a (by rw [hargs]; exact List.mem_cons_self ..)
    have has : ∀ b ∈ as, ArgCovered c b := fun b hb => hA b (by rw [hargs]; exact List.mem_cons_of_mem _ hb)
    have := moreRArgs c as has (L + 1) _ _ (rowRArg c a ha (L + 1))
    exact RCmd.args _ _ L L L L (L + 1 + as.length + 1) _ _ this

/-! ### programs -/

def progToks : List PCmd → Nat → List Tok
  | [], _ => []
  | [c], L => cmdToks c L
  | c :: d :: cs, L => cmdToks c L ++ progToks (d :: cs) (L + cmdNl c + 1)

def progNodes : List PCmd → Nat → List CNode
  | [], _ => []
  | [c], L => [cmdNode c L]
  | c :: d :: cs, L => cmdNode c L :: progNodes (d :: cs) (L + cmdNl c + 1)

/-- the commands after the first, each on a new line -/
def moreCmdChars (ts : List String) : List Char := ts.flatMap fun t => '\n' :: t.toList

theorem prog_chars (t : String) (ts : List String) : ("\n".intercalate (t :: ts)).toList = t.toList ++ moreCmdChars ts := by
  induction ts generalizing t with
  | nil => simp [moreCmdChars]
  | cons b r ih =>
    rw [String.intercalate_cons_cons]
    simp only [String.toList_append, List.append_assoc, ih b]
    simp [moreCmdChars]

theorem mapM_cons_some {α β : Type} {f : α → Option β} {a : α} {as : List α} {rs : List β} (h : (a :: as).mapM f = some rs) :
    ∃ b bs, f a = some b ∧ as.mapM f = some bs ∧ rs = b :: bs := by
  rw [List.mapM_cons] at h
  cases hb : f a with
  | none => rw [hb] at h; simp at h
  | some b =>
    rw [hb] at h
    cases hbs : as.mapM f with
    | none => rw [hbs] at h; simp at h
    | some bs =>
      rw [hbs] at h
      simp only [Option.bind_eq_bind, Option.bind_some, Option.pure_def, Option.some.injEq] at h
      exact ⟨b, bs, rfl, rfl, h.symm⟩

theorem progSeg : ∀ (cs : List PCmd) (c : PCmd), (∀ d ∈ c :: cs, CmdCovered d) → ∀ (t : String) (ts : List String),
    serializeCommand c = some t → cs.mapM serializeCommand = some ts → ∀ L,
    lexS (t.toList ++ moreCmdChars ts) L = progToks (c :: cs) L
  | [], c, h, t, ts, ht, hts, L => by
      have : ts = [] := by simpa using hts.symm
      subst this
      have := cmdSeg c (h c (List.mem_cons_self ..)) t ht [] L
      simpa [moreCmdChars, progToks, lexS_nil] using this
  | d :: ds, c, h, t, ts, ht, hts, L => by
      obtain ⟨u, us, hu, hus, rfl⟩ := mapM_cons_some hts
      have e : t.toList ++ moreCmdChars (u :: us) = t.toList ++ ('\n' :: (u.toList ++ moreCmdChars us)) := by simp [moreCmdChars]
      rw [e, cmdSeg c (h c (List.mem_cons_self ..)) t ht _ L, lexS_lf,
        progSeg ds d (fun x hx => h x (List.mem_cons_of_mem _ hx)) u us hu hus _]
      rfl

theorem progRProg : ∀ (cs : List PCmd) (c : PCmd), (∀ d ∈ c :: cs, CmdCovered d) → ∀ L, RProg (progToks (c :: cs) L) (progNodes (c :: cs) L)
  | [], c, h, L => RProg.one _ _ (cmdRCmd c (h c (List.mem_cons_self ..)) L)
  | d :: ds, c, h, L =>
      RProg.cons _ _ _ _ (cmdRCmd c (h c (List.mem_cons_self ..)) L) (progRProg ds d (fun x hx => h x (List.mem_cons_of_mem _ hx)) _)

/-- a program the theorem covers -/
def ProgCovered (p : Program) : Prop := p.cmds ≠ [] ∧ ∀ c ∈ p.cmds, CmdCovered c

/-- **C15 (whole programs).**  The text `to_string()` writes for a program - commands in order, one argument per line, strings quoted,
integers in decimal, references, booleans and `None` as words, lists to any depth - is read back by the parser as exactly that program:
the same commands in the same order, the same argument names and values, version 3, every node on the line the serializer put it on.
(Covered: result, command and argument names that are identifiers; values that are strings, integers, booleans, `None`, references
and lists of these.  Decimals and metadata tuples are outside this theorem and covered by the character-exact correspondence and the
round-trip oracle on the implementation.) -/
theorem serialize_parse_roundtrip (p : Program) (h : ProgCovered p) (txt : String) (ht : serializeProgram p = some txt) :
    parse txt = .ok ⟨progNodes p.cmds 1, 3⟩ := by
  obtain ⟨hne, hc⟩ := h
  unfold serializeProgram at ht
  cases hm : p.cmds.mapM serializeCommand with
  | none => rw [hm] at ht; cases ht
  | some texts =>
    rw [hm] at ht
    simp only [Option.map_some, Option.some.injEq] at ht
    subst ht
    cases hcs : p.cmds with
    | nil => exact absurd hcs hne
    | cons c cs =>
      rw [hcs] at hm hc
      obtain ⟨t, ts, ht, hts, rfl⟩ := mapM_cons_some hm
      unfold parse
      rw [lex_eq_lexS, prog_chars, progSeg cs c hc t ts ht hts 1]
      exact program_renders (progRProg cs c hc 1)

end MPilot.C15P
