/-
C15 (second part) — the text the serializer writes is read back as the program it was written from.

Built on C10 (`lexS_gap`, `Spells`, `program_renders`): the serializer's output is described as a sequence of *segments* (layout and token
spellings), each of which lexes to known tokens on known lines whatever follows; the tokens are then shown to render the expected parse tree.
-/
import MPilot.Props.C10
import Mathlib.Data.Rat.Defs
import Mathlib.Tactic.FieldSimp
import Mathlib.Tactic.Ring
import Mathlib.Tactic.Linarith
import Mathlib.Algebra.Order.Field.Rat

namespace MPilot.C15P
open MPilot MPilot.Lex MPilot.C10

/-- `cs` is a segment: followed by any text that satisfies `ok`, it lexes to the tokens `mk line` (as a function of the line it starts on)
and leaves the line counter at `line + n` -/
def Seg (cs : List Char) (n : Nat) (mk : Nat → List Tok) (ok : List Char → Prop) : Prop :=
  ∀ rest line, ok rest → lexS (cs ++ rest) line = mk line ++ lexS rest (line + n)

theorem Seg.of_spells {sp : List Char} {k : TokKind} {v : TVal} {ok : List Char → Prop} (h : Spells sp k v ok) :
    Seg sp 0 (fun l => [⟨k, v, l⟩]) ok := fun rest line hok => by rw [h rest line hok]; rfl

theorem Seg.of_gap {g : List Char} {n : Nat} (h : Gap g n) : Seg g n (fun _ => []) (fun _ => True) :=
  fun rest line _ => by rw [lexS_gap h]; rfl

theorem Seg.nil : Seg [] 0 (fun _ => []) (fun _ => True) := fun rest line _ => by simp

/-- segments compose when the second one starts the way the first one needs -/
theorem Seg.append {a b : List Char} {n1 n2 : Nat} {mk1 mk2 : Nat → List Tok} {ok1 ok2 : List Char → Prop}
    (h1 : Seg a n1 mk1 ok1) (h2 : Seg b n2 mk2 ok2) (hok : ∀ rest, ok2 rest → ok1 (b ++ rest)) :
    Seg (a ++ b) (n1 + n2) (fun l => mk1 l ++ mk2 (l + n1)) ok2 := by
  intro rest line hr
  rw [List.append_assoc, h1 (b ++ rest) line (hok rest hr), h2 rest (line + n1) hr, List.append_assoc, Nat.add_assoc]

/-- weakening the condition on what follows -/
theorem Seg.weaken {a : List Char} {n : Nat} {mk : Nat → List Tok} {ok ok' : List Char → Prop} (h : Seg a n mk ok)
    (hw : ∀ r, ok' r → ok r) : Seg a n mk ok' := fun rest line hr => h rest line (hw rest hr)

/-- a whole text: a segment that needs nothing of what follows, followed by nothing -/
theorem Seg.lex {cs : List Char} {n : Nat} {mk : Nat → List Tok} {ok : List Char → Prop} (h : Seg cs n mk ok) (hnil : ok []) (line : Nat) :
    lexS cs line = mk line := by
  have := h [] line hnil
  simpa [lexS_nil] using this

/-! ### integers as the serializer prints them -/

theorem digitsVal_append (l : List Char) (d : Char) : digitsVal (l ++ [d]) = digitsVal l * 10 + (d.toNat - '0'.toNat) := by
  simp [digitsVal, List.foldl_append]

theorem digitsVal_single (d : Nat) (h : d < 10) : digitsVal [d.digitChar] = d := by
  interval_cases d <;> rfl

theorem digitsVal_toDigits (m : Nat) : digitsVal (Nat.toDigits 10 m) = m := by
  induction m using Nat.strongRecOn with
  | _ m ih =>
    by_cases h : m < 10
    · rw [Nat.toDigits_of_lt_base h]; exact digitsVal_single m h
    · have hq : 0 < m / 10 := by omega
      have hd : m % 10 < 10 := Nat.mod_lt _ (by decide)
      have := Nat.toDigits_append_toDigits (b := 10) (n := m / 10) (d := m % 10) (by decide) hq hd
      have e : 10 * (m / 10) + m % 10 = m := by omega
      rw [e] at this
      rw [← this, Nat.toDigits_of_lt_base hd, digitsVal_append, ih (m / 10) (by omega)]
      have : (m % 10).digitChar.toNat - '0'.toNat = m % 10 := by
        have := digitsVal_single (m % 10) hd
        simpa [digitsVal] using this
      rw [this]; omega

theorem isDig_toDigits (m : Nat) : ∀ c ∈ Nat.toDigits 10 m, isDig c = true :=
  fun c hc => Nat.isDigit_of_mem_toDigits (by decide) (by decide) hc

/-- **every integer, printed by `str()`, is read back as that integer** (followed by anything but a digit or a point) -/
theorem spells_toString_int (n : Int) : Spells (toString n).toList .int (.int n) (StopsAt (fun c => isDig c || c == '.')) := by
  cases n with
  | ofNat m =>
    have h := spells_int false (Nat.toDigits 10 m) Nat.toDigits_ne_nil (isDig_toDigits m)
    have e : (toString (Int.ofNat m)).toList = signChars false ++ Nat.toDigits 10 m := by
      show (Nat.repr m).toList = _
      simp [signChars, Nat.toList_repr]
    rw [e]
    simpa [digitsVal_toDigits] using h
  | negSucc m =>
    have h := spells_int true (Nat.toDigits 10 (m + 1)) Nat.toDigits_ne_nil (isDig_toDigits (m + 1))
    have e : (toString (Int.negSucc m)).toList = signChars true ++ Nat.toDigits 10 (m + 1) := by
      show ("-" ++ Nat.repr (m + 1)).toList = _
      simp [signChars, String.toList_append, Nat.toList_repr]
    rw [e]
    have hv : (if true = true then -((digitsVal (Nat.toDigits 10 (m + 1)) : Nat) : Int) else (digitsVal (Nat.toDigits 10 (m + 1)) : Nat)) = Int.negSucc m := by
      simp [digitsVal_toDigits, Int.negSucc_eq]
    rw [hv] at h
    exact h

/-! ### decimals as the serializer prints them (positional notation) -/

theorem findScale_spec (a : Rat) (ha : 0 ≤ a) : ∀ (fuel k m k' : Nat), findScale a k fuel = some (m, k') →
    a * (10 : Rat) ^ k' = (m : Rat) ∧ k' < k + fuel := by
  intro fuel
  induction fuel with
  | zero => intro k m k' h; simp [findScale] at h
  | succ f ih =>
    intro k m k' h
    unfold findScale at h
    simp only at h
    split at h
    · rename_i hden
      simp only [Option.some.injEq, Prod.mk.injEq] at h
      obtain ⟨hm, hk⟩ := h
      subst hk
      have hd : (a * (10 : Rat) ^ k).den = 1 := by simpa using hden
      have hv := Rat.coe_int_num_of_den_eq_one hd
      have hnn : 0 ≤ a * (10 : Rat) ^ k := mul_nonneg ha (by positivity)
      have hnum : 0 ≤ (a * (10 : Rat) ^ k).num := Rat.num_nonneg.mpr hnn
      refine ⟨?_, by omega⟩
      rw [← hm, ← hv]
      have : ((a * (10 : Rat) ^ k).num.toNat : Int) = (a * (10 : Rat) ^ k).num := Int.toNat_of_nonneg hnum
      exact_mod_cast congrArg (fun z : Int => (z : Rat)) this.symm
    · obtain ⟨h1, h2⟩ := ih (k + 1) m k' h
      exact ⟨h1, by omega⟩

theorem digitsVal_app (l r : List Char) : digitsVal (l ++ r) = digitsVal l * 10 ^ r.length + digitsVal r := by
  induction r generalizing l with
  | nil => simp [digitsVal]
  | cons d r ih =>
    have e : l ++ d :: r = (l ++ [d]) ++ r := by simp
    have e2 : d :: r = [d] ++ r := rfl
    rw [e, ih (l ++ [d]), digitsVal_append, e2, ih [d]]
    have : digitsVal [d] = d.toNat - '0'.toNat := by simp [digitsVal]
    rw [this]
    simp only [List.length_append, List.length_singleton, List.length_cons, List.length_nil, pow_succ, pow_zero]
    ring

theorem digitsVal_zeros (n : Nat) : digitsVal (List.replicate n '0') = 0 := by
  induction n with
  | zero => rfl
  | succ n ih =>
    rw [List.replicate_succ', digitsVal_append, ih]; rfl


theorem isDig_zero : isDig '0' = true := by decide

/-- the digits of `m` with the point `k` places from the right: both parts are digit strings, the integer part is not empty, the fractional
part has `max k 1` digits, and together they denote `m / 10^k` -/
theorem pointAt_spec (m k : Nat) : ∀ ip fp, pointAt (Nat.toDigits 10 m) k = (ip, fp) →
    ip ≠ [] ∧ (∀ c ∈ ip, isDig c = true) ∧ (∀ c ∈ fp, isDig c = true) ∧ fp.length = max k 1 ∧
    decimalValue ip fp = (m : Rat) / (10 : Rat) ^ k := by
  intro ip fp h
  have hd := isDig_toDigits m
  have hne : Nat.toDigits 10 m ≠ [] := Nat.toDigits_ne_nil
  unfold pointAt at h
  split at h
  · rename_i hk
    have hk0 : k = 0 := by simpa using hk
    simp only [Prod.mk.injEq] at h
    obtain ⟨rfl, rfl⟩ := h
    refine ⟨hne, hd, by simp [isDig_zero], by simp [hk0], ?_⟩
    unfold decimalValue
    rw [digitsVal_app, digitsVal_toDigits, hk0]
    simp [digitsVal]
  · rename_i hk
    have hk0 : k ≠ 0 := by simpa using hk
    split at h
    · rename_i hlen
      simp only [Prod.mk.injEq] at h
      obtain ⟨rfl, rfl⟩ := h
      refine ⟨?_, fun c hc => hd c (List.mem_of_mem_take hc), fun c hc => hd c (List.mem_of_mem_drop hc), ?_, ?_⟩
      · intro e
        have := congrArg List.length e
        simp only [List.length_take, List.length_nil] at this
        omega
      · simp only [List.length_drop]; omega
      · unfold decimalValue
        rw [List.take_append_drop, digitsVal_toDigits]
        simp only [List.length_drop]
        congr 2; omega
    · rename_i hlen
      simp only [Prod.mk.injEq] at h
      obtain ⟨rfl, rfl⟩ := h
      refine ⟨by simp, by simp [isDig_zero], ?_, ?_, ?_⟩
      · intro c hc
        rcases List.mem_append.mp hc with hc | hc
        · rw [List.eq_of_mem_replicate hc]; exact isDig_zero
        · exact hd c hc
      · simp only [List.length_append, List.length_replicate]; omega
      · unfold decimalValue
        have e : ['0'] ++ (List.replicate (k - (Nat.toDigits 10 m).length) '0' ++ Nat.toDigits 10 m) =
            List.replicate (k - (Nat.toDigits 10 m).length + 1) '0' ++ Nat.toDigits 10 m := by
          rw [List.replicate_succ]; rfl
        rw [e, digitsVal_app, digitsVal_zeros, digitsVal_toDigits]
        simp only [List.length_append, List.length_replicate, Nat.zero_mul, Nat.zero_add]
        congr 2; omega


/-- **every decimal the serializer can print** (terminating, at most 400 places) is read back as exactly that number -/
theorem spells_positional (q : Rat) (txt : String) (h : positional q = some txt) :
    Spells txt.toList .float (.float q) (StopsAt (fun c => isDig c || c == 'e' || c == 'E')) := by
  unfold positional at h
  simp only at h
  split at h
  · cases h
  · rename_i m k hfs
    have ha : 0 ≤ (if q < 0 then -q else q) := by split <;> linarith
    obtain ⟨hval, hk⟩ := findScale_spec _ ha 400 0 m k hfs
    cases hp : pointAt (Nat.toDigits 10 m) k with
    | mk ip fp =>
      rw [hp] at h
      simp only [Option.some.injEq] at h
      subst h
      obtain ⟨hne, hi, hf, hlen, hdv⟩ := pointAt_spec m k ip fp hp
      have hsp := spells_float (decide (q < 0)) ip fp hne hi hf (by rw [hlen]; omega)
      have hsign : (if q < 0 then ['-'] else []) = signChars (decide (q < 0)) := by
        unfold signChars; by_cases hq : q < 0 <;> simp [hq]
      have hpow : (10 : Rat) ^ k ≠ 0 := by positivity
      have hdv' : decimalValue ip fp = if q < 0 then -q else q := by
        rw [hdv, ← hval]; field_simp
      have htv : floatTokVal (decide (q < 0)) ip fp = .float q := by
        unfold floatTokVal
        rw [hdv']
        by_cases hq : q < 0
        · have : (-q == 0) = false := by
            simp only [beq_eq_false_iff_ne, ne_eq, neg_eq_zero]; intro e; rw [e] at hq; exact absurd hq (lt_irrefl 0)
          simp [hq, this]
        · simp [hq]
      rw [String.toList_ofList, hsign, ← htv]
      exact hsp


/-! ### values -/

/-- identifier-shaped text: a letter or underscore, then letters, digits, underscores -/
def IsIdent (s : String) : Prop := ∃ c w, s.toList = c :: w ∧ isIdStart c = true ∧ ∀ x ∈ w, isIdCont x = true

theorem spells_identStr (s : String) (h : IsIdent s) : Spells s.toList .id (.str s) (StopsAt isIdCont) := by
  obtain ⟨c, w, hs, hc, hw⟩ := h
  have := spells_ident c w hc hw
  rw [← hs] at this
  simpa using this

/-- what follows a value in serialised text: a comma, a closing bracket or the end of the line -/
def Delim (rest : List Char) : Prop := ∃ c r, rest = c :: r ∧ (c = ',' ∨ c = ']' ∨ c = '\n')

theorem Delim.stops_id {rest : List Char} (h : Delim rest) : StopsAt isIdCont rest := by
  obtain ⟨c, r, rfl, hc⟩ := h
  apply stopsAt_cons
  rcases hc with rfl | rfl | rfl <;> decide

theorem Delim.stops_float {rest : List Char} (h : Delim rest) : StopsAt (fun c => isDig c || c == 'e' || c == 'E') rest := by
  obtain ⟨c, r, rfl, hc⟩ := h
  apply stopsAt_cons
  rcases hc with rfl | rfl | rfl <;> decide

theorem Delim.stops_num {rest : List Char} (h : Delim rest) : StopsAt (fun c => isDig c || c == '.') rest := by
  obtain ⟨c, r, rfl, hc⟩ := h
  apply stopsAt_cons
  rcases hc with rfl | rfl | rfl <;> decide

mutual
  /-- the values the theorem covers: quoted text, integers, booleans, `None`, words that are identifiers (references to results, unquoted
  identifiers), decimals (any rational the serializer can print: terminating, at most 400 places), and lists of such values to any depth; metadata tuples are covered by `ArgCovered` below. -/
  def Covered (isRes : Bool) : Raw → Prop
    | .str s => isRes = true → IsIdent s
    | .int _ => True
    | .bool _ => True
    | .none => True
    | .cmd n => IsIdent n
    | .list xs => CoveredL isRes xs
    | .float _ => True
    | .dict _ => False
    | .pytype _ => False
  def CoveredL (isRes : Bool) : List Raw → Prop
    | [] => True
    | x :: xs => Covered isRes x ∧ CoveredL isRes xs
end

mutual
  /-- the tokens of a serialised value, all on line `l` -/
  def valToks (isRes : Bool) : Raw → Nat → List Tok
    | .str s, l => [⟨if isRes then .id else .string, .str s, l⟩]
    | .int n, l => [⟨.int, .int n, l⟩]
    | .bool b, l => [⟨.id, .str (if b then "True" else "False"), l⟩]
    | .none, l => [⟨.id, .str "None", l⟩]
    | .cmd n, l => [⟨.id, .str n, l⟩]
    | .list xs, l => ⟨.lbrack, .none, l⟩ :: (match xs with | [] => [] | x :: t => valToks isRes x l ++ restToks isRes t l) ++ [⟨.rbrack, .none, l⟩]
    | .float q, l => [⟨.float, .float q, l⟩]
    | .dict _, _ => []
    | .pytype _, _ => []
  /-- `, item` for every further item -/
  def restToks (isRes : Bool) : List Raw → Nat → List Tok
    | [], _ => []
    | y :: ys, l => ⟨.comma, .none, l⟩ :: (valToks isRes y l ++ restToks isRes ys l)
end

mutual
  /-- the parse-tree node a serialised value is read back as (strings and words as text, integers as integers, lists as lists) -/
  def valNode (isRes : Bool) : Raw → Nat → ENode
    | .str s, l => .mk (.str s) l
    | .int n, l => .mk (.int n) l
    | .bool b, l => .mk (.str (if b then "True" else "False")) l
    | .none, l => .mk (.str "None") l
    | .cmd n, l => .mk (.str n) l
    | .list xs, l => .mk (.list (nodesOf isRes xs l)) l
    | .float q, l => .mk (.float q) l
    | .dict _, l => .mk (.str "") l
    | .pytype _, l => .mk (.str "") l
  def nodesOf (isRes : Bool) : List Raw → Nat → List ENode
    | [], _ => []
    | x :: xs, l => valNode isRes x l :: nodesOf isRes xs l
end

theorem ident_True : IsIdent "True" := ⟨'T', ['r', 'u', 'e'], rfl, by decide, by decide⟩
theorem ident_False : IsIdent "False" := ⟨'F', ['a', 'l', 's', 'e'], rfl, by decide, by decide⟩
theorem ident_None : IsIdent "None" := ⟨'N', ['o', 'n', 'e'], rfl, by decide, by decide⟩

/-! ### tokens of a value render its node -/

mutual
  theorem valRVal (isRes : Bool) : ∀ (r : Raw), Covered isRes r → ∀ l, RVal (valToks isRes r l) (valNode isRes r l)
    | .str s, _, l => by
        cases isRes
        · exact RVal.qstr s l
        · exact RVal.bare s l
    | .int n, _, l => RVal.int n l
    | .bool b, _, l => RVal.bare _ l
    | .none, _, l => RVal.bare _ l
    | .cmd n, _, l => RVal.bare n l
    | .list [], _, l => RVal.nil l l
    | .list (x :: t), h, l => by
        have hx := valRVal isRes x h.1 l
        have := restRElems isRes t h.2 l x hx
        exact RVal.list l l _ _ this
    | .float q, _, l => RVal.float q l
    | .dict _, h, _ => absurd h (by simp [Covered])
    | .pytype _, h, _ => absurd h (by simp [Covered])
  theorem restRElems (isRes : Bool) : ∀ (t : List Raw), CoveredL isRes t → ∀ l (x : Raw), RVal (valToks isRes x l) (valNode isRes x l) →
      RElems (valToks isRes x l ++ restToks isRes t l) (valNode isRes x l :: nodesOf isRes t l)
    | [], _, l, x, hx => by
        simp only [restToks, nodesOf, List.append_nil]
        exact RElems.one _ _ hx
    | y :: ys, h, l, x, hx => by
        have hy := valRVal isRes y h.1 l
        have := restRElems isRes ys h.2 l y hy
        simp only [restToks, nodesOf]
        exact RElems.cons _ _ l _ _ hx this
end

/-! ### the text of a value lexes to its tokens -/

/-- `, item` for every further item of a list, as characters -/
def restChars (ss : List String) : List Char := ss.flatMap fun s => ',' :: ' ' :: s.toList

theorem intercalate_chars (a : String) (ss : List String) : (", ".intercalate (a :: ss)).toList = a.toList ++ restChars ss := by
  induction ss generalizing a with
  | nil => simp [restChars]
  | cons b t ih =>
    rw [String.intercalate_cons_cons]
    simp only [String.toList_append, List.append_assoc, ih b]
    simp [restChars]

theorem Delim.restChars {rest : List Char} (h : Delim rest) (ss : List String) : Delim (restChars ss ++ rest) := by
  cases ss with
  | nil => simpa [C15P.restChars] using h
  | cons b t => exact ⟨',', ' ' :: (b.toList ++ (C15P.restChars t ++ rest)), by simp [C15P.restChars], Or.inl rfl⟩

theorem delim_rbrack (r : List Char) : Delim (']' :: r) := ⟨']', r, rfl, Or.inr (Or.inl rfl)⟩
theorem delim_comma (r : List Char) : Delim (',' :: r) := ⟨',', r, rfl, Or.inl rfl⟩
theorem delim_nl (r : List Char) : Delim ('\n' :: r) := ⟨'\n', r, rfl, Or.inr (Or.inr rfl)⟩

theorem serializeValues_cons {isRes : Bool} {x : Raw} {xs : List Raw} {ss : List String} (h : serializeValues isRes (x :: xs) = some ss) :
    ∃ a b, serializeValue isRes x = some a ∧ serializeValues isRes xs = some b ∧ ss = a :: b := by
  rw [serializeValues] at h
  cases ha : serializeValue isRes x with
  | none => rw [ha] at h; cases h
  | some a =>
    rw [ha] at h
    cases hb : serializeValues isRes xs with
    | none => rw [hb] at h; cases h
    | some b => rw [hb] at h; simp only [Option.some.injEq] at h; exact ⟨a, b, rfl, rfl, h.symm⟩

mutual
  /-- **the serialised text of a value**, followed by a delimiter, lexes to the value's tokens, all on the line the value starts on -/
  theorem valSeg (isRes : Bool) : ∀ (r : Raw), Covered isRes r → ∀ (txt : String), serializeValue isRes r = some txt →
      ∀ rest line, Delim rest → lexS (txt.toList ++ rest) line = valToks isRes r line ++ lexS rest line
    | .str s, h, txt, ht, rest, line, hd => by
        rw [serializeValue] at ht
        cases isRes with
        | false =>
          simp only [Bool.false_eq_true, if_false, Option.some.injEq] at ht
          subst ht
          rw [spells_quoted s rest line trivial]; rfl
        | true =>
          simp only [if_true, Option.some.injEq] at ht
          subst ht
          rw [spells_identStr s (h rfl) rest line hd.stops_id]; rfl
    | .int n, _, txt, ht, rest, line, hd => by
        rw [serializeValue, scalarText] at ht
        simp only [Option.some.injEq] at ht
        subst ht
        rw [spells_toString_int n rest line hd.stops_num]; rfl
    | .bool b, _, txt, ht, rest, line, hd => by
        rw [serializeValue, scalarText] at ht
        simp only [Option.some.injEq] at ht
        subst ht
        cases b
        · show lexS ("False".toList ++ rest) line = _
          rw [spells_identStr "False" ident_False rest line hd.stops_id]; rfl
        · show lexS ("True".toList ++ rest) line = _
          rw [spells_identStr "True" ident_True rest line hd.stops_id]; rfl
    | .none, _, txt, ht, rest, line, hd => by
        rw [serializeValue, scalarText] at ht
        simp only [Option.some.injEq] at ht
        subst ht
        rw [spells_identStr "None" ident_None rest line hd.stops_id]; rfl
    | .cmd n, h, txt, ht, rest, line, hd => by
        rw [serializeValue] at ht
        simp only [Option.some.injEq] at ht
        subst ht
        rw [spells_identStr n h rest line hd.stops_id]; rfl
    | .list [], _, txt, ht, rest, line, _ => by
        rw [serializeValue, serializeValues] at ht
        simp only [Option.map_some, Option.some.injEq] at ht
        subst ht
        have e : ("[" ++ ", ".intercalate [] ++ "]").toList = ['[', ']'] := by simp [String.toList_append]
        rw [e]
        show lexS ('[' :: (']' :: rest)) line = _
        rw [lexS_punct '[' .lbrack _ line (by decide), lexS_punct ']' .rbrack _ line (by decide)]
        rfl
    | .list (x :: t), h, txt, ht, rest, line, _ => by
        rw [serializeValue] at ht
        cases hs : serializeValues isRes (x :: t) with
        | none => rw [hs] at ht; cases ht
        | some ss =>
          rw [hs] at ht
          simp only [Option.map_some, Option.some.injEq] at ht
          subst ht
          obtain ⟨a, b, ha, hb, rfl⟩ := serializeValues_cons hs
          have e : ("[" ++ ", ".intercalate (a :: b) ++ "]").toList ++ rest = '[' :: (a.toList ++ (restChars b ++ (']' :: rest))) := by
            rw [String.toList_append, String.toList_append, intercalate_chars]
            show (['['] ++ (a.toList ++ restChars b) ++ [']']) ++ rest = _
            simp only [List.append_assoc, List.cons_append, List.nil_append]
          rw [e, lexS_punct '[' .lbrack _ line (by decide)]
          rw [valSeg isRes x h.1 a ha _ line ((delim_rbrack rest).restChars b)]
          rw [restSeg isRes t h.2 b hb _ line (delim_rbrack rest)]
          rw [lexS_punct ']' .rbrack _ line (by decide)]
          simp only [valToks, List.cons_append, List.append_assoc, List.nil_append]
    | .float q, _, txt, ht, rest, line, hd => by
        rw [serializeValue, scalarText] at ht
        rw [spells_positional q txt ht rest line hd.stops_float]; rfl
    | .dict _, h, _, _, _, _, _ => absurd h (by simp [Covered])
    | .pytype _, h, _, _, _, _, _ => absurd h (by simp [Covered])
  theorem restSeg (isRes : Bool) : ∀ (t : List Raw), CoveredL isRes t → ∀ (ss : List String), serializeValues isRes t = some ss →
      ∀ rest line, Delim rest → lexS (restChars ss ++ rest) line = restToks isRes t line ++ lexS rest line
    | [], _, ss, hs, rest, line, _ => by
        rw [serializeValues] at hs
        simp only [Option.some.injEq] at hs
        subst hs
        simp [restChars, restToks]
    | y :: ys, h, ss, hs, rest, line, hd => by
        obtain ⟨a, b, ha, hb, rfl⟩ := serializeValues_cons hs
        have e : restChars (a :: b) ++ rest = ',' :: ' ' :: (a.toList ++ (restChars b ++ rest)) := by simp [restChars]
        rw [e, lexS_punct ',' .comma _ line (by decide), lexS_blank ' ' _ line (Or.inl rfl)]
        rw [valSeg isRes y h.1 a ha _ line (hd.restChars b), restSeg isRes ys h.2 b hb rest line hd]
        simp only [restToks, List.cons_append, List.append_assoc]
end

theorem mapM_cons_some {α β : Type} {f : α → Option β} {a : α} {as : List α} {rs : List β} (h : (a :: as).mapM f = some rs) :
    ∃ b bs, f a = some b ∧ as.mapM f = some bs ∧ rs = b :: bs := by
  rw [List.mapM_cons] at h
  cases hb : f a with
  | none => rw [hb] at h; simp at h
  | some b =>
    rw [hb] at h
    cases hbs : as.mapM f with
    | none => rw [hbs] at h; simp at h
    | some bs =>
      rw [hbs] at h
      simp only [Option.bind_eq_bind, Option.bind_some, Option.pure_def, Option.some.injEq] at h
      exact ⟨b, bs, rfl, rfl, h.symm⟩

/-! ### metadata tuples (one `"key": "value"` pair per line) -/

/-- the texts of a metadata tuple: every value written through `str()` -/
def metaPairs : List (String × Raw) → Option (List (String × String))
  | [] => some []
  | (k, v) :: kv =>
      match scalarText v with
      | none => none
      | some t => match metaPairs kv with
        | none => none
        | some ps => some ((k, t) :: ps)

def pairRow (p : String × String) : String := "        " ++ quoteStr p.1 ++ ": " ++ quoteStr p.2

theorem meta_rows {kv : List (String × Raw)} {rows : List String}
    (h : (kv.mapM fun (p : String × Raw) => (scalarText p.2).map fun t => "        " ++ quoteStr p.1 ++ ": " ++ quoteStr t) = some rows) :
    ∃ ps, metaPairs kv = some ps ∧ rows = ps.map pairRow := by
  induction kv generalizing rows with
  | nil => simp at h; subst h; exact ⟨[], rfl, rfl⟩
  | cons p kv ih =>
    obtain ⟨k, v⟩ := p
    obtain ⟨r, rs, hr, hrs, rfl⟩ := mapM_cons_some h
    cases ht : scalarText v with
    | none => rw [ht] at hr; simp at hr
    | some t =>
      rw [ht] at hr
      simp only [Option.map_some, Option.some.injEq] at hr
      obtain ⟨ps, hps, rfl⟩ := ih hrs
      exact ⟨(k, t) :: ps, by simp [metaPairs, ht, hps], by simp [pairRow, ← hr]⟩

def pairToks (p : String × String) (l : Nat) : List Tok := [⟨.string, .str p.1, l⟩, ⟨.colon, .none, l⟩, ⟨.string, .str p.2, l⟩]

def pairsToks : List (String × String) → Nat → List Tok
  | [], _ => []
  | [p], l => pairToks p l
  | p :: q :: ps, l => pairToks p l ++ ⟨.comma, .none, l⟩ :: pairsToks (q :: ps) (l + 1)

/-- the map the parser builds from the pairs (from the last pair backwards) -/
def dictOf : List (String × String) → Nat → List (String × ENode)
  | [], _ => []
  | [p], l => [(p.1, .mk (.str p.2) l)]
  | p :: q :: ps, l => dictSet (dictOf (q :: ps) (l + 1)) p.1 (.mk (.str p.2) l)

theorem pairRPair (p : String × String) (l : Nat) : RPair (pairToks p l) (p.1, .mk (.str p.2) l) := RPair.str true p.1 p.2 l l l

theorem pairsRPairs : ∀ (ps : List (String × String)), ps ≠ [] → ∀ l, RPairs (pairsToks ps l) (dictOf ps l)
  | [], h, _ => absurd rfl h
  | [p], _, l => RPairs.one _ _ (pairRPair p l)
  | p :: q :: ps, _, l => RPairs.cons _ _ _ l _ _ (pairRPair p l) (pairsRPairs (q :: ps) (by simp) (l + 1))

theorem pairRow_seg (p : String × String) (rest : List Char) (l : Nat) :
    lexS ((pairRow p).toList ++ rest) l = pairToks p l ++ lexS rest l := by
  have e : (pairRow p).toList ++ rest =
      ' ' :: ' ' :: ' ' :: ' ' :: ' ' :: ' ' :: ' ' :: ' ' :: ((quoteStr p.1).toList ++ (':' :: ' ' :: ((quoteStr p.2).toList ++ rest))) := by
    unfold pairRow
    rw [String.toList_append, String.toList_append, String.toList_append]
    show (([' ', ' ', ' ', ' ', ' ', ' ', ' ', ' '] ++ (quoteStr p.1).toList) ++ [':', ' ']) ++ (quoteStr p.2).toList ++ rest = _
    simp only [List.append_assoc, List.cons_append, List.nil_append]
  rw [e]
  iterate 8 rw [lexS_blank ' ' _ l (Or.inl rfl)]
  rw [spells_quoted p.1 _ l trivial, lexS_punct ':' .colon _ l (by decide), lexS_blank ' ' _ l (Or.inl rfl), spells_quoted p.2 rest l trivial]
  rfl

/-- the pair rows after the first: `,` at the end of the previous line, the row on the next -/
def morePairChars (rows : List String) : List Char := rows.flatMap fun r => ',' :: '\n' :: r.toList

theorem pairs_chars (r : String) (rs : List String) : (",\n".intercalate (r :: rs)).toList = r.toList ++ morePairChars rs := by
  induction rs generalizing r with
  | nil => simp [morePairChars]
  | cons b t ih =>
    rw [String.intercalate_cons_cons]
    simp only [String.toList_append, List.append_assoc, ih b]
    simp [morePairChars]

theorem pairsSeg : ∀ (p : String × String) (ps : List (String × String)) (rest : List Char) (l : Nat),
    lexS ((pairRow p).toList ++ (morePairChars (ps.map pairRow) ++ rest)) l = pairsToks (p :: ps) l ++ lexS rest (l + ps.length)
  | p, [], rest, l => by simp [morePairChars, pairsToks, pairRow_seg]
  | p, q :: ps, rest, l => by
      have e : morePairChars ((q :: ps).map pairRow) ++ rest = ',' :: '\n' :: ((pairRow q).toList ++ (morePairChars (ps.map pairRow) ++ rest)) := by
        simp [morePairChars]
      rw [e, pairRow_seg, lexS_punct ',' .comma _ l (by decide), lexS_lf, pairsSeg q ps rest (l + 1)]
      simp only [pairsToks, List.append_assoc, List.cons_append, List.length_cons]
      have : l + 1 + ps.length = l + (ps.length + 1) := by omega
      rw [this]

/-! ### arguments (one per line; a metadata tuple spans several lines) -/

/-- is the parameter an argument is given for a result parameter (lists unwrapped)? - decides whether text is written bare or quoted -/
def argIsRes (c : PCmd) (a : Arg) : Bool := match c.decl.input? a.name with | some i => specIsResult i.spec | none => false

/-- an argument the theorem covers: identifier name; a covered value, or a non-empty metadata tuple whose values have a text form -/
def ArgCovered (c : PCmd) (a : Arg) : Prop :=
  IsIdent a.name ∧ (match a.value with
    | .dict kv => kv ≠ [] ∧ (metaPairs kv).isSome
    | v => Covered (argIsRes c a) v)

/-- line breaks inside the text of an argument -/
def argNl (a : Arg) : Nat := match a.value with | .dict kv => kv.length + 1 | _ => 0

def argValToks (c : PCmd) (a : Arg) (l : Nat) : List Tok :=
  match a.value with
  | .dict kv => ⟨.lbrack, .none, l⟩ :: pairsToks ((metaPairs kv).getD []) (l + 1) ++ [⟨.rbrack, .none, l + kv.length + 1⟩]
  | v => valToks (argIsRes c a) v l

def argValNode (c : PCmd) (a : Arg) (l : Nat) : ENode :=
  match a.value with
  | .dict kv => .mk (.dict (dictOf ((metaPairs kv).getD []) (l + 1))) l
  | v => valNode (argIsRes c a) v l

def rowToks (c : PCmd) (a : Arg) (l : Nat) : List Tok := ⟨.id, .str a.name, l⟩ :: ⟨.equal, .none, l⟩ :: argValToks c a l

def argNode (c : PCmd) (a : Arg) (l : Nat) : ANode := ⟨a.name, argValNode c a l, l⟩

theorem metaPairs_length {kv : List (String × Raw)} {ps : List (String × String)} (h : metaPairs kv = some ps) : ps.length = kv.length := by
  induction kv generalizing ps with
  | nil => simp [metaPairs] at h; subst h; rfl
  | cons p kv ih =>
    obtain ⟨k, v⟩ := p
    simp only [metaPairs] at h
    cases ht : scalarText v with
    | none => rw [ht] at h; cases h
    | some t =>
      rw [ht] at h
      cases hps : metaPairs kv with
      | none => rw [hps] at h; cases h
      | some qs => rw [hps] at h; simp only [Option.some.injEq] at h; subst h; simp [ih hps]

theorem argVal_RVal (c : PCmd) (a : Arg) (h : ArgCovered c a) (l : Nat) : RVal (argValToks c a l) (argValNode c a l) := by
  unfold argValToks argValNode
  obtain ⟨_, hv⟩ := h
  split
  · rename_i kv hkv
    rw [hkv] at hv
    simp only at hv
    obtain ⟨hne, hs⟩ := hv
    obtain ⟨ps, hps⟩ := Option.isSome_iff_exists.mp hs
    have hl := metaPairs_length hps
    have hpne : ps ≠ [] := by intro e; subst e; simp at hl; exact hne (List.length_eq_zero_iff.mp hl.symm)
    simp only [hps, Option.getD_some]
    exact RVal.dict l _ _ _ (pairsRPairs ps hpne (l + 1))
  · rename_i v hnd
    have : Covered (argIsRes c a) a.value := by
      cases hav : a.value with
      | dict kv => exact absurd hav (hnd kv)
      | _ => rw [hav] at hv; exact hv
    exact valRVal _ _ this l

theorem rowRArg (c : PCmd) (a : Arg) (h : ArgCovered c a) (l : Nat) : RArg (rowToks c a l) (argNode c a l) :=
  RArg.mk a.name l l _ _ (argVal_RVal c a h l)

/-- what follows an argument in serialised text: a comma or the end of the line -/
def RowEnd (rest : List Char) : Prop := ∃ c r, rest = c :: r ∧ (c = ',' ∨ c = '\n')

theorem RowEnd.delim {rest : List Char} (h : RowEnd rest) : Delim rest := by
  obtain ⟨c, r, rfl, hc⟩ := h
  rcases hc with rfl | rfl
  · exact delim_comma r
  · exact delim_nl r

/-- the text of an argument's value, followed by the end of its row -/
theorem argValSeg (c : PCmd) (a : Arg) (h : ArgCovered c a) (t : String) (ht : serializeArgument (argIsRes c a) a = some t)
    (rest : List Char) (l : Nat) (hd : RowEnd rest) :
    lexS (t.toList ++ rest) l = argValToks c a l ++ lexS rest (l + argNl a) := by
  unfold serializeArgument at ht
  unfold argValToks argNl
  obtain ⟨_, hv⟩ := h
  split at ht
  · rename_i kv hkv
    rw [hkv] at hv
    simp only at hv
    obtain ⟨hne, _⟩ := hv
    cases hm : (kv.mapM fun (p : String × Raw) => (scalarText p.2).map fun t => "        " ++ quoteStr p.1 ++ ": " ++ quoteStr t) with
    | none =>
      have : (kv.mapM fun (x : String × Raw) => match x with | (k, v) => (scalarText v).map fun t => "        " ++ quoteStr k ++ ": " ++ quoteStr t) = none := hm
      rw [this] at ht; cases ht
    | some rows =>
      have hm' : (kv.mapM fun (x : String × Raw) => match x with | (k, v) => (scalarText v).map fun t => "        " ++ quoteStr k ++ ": " ++ quoteStr t) = some rows := hm
      rw [hm'] at ht
      simp only [Option.map_some, Option.some.injEq] at ht
      subst ht
      obtain ⟨ps, hps, rfl⟩ := meta_rows hm
      have hl := metaPairs_length hps
      cases ps with
      | nil => simp at hl; exact absurd (List.length_eq_zero_iff.mp hl.symm) hne
      | cons p ps =>
        simp only [hkv, hps, Option.getD_some]
        have e : ("[\n" ++ ",\n".intercalate ((p :: ps).map pairRow) ++ "\n    ]").toList ++ rest =
            '[' :: '\n' :: ((pairRow p).toList ++ (morePairChars (ps.map pairRow) ++ ('\n' :: ' ' :: ' ' :: ' ' :: ' ' :: ']' :: rest))) := by
          rw [String.toList_append, String.toList_append, List.map_cons, pairs_chars]
          show (['[', '\n'] ++ ((pairRow p).toList ++ morePairChars (ps.map pairRow))) ++ ['\n', ' ', ' ', ' ', ' ', ']'] ++ rest = _
          simp only [List.append_assoc, List.cons_append, List.nil_append]
        rw [e, lexS_punct '[' .lbrack _ l (by decide), lexS_lf, pairsSeg p ps _ (l + 1), lexS_lf]
        iterate 4 rw [lexS_blank ' ' _ _ (Or.inl rfl)]
        rw [lexS_punct ']' .rbrack _ _ (by decide)]
        simp only [List.cons_append, List.append_assoc, List.nil_append]
        have h1 : l + 1 + ps.length + 1 = l + kv.length + 1 := by simp at hl; omega
        have h2 : l + 1 + ps.length + 1 = l + (kv.length + 1) := by simp at hl; omega
        rw [h1] at *
        rw [← h2, h1]
  · rename_i v hnd
    have hcov : Covered (argIsRes c a) a.value := by
      cases hav : a.value with
      | dict kv => exact absurd hav (hnd kv)
      | _ => rw [hav] at hv; exact hv
    have := valSeg _ a.value hcov t ht rest l hd.delim
    rw [this]
    cases hav : a.value <;> simp_all

/-- one `name = value` row, followed by the end of the row -/
theorem rowSeg (c : PCmd) (a : Arg) (h : ArgCovered c a) (t : String) (ht : serializeArgument (argIsRes c a) a = some t)
    (rest : List Char) (l : Nat) (hd : RowEnd rest) :
    lexS ((a.name ++ " = " ++ t).toList ++ rest) l = rowToks c a l ++ lexS rest (l + argNl a) := by
  have e : (a.name ++ " = " ++ t).toList ++ rest = a.name.toList ++ (' ' :: '=' :: ' ' :: (t.toList ++ rest)) := by
    rw [String.toList_append, String.toList_append]
    show (a.name.toList ++ [' ', '=', ' '] ++ t.toList) ++ rest = _
    simp only [List.append_assoc, List.cons_append, List.nil_append]
  rw [e, spells_identStr a.name h.1 _ l (stopsAt_cons (by decide)), lexS_blank ' ' _ l (Or.inl rfl),
    lexS_punct '=' .equal _ l (by decide), lexS_blank ' ' _ l (Or.inl rfl), argValSeg c a h t ht rest l hd]
  rfl

/-- the rows after the first: `,` at the end of the previous line, then the row on the next line -/
def moreChars (rows : List String) : List Char := rows.flatMap fun r => ',' :: '\n' :: ' ' :: ' ' :: ' ' :: ' ' :: r.toList

/-- `l` = the line on which the previous row ended -/
def moreToks (c : PCmd) : List Arg → Nat → List Tok
  | [], _ => []
  | b :: bs, l => ⟨.comma, .none, l⟩ :: (rowToks c b (l + 1) ++ moreToks c bs (l + 1 + argNl b))

def moreNodes (c : PCmd) : List Arg → Nat → List ANode
  | [], _ => []
  | b :: bs, l => argNode c b (l + 1) :: moreNodes c bs (l + 1 + argNl b)

/-- the line on which the last of the rows ends -/
def moreEnd : List Arg → Nat → Nat
  | [], l => l
  | b :: bs, l => moreEnd bs (l + 1 + argNl b)

def rowTexts (c : PCmd) (as : List Arg) : Option (List String) :=
  as.mapM fun a => (serializeArgument (argIsRes c a) a).map fun t => a.name ++ " = " ++ t

theorem rowTexts_cons {c : PCmd} {a : Arg} {as : List Arg} {rows : List String} (h : rowTexts c (a :: as) = some rows) :
    ∃ t rs, serializeArgument (argIsRes c a) a = some t ∧ rowTexts c as = some rs ∧ rows = (a.name ++ " = " ++ t) :: rs := by
  unfold rowTexts at h ⊢
  obtain ⟨r, rs, hr, hrs, rfl⟩ := mapM_cons_some h
  cases ht : serializeArgument (argIsRes c a) a with
  | none => rw [ht] at hr; simp at hr
  | some t =>
    rw [ht] at hr
    simp only [Option.map_some, Option.some.injEq] at hr
    exact ⟨t, rs, rfl, hrs, by rw [hr]⟩

theorem rowEnd_more (rs : List String) (rest : List Char) (hd : RowEnd rest) : RowEnd (moreChars rs ++ rest) := by
  cases rs with
  | nil => simpa [moreChars] using hd
  | cons r rs' => exact ⟨',', '\n' :: ' ' :: ' ' :: ' ' :: ' ' :: (r.toList ++ (moreChars rs' ++ rest)), by simp [moreChars], Or.inl rfl⟩

theorem moreSeg (c : PCmd) : ∀ (as : List Arg), (∀ a ∈ as, ArgCovered c a) → ∀ (rows : List String), rowTexts c as = some rows →
    ∀ rest l, RowEnd rest → lexS (moreChars rows ++ rest) l = moreToks c as l ++ lexS rest (moreEnd as l)
  | [], _, rows, hr, rest, l, _ => by
      have : rows = [] := by simpa [rowTexts] using hr.symm
      subst this; simp [moreChars, moreToks, moreEnd]
  | b :: bs, h, rows, hr, rest, l, hd => by
      obtain ⟨t, rs, ht, hrs, rfl⟩ := rowTexts_cons hr
      have hb := h b (List.mem_cons_self ..)
      have e : moreChars ((b.name ++ " = " ++ t) :: rs) ++ rest =
          ',' :: '\n' :: ' ' :: ' ' :: ' ' :: ' ' :: ((b.name ++ " = " ++ t).toList ++ (moreChars rs ++ rest)) := by
        simp [moreChars]
      rw [e, lexS_punct ',' .comma _ l (by decide), lexS_lf, lexS_blank ' ' _ _ (Or.inl rfl), lexS_blank ' ' _ _ (Or.inl rfl),
        lexS_blank ' ' _ _ (Or.inl rfl), lexS_blank ' ' _ _ (Or.inl rfl), rowSeg c b hb t ht _ (l + 1) (rowEnd_more rs rest hd),
        moreSeg c bs (fun a ha => h a (List.mem_cons_of_mem _ ha)) rs hrs rest (l + 1 + argNl b) hd]
      simp only [moreToks, moreEnd, List.cons_append, List.append_assoc]

theorem moreRArgs (c : PCmd) : ∀ (as : List Arg), (∀ a ∈ as, ArgCovered c a) → ∀ (l : Nat) (ts : List Tok) (n : ANode),
    RArg ts n → RArgs (ts ++ moreToks c as l) (n :: moreNodes c as l)
  | [], _, l, ts, n, hn => by simpa [moreToks, moreNodes] using RArgs.one ts n hn
  | b :: bs, h, l, ts, n, hn => by
      have hb := rowRArg c b (h b (List.mem_cons_self ..)) (l + 1)
      have := moreRArgs c bs (fun a ha => h a (List.mem_cons_of_mem _ ha)) (l + 1 + argNl b) _ _ hb
      simp only [moreToks, moreNodes]
      exact RArgs.cons ts n l _ _ hn this

/-! ### commands -/

theorem rows_chars (r : String) (rs : List String) : (",\n    ".intercalate (r :: rs)).toList = r.toList ++ moreChars rs := by
  induction rs generalizing r with
  | nil => simp [moreChars]
  | cons b t ih =>
    rw [String.intercalate_cons_cons]
    simp only [String.toList_append, List.append_assoc, ih b]
    simp [moreChars]

/-- a command the theorem covers: identifier result and command names, covered arguments -/
def CmdCovered (c : PCmd) : Prop := IsIdent c.resultName ∧ IsIdent c.decl.name ∧ ∀ a ∈ c.args, ArgCovered c a

/-- the line of the closing parenthesis, for a command that starts on line `L` -/
def cmdEnd (c : PCmd) (L : Nat) : Nat := match c.args with | [] => L + 2 | a :: as => moreEnd as (L + 1 + argNl a) + 1

def cmdToks (c : PCmd) (L : Nat) : List Tok :=
  ⟨.id, .str c.resultName, L⟩ :: ⟨.equal, .none, L⟩ :: ⟨.id, .str c.decl.name, L⟩ :: ⟨.lparen, .none, L⟩ ::
    (match c.args with
     | [] => [⟨.rparen, .none, L + 2⟩]
     | a :: as => (rowToks c a (L + 1) ++ moreToks c as (L + 1 + argNl a)) ++ [⟨.rparen, .none, moreEnd as (L + 1 + argNl a) + 1⟩])

def cmdNode (c : PCmd) (L : Nat) : CNode :=
  ⟨some c.resultName, c.decl.name, (match c.args with | [] => [] | a :: as => argNode c a (L + 1) :: moreNodes c as (L + 1 + argNl a)), L⟩

theorem serializeCommand_eq (c : PCmd) : serializeCommand c =
    (rowTexts c c.args).map fun rows => c.resultName ++ " = " ++ c.decl.name ++ "(" ++ "\n    " ++ ",\n    ".intercalate rows ++ "\n" ++ ")" := rfl

theorem cmdSeg (c : PCmd) (h : CmdCovered c) (txt : String) (ht : serializeCommand c = some txt) (rest : List Char) (L : Nat) :
    lexS (txt.toList ++ rest) L = cmdToks c L ++ lexS rest (cmdEnd c L) := by
  rw [serializeCommand_eq] at ht
  cases hr : rowTexts c c.args with
  | none => rw [hr] at ht; cases ht
  | some rows =>
    rw [hr] at ht
    simp only [Option.map_some, Option.some.injEq] at ht
    subst ht
    obtain ⟨hR, hC, hA⟩ := h
    -- the header `R = C(` and the line break behind it
    have head : ∀ (tail : List Char), lexS (c.resultName.toList ++ (' ' :: '=' :: ' ' :: (c.decl.name.toList ++ ('(' :: '\n' :: ' ' :: ' ' :: ' ' :: ' ' :: tail)))) L =
        ⟨.id, .str c.resultName, L⟩ :: ⟨.equal, .none, L⟩ :: ⟨.id, .str c.decl.name, L⟩ :: ⟨.lparen, .none, L⟩ :: lexS tail (L + 1) := by
      intro tail
      rw [spells_identStr _ hR _ L (stopsAt_cons (by decide)), lexS_blank ' ' _ L (Or.inl rfl), lexS_punct '=' .equal _ L (by decide),
        lexS_blank ' ' _ L (Or.inl rfl), spells_identStr _ hC _ L (stopsAt_cons (by decide)), lexS_punct '(' .lparen _ L (by decide),
        lexS_lf, lexS_blank ' ' _ _ (Or.inl rfl), lexS_blank ' ' _ _ (Or.inl rfl), lexS_blank ' ' _ _ (Or.inl rfl), lexS_blank ' ' _ _ (Or.inl rfl)]
    cases hargs : c.args with
    | nil =>
      rw [hargs] at hr
      have : rows = [] := by simpa [rowTexts] using hr.symm
      subst this
      have e : (c.resultName ++ " = " ++ c.decl.name ++ "(" ++ "\n    " ++ ",\n    ".intercalate [] ++ "\n" ++ ")").toList ++ rest =
          c.resultName.toList ++ (' ' :: '=' :: ' ' :: (c.decl.name.toList ++ ('(' :: '\n' :: ' ' :: ' ' :: ' ' :: ' ' :: ('\n' :: ')' :: rest)))) := by
        simp only [String.toList_append, String.intercalate_nil]
        show ((((((c.resultName.toList ++ [' ', '=', ' ']) ++ c.decl.name.toList) ++ ['(']) ++ ['\n', ' ', ' ', ' ', ' ']) ++ []) ++ ['\n']) ++ [')'] ++ rest = _
        simp only [List.append_assoc, List.cons_append, List.nil_append]
      rw [e, head, lexS_lf, lexS_punct ')' .rparen _ _ (by decide)]
      simp only [cmdToks, cmdEnd, hargs]
      rfl
    | cons a as =>
      rw [hargs] at hr
      obtain ⟨t, rs, hta, hrs, rfl⟩ := rowTexts_cons hr
      have ha := hA a (by rw [hargs]; exact List.mem_cons_self ..)
      have has : ∀ b ∈ as, ArgCovered c b := fun b hb => hA b (by rw [hargs]; exact List.mem_cons_of_mem _ hb)
      have e : (c.resultName ++ " = " ++ c.decl.name ++ "(" ++ "\n    " ++ ",\n    ".intercalate ((a.name ++ " = " ++ t) :: rs) ++ "\n" ++ ")").toList ++ rest =
          c.resultName.toList ++ (' ' :: '=' :: ' ' :: (c.decl.name.toList ++ ('(' :: '\n' :: ' ' :: ' ' :: ' ' :: ' ' ::
            ((a.name ++ " = " ++ t).toList ++ (moreChars rs ++ ('\n' :: ')' :: rest)))))) := by
        rw [String.toList_append, String.toList_append, String.toList_append, String.toList_append, String.toList_append, String.toList_append,
          String.toList_append, rows_chars]
        show ((((((c.resultName.toList ++ [' ', '=', ' ']) ++ c.decl.name.toList) ++ ['(']) ++ ['\n', ' ', ' ', ' ', ' ']) ++
          ((a.name ++ " = " ++ t).toList ++ moreChars rs)) ++ ['\n']) ++ [')'] ++ rest = _
        simp only [List.append_assoc, List.cons_append, List.nil_append]
      have hend : RowEnd ('\n' :: ')' :: rest) := ⟨'\n', _, rfl, Or.inr rfl⟩
      rw [e, head, rowSeg c a ha t hta _ (L + 1) (rowEnd_more rs _ hend), moreSeg c as has rs hrs _ (L + 1 + argNl a) hend, lexS_lf,
        lexS_punct ')' .rparen _ _ (by decide)]
      simp only [cmdToks, cmdEnd, hargs, List.cons_append, List.append_assoc, List.nil_append]

theorem cmdRCmd (c : PCmd) (h : CmdCovered c) (L : Nat) : RCmd (cmdToks c L) (cmdNode c L) := by
  obtain ⟨_, _, hA⟩ := h
  unfold cmdToks cmdNode
  cases hargs : c.args with
  | nil => exact RCmd.noArgs _ _ L L L L (L + 2)
  | cons a as =>
    have ha := hA a (by rw [hargs]; exact List.mem_cons_self ..)
    have has : ∀ b ∈ as, ArgCovered c b := fun b hb => hA b (by rw [hargs]; exact List.mem_cons_of_mem _ hb)
    have := moreRArgs c as has (L + 1 + argNl a) _ _ (rowRArg c a ha (L + 1))
    exact RCmd.args _ _ L L L L _ _ _ this

/-! ### programs -/

def progToks : List PCmd → Nat → List Tok
  | [], _ => []
  | [c], L => cmdToks c L
  | c :: d :: cs, L => cmdToks c L ++ progToks (d :: cs) (cmdEnd c L + 1)

def progNodes : List PCmd → Nat → List CNode
  | [], _ => []
  | [c], L => [cmdNode c L]
  | c :: d :: cs, L => cmdNode c L :: progNodes (d :: cs) (cmdEnd c L + 1)

/-- the commands after the first, each on a new line -/
def moreCmdChars (ts : List String) : List Char := ts.flatMap fun t => '\n' :: t.toList

theorem prog_chars (t : String) (ts : List String) : ("\n".intercalate (t :: ts)).toList = t.toList ++ moreCmdChars ts := by
  induction ts generalizing t with
  | nil => simp [moreCmdChars]
  | cons b r ih =>
    rw [String.intercalate_cons_cons]
    simp only [String.toList_append, List.append_assoc, ih b]
    simp [moreCmdChars]

theorem progSeg : ∀ (cs : List PCmd) (c : PCmd), (∀ d ∈ c :: cs, CmdCovered d) → ∀ (t : String) (ts : List String),
    serializeCommand c = some t → cs.mapM serializeCommand = some ts → ∀ L,
    lexS (t.toList ++ moreCmdChars ts) L = progToks (c :: cs) L
  | [], c, h, t, ts, ht, hts, L => by
      have : ts = [] := by simpa using hts.symm
      subst this
      have := cmdSeg c (h c (List.mem_cons_self ..)) t ht [] L
      simpa [moreCmdChars, progToks, lexS_nil] using this
  | d :: ds, c, h, t, ts, ht, hts, L => by
      obtain ⟨u, us, hu, hus, rfl⟩ := mapM_cons_some hts
      have e : t.toList ++ moreCmdChars (u :: us) = t.toList ++ ('\n' :: (u.toList ++ moreCmdChars us)) := by simp [moreCmdChars]
      rw [e, cmdSeg c (h c (List.mem_cons_self ..)) t ht _ L, lexS_lf,
        progSeg ds d (fun x hx => h x (List.mem_cons_of_mem _ hx)) u us hu hus _]
      rfl

theorem progRProg : ∀ (cs : List PCmd) (c : PCmd), (∀ d ∈ c :: cs, CmdCovered d) → ∀ L, RProg (progToks (c :: cs) L) (progNodes (c :: cs) L)
  | [], c, h, L => RProg.one _ _ (cmdRCmd c (h c (List.mem_cons_self ..)) L)
  | d :: ds, c, h, L =>
      RProg.cons _ _ _ _ (cmdRCmd c (h c (List.mem_cons_self ..)) L) (progRProg ds d (fun x hx => h x (List.mem_cons_of_mem _ hx)) _)

/-- a program the theorem covers -/
def ProgCovered (p : Program) : Prop := p.cmds ≠ [] ∧ ∀ c ∈ p.cmds, CmdCovered c

/-- **C15 (whole programs).**  The text `to_string()` writes for a program - commands in order, one argument per line, strings quoted,
integers in decimal, references, booleans and `None` as words, lists to any depth - is read back by the parser as exactly that program:
the same commands in the same order, the same argument names and values, version 3, every node on the line the serializer put it on.
(Covered: result, command and argument names that are identifiers; values that are strings, integers, decimals (every rational the
serializer can print: terminating, at most 400 places - which includes the exact value of every double's shortest `repr` in positional range),
booleans, `None`, references and lists of these; metadata tuples of any length, whose values - numbers included - are written as quoted
text and come back as that text, the map built from the last pair backwards as the parser does.  Where the serializer has no text for a
value, `serializeProgram` is `none` and the theorem does not apply.) -/
theorem serialize_parse_roundtrip (p : Program) (h : ProgCovered p) (txt : String) (ht : serializeProgram p = some txt) :
    parse txt = .ok ⟨progNodes p.cmds 1, 3⟩ := by
  obtain ⟨hne, hc⟩ := h
  unfold serializeProgram at ht
  cases hm : p.cmds.mapM serializeCommand with
  | none => rw [hm] at ht; cases ht
  | some texts =>
    rw [hm] at ht
    simp only [Option.map_some, Option.some.injEq] at ht
    subst ht
    cases hcs : p.cmds with
    | nil => exact absurd hcs hne
    | cons c cs =>
      rw [hcs] at hm hc
      obtain ⟨t, ts, ht, hts, rfl⟩ := mapM_cons_some hm
      unfold parse
      rw [lex_eq_lexS, prog_chars, progSeg cs c hc t ts ht hts 1]
      exact program_renders (progRProg cs c hc 1)

/-- non-vacuity: decimals are printed and read back (`-1234.5678`, `0.001`, `3.0`) -/
example : positional (-12345678 / 10000) = some "-1234.5678" ∧ positional (1 / 1000) = some "0.001" ∧ positional 3 = some "3.0" ∧
    positional (1 / 3) = none := by
  decide +kernel

end MPilot.C15P
