/-
The known findings of /verif/known_findings.json as theorems about the model: where the pinned code violates a property and the defect was
recorded rather than repaired, the model - which describes the code that exists - violates it too, and the violation is proved here on the
finding's own witness (the full-strength statements stay as they are in Props/C10.lean, Props/C17.lean; the theorems there cover the rest of
the domain).  C16-F13 (ScoreRange targets) is `scorerange_targets_missing` in Props/C16.lean; C07-F18 (unsigned wrap-around) cannot be stated:
the model has whole numbers and decimals only, no unsigned type.

* C10-F10: an unquoted string of several words loses the blanks between them (`This is` is delivered as `Thisis`); an unquoted string that starts
  with digits is re-rendered through the number (`007x` as `7x`, `+5abc` as `5abc`) - the value delivered is NOT the text that was written;
* C17-F16: a missing cell is written as `--` (what `str(numpy.ma.masked)` gives), which the reader refuses: a written table with a missing cell
  does not read back.
-/
import MPilot.Model.Grammar
import MPilot.Model.Csv

namespace MPilot.Findings
open MPilot

/-- C10-F10 (words): the tokens of `P = This is)` - two identifiers - make the value `Thisis` -/
theorem F10_multiword_loses_blanks :
    (plainString [⟨.id, .str "This", 1⟩, ⟨.id, .str "is", 1⟩, ⟨.rparen, .none, 1⟩]).toOption = some (("Thisis", 1), [⟨.rparen, .none, 1⟩]) := by
  decide +kernel

/-- C10-F10 (leading zeros, sign): `007x` is the integer 7 followed by `x`, delivered as `7x`; `+5abc` as `5abc` -/
theorem F10_number_prefix_rerendered :
    (plainString [⟨.int, .int 7, 1⟩, ⟨.id, .str "x", 1⟩, ⟨.rparen, .none, 1⟩]).toOption = some (("7x", 1), [⟨.rparen, .none, 1⟩]) ∧
    (plainString [⟨.int, .int 5, 1⟩, ⟨.id, .str "abc", 1⟩, ⟨.rparen, .none, 1⟩]).toOption = some (("5abc", 1), [⟨.rparen, .none, 1⟩]) := by
  constructor <;> decide +kernel

/-- ... and these token lists are what the lexer makes of the texts `007x)` and `+5abc)` -/
theorem F10_lexed :
    lexAll 10 ['0', '0', '7', 'x', ')'] 1 = [⟨.int, .int 7, 1⟩, ⟨.id, .str "x", 1⟩, ⟨.rparen, .none, 1⟩] ∧
    lexAll 10 ['+', '5', 'a', 'b', 'c', ')'] 1 = [⟨.int, .int 5, 1⟩, ⟨.id, .str "abc", 1⟩, ⟨.rparen, .none, 1⟩] ∧
    lexAll 10 ['T', 'h', 'i', 's', ' ', 'i', 's', ')'] 1 = [⟨.id, .str "This", 1⟩, ⟨.id, .str "is", 1⟩, ⟨.rparen, .none, 1⟩] := by
  refine ⟨?_, ?_, ?_⟩ <;> decide +kernel

/-- C17-F16: the table `v` / `1.5` / `--` (a missing cell as the writer renders it) is refused by the reader with the invalid-value error of line 3 -/
def errOf : Except CsvErr Arr → Option CsvErr
  | .error e => some e
  | .ok _ => none

theorem F16_masked_cell_unreadable :
    errOf (csvRead ['v', '\n', '1', '.', '5', '\n', '-', '-', '\n'] "v" none false) = some (.invalidValue 3) := by
  decide +kernel

end MPilot.Findings
