/-
C06 - "Not is an involution that exchanges Or with And", for whole fields at the level of `exec`.

`neg_max_eq_min_neg` (Props/C06.lean) is the law for one column of numbers.  Here it is carried through the commands themselves:
`deMorgan_exec` - for fields whose PRESENT cells lie in [-1, 1] (what is stored beneath missing cells is free), cell by cell,
`FuzzyNot(FuzzyOr(x1 ... xn))` and `FuzzyAnd(FuzzyNot(x1) ... FuzzyNot(xn))` are missing in the same cells and hold the same values elsewhere.
The two building blocks state what Or / And compute without any hypothesis on the inputs (`or_value`, `and_value`: the limited maximum / minimum).
-/
import MPilot.Props.C06Cells

namespace MPilot.C06
open MPilot

/-- the field `FuzzyNot` returns -/
def notArr (x : Arr) : Arr := (x.mapCells (Cell.sc (fun v => -v))).insure (-1) 1

theorem exec_not (sqrt : Rat → Rat) (x : Arr) : exec sqrt .fuzzyNot [x] = .ok (notArr x) := by
  simp [exec, fuzzyClamp, Except.map, notArr]

theorem fold_value (sqrt : Rat → Rat) (c : DataCmd) (g : Rat → Rat → Rat) (hc : ∀ xs, exec sqrt c xs = fuzzyClamp (naryFold (.arg "InFieldNames") g xs))
    (a : Arr) (t : List Arr) (r : Arr) (i : Nat) (h : exec sqrt c (a :: t) = .ok r) (hi : ∀ x ∈ a :: t, i < x.cells.length) :
    ∃ c', r.cells[i]? = some c' ∧ c'.mask = (column (a :: t) i).any (·.mask) ∧
      (c'.mask = false → c'.val = clampHiLo (-1) 1 (fold1 g ((column (a :: t) i).map (·.val)))) := by
  rw [hc] at h
  simp only [fuzzyClamp] at h
  cases hq : naryFold (.arg "InFieldNames") g (a :: t) with
  | error e => rw [hq] at h; simp [Except.map] at h
  | ok q =>
    rw [hq] at h
    simp only [Except.map, Except.ok.injEq] at h
    subst h
    obtain ⟨c0, h1, h2, h3⟩ := C07.naryFold_cell _ _ a t q i hq hi
    refine ⟨Cell.insure (-1) 1 c0, by simp [Arr.insure, Arr.mapCells, h1], ?_, ?_⟩
    · rw [← h2]; unfold Cell.insure; cases c0.mask <;> rfl
    · intro hm
      have hcm : c0.mask = false := by
        unfold Cell.insure at hm; cases hc0 : c0.mask <;> simp_all
      unfold Cell.insure
      simp only [hcm, Bool.false_eq_true, if_false, h3 hcm]

/-- what FuzzyOr computes, no hypothesis on the inputs: the maximum of the column, limited to [-1, 1] -/
theorem or_value (sqrt : Rat → Rat) (a : Arr) (t : List Arr) (r : Arr) (i : Nat) (h : exec sqrt .fuzzyOr (a :: t) = .ok r)
    (hi : ∀ x ∈ a :: t, i < x.cells.length) :
    ∃ c, r.cells[i]? = some c ∧ c.mask = (column (a :: t) i).any (·.mask) ∧
      (c.mask = false → c.val = clampHiLo (-1) 1 (fold1 ratMax ((column (a :: t) i).map (·.val)))) :=
  fold_value sqrt .fuzzyOr ratMax (fun xs => by simp [exec]) a t r i h hi

/-- what FuzzyAnd computes: the minimum of the column, limited to [-1, 1] -/
theorem and_value (sqrt : Rat → Rat) (a : Arr) (t : List Arr) (r : Arr) (i : Nat) (h : exec sqrt .fuzzyAnd (a :: t) = .ok r)
    (hi : ∀ x ∈ a :: t, i < x.cells.length) :
    ∃ c, r.cells[i]? = some c ∧ c.mask = (column (a :: t) i).any (·.mask) ∧
      (c.mask = false → c.val = clampHiLo (-1) 1 (fold1 ratMin ((column (a :: t) i).map (·.val)))) :=
  fold_value sqrt .fuzzyAnd ratMin (fun xs => by simp [exec]) a t r i h hi

/-- cell `i` of a negated field -/
theorem notArr_cell (x : Arr) (i : Nat) (hi : i < x.cells.length) :
    (notArr x).cells.getD i default = Cell.insure (-1) 1 (Cell.sc (fun v => -v) (x.cells.getD i default)) := by
  simp [notArr, Arr.insure, Arr.mapCells, List.getD_eq_getElem?_getD, List.getElem?_map, hi]

theorem notArr_length (x : Arr) : (notArr x).cells.length = x.cells.length := by
  simp [notArr, Arr.insure, Arr.mapCells]

/-- **De Morgan for whole fields**: `Not(Or(xs))` and `And(Not(x) for x in xs)` agree cell by cell - the same cells missing, the same values elsewhere -
for fields whose present cells hold fuzzy values -/
theorem deMorgan_exec (sqrt : Rat → Rat) (a : Arr) (t : List Arr) (ro rl rr : Arr) (i : Nat)
    (hor : exec sqrt .fuzzyOr (a :: t) = .ok ro) (hl : exec sqrt .fuzzyNot [ro] = .ok rl)
    (hr : exec sqrt .fuzzyAnd ((a :: t).map notArr) = .ok rr)
    (hi : ∀ x ∈ a :: t, i < x.cells.length)
    (hrange : ∀ x ∈ a :: t, ∀ c ∈ x.cells, c.mask = false → -1 ≤ c.val ∧ c.val ≤ 1) :
    ∃ cl cr, rl.cells[i]? = some cl ∧ rr.cells[i]? = some cr ∧ cl.mask = cr.mask ∧ (cl.mask = false → cl.val = cr.val) := by
  obtain ⟨co, hco, hmo, hvo⟩ := or_value sqrt a t ro i hor hi
  -- left side: negate the Or cell
  rw [exec_not] at hl
  injection hl with hl
  subst hl
  have hlen : i < ro.cells.length := by
    rcases Nat.lt_or_ge i ro.cells.length with h | h
    · exact h
    · rw [List.getElem?_eq_none h] at hco; cases hco
  have hcl : (notArr ro).cells[i]? = some (Cell.insure (-1) 1 (Cell.sc (fun v => -v) co)) := by
    have := notArr_cell ro i hlen
    have hget : ro.cells.getD i default = co := by
      rw [List.getD_eq_getElem?_getD, hco]; rfl
    rw [hget] at this
    rw [← this, List.getD_eq_getElem?_getD]
    have hl2 : i < (notArr ro).cells.length := by rw [notArr_length]; exact hlen
    simp [List.getElem?_eq_getElem hl2]
  -- right side: And over the negated fields
  have hi' : ∀ x ∈ (a :: t).map notArr, i < x.cells.length := by
    intro x hx
    obtain ⟨y, hy, rfl⟩ := List.mem_map.mp hx
    rw [notArr_length]; exact hi y hy
  obtain ⟨cr, hcr, hmr, hvr⟩ := and_value sqrt (notArr a) (t.map notArr) rr i (by simpa using hr) (by simpa using hi')
  -- the column of the negated fields is the negated column
  have hcol : column (notArr a :: t.map notArr) i = (column (a :: t) i).map (fun c => Cell.insure (-1) 1 (Cell.sc (fun v => -v) c)) := by
    have : ∀ (l : List Arr), (∀ x ∈ l, i < x.cells.length) → column (l.map notArr) i = (column l i).map (fun c => Cell.insure (-1) 1 (Cell.sc (fun v => -v) c)) := by
      intro l hl
      induction l with
      | nil => rfl
      | cons x l ih =>
        simp only [List.map_cons, column] at ih ⊢
        rw [notArr_cell x i (hl x List.mem_cons_self)]
        congr 1
        exact ih (fun y hy => hl y (List.mem_cons_of_mem _ hy))
    simpa using this (a :: t) hi
  have hmask : ∀ c : Cell, (Cell.insure (-1) 1 (Cell.sc (fun v => -v) c)).mask = c.mask := by
    intro c; unfold Cell.insure Cell.sc; cases c.mask <;> rfl
  have hmr' : cr.mask = (column (a :: t) i).any (·.mask) := by
    rw [hmr, hcol, List.any_map]
    congr 1
    funext c; exact hmask c
  refine ⟨_, cr, hcl, hcr, ?_, ?_⟩
  · rw [hmask, hmo, hmr']
  · intro hm
    rw [hmask] at hm
    have hnone : (column (a :: t) i).any (·.mask) = false := by rw [← hmo]; exact hm
    have hall : ∀ c ∈ column (a :: t) i, c.mask = false ∧ -1 ≤ c.val ∧ c.val ≤ 1 := by
      intro c hc
      have hcm : c.mask = false := by
        have := List.any_eq_false.mp hnone c hc
        simpa using this
      obtain ⟨x, hx, rfl⟩ := List.mem_map.mp hc
      have hlt := hi x hx
      have hmem : x.cells.getD i default ∈ x.cells := by
        simp [List.getD_eq_getElem?_getD, List.getElem?_eq_getElem hlt]
      exact ⟨hcm, hrange x hx _ hmem hcm⟩
    -- values of the negated column
    have hvals : (column (notArr a :: t.map notArr) i).map (·.val) = ((column (a :: t) i).map (·.val)).map (fun v => -v) := by
      rw [hcol, List.map_map, List.map_map]
      apply List.map_congr_left
      intro c hc
      obtain ⟨hcm, h1, h2⟩ := hall c hc
      simp only [Function.comp, Cell.insure, Cell.sc, hcm, Bool.false_eq_true, if_false]
      exact clamp_id (by linarith) (by linarith)
    -- the maximum of the column is one of its values: in range
    obtain ⟨c0, hc0⟩ : ∃ c0 rest, column (a :: t) i = c0 :: rest := ⟨_, _, rfl⟩
    obtain ⟨rest, hc0⟩ := hc0
    have hmaxmem := C07.fold1_max_mem c0.val (rest.map (·.val))
    have hmaxrange : -1 ≤ fold1 ratMax ((column (a :: t) i).map (·.val)) ∧ fold1 ratMax ((column (a :: t) i).map (·.val)) ≤ 1 := by
      rw [hc0, List.map_cons]
      have : fold1 ratMax (c0.val :: rest.map (·.val)) ∈ (c0 :: rest).map (·.val) := by simpa using hmaxmem
      obtain ⟨c, hc, e⟩ := List.mem_map.mp this
      rw [← e]
      exact (hall c (by rw [hc0]; exact hc)).2
    have hco_val : co.val = fold1 ratMax ((column (a :: t) i).map (·.val)) := by
      rw [hvo (by rw [hmo]; exact hnone), clamp_id hmaxrange.1 hmaxrange.2]
    have hcom : co.mask = false := by rw [hmo]; exact hnone
    have hcrm : cr.mask = false := by rw [hmr']; exact hnone
    -- left value
    have hleft : (Cell.insure (-1) 1 (Cell.sc (fun v => -v) co)).val = -(fold1 ratMax ((column (a :: t) i).map (·.val))) := by
      simp only [Cell.insure, Cell.sc, hcom, Bool.false_eq_true, if_false, hco_val]
      exact clamp_id (by linarith [hmaxrange.2]) (by linarith [hmaxrange.1])
    rw [hleft, hvr hcrm, hvals, hc0, List.map_cons, neg_max_eq_min_neg]
    have hr2 : -1 ≤ fold1 ratMin ((c0.val :: rest.map (·.val)).map (fun v => -v)) ∧ fold1 ratMin ((c0.val :: rest.map (·.val)).map (fun v => -v)) ≤ 1 := by
      rw [← neg_max_eq_min_neg]
      rw [hc0, List.map_cons] at hmaxrange
      constructor <;> linarith [hmaxrange.1, hmaxrange.2]
    exact (clamp_id hr2.1 hr2.2).symm

/-! ### And ≤ Union ≤ Or for whole fields -/

theorem clamp_mono {x y : Rat} (h : x ≤ y) : clampHiLo (-1) 1 x ≤ clampHiLo (-1) 1 y := by
  unfold clampHiLo
  simp only
  split_ifs <;> linarith

/-- **And ≤ Union ≤ Or, cell by cell, for whole fields and ANY inputs** (no hypothesis on values, hidden or present): the three results are missing
in the same cells, and where they are present the And value is at most the Union value, which is at most the Or value -/
theorem and_union_or_exec (sqrt : Rat → Rat) (a : Arr) (t : List Arr) (ra ru ro : Arr) (i : Nat)
    (hand : exec sqrt .fuzzyAnd (a :: t) = .ok ra) (hun : exec sqrt .fuzzyUnion (a :: t) = .ok ru) (hor : exec sqrt .fuzzyOr (a :: t) = .ok ro)
    (hi : ∀ x ∈ a :: t, i < x.cells.length) :
    ∃ ca cu co, ra.cells[i]? = some ca ∧ ru.cells[i]? = some cu ∧ ro.cells[i]? = some co ∧ ca.mask = cu.mask ∧ cu.mask = co.mask ∧
      (ca.mask = false → ca.val ≤ cu.val ∧ cu.val ≤ co.val) := by
  obtain ⟨ca, h1, hma, hva⟩ := and_value sqrt a t ra i hand hi
  obtain ⟨cu, h2, hmu, hvu⟩ := union_cell sqrt a t ru i hun hi
  obtain ⟨co, h3, hmo, hvo⟩ := or_value sqrt a t ro i hor hi
  refine ⟨ca, cu, co, h1, h2, h3, by rw [hma, hmu], by rw [hmu, hmo], ?_⟩
  intro hm
  have hmu' : cu.mask = false := by rw [hmu, ← hma]; exact hm
  have hmo' : co.mask = false := by rw [hmo, ← hma]; exact hm
  rw [hva hm, hvu hmu', hvo hmo']
  have hcol : column (a :: t) i = (a.cells.getD i default) :: (t.map fun x => x.cells.getD i default) := by simp [column]
  have hlen : (((a :: t).length : Nat) : Rat) = ((((column (a :: t) i).map (·.val)).length : Nat) : Rat) := by simp [column]
  rw [hlen, hcol, List.map_cons]
  have := and_le_union_le_or (a.cells.getD i default).val ((t.map fun x => x.cells.getD i default).map (·.val))
  exact ⟨clamp_mono this.1, clamp_mono this.2⟩

/-! ### selected union with k = 1 is Or / And, for whole fields -/

theorem max_unique {l : List Rat} {m m' : Rat} (hm : m ∈ l) (hge : ∀ x ∈ l, x ≤ m) (hm' : m' ∈ l) (hge' : ∀ x ∈ l, x ≤ m') : m = m' :=
  le_antisymm (hge' m hm) (hge m' hm')

/-- **FuzzySelectedUnion(Truest, 1) = FuzzyOr and FuzzySelectedUnion(Falsest, 1) = FuzzyAnd, for whole fields and any inputs**: the same cells
missing, the same values elsewhere -/
theorem selectedUnion_one_exec (sqrt : Rat → Rat) (a : Arr) (t : List Arr) (rs ro : Arr) (i : Nat) (truest : Bool)
    (hs : exec sqrt (.fuzzySelectedUnion (if truest then "Truest" else "Falsest") ⟨1, true⟩) (a :: t) = .ok rs)
    (ho : exec sqrt (if truest then .fuzzyOr else .fuzzyAnd) (a :: t) = .ok ro)
    (hi : ∀ x ∈ a :: t, i < x.cells.length) :
    ∃ cs co, rs.cells[i]? = some cs ∧ ro.cells[i]? = some co ∧ cs.mask = co.mask ∧ (cs.mask = false → cs.val = co.val) := by
  obtain ⟨_, _, _, _, cs, h1, hms, hvs⟩ := selectedUnion_cell sqrt _ ⟨1, true⟩ a t rs i hs (hi a List.mem_cons_self)
  have hne : (column (a :: t) i).map (·.val) ≠ [] := by simp [column]
  cases truest with
  | true =>
    simp only [if_true] at ho hvs
    obtain ⟨co, h2, hmo, hvo⟩ := or_value sqrt a t ro i ho hi
    refine ⟨cs, co, h1, h2, by rw [hms, hmo], ?_⟩
    intro hm
    have hmo' : co.mask = false := by rw [hmo, ← hms]; exact hm
    rw [hvs hm, hvo hmo']
    congr 1
    have hk : (⟨1, true⟩ : Num).val.num.toNat = 1 := by decide
    rw [hk]
    obtain ⟨hmem, hge⟩ := sel_truest_one _ hne
    have hcol : (column (a :: t) i).map (·.val) = (a.cells.getD i default).val :: (t.map fun x => x.cells.getD i default).map (·.val) := by simp [column]
    have hmem2 := C07.fold1_max_mem (a.cells.getD i default).val ((t.map fun x => x.cells.getD i default).map (·.val))
    have hge2 := C07.fold1_max_ge (a.cells.getD i default).val ((t.map fun x => x.cells.getD i default).map (·.val))
    have : (("Truest" : String) == "Truest") = true := by decide
    simp only [this]
    rw [hcol] at hmem hge ⊢
    exact max_unique hmem hge hmem2 hge2
  | false =>
    simp only [Bool.false_eq_true, if_false] at ho hvs
    obtain ⟨co, h2, hmo, hvo⟩ := and_value sqrt a t ro i ho hi
    refine ⟨cs, co, h1, h2, by rw [hms, hmo], ?_⟩
    intro hm
    have hmo' : co.mask = false := by rw [hmo, ← hms]; exact hm
    rw [hvs hm, hvo hmo']
    congr 1
    have hk : (⟨1, true⟩ : Num).val.num.toNat = 1 := by decide
    rw [hk]
    obtain ⟨hmem, hle⟩ := sel_falsest_one _ hne
    have hcol : (column (a :: t) i).map (·.val) = (a.cells.getD i default).val :: (t.map fun x => x.cells.getD i default).map (·.val) := by simp [column]
    have hmem2 := C07.fold1_min_mem (a.cells.getD i default).val ((t.map fun x => x.cells.getD i default).map (·.val))
    have hle2 := C07.fold1_min_le (a.cells.getD i default).val ((t.map fun x => x.cells.getD i default).map (·.val))
    have : (("Falsest" : String) == "Truest") = false := by decide
    simp only [this]
    rw [hcol] at hmem hle ⊢
    exact le_antisymm (hle _ hmem2) (hle2 _ hmem)

/-- **FuzzySelectedUnion with k = the number of inputs is FuzzyUnion, for whole fields and any inputs** (Truest or Falsest alike) -/
theorem selectedUnion_all_exec (sqrt : Rat → Rat) (a : Arr) (t : List Arr) (rs ru : Arr) (i : Nat) (sel : String)
    (hs : exec sqrt (.fuzzySelectedUnion sel ⟨((a :: t).length : Nat), true⟩) (a :: t) = .ok rs)
    (hu : exec sqrt .fuzzyUnion (a :: t) = .ok ru)
    (hi : ∀ x ∈ a :: t, i < x.cells.length) :
    ∃ cs cu, rs.cells[i]? = some cs ∧ ru.cells[i]? = some cu ∧ cs.mask = cu.mask ∧ (cs.mask = false → cs.val = cu.val) := by
  obtain ⟨_, _, _, _, cs, h1, hms, hvs⟩ := selectedUnion_cell sqrt sel _ a t rs i hs (hi a List.mem_cons_self)
  obtain ⟨cu, h2, hmu, hvu⟩ := union_cell sqrt a t ru i hu hi
  refine ⟨cs, cu, h1, h2, by rw [hms, hmu], ?_⟩
  intro hm
  have hmu' : cu.mask = false := by rw [hmu, ← hms]; exact hm
  rw [hvs hm, hvu hmu']
  congr 1
  have hperm : (sortRat ((column (a :: t) i).map (·.val))).Perm ((column (a :: t) i).map (·.val)) := List.mergeSort_perm _ _
  have hlen : (sortRat ((column (a :: t) i).map (·.val))).length = (a :: t).length := by
    rw [hperm.length_eq]; simp [column]
  have hk : (⟨((a :: t).length : Nat), true⟩ : Num).val.num.toNat = (sortRat ((column (a :: t) i).map (·.val))).length := by
    rw [hlen]
    show (((a :: t).length : Nat) : Rat).num.toNat = (a :: t).length
    rw [Rat.num_natCast, Int.toNat_natCast]
  rw [hk, sel_all_is_mean, hperm.sum_eq, hlen]

end MPilot.C06
