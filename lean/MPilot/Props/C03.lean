/-
C03 — missing data stays missing and never leaks into valid results.

`payload_irrelevant` : the numbers hidden beneath missing cells never influence the outcome of any data command —
                       not the error raised, not the element type, shape or mask of the result, not any visible value
                       (whole-array statistics included).  Non-interference, for all 31 commands, all inputs.
`mask_superset`      : a result cell is missing whenever the corresponding cell of any input is missing (all 31 commands).
`single_input_mask_exact` : single-input commands add no missing cell, unless the mapping is undefined for the whole array.
-/
import MPilot.Lemmas.ArrR
import MPilot.Lemmas.MaskSup

namespace MPilot.C03
open MPilot

theorem bind_R {x : Except Err Unit} {f g : Unit → Except Err Arr} (h : ∀ u, ExceptR (f u) (g u)) :
    ExceptR (x >>= f) (x >>= g) := by
  cases x with
  | error e => exact ExceptR.err e
  | ok u => exact h u

theorem naryFold_R (ref : LineRef) (g : Rat → Rat → Rat) {xs xs' : List Arr} (h : List.Forall₂ ArrR xs xs') :
    ExceptR (naryFold ref g xs) (naryFold ref g xs') := by
  unfold naryFold
  rw [validateShapes_R ref h, promoteAll_R h]
  apply bind_R; intro _
  cases h with
  | nil => exact ExceptR.eMp _ _
  | cons ha ht => exact foldArr_R (fun _ _ _ _ => bin_R g) _ ha ht

theorem go_R (tt ft : Option Num) (hl : Bool) {a a' : Arr} (h : ArrR a a') :
    ExceptR (exec.go a tt ft hl) (exec.go a' tt ft hl) := by
  unfold exec.go
  rw [valid_ArrR h]
  split_goal
  all_goals first | exact ExceptR.eRaw _ | exact ExceptR.eMp _ _ | exact fuzzyClamp_R (ExceptR.ok (linMap_R _ _ _ _ h))

/-- single-input commands: related input lists have the same length, so both sides take the same arm -/
macro "one_R" h:ident _a:ident _a':ident ha:ident : tactic =>
  `(tactic| (rcases $h:ident with _ | ⟨$ha:ident, _ | ⟨_, _⟩⟩ <;> simp only [exec] <;> first | exact ExceptR.eRaw _ | skip))

/-- **C03 (non-interference).** Inputs that look the same — same element type, shape, missing cells and non-missing
values, whatever lies hidden beneath the missing cells — give the same outcome: the same error, or results that look
the same.  All 31 data commands, any number/shape of inputs, any parameters, any `sqrt`. -/
theorem payload_irrelevant (sqrt : Rat → Rat) (c : DataCmd) {xs xs' : List Arr} (h : List.Forall₂ ArrR xs xs') :
    ExceptR (exec sqrt c xs) (exec sqrt c xs') := by
  cases c
  case copy => one_R h a a' ha; exact ExceptR.ok ha
  case aMinusB =>
    rcases h with _ | ⟨ha, _ | ⟨hb, _ | ⟨_, _⟩⟩⟩ <;> simp only [exec] <;> try exact ExceptR.eRaw _
    rw [validateShapes_R .cmd (.cons ha (.cons hb .nil)), ha.1, hb.1]
    apply bind_R; intro _
    exact zip_R (fun _ _ _ _ => bin_R _) _ ha hb
  case sum => simp only [exec]; exact naryFold_R _ _ h
  case multiply => simp only [exec]; exact naryFold_R _ _ h
  case minimum => simp only [exec]; exact naryFold_R _ _ h
  case maximum => simp only [exec]; exact naryFold_R _ _ h
  case weightedSum w =>
    simp only [exec]
    rw [← forall2_length h, validateShapes_R .cmd h, promoteAll_R h]
    split
    · exact ExceptR.eMp _ _
    · apply bind_R; intro _; exact weightedAcc_R _ _ h
  case aDividedByB =>
    rcases h with _ | ⟨ha, _ | ⟨hb, _ | ⟨_, _⟩⟩⟩ <;> simp only [exec] <;> try exact ExceptR.eRaw _
    rw [validateShapes_R .cmd (.cons ha (.cons hb .nil))]
    apply bind_R; intro _
    exact zip_R (fun _ _ _ _ => div_R) _ ha hb
  case mean =>
    simp only [exec]
    rw [validateShapes_R .cmd h, ← forall2_length h]
    apply bind_R; intro _
    cases h with
    | nil => exact ExceptR.eMp _ _
    | cons ha ht => exact mapCells_R (fun _ _ => divSc_R _) (foldArr_R (fun _ _ _ _ => bin_R _) _ ha ht)
  case weightedMean w =>
    simp only [exec]
    rw [← forall2_length h, validateShapes_R .cmd h]
    split
    · exact ExceptR.eMp _ _
    · apply bind_R; intro _; exact mapCells_R (fun _ _ => divSc_R _) (weightedAcc_R _ _ h)
  case normalize s e =>
    one_R h a a' ha
    rw [valid_ArrR ha]
    split
    · exact ⟨rfl, ha.2.1, map_R (fun _ _ hc => sc_R _ (divSc_R _ (sc_R _ (sc_R _ hc)))) ha.2.2⟩
    · refine ⟨rfl, ha.2.1, map_R (fun x y hc => ⟨rfl, fun hm => by simp at hm⟩) ha.2.2⟩
  case normalizeZScore tt ft s e => one_R h a a' ha; exact zScoreBody_R _ _ _ _ _ ha
  case normalizeCat raw nv d => one_R h a a' ha; exact catBody_R _ _ _ ha
  case normalizeCurve raw nv => one_R h a a' ha; exact curveBody_R _ _ _ ha
  case normalizeMeanToMid iz nv => one_R h a a' ha; exact meanToMidBody_R _ _ ha
  case normalizeCurveZScore z nv => one_R h a a' ha; exact curveZBody_R _ _ _ ha
  case cvtToFuzzy tt ft dir =>
    one_R h a a' ha
    split_goal
    all_goals first | exact ExceptR.eMp _ _ | exact go_R _ _ _ ha
  case cvtToFuzzyZScore tt ft => one_R h a a' ha; exact fuzzyClamp_R (zScoreBody_R _ _ _ _ _ ha)
  case cvtToFuzzyCat raw fz d => one_R h a a' ha; exact fuzzyClamp_R (catBody_R _ _ _ ha)
  case cvtToFuzzyCurve raw fz => one_R h a a' ha; exact fuzzyClamp_R (curveBody_R _ _ _ ha)
  case cvtToFuzzyMeanToMid iz fz => one_R h a a' ha; exact fuzzyClamp_R (meanToMidBody_R _ _ ha)
  case cvtToFuzzyCurveZScore z fz => one_R h a a' ha; exact fuzzyClamp_R (curveZBody_R _ _ _ ha)
  case cvtToBinary th dir =>
    one_R h a a' ha
    split
    · exact ExceptR.eMp _ _
    · exact fuzzyClamp_R (ExceptR.ok (valmapArr_R
        (fun x => if x < th.val then (if dir == "LowToHigh" then 0 else 1) else (if dir == "LowToHigh" then 1 else 0)) ha))
  case fuzzyUnion =>
    simp only [exec]
    rw [validateShapes_R _ h, ← forall2_length h]
    apply bind_R; intro _
    cases h with
    | nil => exact ExceptR.eMp _ _
    | cons ha ht =>
      exact fuzzyClamp_R (ExceptR.ok (mapCells_R (fun _ _ => divSc_R _) (foldArr_R (fun _ _ _ _ => bin_R _) _ ha ht)))
  case fuzzyWeightedUnion w =>
    simp only [exec]
    rw [← forall2_length h, validateShapes_R _ h]
    split
    · exact ExceptR.eMp _ _
    · apply bind_R; intro _
      exact fuzzyClamp_R (ExceptR.ok (mapCells_R (fun _ _ => divSc_R _) (weightedAcc_R _ _ h)))
  case fuzzySelectedUnion sel k =>
    simp only [exec]
    rw [validateShapes_R _ h, ← forall2_length h]
    apply bind_R; intro _
    split_goal
    all_goals first | exact ExceptR.eMp _ _ | exact ExceptR.eRaw _ | exact fuzzyClamp_R (ExceptR.ok (stackMap_R _ h))
  case fuzzyOr => simp only [exec]; exact fuzzyClamp_R (naryFold_R _ _ h)
  case fuzzyAnd => simp only [exec]; exact fuzzyClamp_R (naryFold_R _ _ h)
  case fuzzyXOr =>
    simp only [exec]
    rw [validateShapes_R _ h, ← forall2_length h]
    apply bind_R; intro _
    split
    · exact ExceptR.eRaw _
    · exact fuzzyClamp_R (ExceptR.ok (stackMap_R _ h))
  case fuzzyNot => one_R h a a' ha; exact fuzzyClamp_R (ExceptR.ok (mapCells_R (fun _ _ => sc_R _) ha))
  case cvtFromFuzzy tt ft =>
    one_R h a a' ha
    split
    · exact ExceptR.eMp _ _
    · exact ExceptR.ok (linMap_R _ _ _ _ ha)

/-! ### missing stays missing -/

/-- arrays of one shape have the same number of cells (true of every numpy array: the number of cells is the product of the shape) -/
def SameShapeSameSize (xs : List Arr) : Prop := ∀ a ∈ xs, ∀ b ∈ xs, a.shape = b.shape → a.cells.length = b.cells.length

theorem sameSize_of_wf (xs : List Arr) (h : ∀ a ∈ xs, a.cells.length = a.shape.foldl (· * ·) 1) : SameShapeSameSize xs := by
  intro a ha b hb hs; rw [h a ha, h b hb, hs]

theorem validateShapes_size {ref : LineRef} {xs : List Arr} (h : validateShapes ref xs = .ok ()) (hw : SameShapeSameSize xs) :
    ∀ a ∈ xs, ∀ b ∈ xs, a.cells.length = b.cells.length := by
  have hshape : ∀ a ∈ xs, ∀ b ∈ xs, a.shape = b.shape := by
    cases xs with
    | nil => simp [validateShapes, eMp] at h
    | cons x t =>
      cases t with
      | nil => intro a ha b hb; simp at ha hb; rw [ha, hb]
      | cons y rest =>
        simp only [validateShapes] at h
        by_cases hall : ((y :: rest).all fun b => b.shape == x.shape) = true
        · have hall' : ∀ b ∈ y :: rest, b.shape = x.shape := by
            intro b hb; have := List.all_eq_true.mp hall b hb; simpa using this
          have key : ∀ a ∈ x :: y :: rest, a.shape = x.shape := by
            intro a ha
            rcases List.mem_cons.mp ha with rfl | ha
            · rfl
            · exact hall' a ha
          intro a ha b hb; rw [key a ha, key b hb]
        · rw [if_neg hall] at h; cases h
  intro a ha b hb
  exact hw a ha b hb (hshape a ha b hb)

theorem bind_ok {x : Except Err Unit} {f : Unit → Except Err Arr} {out : Arr} (h : (x >>= f) = .ok out) :
    x = .ok () ∧ f () = .ok out := by
  cases x with
  | error e => cases h
  | ok u => exact ⟨rfl, h⟩

theorem fuzzyClamp_ok {r : Except Err Arr} {out : Arr} (h : fuzzyClamp r = .ok out) : ∃ o, r = .ok o ∧ out = o.insure (-1) 1 := by
  unfold fuzzyClamp at h
  cases r with
  | error e => cases h
  | ok o => exact ⟨o, rfl, by simpa [Except.map] using h.symm⟩

theorem naryFold_sup {ref : LineRef} {g : Rat → Rat → Rat} {xs : List Arr} {out : Arr} (hw : SameShapeSameSize xs)
    (h : naryFold ref g xs = .ok out) : ∀ a ∈ xs, Sup a out := by
  unfold naryFold at h
  obtain ⟨hv, h⟩ := bind_ok h
  have hsz := validateShapes_size hv hw
  cases xs with
  | nil => cases h
  | cons a rest =>
    simp only at h
    injection h with h; subst h
    exact foldArr_sup (bin_left _) (bin_right _) _ a rest a.cells.length (fun b hb => hsz b hb a (List.mem_cons_self ..))

theorem keepMask_sup (a : Arr) (f : Cell → Rat) : LSup a.cells (a.cells.map fun c => ⟨f c, c.mask⟩) :=
  map_sup (f := fun c => ⟨f c, c.mask⟩) (fun _ h => h) _

theorem allMasked_sup (a : Arr) (f : Cell → Rat) : LSup a.cells (a.cells.map fun c => ⟨f c, true⟩) :=
  map_sup (f := fun c => ⟨f c, true⟩) (fun _ _ => rfl) _

theorem zScoreBody_sup {sqrt : Rat → Rat} {a out : Arr} {tt ft s e : Rat} (h : zScoreBody sqrt a tt ft s e = .ok out) : Sup a out := by
  unfold zScoreBody at h
  split at h
  · injection h with h; subst h; exact Sup.trans (linMap_sup _ _ _ _ a) (insureArr_sup _ _ _)
  · injection h with h; subst h; exact allMasked_sup a (fun _ => fillValue)

theorem catBody_sup {a out : Arr} {raw normal : List Num} {d : Num} (h : catBody a raw normal d = .ok out) : Sup a out := by
  unfold catBody at h
  split at h
  · cases h
  · split at h
    · cases h
    · injection h with h; subst h; exact keepMask_sup a _

theorem curveArr_sup (a : Arr) (pts : List (Rat × Rat)) : Sup a (curveArr a pts) := keepMask_sup a _

theorem curveBody_sup {ref : LineRef} {a out : Arr} {raw normal : List Rat} (h : curveBody ref a raw normal = .ok out) : Sup a out := by
  unfold curveBody at h
  repeat' (first | split at h | (dsimp only at h))
  all_goals first | (injection h with h; subst h; exact curveArr_sup a _) | cases h

theorem curveZBody_sup {sqrt : Rat → Rat} {a out : Arr} {z normal : List Num} (h : curveZBody sqrt a z normal = .ok out) : Sup a out := by
  unfold curveZBody at h
  repeat' (first | split at h | (dsimp only at h))
  all_goals first | (injection h with h; subst h; exact curveArr_sup a _) | cases h

theorem meanToMidBody_sup {a out : Arr} {iz : Bool} {normal : List Num} (h : meanToMidBody a iz normal = .ok out) : Sup a out := by
  unfold meanToMidBody at h
  repeat' (first | split at h | (dsimp only at h))
  all_goals first | exact curveBody_sup h | cases h

theorem go_sup {a out : Arr} {tt ft : Option Num} {hl : Bool} (h : exec.go a tt ft hl = .ok out) : Sup a out := by
  unfold exec.go at h
  repeat' (first | split at h | (dsimp only at h))
  all_goals first
    | (obtain ⟨o, ho, rfl⟩ := fuzzyClamp_ok h; injection ho with ho; subst ho; exact Sup.trans (linMap_sup _ _ _ _ a) (insureArr_sup _ _ _))
    | cases h

theorem clamp_sup {a : Arr} {r : Except Err Arr} {out : Arr} (hr : ∀ o, r = .ok o → Sup a o) (h : fuzzyClamp r = .ok out) : Sup a out := by
  obtain ⟨o, ho, rfl⟩ := fuzzyClamp_ok h
  exact Sup.trans (hr o ho) (insureArr_sup _ _ _)

/-- single-input commands: only the one-array arm delivers a result -/
macro "one_sup" xs:ident h:ident ha:ident : tactic =>
  `(tactic| (rcases $xs:ident with _ | ⟨b, _ | ⟨b2, t⟩⟩ <;> simp only [exec] at $h:ident <;> (try (cases $h:ident; done)) <;>
             (simp only [List.mem_singleton] at $ha:ident; subst $ha:ident)))

/-- **C03 (missing stays missing).**  Whenever a data command delivers a result, that result has a cell for every cell of every input
and is missing wherever the input is: all 31 commands, any number of inputs, any parameters, any `sqrt`.  (Hypothesis: inputs of one
shape have equally many cells, as every numpy array has.) -/
theorem mask_superset (sqrt : Rat → Rat) (c : DataCmd) (xs : List Arr) (hw : SameShapeSameSize xs) (out : Arr)
    (h : exec sqrt c xs = .ok out) : ∀ a ∈ xs, Sup a out := by
  intro a ha
  cases c
  case sum => simp only [exec] at h; exact naryFold_sup hw h a ha
  case multiply => simp only [exec] at h; exact naryFold_sup hw h a ha
  case minimum => simp only [exec] at h; exact naryFold_sup hw h a ha
  case maximum => simp only [exec] at h; exact naryFold_sup hw h a ha
  case fuzzyOr => simp only [exec] at h; exact clamp_sup (fun o ho => naryFold_sup hw ho a ha) h
  case fuzzyAnd => simp only [exec] at h; exact clamp_sup (fun o ho => naryFold_sup hw ho a ha) h
  case copy => one_sup xs h ha; injection h with h; subst h; exact Sup.refl _
  case normalizeZScore tt ft s e => one_sup xs h ha; exact zScoreBody_sup h
  case normalizeCat raw nv d => one_sup xs h ha; exact catBody_sup h
  case normalizeCurve raw nv => one_sup xs h ha; exact curveBody_sup h
  case normalizeMeanToMid iz nv => one_sup xs h ha; exact meanToMidBody_sup h
  case normalizeCurveZScore z nv => one_sup xs h ha; exact curveZBody_sup h
  case cvtToFuzzyZScore tt ft => one_sup xs h ha; exact clamp_sup (fun o ho => zScoreBody_sup ho) h
  case cvtToFuzzyCat raw fz d => one_sup xs h ha; exact clamp_sup (fun o ho => catBody_sup ho) h
  case cvtToFuzzyCurve raw fz => one_sup xs h ha; exact clamp_sup (fun o ho => curveBody_sup ho) h
  case cvtToFuzzyMeanToMid iz fz => one_sup xs h ha; exact clamp_sup (fun o ho => meanToMidBody_sup ho) h
  case cvtToFuzzyCurveZScore z fz => one_sup xs h ha; exact clamp_sup (fun o ho => curveZBody_sup ho) h
  case normalize s e =>
    one_sup xs h ha
    split at h
    · injection h with h; subst h
      exact map_sup (fun c => MImp.trans (sc_sup _ c) (MImp.trans (sc_sup _ _) (MImp.trans (divSc_sup _ _) (sc_sup _ _)))) _
    · injection h with h; subst h; exact allMasked_sup _ (fun c => c.val)
  case cvtToFuzzy tt ft dir =>
    one_sup xs h ha
    repeat' (first | split at h | (dsimp only at h))
    all_goals first | exact go_sup h | cases h
  case cvtToBinary th dir =>
    one_sup xs h ha
    split at h
    · cases h
    · exact clamp_sup (fun o ho => by injection ho with ho; subst ho; exact keepMask_sup _ _) h
  case fuzzyNot =>
    one_sup xs h ha
    exact clamp_sup (fun o ho => by injection ho with ho; subst ho; exact mapCells_sup (sc_sup _) _) h
  case cvtFromFuzzy tt ft =>
    one_sup xs h ha
    split at h
    · cases h
    · injection h with h; subst h; exact linMap_sup _ _ _ _ _
  case aMinusB =>
    rcases xs with _ | ⟨x, _ | ⟨y, _ | ⟨z, t⟩⟩⟩ <;> simp only [exec] at h <;> (try (cases h; done))
    obtain ⟨hv, h⟩ := bind_ok h
    have hsz := validateShapes_size hv hw x (by simp) y (by simp)
    injection h with h; subst h
    rcases List.mem_cons.mp ha with rfl | ha
    · exact zip_left (bin_left _) _ _ _ hsz
    · simp only [List.mem_singleton] at ha; subst ha; exact zip_right (bin_right _) _ _ _ hsz
  case aDividedByB =>
    rcases xs with _ | ⟨x, _ | ⟨y, _ | ⟨z, t⟩⟩⟩ <;> simp only [exec] at h <;> (try (cases h; done))
    obtain ⟨hv, h⟩ := bind_ok h
    have hsz := validateShapes_size hv hw x (by simp) y (by simp)
    injection h with h; subst h
    rcases List.mem_cons.mp ha with rfl | ha
    · exact zip_left div_left _ _ _ hsz
    · simp only [List.mem_singleton] at ha; subst ha; exact zip_right div_right _ _ _ hsz
  case mean =>
    simp only [exec] at h
    obtain ⟨hv, h⟩ := bind_ok h
    have hsz := validateShapes_size hv hw
    cases xs with
    | nil => cases h
    | cons x rest =>
      simp only at h
      injection h with h; subst h
      exact Sup.trans (foldArr_sup (bin_left _) (bin_right _) _ x rest x.cells.length (fun b hb => hsz b hb x (List.mem_cons_self ..)) a ha)
        (mapCells_sup (divSc_sup _) _)
  case fuzzyUnion =>
    simp only [exec] at h
    obtain ⟨hv, h⟩ := bind_ok h
    have hsz := validateShapes_size hv hw
    cases xs with
    | nil => cases h
    | cons x rest =>
      simp only at h
      refine clamp_sup (fun o ho => ?_) h
      injection ho with ho; subst ho
      exact Sup.trans (foldArr_sup (bin_left _) (bin_right _) _ x rest x.cells.length (fun b hb => hsz b hb x (List.mem_cons_self ..)) a ha)
        (mapCells_sup (divSc_sup _) _)
  case weightedSum w =>
    simp only [exec] at h
    split at h
    · cases h
    · rename_i hlen
      obtain ⟨hv, h⟩ := bind_ok h
      have hsz := validateShapes_size hv hw
      injection h with h; subst h
      have hne : xs ≠ [] := by intro e; subst e; cases ha
      exact weightedAcc_sup _ a.cells.length w xs (by simpa using hlen) hne (fun b hb => hsz b hb a ha) a ha
  case weightedMean w =>
    simp only [exec] at h
    split at h
    · cases h
    · rename_i hlen
      obtain ⟨hv, h⟩ := bind_ok h
      have hsz := validateShapes_size hv hw
      injection h with h; subst h
      have hne : xs ≠ [] := by intro e; subst e; cases ha
      exact Sup.trans (weightedAcc_sup _ a.cells.length w xs (by simpa using hlen) hne (fun b hb => hsz b hb a ha) a ha)
        (mapCells_sup (divSc_sup _) _)
  case fuzzyWeightedUnion w =>
    simp only [exec] at h
    split at h
    · cases h
    · rename_i hlen
      obtain ⟨hv, h⟩ := bind_ok h
      have hsz := validateShapes_size hv hw
      have hne : xs ≠ [] := by intro e; subst e; cases ha
      refine clamp_sup (fun o ho => ?_) h
      injection ho with ho; subst ho
      exact Sup.trans (weightedAcc_sup _ a.cells.length w xs (by have := hlen; simp at this; omega) hne (fun b hb => hsz b hb a ha) a ha)
        (mapCells_sup (divSc_sup _) _)
  case fuzzySelectedUnion sel k =>
    simp only [exec] at h
    obtain ⟨hv, h⟩ := bind_ok h
    have hsz := validateShapes_size hv hw
    repeat' (first | split at h | (dsimp only at h))
    all_goals first
      | (refine clamp_sup (fun o ho => ?_) h
         injection ho with ho; subst ho
         cases xs with
         | nil => cases ha
         | cons x rest => exact stackMap_sup _ x rest (fun b hb => hsz b hb x (List.mem_cons_self ..)) a ha)
      | cases h
  case fuzzyXOr =>
    simp only [exec] at h
    obtain ⟨hv, h⟩ := bind_ok h
    have hsz := validateShapes_size hv hw
    split at h
    · cases h
    · refine clamp_sup (fun o ho => ?_) h
      injection ho with ho; subst ho
      cases xs with
      | nil => cases ha
      | cons x rest => exact stackMap_sup _ x rest (fun b hb => hsz b hb x (List.mem_cons_self ..)) a ha

/-! ### no extra missing cells, except where the mapping is undefined -/

theorem keepMask_exact (a : Arr) (f : Cell → Rat) : LEq a.cells (a.cells.map fun c => ⟨f c, c.mask⟩) :=
  map_leq (f := fun c => ⟨f c, c.mask⟩) (fun _ => rfl) _

theorem clamp_exact {a : Arr} {r : Except Err Arr} {out : Arr} (hr : ∀ o, r = .ok o → ExactOrAll a o) (h : fuzzyClamp r = .ok out) :
    ExactOrAll a out := by
  obtain ⟨o, ho, rfl⟩ := fuzzyClamp_ok h
  exact (hr o ho).mapCells (insure_mask _ _)

theorem zScoreBody_exact {sqrt : Rat → Rat} {a out : Arr} {tt ft s e : Rat} (h : zScoreBody sqrt a tt ft s e = .ok out) : ExactOrAll a out := by
  unfold zScoreBody at h
  split at h
  · injection h with h; subst h; exact (linMap_exact _ _ _ _ a).mapCells (insure_mask _ _)
  · injection h with h; subst h; exact Or.inr (map_lall (f := fun _ => ⟨fillValue, true⟩) (fun _ => rfl) _)

theorem catBody_exact {a out : Arr} {raw normal : List Num} {d : Num} (h : catBody a raw normal d = .ok out) : ExactOrAll a out := by
  unfold catBody at h
  split at h
  · cases h
  · split at h
    · cases h
    · injection h with h; subst h; exact Or.inl (keepMask_exact a _)

theorem curveBody_exact {ref : LineRef} {a out : Arr} {raw normal : List Rat} (h : curveBody ref a raw normal = .ok out) : ExactOrAll a out := by
  unfold curveBody at h
  repeat' (first | split at h | (dsimp only at h))
  all_goals first | (injection h with h; subst h; exact Or.inl (keepMask_exact a _)) | cases h

theorem curveZBody_exact {sqrt : Rat → Rat} {a out : Arr} {z normal : List Num} (h : curveZBody sqrt a z normal = .ok out) : ExactOrAll a out := by
  unfold curveZBody at h
  repeat' (first | split at h | (dsimp only at h))
  all_goals first | (injection h with h; subst h; exact Or.inl (keepMask_exact a _)) | cases h

theorem meanToMidBody_exact {a out : Arr} {iz : Bool} {normal : List Num} (h : meanToMidBody a iz normal = .ok out) : ExactOrAll a out := by
  unfold meanToMidBody at h
  repeat' (first | split at h | (dsimp only at h))
  all_goals first | exact curveBody_exact h | cases h

theorem go_exact {a out : Arr} {tt ft : Option Num} {hl : Bool} (h : exec.go a tt ft hl = .ok out) : ExactOrAll a out := by
  unfold exec.go at h
  repeat' (first | split at h | (dsimp only at h))
  all_goals first
    | (obtain ⟨o, ho, rfl⟩ := fuzzyClamp_ok h; injection ho with ho; subst ho; exact (linMap_exact _ _ _ _ a).mapCells (insure_mask _ _))
    | cases h

/-- the 16 commands that take one input field -/
def isUnary : DataCmd → Bool
  | .copy | .normalize .. | .normalizeZScore .. | .normalizeCat .. | .normalizeCurve .. | .normalizeMeanToMid .. | .normalizeCurveZScore ..
  | .cvtToFuzzy .. | .cvtToFuzzyZScore .. | .cvtToFuzzyCat .. | .cvtToFuzzyCurve .. | .cvtToFuzzyMeanToMid .. | .cvtToFuzzyCurveZScore ..
  | .cvtToBinary .. | .fuzzyNot | .cvtFromFuzzy .. => true
  | _ => false

/-- **C03 (no leak in the other direction).**  A single-input conversion or normalisation marks a cell missing only where its input is
missing - unless the mapping is undefined for the array as a whole (no spread of values to normalise, zero standard deviation,
coinciding thresholds), in which case every cell is missing.  All 16 single-input commands; for the n-ary ones the cell theorems of C06/C07
(`sum_cell`, `or_cell`, `mean_cell`, `weightedSum_cell`, ...) give the mask exactly as the union of the input masks. -/
theorem single_input_mask_exact (sqrt : Rat → Rat) (c : DataCmd) (hc : isUnary c = true) (a out : Arr) (h : exec sqrt c [a] = .ok out) : ExactOrAll a out := by
  cases c <;> simp only [exec] at h <;> (try (simp [isUnary] at hc; done))
  case copy => injection h with h; subst h; exact Or.inl (List.forall₂_same.mpr fun _ _ => rfl)
  case normalize s e =>
    split at h
    · injection h with h; subst h; exact linSteps_exact _ _ _ _ _
    · injection h with h; subst h; exact Or.inr (map_lall (f := fun c => ⟨c.val, true⟩) (fun _ => rfl) _)
  case normalizeZScore tt ft s e => exact zScoreBody_exact h
  case normalizeCat raw nv d => exact catBody_exact h
  case normalizeCurve raw nv => exact curveBody_exact h
  case normalizeMeanToMid iz nv => exact meanToMidBody_exact h
  case normalizeCurveZScore z nv => exact curveZBody_exact h
  case cvtToFuzzy tt ft dir =>
    repeat' (first | split at h | (dsimp only at h))
    all_goals first | exact go_exact h | cases h
  case cvtToFuzzyZScore tt ft => exact clamp_exact (fun o ho => zScoreBody_exact ho) h
  case cvtToFuzzyCat raw fz d => exact clamp_exact (fun o ho => catBody_exact ho) h
  case cvtToFuzzyCurve raw fz => exact clamp_exact (fun o ho => curveBody_exact ho) h
  case cvtToFuzzyMeanToMid iz fz => exact clamp_exact (fun o ho => meanToMidBody_exact ho) h
  case cvtToFuzzyCurveZScore z fz => exact clamp_exact (fun o ho => curveZBody_exact ho) h
  case cvtToBinary th dir =>
    split at h
    · cases h
    · exact clamp_exact (fun o ho => by injection ho with ho; subst ho; exact Or.inl (keepMask_exact _ _)) h
  case fuzzyNot => exact clamp_exact (fun o ho => by injection ho with ho; subst ho; exact Or.inl (map_leq (sc_mask _) _)) h
  case cvtFromFuzzy tt ft =>
    split at h
    · cases h
    · injection h with h; subst h; exact linMap_exact _ _ _ _ _

end MPilot.C03
