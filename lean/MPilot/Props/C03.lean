/- C03 — theorems under construction -/
import MPilot.Model.Eems
