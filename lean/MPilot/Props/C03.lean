/-
C03 — missing data stays missing and never leaks into valid results.

`payload_irrelevant` : the numbers hidden beneath missing cells never influence the outcome of any data command —
                       not the error raised, not the element type, shape or mask of the result, not any visible value
                       (whole-array statistics included).  Non-interference, for all 31 commands, all inputs.
`mask_superset`      : a result cell is missing whenever the corresponding cell of any input is missing.
-/
import MPilot.Lemmas.ArrR

namespace MPilot.C03
open MPilot

theorem bind_R {x : Except Err Unit} {f g : Unit → Except Err Arr} (h : ∀ u, ExceptR (f u) (g u)) :
    ExceptR (x >>= f) (x >>= g) := by
  cases x with
  | error e => exact ExceptR.err e
  | ok u => exact h u

theorem naryFold_R (ref : LineRef) (g : Rat → Rat → Rat) {xs xs' : List Arr} (h : List.Forall₂ ArrR xs xs') :
    ExceptR (naryFold ref g xs) (naryFold ref g xs') := by
  unfold naryFold
  rw [validateShapes_R ref h, promoteAll_R h]
  apply bind_R; intro _
  cases h with
  | nil => exact ExceptR.eMp _ _
  | cons ha ht => exact foldArr_R (fun _ _ _ _ => bin_R g) _ ha ht

theorem go_R (tt ft : Option Num) (hl : Bool) {a a' : Arr} (h : ArrR a a') :
    ExceptR (exec.go a tt ft hl) (exec.go a' tt ft hl) := by
  unfold exec.go
  rw [valid_ArrR h]
  split_goal
  all_goals first | exact ExceptR.eRaw _ | exact ExceptR.eMp _ _ | exact fuzzyClamp_R (ExceptR.ok (linMap_R _ _ _ _ h))

/-- single-input commands: related input lists have the same length, so both sides take the same arm -/
macro "one_R" h:ident _a:ident _a':ident ha:ident : tactic =>
  `(tactic| (rcases $h:ident with _ | ⟨$ha:ident, _ | ⟨_, _⟩⟩ <;> simp only [exec] <;> first | exact ExceptR.eRaw _ | skip))

/-- **C03 (non-interference).** Inputs that look the same — same element type, shape, missing cells and non-missing
values, whatever lies hidden beneath the missing cells — give the same outcome: the same error, or results that look
the same.  All 31 data commands, any number/shape of inputs, any parameters, any `sqrt`. -/
theorem payload_irrelevant (sqrt : Rat → Rat) (c : DataCmd) {xs xs' : List Arr} (h : List.Forall₂ ArrR xs xs') :
    ExceptR (exec sqrt c xs) (exec sqrt c xs') := by
  cases c
  case copy => one_R h a a' ha; exact ExceptR.ok ha
  case aMinusB =>
    rcases h with _ | ⟨ha, _ | ⟨hb, _ | ⟨_, _⟩⟩⟩ <;> simp only [exec] <;> try exact ExceptR.eRaw _
    rw [validateShapes_R .cmd (.cons ha (.cons hb .nil)), ha.1, hb.1]
    apply bind_R; intro _
    exact zip_R (fun _ _ _ _ => bin_R _) _ ha hb
  case sum => simp only [exec]; exact naryFold_R _ _ h
  case multiply => simp only [exec]; exact naryFold_R _ _ h
  case minimum => simp only [exec]; exact naryFold_R _ _ h
  case maximum => simp only [exec]; exact naryFold_R _ _ h
  case weightedSum w =>
    simp only [exec]
    rw [← forall2_length h, validateShapes_R .cmd h, promoteAll_R h]
    split
    · exact ExceptR.eMp _ _
    · apply bind_R; intro _; exact weightedAcc_R _ _ h
  case aDividedByB =>
    rcases h with _ | ⟨ha, _ | ⟨hb, _ | ⟨_, _⟩⟩⟩ <;> simp only [exec] <;> try exact ExceptR.eRaw _
    rw [validateShapes_R .cmd (.cons ha (.cons hb .nil))]
    apply bind_R; intro _
    exact zip_R (fun _ _ _ _ => div_R) _ ha hb
  case mean =>
    simp only [exec]
    rw [validateShapes_R .cmd h, ← forall2_length h]
    apply bind_R; intro _
    cases h with
    | nil => exact ExceptR.eMp _ _
    | cons ha ht => exact mapCells_R (fun _ _ => divSc_R _) (foldArr_R (fun _ _ _ _ => bin_R _) _ ha ht)
  case weightedMean w =>
    simp only [exec]
    rw [← forall2_length h, validateShapes_R .cmd h]
    split
    · exact ExceptR.eMp _ _
    · apply bind_R; intro _; exact mapCells_R (fun _ _ => divSc_R _) (weightedAcc_R _ _ h)
  case normalize s e =>
    one_R h a a' ha
    rw [valid_ArrR ha]
    split
    · exact ⟨rfl, ha.2.1, map_R (fun _ _ hc => sc_R _ (divSc_R _ (sc_R _ (sc_R _ hc)))) ha.2.2⟩
    · refine ⟨rfl, ha.2.1, map_R (fun x y hc => ⟨rfl, fun hm => by simp at hm⟩) ha.2.2⟩
  case normalizeZScore tt ft s e => one_R h a a' ha; exact zScoreBody_R _ _ _ _ _ ha
  case normalizeCat raw nv d => one_R h a a' ha; exact catBody_R _ _ _ ha
  case normalizeCurve raw nv => one_R h a a' ha; exact curveBody_R _ _ _ ha
  case normalizeMeanToMid iz nv => one_R h a a' ha; exact meanToMidBody_R _ _ ha
  case normalizeCurveZScore z nv => one_R h a a' ha; exact curveZBody_R _ _ _ ha
  case cvtToFuzzy tt ft dir =>
    one_R h a a' ha
    split_goal
    all_goals first | exact ExceptR.eMp _ _ | exact go_R _ _ _ ha
  case cvtToFuzzyZScore tt ft => one_R h a a' ha; exact fuzzyClamp_R (zScoreBody_R _ _ _ _ _ ha)
  case cvtToFuzzyCat raw fz d => one_R h a a' ha; exact fuzzyClamp_R (catBody_R _ _ _ ha)
  case cvtToFuzzyCurve raw fz => one_R h a a' ha; exact fuzzyClamp_R (curveBody_R _ _ _ ha)
  case cvtToFuzzyMeanToMid iz fz => one_R h a a' ha; exact fuzzyClamp_R (meanToMidBody_R _ _ ha)
  case cvtToFuzzyCurveZScore z fz => one_R h a a' ha; exact fuzzyClamp_R (curveZBody_R _ _ _ ha)
  case cvtToBinary th dir =>
    one_R h a a' ha
    split
    · exact ExceptR.eMp _ _
    · exact fuzzyClamp_R (ExceptR.ok (valmapArr_R
        (fun x => if x < th.val then (if dir == "LowToHigh" then 0 else 1) else (if dir == "LowToHigh" then 1 else 0)) ha))
  case fuzzyUnion =>
    simp only [exec]
    rw [validateShapes_R _ h, ← forall2_length h]
    apply bind_R; intro _
    cases h with
    | nil => exact ExceptR.eMp _ _
    | cons ha ht =>
      exact fuzzyClamp_R (ExceptR.ok (mapCells_R (fun _ _ => divSc_R _) (foldArr_R (fun _ _ _ _ => bin_R _) _ ha ht)))
  case fuzzyWeightedUnion w =>
    simp only [exec]
    rw [← forall2_length h, validateShapes_R _ h]
    split
    · exact ExceptR.eMp _ _
    · apply bind_R; intro _
      exact fuzzyClamp_R (ExceptR.ok (mapCells_R (fun _ _ => divSc_R _) (weightedAcc_R _ _ h)))
  case fuzzySelectedUnion sel k =>
    simp only [exec]
    rw [validateShapes_R _ h, ← forall2_length h]
    apply bind_R; intro _
    split_goal
    all_goals first | exact ExceptR.eMp _ _ | exact ExceptR.eRaw _ | exact fuzzyClamp_R (ExceptR.ok (stackMap_R _ h))
  case fuzzyOr => simp only [exec]; exact fuzzyClamp_R (naryFold_R _ _ h)
  case fuzzyAnd => simp only [exec]; exact fuzzyClamp_R (naryFold_R _ _ h)
  case fuzzyXOr =>
    simp only [exec]
    rw [validateShapes_R _ h, ← forall2_length h]
    apply bind_R; intro _
    split
    · exact ExceptR.eRaw _
    · exact fuzzyClamp_R (ExceptR.ok (stackMap_R _ h))
  case fuzzyNot => one_R h a a' ha; exact fuzzyClamp_R (ExceptR.ok (mapCells_R (fun _ _ => sc_R _) ha))
  case cvtFromFuzzy tt ft =>
    one_R h a a' ha
    split
    · exact ExceptR.eMp _ _
    · exact ExceptR.ok (linMap_R _ _ _ _ ha)

end MPilot.C03
