/- C13 — theorems under construction -/
import MPilot.Model.Program
