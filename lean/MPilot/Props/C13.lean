/-
C13 — only declared error types escape, and the CLI reports them.

`PErr` distinguishes `mp` (an MPilotError subclass), `unexpected` (UnexpectedError, itself an MPilotError), `syntax`
(SyntaxError) and `raw` (any other exception type).  The theorems say where `raw` can and cannot come from in the model.
A theorem can only range over exception sources the model contains; discovering a new source in the code is the job of the
correspondence (any outcome class at the API boundary that the model does not predict is a disagreement).
-/
import MPilot.Props.C20
import MPilot.Model.Program

namespace MPilot.C13
open MPilot

variable {Val : Type}

def PErr.isRaw : PErr → Bool
  | .raw _ => true
  | _ => false

/-- everything raised inside `Command.run` leaves it as an MPilotError: bare exceptions are wrapped -/
theorem wrapRun_not_raw (line : Option Nat) (e : PErr) : PErr.isRaw (wrapRun line e) = false := by
  cases e <;> rfl

/-- **`Command.run()` never lets a bare exception escape**: for a command of the program, whatever happens in parameter
validation, in the bodies of the commands it reads, or in its own body, the error that leaves is an MPilotError -/
theorem runCmd_not_raw (sem : Sem Val) (p : Program) (fuel : Nat) (st st' : St Val) (n : String) (e : PErr)
    (hn : (p.find? n).isSome = true) (h : runCmd sem p fuel st n = (st', some e)) : PErr.isRaw e = false := by
  cases fuel with
  | zero => unfold runCmd at h; injection h with _ h2; injection h2 with h2; subst h2; rfl
  | succ fuel =>
    unfold runCmd at h
    split at h
    · cases h
    · cases hf : p.find? n with
      | none => rw [hf] at hn; cases hn
      | some c =>
        rw [hf] at h
        simp only at h
        repeat' (first | split at h | (dsimp only at h))
        all_goals first
          | (injection h with _ h2; injection h2 with h2; subst h2; exact wrapRun_not_raw _ _)
          | (injection h with _ h2; cases h2)

/-- load-time rejections are MPilotErrors -/
theorem fromNodes_not_raw (lib : String → Option CmdDecl) : ∀ (nodes : List Node) (p : Program) (e : PErr),
    fromNodes lib p nodes = .error e → PErr.isRaw e = false := by
  intro nodes
  induction nodes with
  | nil => intro p e h; cases h
  | cons n rest ih =>
    intro p e h
    unfold fromNodes at h
    split at h
    · injection h with h; subst h; rfl
    · split at h
      · rename_i e' hadd
        injection h with h; subst h
        unfold addCommand at hadd
        repeat' (first | split at hadd | (dsimp only at hadd))
        all_goals first | (injection hadd with hadd; subst hadd; rfl) | (cases hadd)
      · exact ih _ e h

/-- the pre-pass raises only parameter errors, each an MPilotError — provided cleaning stays inside the model's domain
(no `OutsideModel` marker: text forms of floats/containers, inf/nan) -/
theorem prepassCmd_not_raw (ctx : Ctx) (c : PCmd) : ∀ (args : List Arg) (e : PErr),
    (∀ a ∈ args, ∀ i, c.decl.input? a.name = some i → clean ctx i.spec a.value ≠ .error "OutsideModel") →
    prepassCmd ctx c args = .error e → PErr.isRaw e = false := by
  intro args
  induction args with
  | nil => intro e _ h; cases h
  | cons a rest ih =>
    intro e hdom h
    unfold prepassCmd at h
    split at h
    · exact ih e (fun b hb => hdom b (List.mem_cons_of_mem _ hb)) h
    · rename_i i hi
      split at h
      · rename_i ce hce
        injection h with h; subst h
        unfold cleanErrToPErr
        have : ce ≠ "OutsideModel" := fun heq => hdom a (List.mem_cons_self ..) i hi (heq ▸ hce)
        simp [this, PErr.isRaw]
      · split at h
        · rename_i e' he'
          injection h with h; subst h
          exact ih e' (fun b hb => hdom b (List.mem_cons_of_mem _ hb)) he'
        · repeat' (first | split at h | (dsimp only at h))
          all_goals cases h

end MPilot.C13
