/-
C17 — "Writing produces a header of the result names in the listed order and one row per cell".

`Model/Csv.csvWriteTable` is the table `EEMSWrite` assembles; `csv_table_roundtrip` (Props/C17.lean) says the reader's record splitter inverts the
writer's row format.  Together:
* `written_table_records`: the text written for results `names` with cells `cols` is read back as exactly the header `names` followed by one
  record per cell, record `i` holding cell `i` of every result in the listed order - whatever the names and cell texts contain (commas, quotes,
  line breaks);
* `written_table_row_count`: one row per cell; `written_table_cell`: record `i`, column `j` is cell `i` of result `j`.
-/
import MPilot.Props.C17

namespace MPilot.C17
open MPilot

theorem writeTable_chars (names : List String) (cols : List (List String)) :
    (csvWriteTable names cols).toList = (csvTableRows names cols).flatMap fun r => (csvWriteRow r).toList := by
  unfold csvWriteTable; simp

/-- **the written table reads back as the header and one record per cell** -/
theorem written_table_records (names : List String) (cols : List (List String)) :
    csvRows (csvWriteTable names cols).toList = csvTableRows names cols := by
  rw [writeTable_chars]; exact csv_table_roundtrip _

theorem written_table_row_count (names : List String) (c : List String) (cols : List (List String)) :
    (csvTableRows names (c :: cols)).length = c.length + 1 := by
  simp [csvTableRows]

theorem written_table_cell (names : List String) (cols : List (List String)) (c0 : List String) (rest : List (List String)) (hc : cols = c0 :: rest)
    (i j : Nat) (hi : i < c0.length) (col : List String) (hj : cols[j]? = some col) :
    ((csvTableRows names cols)[i + 1]?).bind (·[j]?) = some (col.getD i "") := by
  subst hc
  simp only [csvTableRows, List.head?_cons, Option.map_some, Option.getD_some, List.getElem?_cons_succ, List.getElem?_map, List.getElem?_range hi,
    Option.map_some, Option.bind_some]
  rw [hj]; rfl

end MPilot.C17
