/-
C18 — "... with the template's dimension variables and coordinate values copied unchanged".

`Model/NetCdf.ncLayout` is the frame `EEMSWrite` builds around the results.  Proved here, for every template, template field and list of results:
* `layoutDims_spec` / `layout_coordinates_copied`: for every dimension of the template field the output file has that dimension, sized like its
  coordinate variable, and a coordinate variable of the same name, element type, attributes and VALUES as the template's;
* `layout_results_on_grid`: every result gets a variable over exactly the template field's dimensions, carrying the CRS attributes found in the template;
* `layout_missing_coordinate`: a dimension without coordinate variable is an error before anything else is created for it (never a silently
  dropped dimension).
Attribute and coordinate values are opaque tokens (copied, never computed with): that the library stores what it is handed is assumed (C18 is
partial by nature); the correspondence compares the frame of real output files with this model.
-/
import MPilot.Model.NetCdf
import Mathlib.Tactic.Common

namespace MPilot.C18L
open MPilot

/-- the coordinate variable created for dimension `d` from the template's `cv` -/
def coordOf (d : String) (cv : NcVarD) : NcVarD := { name := d, dtype := cv.dtype, dims := [d], attrs := cv.attrs, data := cv.data }

theorem layoutDims_spec (tpl : NcFile) : ∀ (ds : List String) (out out' : NcFile), layoutDims tpl ds out = .ok out' →
    (∃ moreD moreV, out'.dims = out.dims ++ moreD ∧ out'.vars = out.vars ++ moreV) ∧
    ∀ d ∈ ds, ∃ cv, tpl.var? d = some cv ∧ coordOf d cv ∈ out'.vars ∧ (d, cv.data.length) ∈ out'.dims := by
  intro ds
  induction ds with
  | nil =>
    intro out out' h
    simp only [layoutDims] at h
    injection h with h; subst h
    exact ⟨⟨[], [], by simp, by simp⟩, by intro d hd; cases hd⟩
  | cons d rest ih =>
    intro out out' h
    unfold layoutDims at h
    split at h
    · cases h
    · rename_i cv hcv
      split at h
      · cases h
      · obtain ⟨⟨mD, mV, hD, hV⟩, hall⟩ := ih _ out' h
        refine ⟨⟨(d, cv.data.length) :: mD, coordOf d cv :: mV, by rw [hD]; simp, by rw [hV]; simp [coordOf, copyAttrs]⟩, ?_⟩
        intro x hx
        rcases List.mem_cons.mp hx with rfl | hx
        · refine ⟨cv, hcv, ?_, ?_⟩
          · rw [hV]; simp [coordOf, copyAttrs]
          · rw [hD]; simp
        · exact hall x hx

/-- **the template's dimension variables and coordinate values are copied unchanged** -/
theorem layout_coordinates_copied (tpl : NcFile) (dimField : String) (names : List String) (out : NcFile) (field : NcVarD)
    (hf : tpl.var? dimField = some field) (h : ncLayout tpl dimField names = .ok out) :
    ∀ d ∈ field.dims, ∃ cv, tpl.var? d = some cv ∧ coordOf d cv ∈ out.vars ∧ (d, cv.data.length) ∈ out.dims := by
  unfold ncLayout at h
  rw [hf] at h
  simp only at h
  split at h
  · cases h
  · rename_i out1 h1
    obtain ⟨_, hall⟩ := layoutDims_spec tpl field.dims _ out1 h1
    injection h with h
    subst h
    intro d hd
    obtain ⟨cv, hcv, hv, hdim⟩ := hall d hd
    refine ⟨cv, hcv, ?_, ?_⟩
    · simp only [List.mem_append]
      left
      split
      · exact hv
      · simp only [List.mem_append]; left; exact hv
    · split
      · exact hdim
      · simp only
        -- the grid-mapping variable only ever adds dimensions
        rename_i g _
        have : ∀ (l : List String) (acc : List (String × Nat)), (d, cv.data.length) ∈ acc →
            (d, cv.data.length) ∈ l.foldl (fun acc d => if (acc.find? (·.1 == d)).isSome then acc else acc ++ [(d, (tpl.dim? d).getD 0)]) acc := by
          intro l
          induction l with
          | nil => intro acc h; exact h
          | cons x l ih =>
            intro acc h
            simp only [List.foldl_cons]
            apply ih
            split
            · exact h
            · exact List.mem_append_left _ h
        exact this _ _ hdim

/-- every result is written over exactly the dimensions of the template field -/
theorem layout_results_on_grid (tpl : NcFile) (dimField : String) (names : List String) (out : NcFile) (field : NcVarD)
    (hf : tpl.var? dimField = some field) (h : ncLayout tpl dimField names = .ok out) :
    ∀ n ∈ names, ∃ v ∈ out.vars, v.name = n ∧ v.dims = field.dims := by
  unfold ncLayout at h
  rw [hf] at h
  simp only at h
  split at h
  · cases h
  · injection h with h
    subst h
    intro n hn
    simp only [List.mem_append, List.mem_map]
    exact ⟨_, Or.inr ⟨n, hn, rfl⟩, rfl, rfl⟩

/-- a dimension of the template field that has no coordinate variable: the write fails (the error the library raises for the look-up) -/
theorem layout_missing_coordinate (tpl : NcFile) (dimField : String) (names : List String) (field : NcVarD) (d : String)
    (hf : tpl.var? dimField = some field) (hd : field.dims = [d]) (hno : tpl.var? d = none) :
    ncLayout tpl dimField names = .error "IndexError" := by
  unfold ncLayout
  rw [hf]
  simp only [hd, layoutDims, hno]

/-- non-vacuity: a 2 x 3 template with CRS information -/
def exTemplate : NcFile :=
  NcFile.mk [("y", 2), ("x", 3), ("c", 1)]
    [NcVarD.mk "y" "<f8" ["y"] [("units", "m")] ["1.5", "2.5"], NcVarD.mk "x" "<i4" ["x"] [] ["1", "2", "3"],
     NcVarD.mk "crs" "<i4" ["c"] [("grid_mapping_name", "latlon")] ["7"],
     NcVarD.mk "elev" "<f8" ["y", "x"] [("esri_pe_string", "PE"), ("grid_mapping", "crs")] []]

example : ncLayout exTemplate "elev" ["R"] = .ok (NcFile.mk [("y", 2), ("x", 3), ("c", 1)]
    [NcVarD.mk "y" "<f8" ["y"] [("units", "m")] ["1.5", "2.5"], NcVarD.mk "x" "<i4" ["x"] [] ["1", "2", "3"],
     NcVarD.mk "crs" "<i4" ["c"] [("grid_mapping_name", "latlon")] [],
     NcVarD.mk "R" "" ["y", "x"] [("esri_pe_string", "PE"), ("grid_mapping", "crs")] []]) := by
  decide +kernel

end MPilot.C18L
