/-
C15 — serialising a program and loading it back gives the same program.

Proved here: the heart of the matter for string values.  Whatever text a string value or metadata entry holds — quotes, backslashes
before any character, control characters, any Unicode code point — the serializer's `quote()` writes a token that the lexer scans as
one STRING token and decodes back to exactly that text (`quote_roundtrip`).  The statement for whole programs is decided by the
round-trip oracle on the implementation and by the character-exact correspondence of `to_string()` with `Model/Serialize`.
-/
import MPilot.Model.Serialize
import Mathlib.Tactic.Common
import Mathlib.Tactic.IntervalCases

namespace MPilot.C15
open MPilot

/-! ### scanning: the quoted text is one STRING token -/

theorem scan_quote (cs rest acc : List Char) :
    scanStringBody '"' (quoteChars cs ++ '"' :: rest) acc = some (acc.reverse ++ quoteChars cs, rest) := by
  induction cs generalizing acc with
  | nil => simp only [quoteChars, List.nil_append, List.append_nil]; unfold scanStringBody; simp
  | cons c t ih =>
    unfold quoteChars
    by_cases h1 : c = '\\'
    · subst h1
      simp only [beq_self_eq_true, if_true, List.cons_append, List.nil_append]
      unfold scanStringBody
      simp only [show ('\\' == '"') = false by decide, Bool.false_eq_true, if_false, beq_self_eq_true, if_true,
        show ('\\' == '\n') = false by decide]
      rw [ih]; simp
    · by_cases h2 : c = '"'
      · subst h2
        simp only [show ('"' == '\\') = false by decide, Bool.false_eq_true, if_false, beq_self_eq_true, if_true, List.cons_append, List.nil_append]
        unfold scanStringBody
        simp only [show ('\\' == '"') = false by decide, Bool.false_eq_true, if_false, beq_self_eq_true, if_true,
          show ('"' == '\n') = false by decide]
        rw [ih]; simp
      · by_cases h3 : c = '\n'
        · subst h3
          simp only [show ('\n' == '\\') = false by decide, show ('\n' == '"') = false by decide, Bool.false_eq_true, if_false,
            beq_self_eq_true, if_true, List.cons_append, List.nil_append]
          unfold scanStringBody
          simp only [show ('\\' == '"') = false by decide, Bool.false_eq_true, if_false, beq_self_eq_true, if_true,
            show ('n' == '\n') = false by decide]
          rw [ih]; simp
        · by_cases h4 : c = '\r'
          · subst h4
            simp only [show ('\r' == '\\') = false by decide, show ('\r' == '"') = false by decide, show ('\r' == '\n') = false by decide,
              Bool.false_eq_true, if_false, beq_self_eq_true, if_true, List.cons_append, List.nil_append]
            unfold scanStringBody
            simp only [show ('\\' == '"') = false by decide, Bool.false_eq_true, if_false, beq_self_eq_true, if_true,
              show ('r' == '\n') = false by decide]
            rw [ih]; simp
          · by_cases h5 : c = '\t'
            · subst h5
              simp only [show ('\t' == '\\') = false by decide, show ('\t' == '"') = false by decide, show ('\t' == '\n') = false by decide,
                show ('\t' == '\r') = false by decide, Bool.false_eq_true, if_false, beq_self_eq_true, if_true, List.cons_append, List.nil_append]
              unfold scanStringBody
              simp only [show ('\\' == '"') = false by decide, Bool.false_eq_true, if_false, beq_self_eq_true, if_true,
                show ('t' == '\n') = false by decide]
              rw [ih]; simp
            · have e1 : (c == '\\') = false := by simpa using h1
              have e2 : (c == '"') = false := by simpa using h2
              have e3 : (c == '\n') = false := by simpa using h3
              have e4 : (c == '\r') = false := by simpa using h4
              have e5 : (c == '\t') = false := by simpa using h5
              simp only [e1, e2, e3, e4, e5, Bool.false_eq_true, if_false, List.cons_append, List.nil_append]
              unfold scanStringBody
              simp only [e1, e2, Bool.false_eq_true, if_false]
              rw [ih]; simp

/-! ### decoding: the escapes written by `quote()` (and by `backslashreplace`) decode to the original characters -/

theorem hexValue_hexDig (d : Nat) (h : d < 16) : hexValue? (hexDig d) = some d := by
  interval_cases d <;> rfl

theorem hexN4 (n : Nat) : hexN 4 n = [hexDig (n / 4096 % 16), hexDig (n / 256 % 16), hexDig (n / 16 % 16), hexDig (n % 16)] := by
  simp [hexN, List.range, List.range.loop]

theorem hexN8 (n : Nat) : hexN 8 n = [hexDig (n / 268435456 % 16), hexDig (n / 16777216 % 16), hexDig (n / 1048576 % 16), hexDig (n / 65536 % 16),
    hexDig (n / 4096 % 16), hexDig (n / 256 % 16), hexDig (n / 16 % 16), hexDig (n % 16)] := by
  simp [hexN, List.range, List.range.loop]

theorem hexRun4 (n : Nat) (h : n < 65536) (r : List Char) : hexRun 4 (hexN 4 n ++ r) = some (n, r) := by
  rw [hexN4]
  simp only [hexRun, List.cons_append, List.nil_append, List.length_cons, List.take, List.drop, List.foldlM_cons, List.foldlM_nil,
    hexValue_hexDig _ (Nat.mod_lt _ (by decide : 16 > 0)), Option.map_some, Option.bind_some, Option.pure_def, bind, Option.bind]
  have : ¬ (r.length + 1 + 1 + 1 + 1 < 4) := by omega
  simp only [this, if_false, Option.map_some, Option.some.injEq, Prod.mk.injEq, and_true]
  omega

theorem hexRun8 (n : Nat) (h : n < 4294967296) (r : List Char) : hexRun 8 (hexN 8 n ++ r) = some (n, r) := by
  rw [hexN8]
  simp only [hexRun, List.cons_append, List.nil_append, List.length_cons, List.take, List.drop, List.foldlM_cons, List.foldlM_nil,
    hexValue_hexDig _ (Nat.mod_lt _ (by decide : 16 > 0)), Option.map_some, Option.bind_some, Option.pure_def, bind, Option.bind]
  have : ¬ (r.length + 1 + 1 + 1 + 1 + 1 + 1 + 1 + 1 < 8) := by omega
  simp only [this, if_false, Option.map_some, Option.some.injEq, Prod.mk.injEq, and_true]
  omega

theorem dec_plain (fuel : Nat) (c : Char) (r acc : List Char) (h : c ≠ '\\') :
    decodeEscapes (fuel + 1) (c :: r) acc = decodeEscapes fuel r (c :: acc) := by
  rw [decodeEscapes]
  · intro hc; exact h hc

theorem dec_bs_bs (fuel : Nat) (r acc : List Char) : decodeEscapes (fuel + 1) ('\\' :: '\\' :: r) acc = decodeEscapes fuel r ('\\' :: acc) := by
  rw [decodeEscapes]
theorem dec_bs_dq (fuel : Nat) (r acc : List Char) : decodeEscapes (fuel + 1) ('\\' :: '"' :: r) acc = decodeEscapes fuel r ('"' :: acc) := by
  rw [decodeEscapes]
theorem dec_bs_n (fuel : Nat) (r acc : List Char) : decodeEscapes (fuel + 1) ('\\' :: 'n' :: r) acc = decodeEscapes fuel r ('\n' :: acc) := by
  rw [decodeEscapes]
theorem dec_bs_r (fuel : Nat) (r acc : List Char) : decodeEscapes (fuel + 1) ('\\' :: 'r' :: r) acc = decodeEscapes fuel r ('\r' :: acc) := by
  rw [decodeEscapes]
theorem dec_bs_t (fuel : Nat) (r acc : List Char) : decodeEscapes (fuel + 1) ('\\' :: 't' :: r) acc = decodeEscapes fuel r ('\t' :: acc) := by
  rw [decodeEscapes]

theorem dec_bs_u (fuel : Nat) (r r' acc : List Char) (v : Nat) (h : hexRun 4 r = some (v, r')) (hs : ¬(0xD800 ≤ v ∧ v ≤ 0xDFFF)) :
    decodeEscapes (fuel + 1) ('\\' :: 'u' :: r) acc = decodeEscapes fuel r' (Char.ofNat v :: acc) := by
  rw [decodeEscapes]
  simp only [h, hs, if_false]

theorem dec_bs_U (fuel : Nat) (r r' acc : List Char) (v : Nat) (h : hexRun 8 r = some (v, r')) (hv : ¬ v > 0x10FFFF)
    (hs : ¬(0xD800 ≤ v ∧ v ≤ 0xDFFF)) :
    decodeEscapes (fuel + 1) ('\\' :: 'U' :: r) acc = decodeEscapes fuel r' (Char.ofNat v :: acc) := by
  rw [decodeEscapes]
  simp only [h, hv, hs, if_false]

theorem char_not_surrogate (c : Char) : ¬(0xD800 ≤ c.toNat ∧ c.toNat ≤ 0xDFFF) := by
  have := c.valid
  unfold Char.toNat
  rcases this with h | ⟨h1, h2⟩
  · intro ⟨h3, _⟩; exact absurd h (by omega)
  · intro ⟨_, h4⟩; omega

theorem char_le_max (c : Char) : ¬ c.toNat > 0x10FFFF := by
  have := c.valid
  unfold Char.toNat
  rcases this with h | ⟨h1, h2⟩ <;> omega

theorem bsr_cons (c : Char) (t : List Char) : backslashReplace (c :: t) = backslashReplace [c] ++ backslashReplace t := by
  simp [backslashReplace]

theorem bsr_append (a b : List Char) : backslashReplace (a ++ b) = backslashReplace a ++ backslashReplace b := by
  simp [backslashReplace]

theorem bsr_ascii (c : Char) (h : c.toNat ≤ 255) : backslashReplace [c] = [c] := by
  simp [backslashReplace, h]

/-- **decoding inverts quoting**, for every text: escapes of backslash, quote, newline, carriage return and tab come back as those
characters; every other character up to U+00FF passes through; every character above is written as `\\uXXXX` / `\\UXXXXXXXX` by
the latin-1/backslashreplace step and decoded back to itself -/
theorem decode_quote (cs : List Char) : ∀ (fuel : Nat) (acc : List Char), (backslashReplace (quoteChars cs)).length < fuel →
    decodeEscapes fuel (backslashReplace (quoteChars cs)) acc = .ok (acc.reverse ++ cs) := by
  induction cs with
  | nil =>
    intro fuel acc hf
    cases fuel with
    | zero => omega
    | succ f => simp [quoteChars, backslashReplace, decodeEscapes]
  | cons c t ih =>
    intro fuel acc hf
    cases fuel with
    | zero => omega
    | succ f =>
      unfold quoteChars at hf ⊢
      have two : ∀ (x y : Char), x.toNat ≤ 255 → y.toNat ≤ 255 →
          backslashReplace ([x, y] ++ quoteChars t) = x :: y :: backslashReplace (quoteChars t) := by
        intro x y hx hy
        rw [bsr_append, show [x, y] = [x] ++ [y] by rfl, bsr_append, bsr_ascii x hx, bsr_ascii y hy]; rfl
      by_cases h1 : c = '\\'
      · subst h1
        simp only [beq_self_eq_true, if_true] at hf ⊢
        rw [two _ _ (by decide) (by decide)] at hf ⊢
        rw [dec_bs_bs, ih f _ (by simp at hf ⊢; omega)]; simp
      · by_cases h2 : c = '"'
        · subst h2
          simp only [show ('"' == '\\') = false by decide, Bool.false_eq_true, if_false, beq_self_eq_true, if_true] at hf ⊢
          rw [two _ _ (by decide) (by decide)] at hf ⊢
          rw [dec_bs_dq, ih f _ (by simp at hf ⊢; omega)]; simp
        · by_cases h3 : c = '\n'
          · subst h3
            simp only [show ('\n' == '\\') = false by decide, show ('\n' == '"') = false by decide, Bool.false_eq_true, if_false,
              beq_self_eq_true, if_true] at hf ⊢
            rw [two _ _ (by decide) (by decide)] at hf ⊢
            rw [dec_bs_n, ih f _ (by simp at hf ⊢; omega)]; simp
          · by_cases h4 : c = '\r'
            · subst h4
              simp only [show ('\r' == '\\') = false by decide, show ('\r' == '"') = false by decide, show ('\r' == '\n') = false by decide,
                Bool.false_eq_true, if_false, beq_self_eq_true, if_true] at hf ⊢
              rw [two _ _ (by decide) (by decide)] at hf ⊢
              rw [dec_bs_r, ih f _ (by simp at hf ⊢; omega)]; simp
            · by_cases h5 : c = '\t'
              · subst h5
                simp only [show ('\t' == '\\') = false by decide, show ('\t' == '"') = false by decide, show ('\t' == '\n') = false by decide,
                  show ('\t' == '\r') = false by decide, Bool.false_eq_true, if_false, beq_self_eq_true, if_true] at hf ⊢
                rw [two _ _ (by decide) (by decide)] at hf ⊢
                rw [dec_bs_t, ih f _ (by simp at hf ⊢; omega)]; simp
              · have e1 : (c == '\\') = false := by simpa using h1
                have e2 : (c == '"') = false := by simpa using h2
                have e3 : (c == '\n') = false := by simpa using h3
                have e4 : (c == '\r') = false := by simpa using h4
                have e5 : (c == '\t') = false := by simpa using h5
                simp only [e1, e2, e3, e4, e5, Bool.false_eq_true, if_false] at hf ⊢
                rw [bsr_append] at hf ⊢
                by_cases hl : c.toNat ≤ 255
                · rw [bsr_ascii c hl] at hf ⊢
                  simp only [List.cons_append, List.nil_append] at hf ⊢
                  rw [dec_plain _ _ _ _ h1, ih f _ (by simp at hf ⊢; omega)]; simp
                · by_cases hm : c.toNat ≤ 0xFFFF
                  · have hb : backslashReplace [c] = '\\' :: 'u' :: hexN 4 c.toNat := by simp [backslashReplace, hl, hm]
                    rw [hb] at hf ⊢
                    simp only [List.cons_append] at hf ⊢
                    rw [dec_bs_u f _ _ _ c.toNat (hexRun4 c.toNat (by omega) _) (char_not_surrogate c)]
                    rw [ih f _ (by simp [hexN4] at hf ⊢; omega)]
                    simp [Char.ofNat_toNat]
                  · have hb : backslashReplace [c] = '\\' :: 'U' :: hexN 8 c.toNat := by simp [backslashReplace, hl, hm]
                    rw [hb] at hf ⊢
                    simp only [List.cons_append] at hf ⊢
                    have hmax := char_le_max c
                    rw [dec_bs_U f _ _ _ c.toNat (hexRun8 c.toNat (by omega) _) hmax (char_not_surrogate c)]
                    rw [ih f _ (by simp [hexN8] at hf ⊢; omega)]
                    simp [Char.ofNat_toNat]

theorem optSign_q (l : List Char) : optSign ('"' :: l) = (false, '"' :: l) := by
  unfold optSign
  split
  · rename_i h; injection h with h1 _; exact absurd h1 (by decide)
  · rename_i h; injection h with h1 _; exact absurd h1 (by decide)
  · rfl

theorem span_q (l : List Char) : spanDigits ('"' :: l) = ([], '"' :: l) := by
  simp [spanDigits, List.span, List.span.loop, isDig]

theorem scanFloat_q (l : List Char) : scanFloat ('"' :: l) = none := by
  unfold scanFloat scanMantissa
  simp only [optSign_q, span_q]
  simp

theorem scanInt_q (l : List Char) : scanInt ('"' :: l) = none := by
  unfold scanInt
  simp only [optSign_q, span_q]
  simp

/-- **C15 (string values).**  The token `quote(s)` written by the serializer, followed by anything, is scanned as one STRING token whose
value is exactly `s` and whose end is exactly where the closing quote was — for every string `s`. -/
theorem quote_roundtrip (s : String) (rest : List Char) (line : Nat) :
    scanOne ((quoteStr s).toList ++ rest) line =
      .tok ⟨.string, .str s, line⟩ rest (line + countNewlines (quoteChars s.toList)) := by
  have hq : (quoteStr s).toList = '"' :: (quoteChars s.toList ++ ['"']) := by
    simp [quoteStr, String.toList_append]
  rw [hq]
  simp only [List.cons_append, List.append_assoc, List.singleton_append]
  unfold scanOne
  simp only [show isIdStart '"' = false by decide, Bool.false_eq_true, if_false, scanFloat_q, scanInt_q, beq_self_eq_true, Bool.true_or, if_true]
  rw [scan_quote]
  simp only [List.reverse_nil, List.nil_append]
  unfold stringValue
  rw [decode_quote _ _ [] (Nat.lt_succ_self _)]
  simp

/-- quoted text never contains a raw line break, so it does not move the line counter -/
theorem quote_no_newlines (cs : List Char) : countNewlines (quoteChars cs) = 0 := by
  induction cs with
  | nil => rfl
  | cons c t ih =>
    unfold quoteChars
    by_cases h1 : c = '\\'
    · subst h1; simp [countNewlines, ih]
    · by_cases h2 : c = '"'
      · subst h2; simp [countNewlines, ih]
      · by_cases h3 : c = '\n'
        · subst h3; simp [countNewlines, ih]
        · by_cases h4 : c = '\r'
          · subst h4; simp [countNewlines, ih]
          · by_cases h5 : c = '\t'
            · subst h5; simp [countNewlines, ih]
            · have e1 : (c == '\\') = false := by simpa using h1
              have e2 : (c == '"') = false := by simpa using h2
              have e3 : (c == '\n') = false := by simpa using h3
              have e4 : (c == '\r') = false := by simpa using h4
              have e5 : (c == '\t') = false := by simpa using h5
              simp only [e1, e2, e3, e4, e5, Bool.false_eq_true, if_false, List.cons_append, List.nil_append]
              unfold countNewlines
              split
              · rfl
              · rename_i h; injection h with ha _; exact absurd ha h4
              · rename_i h; injection h with ha _; exact absurd ha h4
              · rename_i h; injection h with ha _; exact absurd ha h3
              · rename_i h; injection h with _ hb; rw [← hb]; exact ih

end MPilot.C15
