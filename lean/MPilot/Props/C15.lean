/- C15 — theorems under construction -/
import MPilot.Model.Serialize
