/-
C20 — "relative paths resolved against the working directory".

What `PathParameter.clean` returns for a text value, case by case (the model's `clean` is a function of the value, the working directory and
what exists on disk NOW - nothing remembered from earlier cleanings can enter):
* `path_relative_resolved`: a relative path is joined to the working directory (and must exist there when the parameter says so);
* `path_absolute_kept`: an absolute path is returned as it is, whatever the working directory;
* `path_missing`: a path that must exist and does not - at the moment of cleaning - is `PathDoesNotExist`, also when it existed at an earlier
  cleaning (`path_follows_the_disk`);
* `path_relative_without_wd`: a relative path without working directory is `InvalidRelativePath`.
-/
import MPilot.Model.Params
import Mathlib.Tactic.Common

namespace MPilot.C20P
open MPilot

theorem path_relative_resolved (ctx : Ctx) (me : Bool) (s wd : String) (hrel : posixIsAbs s = false) (hwd : ctx.workingDir = some wd)
    (hex : me = true → ctx.exists_ (posixJoin wd s) = true) :
    clean ctx (.path me) (.str s) = .ok (.str (posixJoin wd s)) := by
  unfold clean
  simp only [pyText, hrel, Bool.not_false, if_true, hwd]
  cases me with
  | false => simp
  | true => simp [hex rfl]

theorem path_absolute_kept (ctx : Ctx) (me : Bool) (s : String) (habs : posixIsAbs s = true) (hex : me = true → ctx.exists_ s = true) :
    clean ctx (.path me) (.str s) = .ok (.str s) := by
  unfold clean
  simp only [pyText, habs, Bool.not_true, Bool.false_eq_true, if_false]
  cases me with
  | false => simp
  | true => simp [hex rfl]

theorem path_missing (ctx : Ctx) (s wd : String) (hwd : ctx.workingDir = some wd)
    (hno : ctx.exists_ (if posixIsAbs s then s else posixJoin wd s) = false) :
    clean ctx (.path true) (.str s) = .error "PathDoesNotExist" := by
  unfold clean
  by_cases habs : posixIsAbs s = true
  · simp only [habs, if_true] at hno
    simp [pyText, habs, hno]
  · have habs' : posixIsAbs s = false := by simpa using habs
    simp only [habs', Bool.false_eq_true, if_false] at hno
    simp [pyText, habs', hwd, hno]

theorem path_relative_without_wd (ctx : Ctx) (me : Bool) (s : String) (hrel : posixIsAbs s = false) (hwd : ctx.workingDir = none) :
    clean ctx (.path me) (.str s) = .error "InvalidRelativePath" := by
  unfold clean
  simp [pyText, hrel, hwd]

/-- **cleaning follows the disk**: two contexts that differ only in what exists give, for a path that exists in the first and not in the second, a
path and `PathDoesNotExist` - in whatever order the two cleanings happen and however often -/
theorem path_follows_the_disk (c1 c2 : Ctx) (s wd : String) (hw1 : c1.workingDir = some wd) (hw2 : c2.workingDir = some wd)
    (h1 : c1.exists_ (if posixIsAbs s then s else posixJoin wd s) = true) (h2 : c2.exists_ (if posixIsAbs s then s else posixJoin wd s) = false) :
    (∃ p, clean c1 (.path true) (.str s) = .ok (.str p)) ∧ clean c2 (.path true) (.str s) = .error "PathDoesNotExist" := by
  refine ⟨?_, path_missing c2 s wd hw2 h2⟩
  by_cases habs : posixIsAbs s = true
  · simp only [habs, if_true] at h1
    exact ⟨s, path_absolute_kept c1 true s habs (fun _ => h1)⟩
  · have habs' : posixIsAbs s = false := by simpa using habs
    simp only [habs', Bool.false_eq_true, if_false] at h1
    exact ⟨_, path_relative_resolved c1 true s wd habs' hw1 (fun _ => h1)⟩

end MPilot.C20P
