/-
C13 / C11 — the command-line tool (`Model/Cli`, `mpilot/cli/mpilot.py`).

* An MPilot error makes the tool exit non-zero with the error's own problem/solution text on standard error, right below the fixed
  header line (`mp_error_reported`); success exits 0 silently (`success_silent`); a missing file is reported the same way (`missing_file_reported`).
* The line the tool marks is the line of the file the error names (`marks_offending_line`), shown between its neighbours in file order, and it
  is the *only* marked line: every other line of the excerpt is indented (`context_indented`, `excerpt_lines`).
* The text handed to the loader has exactly the file's lines (`source_lines`): line `n` of what the parser numbers is line `n` of what
  the tool indexes, whether the file is written with LF, CRLF or CR line ends and whether or not its last line is terminated
  (`fileLines_clean`, `fileLines_lf_crlf`).
The premise `n ≤ lines.length` of `marks_offending_line` (an error names a line of the file) is what C11 establishes for the loader; the
model's branch for a line beyond the file (an `IndexError` leaves `main`) is compared with the real tool by the correspondence.
-/
import MPilot.Model.Cli
import Mathlib.Tactic.Common

namespace MPilot.C13Cli
open MPilot.Cli

theorem splitNl_ne_nil : ∀ t : List Char, splitNl t ≠ []
  | [] => by simp [splitNl]
  | c :: r => by
    unfold splitNl
    split
    · simp
    · split <;> simp

/-- a text without a line feed is one piece -/
theorem splitNl_single : ∀ l : List Char, '\n' ∉ l → splitNl l = [l]
  | [], _ => rfl
  | c :: r, h => by
    have hc : c ≠ '\n' := fun e => h (by simp [e])
    have hr : '\n' ∉ r := fun e => h (by simp [e])
    rw [splitNl, if_neg hc, splitNl_single r hr]

/-- the first line feed ends the first piece -/
theorem splitNl_append : ∀ (l r : List Char), '\n' ∉ l → splitNl (l ++ '\n' :: r) = l :: splitNl r
  | [], r, _ => by simp [splitNl]
  | c :: l, r, h => by
    have hc : c ≠ '\n' := fun e => h (by simp [e])
    have hl : '\n' ∉ l := fun e => h (by simp [e])
    show splitNl (c :: (l ++ '\n' :: r)) = _
    rw [splitNl, if_neg hc, splitNl_append l r hl]

/-- **joining lines with line feeds and splitting at line feeds gives the lines back** -/
theorem splitNl_joinNl : ∀ ls : List (List Char), ls ≠ [] → (∀ l ∈ ls, '\n' ∉ l) → splitNl (joinNl ls) = ls
  | [], h, _ => absurd rfl h
  | [l], _, h => by simpa [joinNl] using splitNl_single l (h l (by simp))
  | l :: m :: ls, _, h => by
    show splitNl (l ++ '\n' :: joinNl (m :: ls)) = _
    rw [splitNl_append l _ (h l (by simp)), splitNl_joinNl (m :: ls) (by simp) (fun x hx => h x (by simp [hx]))]

/-- no piece holds a line feed, and a piece holds only characters of the text -/
theorem splitNl_pieces : ∀ (t : List Char), ∀ l ∈ splitNl t, '\n' ∉ l ∧ ∀ c ∈ l, c ∈ t
  | [], l, hl => by
    simp [splitNl] at hl; subst hl; simp
  | c :: r, l, hl => by
    unfold splitNl at hl
    split at hl
    · rcases List.mem_cons.mp hl with rfl | hl
      · simp
      · obtain ⟨h1, h2⟩ := splitNl_pieces r l hl
        exact ⟨h1, fun x hx => List.mem_cons_of_mem _ (h2 x hx)⟩
    · rename_i hc
      split at hl
      · rename_i hnil; exact absurd hnil (splitNl_ne_nil r)
      · rename_i l0 ls heq
        rcases List.mem_cons.mp hl with rfl | hl
        · obtain ⟨h1, h2⟩ := splitNl_pieces r l0 (by rw [heq]; simp)
          refine ⟨?_, ?_⟩
          · intro hm
            rcases List.mem_cons.mp hm with e | hm
            · exact hc e.symm
            · exact h1 hm
          · intro x hx
            rcases List.mem_cons.mp hx with rfl | hx
            · simp
            · exact List.mem_cons_of_mem _ (h2 x hx)
        · obtain ⟨h1, h2⟩ := splitNl_pieces r l (by rw [heq]; simp [hl])
          exact ⟨h1, fun x hx => List.mem_cons_of_mem _ (h2 x hx)⟩

/-- universal newlines leave no carriage return -/
theorem univGo_no_cr : ∀ (t : List Char) (b : Bool), '\r' ∉ univGo b t
  | [], b => by simp [univGo]
  | c :: r, b => by
    unfold univGo
    split
    · simpa using univGo_no_cr r true
    · rename_i hc
      split
      · exact univGo_no_cr r false
      · intro hm
        rcases List.mem_cons.mp hm with e | hm
        · exact hc e.symm
        · exact univGo_no_cr r false hm

theorem univ_no_cr (t : List Char) : '\r' ∉ univ t := univGo_no_cr t false

/-- **the lines the tool holds are free of line ends**: stripping `"\n\r"` removes the line end and nothing else -/
theorem fileLines_clean (text : List Char) : ∀ l ∈ fileLines text, '\n' ∉ l ∧ '\r' ∉ l := by
  intro l hl
  have hl' : l ∈ splitNl (univ text) := by
    unfold fileLines at hl
    simp only at hl
    split at hl
    · exact List.dropLast_subset _ hl
    · exact hl
  obtain ⟨h1, h2⟩ := splitNl_pieces _ l hl'
  exact ⟨h1, fun h => univ_no_cr text (h2 _ h)⟩

/-- **the loader reads exactly the file's lines**: the text handed to `Program.from_source`, cut at its line feeds - which is how the parser
numbers lines - is the list of lines the tool indexes when it marks line `n` -/
theorem source_lines (text : List Char) (h : fileLines text ≠ []) : splitNl (source text) = fileLines text :=
  splitNl_joinNl _ h (fun l hl => (fileLines_clean text l hl).1)

/-- the same three lines whether written with LF, CRLF or CR, with or without a final line end -/
theorem fileLines_lf_crlf :
    fileLines "a = B()\nc = D()\n\ne".toList = ["a = B()".toList, "c = D()".toList, [], ['e']] ∧
    fileLines "a = B()\r\nc = D()\r\n\r\ne\r\n".toList = ["a = B()".toList, "c = D()".toList, [], ['e']] ∧
    fileLines "a = B()\rc = D()\r\re\r".toList = ["a = B()".toList, "c = D()".toList, [], ['e']] ∧
    fileLines [] = [] ∧ fileLines ['\n'] = [[]] := by
  decide

/-- **C13: an MPilot error is reported** - exit status -1 (non-zero), no exception leaves the tool, and standard error starts with the header
line followed by the error's own text, for every error that names no line or a line of the file -/
theorem mp_error_reported (path text msg : List Char) (isProg : Bool) (lineno : Option Nat) (outcome : List (List Char) → Outcome)
    (ho : outcome (fileLines text) = .mpError msg isProg lineno)
    (hline : ∀ n, isProg = true → lineno = some n → 1 ≤ n ∧ n ≤ (fileLines text).length) :
    let r := main true path text outcome
    r.exit = -1 ∧ r.exit ≠ 0 ∧ r.crash = none ∧ (header ++ '\n' :: msg ++ ['\n']) <+: r.stderr := by
  simp only [main, Bool.not_true, Bool.false_eq_true, if_false, ho]
  cases isProg with
  | false => cases lineno <;> simp
  | true =>
    cases lineno with
    | none => simp
    | some n =>
      obtain ⟨h1, h2⟩ := hline n rfl rfl
      have hn : n ≠ 0 := by omega
      have hlt : n - 1 < (fileLines text).length := by omega
      simp only [hn, if_false, List.getElem?_eq_getElem hlt]
      simp

/-- **C11: the marked line is the line the error names** - standard error is the header, the message, and the excerpt whose `-->` line is line
`n` of the file (1-based), preceded by the (up to three) lines above it and followed by the (up to two) lines below it, in file order -/
theorem marks_offending_line (path text msg : List Char) (n : Nat) (outcome : List (List Char) → Outcome)
    (ho : outcome (fileLines text) = .mpError msg true (some n)) (h1 : 1 ≤ n) (h2 : n ≤ (fileLines text).length) :
    ∃ l, (fileLines text)[n - 1]? = some l ∧
      (main true path text outcome).stderr =
        header ++ '\n' :: msg ++ ['\n'] ++
          (joinNl ((before (fileLines text) (n - 1)).map indent) ++ '\n' :: marker l ++ '\n' ::
           joinNl ((after (fileLines text) (n - 1)).map indent) ++ ['\n']) := by
  have hn : n ≠ 0 := by omega
  have hlt : n - 1 < (fileLines text).length := by omega
  refine ⟨(fileLines text)[n - 1], List.getElem?_eq_getElem hlt, ?_⟩
  simp only [main, Bool.not_true, Bool.false_eq_true, if_false, ho, hn, List.getElem?_eq_getElem hlt, excerpt]

/-- obligation on the regenerated literal: the tool shows at least the marked line itself (`LINE_CONTEX_LENGTH` is positive in the source) -/
theorem context_positive : 0 < contextLength := by decide

/-- the lines shown above are the ones right above line `idx + 1`, in file order: `before` followed by the line itself and `after` is a
contiguous stretch of the file -/
theorem excerpt_contiguous (lines : List (List Char)) (idx : Nat) (l : List Char) (h : lines[idx]? = some l) :
    before lines idx ++ l :: after lines idx = (lines.drop (idx - contextLength)).take (min (idx + contextLength) lines.length - (idx - contextLength)) := by
  have hlt : idx < lines.length := by
    rcases Nat.lt_or_ge idx lines.length with h' | h'
    · exact h'
    · rw [List.getElem?_eq_none h'] at h; cases h
  have hl : lines[idx] = l := by rw [List.getElem?_eq_getElem hlt] at h; exact Option.some.inj h
  unfold before after
  have hk0 : 0 < contextLength := context_positive
  generalize contextLength = k at hk0 ⊢
  apply List.ext_getElem?
  intro i
  simp only [List.getElem?_append, List.length_take, List.length_drop, List.getElem?_take, List.getElem?_drop, List.getElem?_cons]
  have e1 : min (idx - (idx - k)) (lines.length - (idx - k)) = idx - (idx - k) := by omega
  rw [e1]
  by_cases hi : i < idx - (idx - k)
  · have : i < min (idx + k) lines.length - (idx - k) := by omega
    simp [hi, this]
  · simp only [hi, if_false]
    by_cases hi0 : i - (idx - (idx - k)) = 0
    · have : i < min (idx + k) lines.length - (idx - k) := by omega
      have e : idx - k + i = idx := by omega
      simp [hi0, this, e, h]
    · simp only [hi0, if_false]
      by_cases hk : i - (idx - (idx - k)) - 1 < min (idx + k) lines.length - (idx + 1)
      · have : i < min (idx + k) lines.length - (idx - k) := by omega
        have e : idx + 1 + (i - (idx - (idx - k)) - 1) = idx - k + i := by omega
        simp [hk, this, e]
      · have : ¬ i < min (idx + k) lines.length - (idx - k) := by omega
        simp [hk, this]

/-- every context line is indented by the tool's blanks (four in the pinned source), so only the offending line starts with the marker -/
theorem context_indented (lines : List (List Char)) (idx : Nat) :
    ∀ x ∈ (before lines idx).map indent ++ (after lines idx).map indent, ∃ y, x = List.replicate Generated.cliIndentWidth ' ' ++ y := by
  intro x hx
  rcases List.mem_append.mp hx with hx | hx <;>
  · obtain ⟨y, _, rfl⟩ := List.mem_map.mp hx
    exact ⟨y, rfl⟩

/-- success: exit status 0 and nothing on standard error -/
theorem success_silent (path text : List Char) (outcome : List (List Char) → Outcome) (ho : outcome (fileLines text) = .done) :
    main true path text outcome = { exit := 0, stderr := [], crash := none } := by
  simp [main, ho]

/-- a command file that does not exist: problem/solution text, exit status -1, nothing loaded (the outcome function is never asked) -/
theorem missing_file_reported (path text : List Char) (o1 o2 : List (List Char) → Outcome) :
    main false path text o1 = main false path text o2 ∧ (main false path text o1).exit = -1 ∧
    (main false path text o1).stderr = missingFile path := by
  simp [main]

/-- an exception that is no MPilot error is not swallowed and never turned into a success: it leaves the tool (traceback, status 1) -/
theorem other_exception_not_success (path text : List Char) (e : String) (outcome : List (List Char) → Outcome)
    (ho : outcome (fileLines text) = .other e) : (main true path text outcome).exit ≠ 0 ∧ (main true path text outcome).crash = some e := by
  simp [main, ho]

/-- non-vacuity: a fault on line 5 of a seven-line file written with CRLF line ends (stated with the regenerated literals, so a reworded header or
another context length in the source does not touch it): the premises of `marks_offending_line` hold and the marked line is line 5 -/
example :
    let text := ['#', '1', '\r', '\n', '#', '2', '\r', '\n', 'A', '\r', '\n', '\r', '\n', 'B', 'a', 'd', '\r', '\n', '#', '6', '\r', '\n', '#', '7', '\r', '\n']
    fileLines text = [['#', '1'], ['#', '2'], ['A'], [], ['B', 'a', 'd'], ['#', '6'], ['#', '7']] ∧ (fileLines text)[5 - 1]? = some ['B', 'a', 'd'] ∧
    (main true ['m'] text (fun _ => .mpError ['p'] true (some 5))).exit = -1 ∧
    (main true ['m'] text (fun _ => .mpError ['p'] true (some 5))).stderr =
      header ++ '\n' :: ['p'] ++ ['\n'] ++ excerpt (fileLines text) 4 ['B', 'a', 'd'] := by
  decide +kernel

end MPilot.C13Cli
