/-
C13 — the exception classes the model speaks of exist in the code and are what the model takes them for.

`Generated/ErrTable.lean` is rewritten on every run from `mpilot.exceptions`, `mpilot.libraries.eems.exceptions` and
`mpilot.libraries.eems.netcdf.exceptions`: every exception class the package defines, whether it derives from `MPilotError`, and whether it
derives from `ProgramError` (the errors that carry a line, which the command-line tool marks).  The obligations below are re-checked against
that table: a class that is renamed, removed, or re-based (say, onto `Exception` or `ValueError`) breaks them.

* `every_class_is_mpilot_error`: the package defines no exception class outside the `MPilotError` family;
* `program_errors_declared` / `eems_errors_declared` / `netcdf_errors_declared`: every class name the program, parameter, EEMS and
  NetCDF models raise is a class of the code, an `MPilotError`, and - for the first two - a `ProgramError`;
* `load_errors_declared`: whatever file is loaded, a load error of the model is an instance of a declared `ProgramError` class
  (from `C11.load_error_line`): the command-line tool therefore reports it with its line (`C13Cli.marks_offending_line`, `isProg = true`).
-/
import MPilot.Props.C11
import MPilot.Generated.ErrTable

namespace MPilot.C13E
open MPilot

/-- classes raised by `Model/Program` and `Model/Params` -/
def programModelClasses : List String :=
  ["CommandDoesNotExist", "DuplicateResult", "MissingParameters", "NoSuchParameter", "ParameterNotValid", "PathDoesNotExist",
   "InvalidRelativePath", "ResultDoesNotExist", "ResultTypeNotValid", "ResultNotFuzzy", "ResultIsFuzzy", "RecursiveModelStructure",
   "UnexpectedError", "ProgramError"]

/-- classes raised by `Model/Eems` and `Model/Csv` -/
def eemsModelClasses : List String :=
  ["EmptyInputs", "MixedArrayShapes", "MixedArrayLengths", "MismatchedWeights", "InvalidThresholds", "InvalidDirection",
   "DuplicateRawValues", "InvalidNumberToConsider", "InvalidTruestOrFalsest", "InvalidDataFile", "EmptyDataFile"]

/-- classes raised by `Model/NetCdf` -/
def netcdfModelClasses : List String := ["NoSuchVariable", "InvalidPositiveData", "InvalidFuzzyData"]

theorem every_class_is_mpilot_error : ∀ e ∈ Generated.errClasses, e.2.1 = true := by decide

theorem program_errors_declared : ∀ n ∈ programModelClasses, (n, true, true) ∈ Generated.errClasses := by decide

theorem eems_errors_declared : ∀ n ∈ eemsModelClasses, (n, true, true) ∈ Generated.errClasses := by decide

theorem netcdf_errors_declared : ∀ n ∈ netcdfModelClasses, (n, true, true) ∈ Generated.errClasses ∨ (n, true, false) ∈ Generated.errClasses := by decide

/-- **a load error is an instance of a declared `ProgramError` class**, for every library and every file -/
theorem load_errors_declared (lib : String → Option CmdDecl) (nodes : List Node) (p : Program) (e : PErr)
    (h : fromNodes lib p nodes = .error e) : ∃ cls line, e = .mp cls line ∧ (cls, true, true) ∈ Generated.errClasses := by
  obtain ⟨n, _, hn⟩ := C11.load_error_line lib nodes p e h
  cases hn with
  | unknown _ => exact ⟨_, _, rfl, by decide⟩
  | duplicate => exact ⟨_, _, rfl, by decide⟩
  | missing => exact ⟨_, _, rfl, by decide⟩
  | undeclared _ _ _ _ _ => exact ⟨_, _, rfl, by decide⟩

end MPilot.C13E
