/-
C05 (third part) — nothing depends on how large a field is: the same field repeated k times over gives the same cells, k times over.

The whole-array statistics (minimum, maximum, mean, population variance) of a repeated field are those of the field; the commands that map a
single field through them (Normalize, NormalizeZScore, CvtToFuzzy with data-derived thresholds, CvtToFuzzyZScore) therefore commute with
repetition.  This is the theorem behind the tiled-field twin of the harness.
-/
import MPilot.Props.C05
import Mathlib.Tactic.FieldSimp
import Mathlib.Tactic.Ring
import Mathlib.Tactic.Linarith
import Mathlib.Algebra.Order.Field.Rat

namespace MPilot.C05T
open MPilot

/-- `l` repeated `k` times -/
def rep {α : Type} (k : Nat) (l : List α) : List α := (List.replicate k l).flatten

@[simp] theorem rep_zero {α : Type} (l : List α) : rep 0 l = [] := rfl
theorem rep_succ {α : Type} (k : Nat) (l : List α) : rep (k + 1) l = l ++ rep k l := by simp [rep, List.replicate_succ]

theorem rep_map {α β : Type} (f : α → β) (k : Nat) (l : List α) : (rep k l).map f = rep k (l.map f) := by
  induction k with
  | zero => rfl
  | succ k ih => rw [rep_succ, rep_succ, List.map_append, ih]

theorem rep_filter {α : Type} (p : α → Bool) (k : Nat) (l : List α) : (rep k l).filter p = rep k (l.filter p) := by
  induction k with
  | zero => rfl
  | succ k ih => rw [rep_succ, rep_succ, List.filter_append, ih]

theorem rep_length {α : Type} (k : Nat) (l : List α) : (rep k l).length = k * l.length := by
  induction k with
  | zero => simp
  | succ k ih => rw [rep_succ, List.length_append, ih]; ring

theorem rep_sum (k : Nat) (l : List Rat) : (rep k l).sum = k * l.sum := by
  induction k with
  | zero => simp
  | succ k ih => rw [rep_succ, List.sum_append, ih]; push_cast; ring

theorem rep_ne_nil {α : Type} {k : Nat} {l : List α} (hk : 0 < k) (hl : l ≠ []) : rep k l ≠ [] := by
  cases k with
  | zero => omega
  | succ k => rw [rep_succ]; simp [hl]

/-- the field repeated `k` times along its first axis -/
def tile (k : Nat) (a : Arr) : Arr :=
  { dtype := a.dtype, shape := (match a.shape with | [] => [k] | n :: r => (k * n) :: r), cells := rep k a.cells }

theorem tile_valid (k : Nat) (a : Arr) : (tile k a).valid = rep k a.valid := by
  simp only [Arr.valid, tile, rep_filter, rep_map]

/-! ### statistics of a repeated field -/

theorem foldl_assoc_append (g : Rat → Rat → Rat) (ha : ∀ a b c, g (g a b) c = g a (g b c)) (x y : Rat) (l1 l2 : List Rat) :
    (l1 ++ y :: l2).foldl g x = g (l1.foldl g x) (l2.foldl g y) := by
  rw [List.foldl_append, List.foldl_cons]
  induction l2 generalizing y with
  | nil => rfl
  | cons z t ih => rw [List.foldl_cons, List.foldl_cons, ha, ih]

theorem fold1_append (g : Rat → Rat → Rat) (ha : ∀ a b c, g (g a b) c = g a (g b c)) (l1 l2 : List Rat) (h1 : l1 ≠ []) (h2 : l2 ≠ []) :
    fold1 g (l1 ++ l2) = g (fold1 g l1) (fold1 g l2) := by
  obtain ⟨x, t1, rfl⟩ := List.exists_cons_of_ne_nil h1
  obtain ⟨y, t2, rfl⟩ := List.exists_cons_of_ne_nil h2
  simp only [List.cons_append, fold1_cons]
  exact foldl_assoc_append g ha x y t1 t2

theorem fold1_rep (g : Rat → Rat → Rat) (ha : ∀ a b c, g (g a b) c = g a (g b c)) (hi : ∀ a, g a a = a) (l : List Rat) (hl : l ≠ []) :
    ∀ k, 0 < k → fold1 g (rep k l) = fold1 g l := by
  intro k
  induction k with
  | zero => intro h; omega
  | succ k ih =>
    intro _
    rw [rep_succ]
    by_cases hk : k = 0
    · subst hk; simp
    · rw [fold1_append g ha l (rep k l) hl (rep_ne_nil (by omega) hl), ih (by omega), hi]

theorem ratMin_idem (a : Rat) : ratMin a a = a := by simp [ratMin]
theorem ratMax_idem (a : Rat) : ratMax a a = a := by simp [ratMax]

theorem minL_eq_fold1 (l : List Rat) (h : l ≠ []) : minL l = some (fold1 ratMin l) := by
  obtain ⟨x, t, rfl⟩ := List.exists_cons_of_ne_nil h; rfl

theorem maxL_eq_fold1 (l : List Rat) (h : l ≠ []) : maxL l = some (fold1 ratMax l) := by
  obtain ⟨x, t, rfl⟩ := List.exists_cons_of_ne_nil h; rfl

theorem minL_rep (k : Nat) (hk : 0 < k) (l : List Rat) : minL (rep k l) = minL l := by
  by_cases hl : l = []
  · subst hl
    have : rep k ([] : List Rat) = [] := by simp [rep]
    rw [this]
  · rw [minL_eq_fold1 _ (rep_ne_nil hk hl), minL_eq_fold1 _ hl, fold1_rep ratMin ratMin_assoc ratMin_idem l hl k hk]

theorem maxL_rep (k : Nat) (hk : 0 < k) (l : List Rat) : maxL (rep k l) = maxL l := by
  by_cases hl : l = []
  · subst hl
    have : rep k ([] : List Rat) = [] := by simp [rep]
    rw [this]
  · rw [maxL_eq_fold1 _ (rep_ne_nil hk hl), maxL_eq_fold1 _ hl, fold1_rep ratMax ratMax_assoc ratMax_idem l hl k hk]

theorem meanL_rep (k : Nat) (hk : 0 < k) (l : List Rat) : meanL (rep k l) = meanL l := by
  by_cases hl : l = []
  · subst hl
    have : rep k ([] : List Rat) = [] := by simp [rep]
    rw [this]
  · have h1 : (rep k l).isEmpty = false := by
      have := rep_ne_nil hk hl
      cases h : rep k l <;> simp_all
    have h2 : l.isEmpty = false := by cases l <;> simp_all
    have hlen : (l.length : Rat) ≠ 0 := by
      have : 0 < l.length := List.length_pos_iff.mpr hl
      exact_mod_cast this.ne'
    have hkr : (k : Rat) ≠ 0 := by exact_mod_cast hk.ne'
    unfold meanL
    rw [h1, h2, sumL_sum, sumL_sum, rep_sum, rep_length]
    simp only [Bool.false_eq_true, if_false, Option.some.injEq]
    push_cast
    field_simp

theorem varL_rep (k : Nat) (hk : 0 < k) (l : List Rat) : varL (rep k l) = varL l := by
  unfold varL
  rw [meanL_rep k hk l]
  cases meanL l with
  | none => rfl
  | some m => dsimp only; rw [rep_map]; exact meanL_rep k hk _

/-! ### the statistic-driven single-field commands commute with repetition -/

theorem tile_mapCells (k : Nat) (f : Cell → Cell) (a : Arr) : tile k (a.mapCells f) = (tile k a).mapCells f := by
  simp [tile, Arr.mapCells, rep_map]

theorem tile_linMap (k : Nat) (x1 x2 y1 y2 : Rat) (a : Arr) : tile k (linMap x1 x2 y1 y2 a) = linMap x1 x2 y1 y2 (tile k a) := by
  simp only [tile, linMap, rep_map]

theorem tile_insure (k : Nat) (lo hi : Rat) (a : Arr) : tile k (a.insure lo hi) = (tile k a).insure lo hi := tile_mapCells k _ a

/-- **NormalizeZScore / CvtToFuzzyZScore on a repeated field**: the result is the result on the field, repeated -/
theorem zScoreBody_tile (sqrt : Rat → Rat) (k : Nat) (hk : 0 < k) (a : Arr) (tt ft s e : Rat) :
    zScoreBody sqrt (tile k a) tt ft s e = (zScoreBody sqrt a tt ft s e).map (tile k) := by
  unfold zScoreBody
  rw [tile_valid, meanL_rep k hk, varL_rep k hk]
  cases meanL a.valid with
  | none => simp [tile, Except.map, rep_map]
  | some m =>
    cases varL a.valid with
    | none => simp [tile, Except.map, rep_map]
    | some v => simp only [Except.map]; rw [tile_insure, tile_linMap]

/-- **Normalize on a repeated field** -/
theorem normalize_tile (sqrt : Rat → Rat) (k : Nat) (hk : 0 < k) (a : Arr) (st en : Option Num) :
    exec sqrt (.normalize st en) [tile k a] = (exec sqrt (.normalize st en) [a]).map (tile k) := by
  simp only [exec]
  rw [tile_valid, minL_rep k hk, maxL_rep k hk]
  cases minL a.valid with
  | none => simp [tile, Except.map, rep_map]
  | some mn =>
    cases maxL a.valid with
    | none => simp [tile, Except.map, rep_map]
    | some mx => simp [tile, Except.map, rep_map]

/-- **the two z-score commands on a repeated field** -/
theorem zscore_commands_tile (sqrt : Rat → Rat) (k : Nat) (hk : 0 < k) (a : Arr) (tt ft st en : Option Num) :
    exec sqrt (.normalizeZScore tt ft st en) [tile k a] = (exec sqrt (.normalizeZScore tt ft st en) [a]).map (tile k) := by
  simp only [exec]
  exact zScoreBody_tile sqrt k hk a _ _ _ _

theorem fuzzyClamp_map_tile (k : Nat) (r : Except Err Arr) : fuzzyClamp (r.map (tile k)) = (fuzzyClamp r).map (tile k) := by
  cases r with
  | error e => rfl
  | ok a => simp only [fuzzyClamp, Except.map]; rw [tile_insure]

theorem cvtToFuzzyZScore_tile (sqrt : Rat → Rat) (k : Nat) (hk : 0 < k) (a : Arr) (tt ft : Option Num) :
    exec sqrt (.cvtToFuzzyZScore tt ft) [tile k a] = (exec sqrt (.cvtToFuzzyZScore tt ft) [a]).map (tile k) := by
  simp only [exec]
  rw [zScoreBody_tile sqrt k hk, fuzzyClamp_map_tile]

/-- non-vacuity: the statistics of [1, 4, 2] repeated three times -/
example : minL (rep 3 [1, 4, 2]) = some 1 ∧ maxL (rep 3 [1, 4, 2]) = some 4 ∧ meanL (rep 3 [1, 4, 2]) = some (7 / 3) ∧ varL (rep 3 [1, 4, 2]) = varL [1, 4, 2] := by
  decide +kernel

/-! ### the curve commands, the mean-to-mid commands and CvtToFuzzy with default thresholds on a repeated field -/

theorem tile_curveArr (k : Nat) (a : Arr) (pts : List (Rat × Rat)) : curveArr (tile k a) pts = tile k (curveArr a pts) := by
  simp only [curveArr, tile, rep_map]

theorem curveBody_tile (k : Nat) (ref : LineRef) (a : Arr) (raw normal : List Rat) :
    curveBody ref (tile k a) raw normal = (curveBody ref a raw normal).map (tile k) := by
  unfold curveBody
  split
  · rfl
  · split
    · rfl
    · split
      · rfl
      · simp only [Except.map, tile_curveArr]

/-- the five statistics of the mean-to-mid commands (minimum, maximum, mean, mean of the lower part, mean of the upper part; zeros ignored or not)
are those of the field -/
theorem mtmStats_rep (k : Nat) (hk : 0 < k) (l : List Rat) (iz : Bool) : mtmStats (rep k l) iz = mtmStats l iz := by
  unfold mtmStats
  rw [minL_rep k hk, maxL_rep k hk]
  cases minL l with
  | none => rfl
  | some low =>
    cases maxL l with
    | none => rfl
    | some high =>
      simp only
      have hvs : (if iz then (rep k l).filter (· != 0) else rep k l) = rep k (if iz then l.filter (· != 0) else l) := by
        cases iz <;> simp [rep_filter]
      rw [hvs, meanL_rep k hk]
      cases meanL (if iz then l.filter (· != 0) else l) with
      | none => rfl
      | some mean =>
        simp only
        rw [rep_filter, rep_filter, meanL_rep k hk, meanL_rep k hk]

theorem mtmPoints_rep (k : Nat) (hk : 0 < k) (l : List Rat) (iz : Bool) (normal : List Num) : mtmPoints (rep k l) iz normal = mtmPoints l iz normal := by
  unfold mtmPoints
  rw [mtmStats_rep k hk]

/-- **NormalizeMeanToMid / CvtToFuzzyMeanToMid on a repeated field** -/
theorem meanToMidBody_tile (k : Nat) (hk : 0 < k) (a : Arr) (iz : Bool) (normal : List Num) :
    meanToMidBody (tile k a) iz normal = (meanToMidBody a iz normal).map (tile k) := by
  unfold meanToMidBody
  rw [tile_valid, mtmPoints_rep k hk]
  cases mtmPoints a.valid iz normal with
  | error e => rfl
  | ok rn => exact curveBody_tile k _ a rn.1 rn.2

/-- **NormalizeCurveZScore / CvtToFuzzyCurveZScore on a repeated field** -/
theorem curveZBody_tile (sqrt : Rat → Rat) (k : Nat) (hk : 0 < k) (a : Arr) (z normal : List Num) :
    curveZBody sqrt (tile k a) z normal = (curveZBody sqrt a z normal).map (tile k) := by
  unfold curveZBody
  rw [tile_valid, meanL_rep k hk, varL_rep k hk]
  split
  · rfl
  · cases meanL a.valid with
    | none => rfl
    | some m =>
      cases varL a.valid with
      | none => rfl
      | some v =>
        simp only
        split
        · rfl
        · simp only [Except.map, tile_curveArr]

theorem meanToMid_commands_tile (sqrt : Rat → Rat) (k : Nat) (hk : 0 < k) (a : Arr) (iz : Bool) (vals : List Num) :
    exec sqrt (.normalizeMeanToMid iz vals) [tile k a] = (exec sqrt (.normalizeMeanToMid iz vals) [a]).map (tile k) ∧
    exec sqrt (.cvtToFuzzyMeanToMid iz vals) [tile k a] = (exec sqrt (.cvtToFuzzyMeanToMid iz vals) [a]).map (tile k) := by
  refine ⟨by simp only [exec]; exact meanToMidBody_tile k hk a iz vals, ?_⟩
  simp only [exec]
  rw [meanToMidBody_tile k hk, fuzzyClamp_map_tile]

theorem curveZScore_commands_tile (sqrt : Rat → Rat) (k : Nat) (hk : 0 < k) (a : Arr) (z vals : List Num) :
    exec sqrt (.normalizeCurveZScore z vals) [tile k a] = (exec sqrt (.normalizeCurveZScore z vals) [a]).map (tile k) ∧
    exec sqrt (.cvtToFuzzyCurveZScore z vals) [tile k a] = (exec sqrt (.cvtToFuzzyCurveZScore z vals) [a]).map (tile k) := by
  refine ⟨by simp only [exec]; exact curveZBody_tile sqrt k hk a z vals, ?_⟩
  simp only [exec]
  rw [curveZBody_tile sqrt k hk, fuzzyClamp_map_tile]

theorem cvtToFuzzy_go_tile (sqrt : Rat → Rat) (k : Nat) (hk : 0 < k) (a : Arr) (tt ft : Option Num) (h2l : Bool) :
    exec.go (tile k a) tt ft h2l = (exec.go a tt ft h2l).map (tile k) := by
  unfold exec.go
  rw [tile_valid, minL_rep k hk, maxL_rep k hk]
  have key : ∀ (t f : Rat), fuzzyClamp (.ok (linMap t f 1 (-1) (tile k a))) = (fuzzyClamp (.ok (linMap t f 1 (-1) a))).map (tile k) := by
    intro t f
    rw [← tile_linMap]
    exact fuzzyClamp_map_tile k (.ok (linMap t f 1 (-1) a))
  cases minL a.valid with
  | none =>
    simp only
    split
    · split
      · rfl
      · exact key _ _
    · rfl
  | some mn =>
    cases maxL a.valid with
    | none =>
      simp only
      split
      · split
        · rfl
        · exact key _ _
      · rfl
    | some mx =>
      simp only
      by_cases hc : (numOr tt (if h2l then mn else mx) == numOr ft (if h2l then mx else mn)) = true
      · rw [if_pos hc, if_pos hc]; rfl
      · rw [if_neg hc, if_neg hc]; exact key _ _

/-- **CvtToFuzzy on a repeated field**, thresholds given or taken from the data (its minimum and maximum, in either direction) -/
theorem cvtToFuzzy_tile (sqrt : Rat → Rat) (k : Nat) (hk : 0 < k) (a : Arr) (tt ft : Option Num) (dir : Option String) :
    exec sqrt (.cvtToFuzzy tt ft dir) [tile k a] = (exec sqrt (.cvtToFuzzy tt ft dir) [a]).map (tile k) := by
  simp only [exec]
  cases dir with
  | none => exact cvtToFuzzy_go_tile sqrt k hk a tt ft false
  | some d =>
    simp only
    split
    · rfl
    · exact cvtToFuzzy_go_tile sqrt k hk a tt ft _

/-- and the curve and category commands, whose mapping does not depend on the field at all -/
theorem curve_commands_tile (sqrt : Rat → Rat) (k : Nat) (a : Arr) (raw vals : List Num) :
    exec sqrt (.normalizeCurve raw vals) [tile k a] = (exec sqrt (.normalizeCurve raw vals) [a]).map (tile k) ∧
    exec sqrt (.cvtToFuzzyCurve raw vals) [tile k a] = (exec sqrt (.cvtToFuzzyCurve raw vals) [a]).map (tile k) := by
  refine ⟨by simp only [exec]; exact curveBody_tile k _ a _ _, ?_⟩
  simp only [exec]
  rw [curveBody_tile k, fuzzyClamp_map_tile]

end MPilot.C05T
