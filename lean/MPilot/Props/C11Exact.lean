/-
C11 — the line a token carries is *exactly* the line it starts on, for every text.

`lexAll_lines` (Props/C11.lean) shows that lines never decrease along the token stream; `parse_text` (Props/C10.lean) gives the exact lines of
well-formed renderings.  Here, for ANY text - well-formed or not, whatever the arrangement of blank lines, comments, multi-line quoted
strings - in which every carriage return belongs to a CR LF pair (`NoLoneCR`: the files the command-line tool hands over, which reads in
universal-newline mode, and every text written with LF or CRLF line ends):

* `scanOne_exact`: one scanning step consumes a prefix of the text and advances the counter by exactly the number of line feeds in it;
* `lexAll_exact` / `lex_line_exact`: every token of `lex src` carries `1 +` the number of line feeds before the position at which it was
  scanned - its 1-based line.
(A lone CR is counted as a line break between tokens but not inside a comment - the model says what the code does - which is why the
statement is about LF / CRLF texts.)
-/
import MPilot.Model.Lexer
import Mathlib.Tactic.Common
import Mathlib.Data.List.TakeDrop
import Mathlib.Data.List.TakeWhile

namespace MPilot.C11X
open MPilot

/-- number of line feeds -/
def nl (cs : List Char) : Nat := cs.count '\n'

theorem nl_append (a b : List Char) : nl (a ++ b) = nl a + nl b := by simp [nl]

/-- every carriage return is immediately followed by a line feed -/
def NoLoneCR (cs : List Char) : Prop := ∀ a b, cs = a ++ '\r' :: b → ∃ b', b = '\n' :: b'

theorem NoLoneCR.suffix {x y : List Char} (h : NoLoneCR (x ++ y)) : NoLoneCR y := by
  intro a b hy
  exact h (x ++ a) b (by rw [hy]; simp)

/-- a stretch that ends with CR is followed by LF -/
theorem NoLoneCR.after_cr {a b : List Char} (h : NoLoneCR (a ++ b)) (hl : a.getLast? = some '\r') : ∃ b', b = '\n' :: b' := by
  obtain ⟨a0, rfl⟩ : ∃ a0, a = a0 ++ ['\r'] := by
    rcases List.eq_nil_or_concat a with rfl | ⟨a0, c, rfl⟩
    · simp at hl
    · simp at hl; subst hl; exact ⟨a0, by simp⟩
  exact h a0 b (by simp)

/-- **counting line breaks = counting line feeds** in a stretch of an LF / CRLF text that is not cut inside a CR LF pair -/
theorem countNewlines_eq_nl : ∀ (l rest : List Char), NoLoneCR (l ++ rest) → l.getLast? ≠ some '\r' → countNewlines l = nl l
  | [], _, _, _ => rfl
  | c :: r, rest, h, hl => by
    by_cases hc : c = '\r'
    · subst hc
      obtain ⟨b', hb⟩ := h [] (r ++ rest) (by simp)
      cases r with
      | nil => simp at hl
      | cons d r2 =>
        simp only [List.cons_append] at hb
        injection hb with h1 h2
        subst h1
        have hs : NoLoneCR (r2 ++ rest) := NoLoneCR.suffix (x := ['\r', '\n']) (by simpa using h)
        have hl2 : r2.getLast? ≠ some '\r' := by
          cases r2 with
          | nil => simp
          | cons e r3 => simpa [List.getLast?_cons_cons] using hl
        have ih := countNewlines_eq_nl r2 rest hs hl2
        simp only [countNewlines, ih, nl, List.count_cons]
        simp; omega
    · have hs : NoLoneCR (r ++ rest) := NoLoneCR.suffix (x := [c]) (by simpa using h)
      have hl2 : r.getLast? ≠ some '\r' := by
        cases r with
        | nil => simp
        | cons e r3 => simpa [List.getLast?_cons_cons] using hl
      have ih := countNewlines_eq_nl r rest hs hl2
      by_cases hn : c = '\n'
      · subst hn
        simp only [countNewlines, ih, nl, List.count_cons]
        simp; omega
      · have : countNewlines (c :: r) = countNewlines r := by
          rw [countNewlines.eq_def]
          split <;> simp_all
        rw [this, ih]; simp [nl, List.count_cons, hn, Ne.symm hn]

/-! ### what each scanning rule consumes -/

/-- `cs` is a stretch without line feed followed by `rest` -/
def Eats (cs rest : List Char) : Prop := ∃ pre, cs = pre ++ rest ∧ nl pre = 0

theorem Eats.refl (cs : List Char) : Eats cs cs := ⟨[], rfl, rfl⟩

theorem Eats.trans {a b c : List Char} (h1 : Eats a b) (h2 : Eats b c) : Eats a c := by
  obtain ⟨p, rfl, hp⟩ := h1
  obtain ⟨q, rfl, hq⟩ := h2
  exact ⟨p ++ q, by simp, by rw [nl_append, hp, hq]⟩

theorem Eats.one {c : Char} (r : List Char) (hc : c ≠ '\n') : Eats (c :: r) r :=
  ⟨[c], rfl, by simp [nl, List.count_cons, hc]⟩

theorem nl_zero_of_forall {w : List Char} (h : ∀ x ∈ w, x ≠ '\n') : nl w = 0 := by
  simp only [nl, List.count_eq_zero]
  intro hm; exact h _ hm rfl

theorem dropWhile_head (p : Char → Bool) : ∀ (l : List Char) (d : Char) (r : List Char), l.dropWhile p = d :: r → p d = false
  | [], d, r, h => by simp at h
  | c :: l, d, r, h => by
    by_cases hp : p c = true
    · rw [List.dropWhile_cons_of_pos hp] at h; exact dropWhile_head p l d r h
    · rw [List.dropWhile_cons_of_neg hp] at h
      injection h with h1 _; subst h1; simpa using hp

/-- `span`: the longest prefix satisfying `p`, and the rest does not start with such a character -/
theorem span_spec (p : Char → Bool) (cs w rest : List Char) (h : cs.span p = (w, rest)) :
    cs = w ++ rest ∧ (∀ x ∈ w, p x = true) ∧ (∀ d r, rest = d :: r → p d = false) := by
  rw [List.span_eq_takeWhile_dropWhile] at h
  injection h with h1 h2
  subst h1; subst h2
  exact ⟨(List.takeWhile_append_dropWhile).symm, fun x hx => List.mem_takeWhile_imp hx, fun d r hr => dropWhile_head p cs d r hr⟩

theorem span_eats (p : Char → Bool) (hp : p '\n' = false) (cs w rest : List Char) (h : cs.span p = (w, rest)) : Eats cs rest := by
  obtain ⟨h1, h2, _⟩ := span_spec p cs w rest h
  exact ⟨w, h1, nl_zero_of_forall (fun x hx e => by have h3 := h2 x hx; rw [e, hp] at h3; cases h3)⟩

theorem spanDigits_eats (cs : List Char) : Eats cs (spanDigits cs).2 :=
  span_eats isDig (by decide) cs (spanDigits cs).1 (spanDigits cs).2 rfl

theorem optSign_eats (cs : List Char) : Eats cs (optSign cs).2 := by
  unfold optSign
  split
  · exact Eats.one _ (by decide)
  · exact Eats.one _ (by decide)
  · exact Eats.refl _

theorem scanMantissa_eats {r0 ip fp r3 : List Char} (h : scanMantissa r0 = some (ip, fp, r3)) : Eats r0 r3 := by
  unfold scanMantissa at h
  have h0 := spanDigits_eats r0
  generalize spanDigits r0 = sp at h h0
  obtain ⟨ip0, r1⟩ := sp
  simp only at h h0
  split at h
  · split at h
    · rename_i r2
      injection h with h; injection h with _ h; injection h with _ h; subst h
      exact h0.trans ((Eats.one r2 (by decide)).trans (spanDigits_eats r2))
    · cases h
  · split at h
    · rename_i r2
      split at h
      · cases h
      · injection h with h; injection h with _ h; injection h with _ h; subst h
        exact h0.trans ((Eats.one r2 (by decide)).trans (spanDigits_eats r2))
    · cases h

theorem scanExponent_eats (r3 : List Char) : Eats r3 (scanExponent r3).2 := by
  unfold scanExponent
  split
  · rename_i c r4
    split
    · rename_i hc
      have hcn : c ≠ '\n' := by
        intro e; subst e; simp at hc
      dsimp only
      split
      · exact Eats.refl _
      · exact (Eats.one r4 hcn).trans ((optSign_eats r4).trans (spanDigits_eats _))
    · exact Eats.refl _
  · exact Eats.refl _

theorem scanFloat_eats {cs : List Char} {v : Option Rat} {rest : List Char} (h : scanFloat cs = some (v, rest)) : Eats cs rest := by
  unfold scanFloat at h
  have h0 := optSign_eats cs
  generalize optSign cs = sg at h h0
  obtain ⟨neg, r0⟩ := sg
  simp only at h h0
  split at h
  · cases h
  · rename_i ip fp r3 hm
    have h1 := scanMantissa_eats hm
    have h2 := scanExponent_eats r3
    generalize scanExponent r3 = ex at h h2
    obtain ⟨e, rest'⟩ := ex
    simp only at h h2
    split at h
    · injection h with h; injection h with _ h; subst h; exact h0.trans (h1.trans h2)
    · injection h with h; injection h with _ h; subst h; exact h0.trans (h1.trans h2)

theorem scanInt_eats {cs : List Char} {n : Int} {rest : List Char} (h : scanInt cs = some (n, rest)) : Eats cs rest := by
  unfold scanInt at h
  have h0 := optSign_eats cs
  generalize optSign cs = sg at h h0
  obtain ⟨neg, r0⟩ := sg
  simp only at h h0
  have h1 := spanDigits_eats r0
  generalize spanDigits r0 = sp at h h1
  obtain ⟨ds, r1⟩ := sp
  simp only at h h1
  split at h
  · cases h
  · injection h with h; injection h with _ h; subst h; exact h0.trans h1

/-- the body of a quoted string: exactly the characters between the quotes -/
theorem scanStringBody_spec (q : Char) : ∀ (r acc content rest : List Char), scanStringBody q r acc = some (content, rest) →
    ∃ mid, content = acc.reverse ++ mid ∧ r = mid ++ q :: rest
  | [], acc, content, rest, h => by simp [scanStringBody] at h
  | c :: r, acc, content, rest, h => by
    unfold scanStringBody at h
    by_cases hq : (c == q) = true
    · simp only [hq, if_true] at h
      injection h with h; injection h with h1 h2; subst h1; subst h2
      exact ⟨[], by simp, by simp [eq_of_beq hq]⟩
    · simp only [hq, Bool.false_eq_true, if_false] at h
      by_cases hb : (c == '\\') = true
      · simp only [hb, if_true] at h
        split at h
        · rename_i d r'
          split at h
          · cases h
          · obtain ⟨mid, h1, h2⟩ := scanStringBody_spec q r' _ content rest h
            have hc : c = '\\' := eq_of_beq hb
            exact ⟨c :: d :: mid, by simp [h1, hc], by simp [h2]⟩
        · cases h
      · simp only [hb, Bool.false_eq_true, if_false] at h
        obtain ⟨mid, h1, h2⟩ := scanStringBody_spec q r _ content rest h
        exact ⟨c :: mid, by simp [h1], by simp [h2]⟩

/-! ### one scanning step, and the whole stream -/

/-- what a scanning step does to the line counter: the token carries the line at which the step started, and the counter advances by exactly
the line feeds of the characters consumed -/
def StepOK (cs : List Char) (line : Nat) : Scan → Prop
  | .tok t rest line' => t.line = line ∧ ∃ pre, cs = pre ++ rest ∧ line' = line + nl pre
  | .skip rest line' => ∃ pre, cs = pre ++ rest ∧ line' = line + nl pre
  | .stop t => t.line = line

theorem Eats.adv {cs rest : List Char} (h : Eats cs rest) (line : Nat) : ∃ pre, cs = pre ++ rest ∧ line = line + nl pre := by
  obtain ⟨pre, h1, h2⟩ := h
  exact ⟨pre, h1, by rw [h2]; rfl⟩

theorem scanOne_exact (cs : List Char) (line : Nat) (h : NoLoneCR cs) : StepOK cs line (scanOne cs line) := by
  cases cs with
  | nil => exact ⟨[], rfl, rfl⟩
  | cons c r =>
    unfold scanOne
    simp only
    split
    · -- identifier
      rename_i hid
      have hc : c ≠ '\n' := by intro e; subst e; simp [isIdStart] at hid
      generalize hsp : r.span isIdCont = sp
      obtain ⟨w, rest⟩ := sp
      exact ⟨rfl, ((Eats.one r hc).trans (span_eats isIdCont (by decide) r w rest hsp)).adv line⟩
    · split
      · exact rfl
      · rename_i q rest hf
        exact ⟨rfl, (scanFloat_eats hf).adv line⟩
      · split
        · rename_i n rest hi
          exact ⟨rfl, (scanInt_eats hi).adv line⟩
        · split
          · -- quoted string
            rename_i content rest hs
            have hq : (c == '"' || c == '\'') = true := by
              by_contra hn
              simp only [hn] at hs
              cases hs
            have hcn : c ≠ '\n' := by
              intro e; subst e; simp at hq
            simp only [hq, if_true] at hs
            obtain ⟨mid, h1, h2⟩ := scanStringBody_spec c r [] content rest hs
            simp only [List.reverse_nil, List.nil_append] at h1
            subst h1
            have hcount : countNewlines content = nl content := by
              apply countNewlines_eq_nl content (c :: rest)
              · exact NoLoneCR.suffix (x := [c]) (by rw [h2] at h; simpa using h)
              · intro hl
                obtain ⟨b', hb⟩ := NoLoneCR.after_cr (a := content) (b := c :: rest)
                  (NoLoneCR.suffix (x := [c]) (by rw [h2] at h; simpa using h)) hl
                injection hb with hb _
                exact hcn hb
            have hpre : ∃ pre, c :: r = pre ++ rest ∧ line + countNewlines content = line + nl pre :=
              ⟨c :: content ++ [c], by rw [h2]; simp, by
                rw [hcount]; simp [nl, List.count_cons, List.count_append, hcn, Ne.symm hcn]⟩
            split
            · exact ⟨rfl, hpre⟩
            · exact rfl
            · exact rfl
          · split
            · -- a run of line ends
              generalize hsp : (c :: r).span (fun d => d == '\r' || d == '\n') = sp
              obtain ⟨run, rest⟩ := sp
              obtain ⟨h1, h2, h3⟩ := span_spec _ (c :: r) run rest hsp
              have hcount : countNewlines run = nl run := by
                apply countNewlines_eq_nl run rest (by rw [← h1]; exact h)
                intro hl
                obtain ⟨b', hb⟩ := NoLoneCR.after_cr (a := run) (b := rest) (by rw [← h1]; exact h) hl
                have := h3 '\n' b' hb
                simp at this
              exact ⟨run, h1, by rw [hcount]⟩
            · rename_i hnl
              have hcn : c ≠ '\n' := by
                intro e; subst e; simp at hnl
              split
              · -- unquoted text
                generalize hsp : (c :: r).span (fun d => !isPlainStop d) = sp
                obtain ⟨w, rest⟩ := sp
                exact ⟨rfl, (span_eats _ (by decide) (c :: r) w rest hsp).adv line⟩
              · split
                · -- comment
                  refine ⟨(c :: r).takeWhile (· != '\n'), (List.takeWhile_append_dropWhile).symm, ?_⟩
                  have hz : nl ((c :: r).takeWhile (· != '\n')) = 0 := by
                    apply nl_zero_of_forall
                    intro x hx
                    have := List.mem_takeWhile_imp hx
                    simpa using this
                  rw [hz]; rfl
                · split
                  · exact ⟨rfl, (Eats.one r hcn).adv line⟩
                  · exact rfl

/-- where a token was scanned: the text splits into what lies before the token and what starts with it -/
def ScannedAt (whole : List Char) (t : Tok) : Prop :=
  ∃ p q, whole = p ++ q ∧ t.line = 1 + nl p ∧
    ((∃ rest l', scanOne q t.line = .tok t rest l') ∨ scanOne q t.line = .stop t)

theorem lexAll_exact : ∀ (fuel : Nat) (cs : List Char) (line : Nat) (whole pre : List Char), whole = pre ++ cs → NoLoneCR whole →
    line = 1 + nl pre → ∀ t ∈ lexAll fuel cs line, ScannedAt whole t
  | 0, cs, line, whole, pre, _, _, _ => by intro t ht; simp [lexAll] at ht
  | fuel + 1, [], line, whole, pre, _, _, _ => by intro t ht; simp [lexAll] at ht
  | fuel + 1, c :: r, line, whole, pre, hw, hn, hl => by
    intro t ht
    rw [lexAll] at ht
    split at ht
    · -- a blank or a tab
      rename_i hb
      have hc : c ≠ '\n' := by intro e; subst e; simp at hb
      exact lexAll_exact fuel r line whole (pre ++ [c]) (by rw [hw]; simp) hn
        (by rw [hl, nl_append]; simp [nl, List.count_cons, hc, Ne.symm hc]) t ht
    · have hn' : NoLoneCR (c :: r) := NoLoneCR.suffix (x := pre) (by rw [← hw]; exact hn)
      have hstep := scanOne_exact (c :: r) line hn'
      split at ht
      · rename_i t0 rest line' hs
        rw [hs] at hstep
        obtain ⟨htl, consumed, hc1, hc2⟩ := hstep
        rcases List.mem_cons.mp ht with rfl | ht
        · exact ⟨pre, c :: r, hw, by rw [htl, hl], Or.inl ⟨rest, line', by rw [htl]; exact hs⟩⟩
        · exact lexAll_exact fuel rest line' whole (pre ++ consumed) (by rw [hw, hc1]; simp) hn
            (by rw [hc2, hl, nl_append]; omega) t ht
      · rename_i rest line' hs
        rw [hs] at hstep
        obtain ⟨consumed, hc1, hc2⟩ := hstep
        exact lexAll_exact fuel rest line' whole (pre ++ consumed) (by rw [hw, hc1]; simp) hn
          (by rw [hc2, hl, nl_append]; omega) t ht
      · rename_i t0 hs
        rw [hs] at hstep
        have htl : t0.line = line := hstep
        simp only [List.mem_singleton] at ht
        subst ht
        exact ⟨pre, c :: r, hw, by rw [htl, hl], Or.inr (by rw [htl]; exact hs)⟩

/-- **C11, exactness.** In a text whose line ends are LF or CR LF, every token delivered by the lexer - inside or outside lists, after any
number of blank lines, comments and multi-line quoted strings, in a well-formed or a malformed file - carries exactly its 1-based line:
one plus the number of line feeds before the position at which it was scanned. -/
theorem lex_line_exact (src : String) (h : NoLoneCR src.toList) : ∀ t ∈ lex src, ScannedAt src.toList t :=
  lexAll_exact _ _ 1 src.toList [] rfl h rfl

/-- the premise as a computation -/
def noLoneCRB : List Char → Bool
  | [] => true
  | c :: r => if c = '\r' then (match r with | d :: r' => d = '\n' && noLoneCRB r' | [] => false) else noLoneCRB r

theorem noLoneCR_of_B : ∀ (n : Nat) (cs : List Char), cs.length ≤ n → noLoneCRB cs = true → NoLoneCR cs
  | _, [], _, _ => by intro a b h; cases a <;> simp at h
  | 0, _ :: _, hlen, _ => by simp at hlen
  | n + 1, c :: r, hlen, h => by
    intro a b hab
    unfold noLoneCRB at h
    by_cases hc : c = '\r'
    · simp only [hc, if_true] at h
      cases r with
      | nil => simp at h
      | cons d r' =>
        simp only [Bool.and_eq_true, decide_eq_true_eq] at h
        obtain ⟨hd, hr'⟩ := h
        subst hd
        cases a with
        | nil => simp at hab; exact ⟨r', hab.2.symm ▸ rfl⟩
        | cons x a' =>
          simp only [List.cons_append, List.cons.injEq] at hab
          obtain ⟨_, hab⟩ := hab
          cases a' with
          | nil => simp at hab
          | cons y a'' =>
            simp only [List.cons_append, List.cons.injEq] at hab
            exact noLoneCR_of_B n r' (by simp at hlen; omega) hr' a'' b hab.2
    · simp only [hc, if_false] at h
      cases a with
      | nil => simp at hab; exact absurd hab.1 hc
      | cons x a' =>
        simp only [List.cons_append, List.cons.injEq] at hab
        exact noLoneCR_of_B n r (by simp at hlen; omega) h a' b hab.2

/-- non-vacuity: an LF / CRLF text satisfies the premise (a text with a lone CR does not) -/
example : NoLoneCR ['A', '=', 'B', '(', ')', '\r', '\n', '#', 'c', '\n', '"', 't', '\n', 'l', '"', '\n'] ∧ noLoneCRB ['A', '\r', 'C'] = false :=
  ⟨noLoneCR_of_B 16 _ (by decide) (by decide), by decide⟩

end MPilot.C11X
