/-
C01 — every command executes exactly once, fed by its finished dependencies.

The run loop of the model (`runCmd`, `run`) is generic in the value type and in what `execute` computes (`Sem`).
Acyclicity is a premise here (a rank function on the read relation); C14 shows that `run` only evaluates programs whose
reference graph has one.
-/
import MPilot.Model.Program
import Mathlib.Data.List.Perm.Basic
import Mathlib.Data.List.Nodup
import Mathlib.Tactic.Common

namespace MPilot.C01
open MPilot

variable {Val : Type}

def starts (log : List Ev) : List String := log.filterMap fun e => match e with | .start c => some c | _ => none
def finishes (log : List Ev) : List String := log.filterMap fun e => match e with | .finish c => some c | _ => none
def names (st : St Val) : List String := st.memo.map (·.1)

@[simp] theorem starts_append (a b : List Ev) : starts (a ++ b) = starts a ++ starts b := by simp [starts]
@[simp] theorem finishes_append (a b : List Ev) : finishes (a ++ b) = finishes a ++ finishes b := by simp [finishes]

theorem get?_isSome_iff (st : St Val) (n : String) : (st.get? n).isSome = true ↔ n ∈ names st := by
  unfold St.get? names
  induction st.memo with
  | nil => simp
  | cons kv t ih =>
    simp only [List.find?_cons, List.map_cons, List.mem_cons]
    by_cases h : kv.1 == n
    · simp [h]; left; exact (beq_iff_eq.mp h).symm
    · simp only [h]
      rw [ih]
      constructor
      · exact Or.inr
      · rintro (e | e)
        · exact absurd (beq_iff_eq.mpr e.symm) h
        · exact e

theorem get?_some_of_mem (st : St Val) (n : String) (h : n ∈ names st) : ∃ v, st.get? n = some v := by
  have := (get?_isSome_iff st n).mpr h
  exact Option.isSome_iff_exists.mp this

/-- the invariant of the evaluation, with `O` = commands whose `execute` has been entered but has not returned yet -/
structure InvO (sem : Sem Val) (p : Program) (O : List String) (st : St Val) : Prop where
  nodup : (names st).Nodup
  fin : finishes st.log = names st
  bal : (starts st.log).Perm (finishes st.log ++ O)
  ordered : ∀ pre n post, names st = pre ++ n :: post → ∀ c, p.find? n = some c → ∀ d ∈ sem.pulls c, d ∈ pre

/-- what one successful evaluation step guarantees -/
structure Step (sem : Sem Val) (p : Program) (r : String → Nat) (O : List String) (bound : Nat) (st st' : St Val) : Prop where
  inv : InvO sem p O st'
  logExt : ∃ ext, st'.log = st.log ++ ext
  memoExt : ∃ m, st'.memo = st.memo ++ m ∧ ∀ x ∈ m.map (·.1), r x < bound

theorem Step.names_ext {sem : Sem Val} {p r O b st st'} (h : Step sem p r O b st st') :
    ∃ m : List String, names st' = names st ++ m ∧ ∀ x ∈ m, r x < b := by
  obtain ⟨m, hm, hr⟩ := h.memoExt
  exact ⟨m.map (·.1), by simp [names, hm], hr⟩

theorem Step.refl {sem : Sem Val} {p r O b st} (h : InvO sem p O st) : Step sem p r O b st st :=
  ⟨h, ⟨[], by simp⟩, ⟨[], by simp, by simp⟩⟩

theorem Step.trans {sem : Sem Val} {p r O b1 b2 st1 st2 st3} (h1 : Step sem p r O b1 st1 st2) (h2 : Step sem p r O b2 st2 st3)
    (b : Nat) (hb1 : b1 ≤ b) (hb2 : b2 ≤ b) : Step sem p r O b st1 st3 := by
  obtain ⟨e1, he1⟩ := h1.logExt
  obtain ⟨e2, he2⟩ := h2.logExt
  obtain ⟨m1, hm1, hr1⟩ := h1.memoExt
  obtain ⟨m2, hm2, hr2⟩ := h2.memoExt
  refine ⟨h2.inv, ⟨e1 ++ e2, by rw [he2, he1, List.append_assoc]⟩, ⟨m1 ++ m2, by rw [hm2, hm1, List.append_assoc], ?_⟩⟩
  intro x hx
  simp only [List.map_append, List.mem_append] at hx
  rcases hx with hx | hx
  · exact Nat.lt_of_lt_of_le (hr1 x hx) hb1
  · exact Nat.lt_of_lt_of_le (hr2 x hx) hb2

section
variable (sem : Sem Val) (p : Program) (r : String → Nat)

/-- acyclicity of the read relation, as a rank function -/
def Ranked : Prop := ∀ n c, p.find? n = some c → ∀ d ∈ sem.pulls c, r d < r n

/-- the reading loop of a body: every result read is finished afterwards, nothing of rank ≥ `bound` was executed -/
theorem pull_ok (fuel : Nat)
    (ih : ∀ O st n st', InvO sem p O st → runCmd sem p fuel st n = (st', none) →
      Step sem p r O (r n + 1) st st' ∧ n ∈ names st')
    (O : List String) (bound : Nat) :
    ∀ (ds : List String) (s : St Val) (acc : List Val) (s' : St Val) (vals : List Val),
      (∀ d ∈ ds, r d < bound) → InvO sem p O s →
      runCmd.pull sem p fuel ds s acc = (s', .ok vals) →
      Step sem p r O bound s s' ∧ ∀ d ∈ ds, d ∈ names s' := by
  intro ds
  induction ds with
  | nil =>
    intro s acc s' vals _ hinv h
    unfold runCmd.pull at h
    injection h with h1 h2; subst h1
    exact ⟨Step.refl hinv, by simp⟩
  | cons d ds ihd =>
    intro s acc s' vals hds hinv h
    unfold runCmd.pull at h
    have hd := hds d (List.mem_cons_self ..)
    cases hrun : runCmd sem p fuel s d with
    | mk s1 oe =>
      rw [hrun] at h
      cases oe with
      | some e => simp at h
      | none =>
        simp only at h
        obtain ⟨step1, hmem1⟩ := ih O s d s1 hinv hrun
        cases hget : s1.get? d with
        | none => rw [hget] at h; simp at h
        | some v =>
          rw [hget] at h
          simp only at h
          obtain ⟨step2, hall⟩ := ihd s1 (v :: acc) s' vals (fun x hx => hds x (List.mem_cons_of_mem _ hx)) step1.inv h
          refine ⟨Step.trans step1 step2 bound (by omega) (Nat.le_refl _), ?_⟩
          intro x hx
          rcases List.mem_cons.mp hx with rfl | hx
          · obtain ⟨m, hm, _⟩ := step2.names_ext
            rw [hm]; exact List.mem_append_left _ hmem1
          · exact hall x hx

/-- **core of C01**: a successful `Command.run` of `n` (in an acyclic program) preserves the invariant, finishes `n`,
only extends log and memo, and executes nothing of higher rank than `n` -/
theorem runCmd_ok (hr : Ranked sem p r) :
    ∀ (fuel : Nat) (O : List String) (st : St Val) (n : String) (st' : St Val), InvO sem p O st →
      runCmd sem p fuel st n = (st', none) → Step sem p r O (r n + 1) st st' ∧ n ∈ names st' := by
  intro fuel
  induction fuel with
  | zero => intro O st n st' _ h; unfold runCmd at h; simp at h
  | succ fuel ih =>
    intro O st n st' hinv h
    unfold runCmd at h
    by_cases hmemo : (st.get? n).isSome = true
    · rw [if_pos hmemo] at h
      injection h with h1 _; subst h1
      exact ⟨Step.refl hinv, (get?_isSome_iff st n).mp hmemo⟩
    · rw [if_neg hmemo] at h
      have hnot : n ∉ names st := fun hm => hmemo ((get?_isSome_iff st n).mpr hm)
      cases hfind : p.find? n with
      | none => rw [hfind] at h; simp at h
      | some c =>
        rw [hfind] at h
        simp only at h
        cases hval : validateParams (mkCtx sem p st) c with
        | error e => rw [hval] at h; simp at h
        | ok u =>
          rw [hval] at h
          simp only at h
          -- state after entering the body
          have hinv1 : InvO sem p (n :: O) { memo := st.memo, log := st.log ++ [Ev.start n] } := by
            refine ⟨hinv.nodup, ?_, ?_, hinv.ordered⟩
            · show finishes (st.log ++ [Ev.start n]) = names st
              rw [finishes_append, hinv.fin]; simp [finishes]
            · show (starts (st.log ++ [Ev.start n])).Perm (finishes (st.log ++ [Ev.start n]) ++ n :: O)
              rw [starts_append, finishes_append]
              have e1 : starts [Ev.start n] = [n] := rfl
              have e2 : finishes [Ev.start n] = [] := rfl
              rw [e1, e2, List.append_nil]
              exact (hinv.bal.append_right [n]).trans (by
                rw [List.append_assoc]
                exact List.Perm.append_left _ (List.perm_append_comm.trans (by simp)))
          cases hpull : runCmd.pull sem p fuel (sem.pulls c) { memo := st.memo, log := st.log ++ [Ev.start n] } [] with
          | mk s2 ev =>
            rw [hpull] at h
            cases ev with
            | error e => simp at h
            | ok vals =>
              simp only at h
              cases hcomp : sem.compute c vals with
              | error e => rw [hcomp] at h; simp at h
              | ok v =>
                rw [hcomp] at h
                simp only at h
                injection h with h1 _; subst h1
                obtain ⟨step2, hall⟩ := pull_ok sem p r fuel ih (n :: O) (r n) (sem.pulls c) _ [] s2 vals
                  (fun d hd => hr n c hfind d hd) hinv1 hpull
                obtain ⟨ext, hext⟩ := step2.logExt
                obtain ⟨m, hm, hmr⟩ := step2.memoExt
                have hnames2 : names s2 = names st ++ m.map (·.1) := by simp [names, hm]
                have hn2 : n ∉ names s2 := by
                  rw [hnames2]
                  intro hmem
                  rcases List.mem_append.mp hmem with hmem | hmem
                  · exact hnot hmem
                  · exact absurd (hmr n hmem) (Nat.lt_irrefl _)
                have hN : names ({ memo := s2.memo ++ [(n, v)], log := s2.log ++ [Ev.finish n] } : St Val) = names s2 ++ [n] := by
                  simp [names]
                refine ⟨⟨⟨?_, ?_, ?_, ?_⟩, ⟨[Ev.start n] ++ ext ++ [Ev.finish n], ?_⟩, ⟨m ++ [(n, v)], ?_, ?_⟩⟩, ?_⟩
                · -- nodup
                  rw [hN]
                  exact List.nodup_append.mpr ⟨step2.inv.nodup, by simp, by
                    intro a ha b hb; simp at hb; subst hb; intro e; subst e; exact hn2 ha⟩
                · rw [hN]
                  show finishes (s2.log ++ [Ev.finish n]) = names s2 ++ [n]
                  rw [finishes_append, step2.inv.fin]; rfl
                · show (starts (s2.log ++ [Ev.finish n])).Perm (finishes (s2.log ++ [Ev.finish n]) ++ O)
                  rw [starts_append, finishes_append]
                  have e1 : starts [Ev.finish n] = [] := rfl
                  have e2 : finishes [Ev.finish n] = [n] := rfl
                  rw [e1, e2, List.append_nil]
                  exact step2.inv.bal.trans (by
                    rw [List.append_assoc]
                    exact List.Perm.append_left _ (by simp))
                · -- dependencies first
                  intro pre x post hsplit cx hcx d hd
                  have hsplit' : names s2 ++ [n] = pre ++ x :: post := by rw [← hN]; exact hsplit
                  by_cases hpost : post = []
                  · subst hpost
                    have := List.append_inj' hsplit' (by simp)
                    obtain ⟨h1, h2⟩ := this
                    injection h2 with h2 _; subst h2; subst h1
                    rw [hfind] at hcx; injection hcx with hcx; subst hcx
                    exact hall d hd
                  · obtain ⟨post', y, rfl⟩ : ∃ post' y, post = post' ++ [y] := by
                      exact ⟨post.dropLast, post.getLast hpost, (List.dropLast_append_getLast hpost).symm⟩
                    have : names s2 ++ [n] = (pre ++ x :: post') ++ [y] := by rw [hsplit']; simp
                    have h3 := List.append_inj' this (by simp)
                    exact step2.inv.ordered pre x post' (by rw [h3.1]) cx hcx d hd
                · show s2.log ++ [Ev.finish n] = st.log ++ ([Ev.start n] ++ ext ++ [Ev.finish n])
                  rw [hext]; simp
                · show s2.memo ++ [(n, v)] = st.memo ++ (m ++ [(n, v)])
                  rw [hm]; simp
                · intro x hx
                  simp only [List.map_append, List.map_cons, List.map_nil, List.mem_append, List.mem_singleton] at hx
                  rcases hx with hx | hx
                  · have := hmr x hx; omega
                  · subst hx; exact Nat.lt_succ_self _
                · rw [hN]; simp

/-- the loop of `Program.run` over the leaves -/
theorem go_ok (hr : Ranked sem p r) :
    ∀ (leaves : List PCmd) (st st' : St Val), InvO sem p [] st → run.go sem p leaves st = (st', none) →
      InvO sem p [] st' ∧ (∀ l ∈ leaves, l.resultName ∈ names st') ∧ (∃ ext, st'.log = st.log ++ ext) ∧
      (∃ m, names st' = names st ++ m) := by
  intro leaves
  induction leaves with
  | nil =>
    intro st st' hinv h
    unfold run.go at h
    injection h with h1 _; subst h1
    exact ⟨hinv, by simp, ⟨[], by simp⟩, ⟨[], by simp⟩⟩
  | cons c rest ih =>
    intro st st' hinv h
    unfold run.go at h
    cases hrun : runCmd sem p (p.cmds.length + 1) st c.resultName with
    | mk s1 oe =>
      rw [hrun] at h
      cases oe with
      | some e => simp at h
      | none =>
        simp only at h
        obtain ⟨step1, hmem1⟩ := runCmd_ok sem p r hr _ [] st c.resultName s1 hinv hrun
        obtain ⟨hinv', hall, ⟨e2, he2⟩, ⟨m2, hm2⟩⟩ := ih s1 st' step1.inv h
        obtain ⟨e1, he1⟩ := step1.logExt
        obtain ⟨m1, hm1, _⟩ := step1.names_ext
        refine ⟨hinv', ?_, ⟨e1 ++ e2, by rw [he2, he1, List.append_assoc]⟩, ⟨m1 ++ m2, by rw [hm2, hm1, List.append_assoc]⟩⟩
        intro l hl
        rcases List.mem_cons.mp hl with rfl | hl
        · rw [hm2]; exact List.mem_append_left _ hmem1
        · exact hall l hl

/-- in a balanced log without repeated finishes, nothing starts twice, and what finished started exactly once -/
theorem once_of_inv {st : St Val} (h : InvO sem p [] st) :
    (starts st.log).Nodup ∧ (finishes st.log).Nodup ∧ ∀ n, n ∈ names st → (starts st.log).count n = 1 ∧ (finishes st.log).count n = 1 := by
  have hbal : (starts st.log).Perm (finishes st.log) := by simpa using h.bal
  have hfn : (finishes st.log).Nodup := by rw [h.fin]; exact h.nodup
  have hsn : (starts st.log).Nodup := hbal.nodup_iff.mpr hfn
  refine ⟨hsn, hfn, fun n hn => ?_⟩
  have hf : n ∈ finishes st.log := by rw [h.fin]; exact hn
  have hs : n ∈ starts st.log := hbal.mem_iff.mpr hf
  exact ⟨List.count_eq_one_of_mem hsn hs, List.count_eq_one_of_mem hfn hf⟩

/-- the empty state satisfies the invariant -/
theorem inv_init : InvO sem p [] ({ memo := [], log := [] } : St Val) :=
  ⟨by simp [names], by simp [finishes, names], by simp [starts, finishes], by
    intro pre n post h; simp [names] at h⟩

/-- **C01 (at most once, dependencies first, memoised).**  Whenever `Program.run` succeeds on an acyclic program, starting from any
state reached by earlier successful runs/result reads: no command's body has been entered twice, every finished command
entered its body exactly once, every finished command's inputs finished before it, and the log only grew. -/
theorem run_ok (hr : Ranked sem p r) (st st' : St Val) (hinv : InvO sem p [] st) (h : run sem p st = (st', none)) :
    InvO sem p [] st' ∧ (∃ ext, st'.log = st.log ++ ext) := by
  unfold run at h
  split at h
  · simp at h
  · split at h
    · simp at h
    · obtain ⟨hinv', _, hext, _⟩ := go_ok sem p r hr _ st st' hinv h
      exact ⟨hinv', hext⟩

/-- a result read (`Command.result`) after which the command is finished; same guarantees -/
theorem result_ok (hr : Ranked sem p r) (fuel : Nat) (st st' : St Val) (n : String) (hinv : InvO sem p [] st)
    (h : runCmd sem p fuel st n = (st', none)) : InvO sem p [] st' ∧ n ∈ names st' ∧ (∃ ext, st'.log = st.log ++ ext) := by
  obtain ⟨step, hmem⟩ := runCmd_ok sem p r hr fuel [] st n st' hinv h
  exact ⟨step.inv, hmem, step.logExt⟩

/-- **reading a finished result executes nothing**: the state does not change at all -/
theorem result_memoised (fuel : Nat) (st : St Val) (n : String) (h : n ∈ names st) :
    runCmd sem p (fuel + 1) st n = (st, none) := by
  unfold runCmd
  rw [if_pos ((get?_isSome_iff st n).mpr h)]

theorem go_memoised : ∀ (leaves : List PCmd) (st : St Val), (∀ l ∈ leaves, l.resultName ∈ names st) →
    run.go sem p leaves st = (st, none) := by
  intro leaves
  induction leaves with
  | nil => intro st _; unfold run.go; rfl
  | cons c rest ih =>
    intro st hall
    unfold run.go
    rw [result_memoised sem p p.cmds.length st c.resultName (hall c (List.mem_cons_self ..))]
    exact ih st fun l hl => hall l (List.mem_cons_of_mem _ hl)

/-- **running the program again executes nothing further**: once every command is finished, `run` leaves log and memo as they are
(whether its pre-pass succeeds or not) -/
theorem run_idempotent (st : St Val) (hall : ∀ c ∈ p.cmds, c.resultName ∈ names st) : (run sem p st).1 = st := by
  unfold run
  split
  · rfl
  · split
    · rfl
    · rw [go_memoised sem p (leavesOf p _) st fun l hl => hall l (List.mem_filter.mp (by unfold leavesOf at hl; exact hl)).1]

/-- dependencies are finished first: in the order of finishing, everything a command reads precedes it -/
theorem deps_first {st : St Val} (h : InvO sem p [] st) (pre : List String) (n : String) (post : List String)
    (hs : finishes st.log = pre ++ n :: post) (c : PCmd) (hc : p.find? n = some c) : ∀ d ∈ sem.pulls c, d ∈ pre :=
  h.ordered pre n post (by rw [← h.fin]; exact hs) c hc

theorem exists_bound (l : List PCmd) : ∃ M, ∀ c ∈ l, r c.resultName ≤ M := by
  induction l with
  | nil => exact ⟨0, by simp⟩
  | cons c t ih =>
    obtain ⟨M, hM⟩ := ih
    refine ⟨max M (r c.resultName), ?_⟩
    intro x hx
    rcases List.mem_cons.mp hx with rfl | hx
    · exact Nat.le_max_right _ _
    · exact Nat.le_trans (hM x hx) (Nat.le_max_left _ _)

/-- finished commands are closed under "reads" -/
theorem closed_of_inv {st : St Val} (h : InvO sem p [] st) (n : String) (c : PCmd) (hn : n ∈ names st)
    (hc : p.find? n = some c) : ∀ d ∈ sem.pulls c, d ∈ names st := by
  intro d hd
  obtain ⟨pre, post, hsplit⟩ := List.append_of_mem hn
  rw [hsplit]
  exact List.mem_append_left _ (h.ordered pre n post hsplit c hc d hd)

/-- **C01 (at least once).**  If `run` succeeds on an acyclic program with distinct result names, *every* command has finished —
provided every command that is directly referenced is read by the body of its consumer (`hcover`: the one fact about command bodies
this needs; checked for every built-in by the correspondence, which logs each result read). -/
theorem run_executes_all (hr : Ranked sem p r) (st st' : St Val) (hinv : InvO sem p [] st)
    (hnd : ∀ c ∈ p.cmds, p.find? c.resultName = some c)
    (hcover : ∀ info, prepass (mkCtx sem p st) p.cmds = .ok info → ∀ c ∈ p.cmds,
        (directOf info).contains c.resultName = true → ∃ c' ∈ p.cmds, c.resultName ∈ sem.pulls c')
    (h : run sem p st = (st', none)) : ∀ c ∈ p.cmds, c.resultName ∈ names st' := by
  unfold run at h
  split at h
  · simp at h
  · rename_i info hpre
    split at h
    · simp at h
    · obtain ⟨hinv', hleaves, _, _⟩ := go_ok sem p r hr _ st st' hinv h
      obtain ⟨M, hM⟩ := exists_bound r p.cmds
      -- induction on the distance of the rank from the maximal rank
      have key : ∀ k, ∀ c ∈ p.cmds, M - r c.resultName ≤ k → c.resultName ∈ names st' := by
        intro k
        induction k with
        | zero =>
          intro c hc hk
          by_cases hl : (directOf info).contains c.resultName = true
          · obtain ⟨c', hc', hpull⟩ := hcover info hpre c hc hl
            have h1 := hr c'.resultName c' (hnd c' hc') c.resultName hpull
            have h2 := hM c' hc'
            omega
          · exact hleaves c (by unfold leavesOf; exact List.mem_filter.mpr ⟨hc, by simpa using hl⟩)
        | succ k ih =>
          intro c hc hk
          by_cases hl : (directOf info).contains c.resultName = true
          · obtain ⟨c', hc', hpull⟩ := hcover info hpre c hc hl
            have h1 := hr c'.resultName c' (hnd c' hc') c.resultName hpull
            have h2 := hM c' hc'
            have hfin := ih c' hc' (by omega)
            exact closed_of_inv sem p hinv' c'.resultName c' hfin (hnd c' hc') c.resultName hpull
          · exact hleaves c (by unfold leavesOf; exact List.mem_filter.mpr ⟨hc, by simpa using hl⟩)
      intro c hc
      exact key (M - r c.resultName) c hc (Nat.le_refl _)

/-- **C01, assembled**: after a successful `run` from the initial state, every command of an acyclic program was executed exactly once -/
theorem run_executes_each_exactly_once (hr : Ranked sem p r) (st' : St Val)
    (hnd : ∀ c ∈ p.cmds, p.find? c.resultName = some c)
    (hcover : ∀ info, prepass (mkCtx sem p ({ memo := [], log := [] } : St Val)) p.cmds = .ok info → ∀ c ∈ p.cmds,
        (directOf info).contains c.resultName = true → ∃ c' ∈ p.cmds, c.resultName ∈ sem.pulls c')
    (h : run sem p { memo := [], log := [] } = (st', none)) :
    ∀ c ∈ p.cmds, (starts st'.log).count c.resultName = 1 ∧ (finishes st'.log).count c.resultName = 1 := by
  have hall := run_executes_all sem p r hr _ st' (inv_init sem p) hnd hcover h
  have hinv := (run_ok sem p r hr _ st' (inv_init sem p) h).1
  intro c hc
  exact (once_of_inv sem p hinv).2.2 c.resultName (hall c hc)

end

end MPilot.C01
