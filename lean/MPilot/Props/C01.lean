/- C01 — theorems under construction -/
import MPilot.Model.Program
