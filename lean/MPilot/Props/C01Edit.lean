/-
C01 (histories with edits) — commands added to the program between runs and reads.

`history_ok` (Props/C01Hist.lean) is about one fixed program.  Here the program grows along the history: besides `run()` and reads of a
result, a step may add a command through the programming interface (`Program.add_command`: refused when the result name is taken).  A consumer
attached after a run, a whole model built up step by step with runs in between - the claim is the same: at every point no command has
completed twice, the stored results of an earlier point are still stored unchanged, and every completed command's inputs completed before it.

* `Known`: every stored result belongs to a command of the program (`runCmd_known`, `run_known`: kept by every outcome);
* `finv_grow`: adding a command under a fresh name keeps the invariant (the commands already there are found as before: `find?_grow`);
* `edit_history_ok`: the invariant at the end of any history of runs, reads and additions, relative to the program as it is then; stored results
  of every earlier point are kept (`memo` of a prefix of the history is a prefix of the final `memo`), nothing completes twice.
Acyclicity is asked of the final program (`Ranked` for it): every earlier program is a part of it (`Ranked.shrink`).
Deleting a command (`del program.commands[name]`) is still outside the model: it lives in the driver only.
-/
import MPilot.Props.C01Hist

namespace MPilot.C01
open MPilot

variable {Val : Type}

/-- every stored result belongs to a command of the program -/
def Known (p : Program) (st : St Val) : Prop := ∀ x ∈ names st, (p.find? x).isSome = true

section
variable (sem : Sem Val) (p : Program)

theorem pull_known (fuel : Nat) (ih : ∀ st n, Known p st → Known p (runCmd sem p fuel st n).1) :
    ∀ (ds : List String) (s : St Val) (acc : List Val), Known p s → Known p (runCmd.pull sem p fuel ds s acc).1 := by
  intro ds
  induction ds with
  | nil => intro s acc h; unfold runCmd.pull; exact h
  | cons d ds ihd =>
    intro s acc h
    unfold runCmd.pull
    have h1 := ih s d h
    cases hrun : runCmd sem p fuel s d with
    | mk s1 oe =>
      rw [hrun] at h1
      cases oe with
      | some e => exact h1
      | none =>
        simp only
        cases hget : s1.get? d with
        | none => exact h1
        | some v => exact ihd s1 (v :: acc) h1

/-- whatever `Command.run` does, results are only ever stored for commands of the program -/
theorem runCmd_known : ∀ (fuel : Nat) (st : St Val) (n : String), Known p st → Known p (runCmd sem p fuel st n).1 := by
  intro fuel
  induction fuel with
  | zero => intro st n h; unfold runCmd; exact h
  | succ fuel ih =>
    intro st n h
    unfold runCmd
    split
    · exact h
    · cases hfind : p.find? n with
      | none => exact h
      | some c =>
        simp only
        cases hval : validateParams (mkCtx sem p st) c with
        | error e => exact h
        | ok u =>
          simp only
          have h1 : Known p ({ memo := st.memo, log := st.log ++ [Ev.start n] } : St Val) := h
          have h2 := pull_known sem p fuel ih (sem.pulls c) { memo := st.memo, log := st.log ++ [Ev.start n] } [] h1
          cases hpull : runCmd.pull sem p fuel (sem.pulls c) { memo := st.memo, log := st.log ++ [Ev.start n] } [] with
          | mk s2 res =>
            rw [hpull] at h2
            cases res with
            | error e => exact h2
            | ok vals =>
              simp only
              cases hcomp : sem.compute c vals with
              | error e => exact h2
              | ok v =>
                intro x hx
                simp only [names, List.map_append, List.map_cons, List.map_nil, List.mem_append, List.mem_singleton] at hx
                rcases hx with hx | rfl
                · exact h2 x hx
                · rw [hfind]; rfl

theorem go_known : ∀ (leaves : List PCmd) (st : St Val), Known p st → Known p (run.go sem p leaves st).1 := by
  intro leaves
  induction leaves with
  | nil => intro st h; unfold run.go; exact h
  | cons c rest ih =>
    intro st h
    unfold run.go
    have h1 := runCmd_known sem p (p.cmds.length + 1) st c.resultName h
    cases hrun : runCmd sem p (p.cmds.length + 1) st c.resultName with
    | mk s1 oe =>
      rw [hrun] at h1
      cases oe with
      | some e => exact h1
      | none => exact ih s1 h1

theorem run_known (st : St Val) (h : Known p st) : Known p (run sem p st).1 := by
  unfold run
  split
  · exact h
  · split
    · exact h
    · exact go_known sem p _ st h

end

/-! ### growing programs -/

/-- `Program.add_command` as far as the run loop is concerned: refused when the result name is taken -/
def grow (p : Program) (c : PCmd) : Program :=
  if (p.find? c.resultName).isSome then p else { p with cmds := p.cmds ++ [c] }

/-- the commands already there are found as before -/
theorem find?_grow (p : Program) (c : PCmd) (n : String) (k : PCmd) (h : p.find? n = some k) : (grow p c).find? n = some k := by
  unfold grow
  split
  · exact h
  · simp only [Program.find?] at h ⊢
    rw [List.find?_append, h]; rfl

/-- the model's `Program.add_command` (`addCommand`, which also refuses missing and undeclared arguments) adds exactly as `grow` does, or not at all -/
theorem addCommand_is_grow (p p' : Program) (decl : CmdDecl) (rn : String) (args : List Arg) (line : Option Nat)
    (h : addCommand p decl rn args line = .ok p') : p' = grow p ⟨rn, decl, args, line⟩ := by
  unfold addCommand at h
  split at h
  · cases h
  · rename_i hdup
    split at h
    · cases h
    · split at h
      · cases h
      · injection h with h
        subst h
        unfold grow
        simp only [hdup, Bool.false_eq_true, if_false]

theorem length_grow (p : Program) (c : PCmd) : p.cmds.length ≤ (grow p c).cmds.length := by
  unfold grow; split <;> simp

theorem known_grow {p : Program} {st : St Val} (c : PCmd) (h : Known p st) : Known (grow p c) st := by
  intro x hx
  obtain ⟨k, hk⟩ := Option.isSome_iff_exists.mp (h x hx)
  rw [find?_grow p c x k hk]; rfl

/-- adding a command keeps the invariant: it speaks about stored results only, and their commands are found as before -/
theorem finv_grow {sem : Sem Val} {p : Program} {st : St Val} (c : PCmd) (h : FInv sem p st) (hk : Known p st) : FInv sem (grow p c) st := by
  refine ⟨h.nodup, h.fin, ?_⟩
  intro pre n post hn k hfind d hd
  have hmem : n ∈ names st := by rw [hn]; simp
  obtain ⟨k0, hk0⟩ := Option.isSome_iff_exists.mp (hk n hmem)
  have : k = k0 := by
    have := find?_grow p c n k0 hk0
    rw [hfind] at this; injection this
  subst this
  exact h.ordered pre n post hn k hk0 d hd

/-- an acyclic program stays acyclic when a command is taken away from its end: every part of the final program is ranked by the final rank -/
theorem Ranked.shrink {sem : Sem Val} {p : Program} {r : String → Nat} (c : PCmd) (h : Ranked sem (grow p c) r) : Ranked sem p r :=
  fun n k hk d hd => h n k (find?_grow p c n k hk) d hd

/-- one step of a history with edits -/
inductive EOp
  | run
  | result (n : String)
  | add (c : PCmd)

structure EState (Val : Type) where
  prog : Program
  st : St Val

def estep (s : EState Val) (x : Sem Val × EOp) : EState Val :=
  match x.2 with
  | .run => { s with st := (run x.1 s.prog s.st).1 }
  | .result n => { s with st := (runCmd x.1 s.prog (s.prog.cmds.length + 1) s.st n).1 }
  | .add c => { s with prog := grow s.prog c }

def ehistory (p0 : Program) (ops : List (Sem Val × EOp)) : EState Val := ops.foldl estep { prog := p0, st := { memo := [], log := [] } }

/-- the final program is ranked ⇒ so is every program along the way -/
theorem ranked_along (sem : Sem Val) (r : String → Nat) : ∀ (ops : List (Sem Val × EOp)) (s : EState Val),
    Ranked sem (ops.foldl estep s).prog r → Ranked sem s.prog r := by
  intro ops
  induction ops with
  | nil => intro s h; exact h
  | cons x rest ih =>
    intro s h
    have h1 := ih (estep s x) h
    unfold estep at h1
    cases hop : x.2 with
    | run => rw [hop] at h1; exact h1
    | result n => rw [hop] at h1; exact h1
    | add c => rw [hop] at h1; exact Ranked.shrink c h1

variable (sem : Sem Val) (r : String → Nat)

theorem estep_any (s : EState Val) (x : Sem Val × EOp) (hx : x.1.pulls = sem.pulls) (hr : Ranked sem (estep s x).prog r)
    (hinv : FInv sem s.prog s.st) (hk : Known s.prog s.st) :
    FInv sem (estep s x).prog (estep s x).st ∧ Known (estep s x).prog (estep s x).st ∧ ∃ m, (estep s x).st.memo = s.st.memo ++ m := by
  cases hop : x.2 with
  | run =>
    have hp : (estep s x).prog = s.prog := by unfold estep; rw [hop]
    have hs : (estep s x).st = (run x.1 s.prog s.st).1 := by unfold estep; rw [hop]
    rw [hp] at hr ⊢
    rw [hs]
    have hr' : Ranked x.1 s.prog r := Ranked.congr hr hx
    cases hrun : run x.1 s.prog s.st with
    | mk s' oe =>
      obtain ⟨h1, _, h3⟩ := run_any x.1 s.prog r hr' s.st s' oe (hinv.congr hx) hrun
      have hk' := run_known x.1 s.prog s.st hk
      rw [hrun] at hk'
      exact ⟨h1.congr hx.symm, hk', h3⟩
  | result n =>
    have hp : (estep s x).prog = s.prog := by unfold estep; rw [hop]
    have hs : (estep s x).st = (runCmd x.1 s.prog (s.prog.cmds.length + 1) s.st n).1 := by unfold estep; rw [hop]
    rw [hp] at hr ⊢
    rw [hs]
    have hr' : Ranked x.1 s.prog r := Ranked.congr hr hx
    cases hrun : runCmd x.1 s.prog (s.prog.cmds.length + 1) s.st n with
    | mk s' oe =>
      obtain ⟨step, _⟩ := runCmd_any x.1 s.prog r hr' _ s.st n s' oe (hinv.congr hx) hrun
      obtain ⟨m, hm, _⟩ := step.memoExt
      have hk' := runCmd_known x.1 s.prog (s.prog.cmds.length + 1) s.st n hk
      rw [hrun] at hk'
      exact ⟨step.inv.congr hx.symm, hk', ⟨m, hm⟩⟩
  | add c =>
    have hp : (estep s x).prog = grow s.prog c := by unfold estep; rw [hop]
    have hs : (estep s x).st = s.st := by unfold estep; rw [hop]
    rw [hp, hs]
    exact ⟨finv_grow c hinv hk, known_grow c hk, ⟨[], by simp⟩⟩

/-- **C01 over histories with edits.**  Start from any program; run it, read results, add commands through the programming interface, in any
order and any number of times, each run or read under its own behaviour of the bodies (same reads).  If the program reached at the end is acyclic
then, at the end - and hence at every point, since every prefix of a history is a history whose final program is a part of this one -
* the invariant holds for the final program: no command has completed twice, completed commands are exactly the stored ones in completion order,
  every completed command's inputs completed before it;
* every stored result belongs to a command of the program;
* what any earlier point of the history had stored is still stored, unchanged and in place. -/
theorem edit_history_ok (p0 : Program) (ops : List (Sem Val × EOp)) (hops : ∀ x ∈ ops, x.1.pulls = sem.pulls)
    (hr : Ranked sem (ehistory p0 ops).prog r) :
    FInv sem (ehistory p0 ops).prog (ehistory p0 ops).st ∧ (finishes (ehistory p0 ops).st.log).Nodup ∧
    Known (ehistory p0 ops).prog (ehistory p0 ops).st ∧
    ∀ k, ∃ m, (ehistory p0 ops).st.memo = (ehistory p0 (ops.take k)).st.memo ++ m := by
  have key : ∀ (ops : List (Sem Val × EOp)) (s : EState Val), (∀ x ∈ ops, x.1.pulls = sem.pulls) → Ranked sem (ops.foldl estep s).prog r →
      FInv sem s.prog s.st → Known s.prog s.st →
      FInv sem (ops.foldl estep s).prog (ops.foldl estep s).st ∧ Known (ops.foldl estep s).prog (ops.foldl estep s).st ∧
      ∃ m, (ops.foldl estep s).st.memo = s.st.memo ++ m := by
    intro ops
    induction ops with
    | nil => intro s _ _ h hk; exact ⟨h, hk, [], by simp⟩
    | cons x rest ih =>
      intro s hall hrk h hk
      have hr1 : Ranked sem (estep s x).prog r := ranked_along sem r rest (estep s x) hrk
      obtain ⟨h1, hk1, ⟨m1, hm1⟩⟩ := estep_any sem r s x (hall x List.mem_cons_self) hr1 h hk
      obtain ⟨h2, hk2, m2, hm2⟩ := ih (estep s x) (fun y hy => hall y (List.mem_cons_of_mem _ hy)) hrk h1 hk1
      exact ⟨h2, hk2, m1 ++ m2, by rw [List.foldl_cons, hm2, hm1, List.append_assoc]⟩
  have hinit : FInv sem p0 ({ memo := [], log := [] } : St Val) := finv_init sem p0
  have hkinit : Known p0 ({ memo := [], log := [] } : St Val) := by intro x hx; simp [names] at hx
  obtain ⟨hfin, hkn, _⟩ := key ops _ hops hr hinit hkinit
  have hfin' : FInv sem (ehistory p0 ops).prog (ehistory p0 ops).st := hfin
  refine ⟨hfin', by rw [hfin'.fin]; exact hfin'.nodup, hkn, ?_⟩
  intro k
  have hsplit : ops = ops.take k ++ ops.drop k := (List.take_append_drop k ops).symm
  have heq : ehistory p0 ops = (ops.drop k).foldl estep (ehistory p0 (ops.take k)) := by
    unfold ehistory
    conv_lhs => rw [hsplit]
    rw [List.foldl_append]
  have hr2 : Ranked sem ((ops.drop k).foldl estep (ehistory p0 (ops.take k))).prog r := by rw [← heq]; exact hr
  have hrk : Ranked sem (ehistory p0 (ops.take k)).prog r := ranked_along sem r (ops.drop k) _ hr2
  obtain ⟨htake, hktake, _⟩ := key (ops.take k) _ (fun x hx => hops x (List.mem_of_mem_take hx)) hrk hinit hkinit
  obtain ⟨_, _, m, hm⟩ := key (ops.drop k) (ehistory p0 (ops.take k)) (fun x hx => hops x (List.mem_of_mem_drop hx)) hr2 htake hktake
  exact ⟨m, by rw [heq, hm]⟩

/-! non-vacuity: the two-command model of C01Hist is run (the body of `a` fails), a command `z` that nobody reads is added, `b` is offered again
(refused: the name is taken), the model is run again with working bodies: the premises of `edit_history_ok` hold for this history -/
section
def exOps : List (Sem Nat × EOp) :=
  [(exSem true, .run), (exSem false, .add ⟨"z", exDecl, [], some 3⟩), (exSem false, .add ⟨"b", exDecl, [], some 4⟩), (exSem false, .run),
   (exSem false, .result "z")]

theorem exFinalProg : (ehistory exProg exOps).prog.cmds.map (·.resultName) = ["b", "a", "z"] := by
  simp [ehistory, exOps, estep, grow, exProg, Program.find?]

theorem exRankedFinal : Ranked (exSem true) (ehistory exProg exOps).prog exRank := by
  have hp : (ehistory exProg exOps).prog = grow (grow exProg ⟨"z", exDecl, [], some 3⟩) ⟨"b", exDecl, [], some 4⟩ := by
    simp [ehistory, exOps, estep]
  rw [hp]
  intro n c hc d hd
  have hd' : c.resultName = "b" ∧ d = "a" := by
    simp only [exSem] at hd
    split at hd
    · rename_i hb; simp at hd; exact ⟨by simpa using hb, hd⟩
    · simp at hd
  obtain ⟨hb, rfl⟩ := hd'
  have hn : n = "b" := by
    have := List.find?_some hc
    simp at this; rw [← this, hb]
  subst hn; decide

example : FInv (exSem true) (ehistory exProg exOps).prog (ehistory exProg exOps).st :=
  (edit_history_ok (exSem true) exRank exProg exOps (by intro x hx; simp [exOps] at hx; rcases hx with rfl | rfl | rfl | rfl | rfl <;> rfl) exRankedFinal).1
end

end MPilot.C01
