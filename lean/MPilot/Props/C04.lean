/-
C04 — every fuzzy-producing command returns only values in [-1, +1] at its non-missing cells.
-/
import MPilot.Model.Eems
import MPilot.Lemmas.Except
import Mathlib.Tactic.Linarith
import Mathlib.Algebra.Order.Field.Rat

namespace MPilot.C04
open MPilot

/-- the range predicate on a result array -/
def InFuzzyRange (r : Arr) : Prop := ∀ c ∈ r.cells, c.mask = false → -1 ≤ c.val ∧ c.val ≤ 1

theorem clampHiLo_range (x : Rat) : -1 ≤ clampHiLo (-1) 1 x ∧ clampHiLo (-1) 1 x ≤ 1 := by
  unfold clampHiLo
  simp only
  split_ifs <;> constructor <;> linarith

theorem insure_range (a : Arr) : InFuzzyRange (a.insure (-1) 1) := by
  intro c hc hm
  simp only [Arr.insure, Arr.mapCells, List.mem_map] at hc
  obtain ⟨d, _, rfl⟩ := hc
  unfold Cell.insure at hm ⊢
  by_cases h : d.mask = true
  · simp [h] at hm
  · simp only [h]
    exact clampHiLo_range d.val

theorem fuzzyClamp_range {x : Except Err Arr} {r : Arr} (h : fuzzyClamp x = .ok r) : InFuzzyRange r := by
  unfold fuzzyClamp at h
  cases x with
  | error e => simp [Except.map] at h
  | ok a =>
    simp only [Except.map, Except.ok.injEq] at h
    subst h
    exact insure_range a

/-- single-input commands: every arity other than one is the model's `Arity` error -/
macro "one_input" xs:ident h:ident a:ident : tactic =>
  `(tactic| (rcases $xs:ident with _ | ⟨$a:ident, _ | ⟨_, _⟩⟩ <;> simp only [exec] at $h:ident <;>
      first | (exact absurd $h:ident (eRaw_ne_ok _ _)) | skip))

/-- **C04.** Every fuzzy-producing command returns values in [-1, 1] at every non-missing cell — for every input
(any number, shape, element type, masks, hidden payloads), every parameter value (thresholds, weights, category,
curve and z-score values outside the fuzzy range included) and every `sqrt`. No hypothesis on the inputs. -/
theorem fuzzy_range (sqrt : Rat → Rat) (c : DataCmd) (xs : List Arr) (r : Arr)
    (hc : c.isFuzzyProducer = true) (h : exec sqrt c xs = .ok r) : InFuzzyRange r := by
  cases c <;> simp only [DataCmd.isFuzzyProducer] at hc <;> try (exact absurd hc (by decide))
  case cvtToFuzzy tt ft dir =>
    one_input xs h a
    have hgo : ∀ hl, exec.go a tt ft hl = .ok r → InFuzzyRange r := by
      intro hl hg
      unfold exec.go at hg
      repeat' (first | split at hg | dsimp only at hg)
      all_goals first | exact fuzzyClamp_range hg | exact absurd hg (eMp_ne_ok _ _ _) | exact absurd hg (eRaw_ne_ok _ _)
    split at h
    · split at h
      · exact absurd h (eMp_ne_ok _ _ _)
      · exact hgo _ h
    · exact hgo _ h
  case cvtToFuzzyZScore tt ft => one_input xs h a; exact fuzzyClamp_range h
  case cvtToFuzzyCat raw fz d => one_input xs h a; exact fuzzyClamp_range h
  case cvtToFuzzyCurve raw fz => one_input xs h a; exact fuzzyClamp_range h
  case cvtToFuzzyMeanToMid iz fz => one_input xs h a; exact fuzzyClamp_range h
  case cvtToFuzzyCurveZScore z fz => one_input xs h a; exact fuzzyClamp_range h
  case cvtToBinary th dir =>
    one_input xs h a
    split at h
    · exact absurd h (eMp_ne_ok _ _ _)
    · exact fuzzyClamp_range h
  case fuzzyUnion =>
    simp only [exec] at h
    obtain ⟨_, _, h⟩ := bind_ok h
    split at h
    · exact absurd h (eMp_ne_ok _ _ _)
    · exact fuzzyClamp_range h
  case fuzzyWeightedUnion w =>
    simp only [exec] at h
    split at h
    · exact absurd h (eMp_ne_ok _ _ _)
    · obtain ⟨_, _, h⟩ := bind_ok h
      exact fuzzyClamp_range h
  case fuzzySelectedUnion sel k =>
    simp only [exec] at h
    obtain ⟨_, _, h⟩ := bind_ok h
    repeat' split at h
    all_goals first | exact fuzzyClamp_range h | exact absurd h (eMp_ne_ok _ _ _) | exact absurd h (eRaw_ne_ok _ _)
  case fuzzyOr => simp only [exec] at h; exact fuzzyClamp_range h
  case fuzzyAnd => simp only [exec] at h; exact fuzzyClamp_range h
  case fuzzyXOr =>
    simp only [exec] at h
    obtain ⟨_, _, h⟩ := bind_ok h
    split at h
    · exact absurd h (eRaw_ne_ok _ _)
    · exact fuzzyClamp_range h
  case fuzzyNot => one_input xs h a; exact fuzzyClamp_range h

end MPilot.C04
