/-
C18 — NetCDF reading and writing are faithful (partial by nature).

What a theorem can carry here is the command logic on top of the library: the union mask on writing, the optional read parameters.
That the netCDF4/HDF5 library returns what was assigned (storage, compression, fill values, attribute copying, CRS discovery) is
assumed in the model and validated only by the correspondence and the faithfulness oracles on generated files.
-/
import MPilot.Model.NetCdf
import Mathlib.Tactic.Common

namespace MPilot.C18
open MPilot

/-! ### writing -/

theorem unionMask_length (a : Arr) (rest : List Arr) (n : Nat) (ha : a.cells.length = n) (hr : ∀ b ∈ rest, b.cells.length = n) :
    (unionMask (a :: rest)).length = n := by
  unfold unionMask
  have : ∀ (l : List Arr) (m : List Bool), m.length = n → (∀ b ∈ l, b.cells.length = n) →
      (l.foldl (fun m b => List.zipWith (· || ·) m (b.cells.map (·.mask))) m).length = n := by
    intro l
    induction l with
    | nil => intro m hm _; exact hm
    | cons b t ih =>
      intro m hm hl
      rw [List.foldl_cons]
      apply ih
      · simp [hm, hl b (List.mem_cons_self ..)]
      · exact fun x hx => hl x (List.mem_cons_of_mem _ hx)
  exact this rest _ (by simp [ha]) hr

/-- **the mask written**: a cell is missing in the file exactly where some result written together with it is missing -/
theorem unionMask_spec (a : Arr) (rest : List Arr) (n i : Nat) (ha : a.cells.length = n) (hr : ∀ b ∈ rest, b.cells.length = n) (hi : i < n) :
    (unionMask (a :: rest))[i]? = some ((a :: rest).any fun b => (b.cells.getD i default).mask) := by
  unfold unionMask
  have : ∀ (l : List Arr) (m : List Bool) (acc : Bool), m.length = n → m[i]? = some acc → (∀ b ∈ l, b.cells.length = n) →
      (l.foldl (fun m b => List.zipWith (· || ·) m (b.cells.map (·.mask))) m)[i]? = some (acc || l.any fun b => (b.cells.getD i default).mask) := by
    intro l
    induction l with
    | nil => intro m acc _ hacc _; simpa using hacc
    | cons b t ih =>
      intro m acc hm hacc hl
      rw [List.foldl_cons]
      have hb := hl b (List.mem_cons_self ..)
      have hbi : b.cells[i]? = some (b.cells.getD i default) := by
        simp [List.getD, List.getElem?_eq_getElem (by omega : i < b.cells.length)]
      have hz : (List.zipWith (· || ·) m (b.cells.map (·.mask)))[i]? = some (acc || (b.cells.getD i default).mask) := by
        rw [List.getElem?_zipWith, hacc, List.getElem?_map, hbi]; rfl
      have := ih (List.zipWith (· || ·) m (b.cells.map (·.mask))) (acc || (b.cells.getD i default).mask) (by simp [hm, hb])
        hz (fun x hx => hl x (List.mem_cons_of_mem _ hx))
      rw [this, List.any_cons, Bool.or_assoc]
  have h0 : (a.cells.map (·.mask))[i]? = some (a.cells.getD i default).mask := by
    simp [List.getD, List.getElem?_eq_getElem (by omega : i < a.cells.length)]
  rw [this rest _ _ (by simp [ha]) h0 hr]
  simp

/-- **write then read**: each variable keeps the shape, the element type and every value of its result; only the mask is replaced by the union -/
theorem ncWrite_spec (rs : List Arr) :
    (ncWrite rs).length = rs.length ∧
    ∀ (j : Nat) (a : Arr), rs[j]? = some a → ∃ w : Arr, (ncWrite rs)[j]? = some w ∧ w.shape = a.shape ∧ w.dtype = a.dtype ∧
      w.cells = List.zipWith (fun (c : Cell) mk => (⟨c.val, mk⟩ : Cell)) a.cells (unionMask rs) := by
  unfold ncWrite
  refine ⟨by simp, ?_⟩
  intro j a hj
  refine ⟨{ a with cells := List.zipWith (fun (c : Cell) mk => (⟨c.val, mk⟩ : Cell)) a.cells (unionMask rs) }, ?_, rfl, rfl, rfl⟩
  simp [hj]

/-! ### reading -/

/-- a variable that does not exist is reported as such -/
theorem read_no_such_variable (ty : NcType) (m : Option Rat) : ncRead none ty m = .error .noSuchVariable := rfl

/-- **float by default, and faithful**: read with the default type and no missing value, the array comes back with its shape, as floats,
with the library's missing cells and every other value unchanged -/
theorem read_default (v : Arr) : ∃ r, ncRead (some v) .float none = .ok r ∧ r.dtype = .float ∧ r.shape = v.shape ∧ r.vis = v.vis := by
  refine ⟨_, rfl, rfl, rfl, ?_⟩
  simp only [Arr.vis, List.map_map]
  apply List.map_congr_left
  intro c _
  cases hm : c.mask <;> simp [Cell.vis, hm, NcType.isInt]

/-- **positive check**: a positive type refuses data with a negative valid value -/
theorem read_positive_check (v : Arr) (ty : NcType) (m : Option Rat) (hty : ty = .positiveInteger ∨ ty = .positiveFloat)
    (hneg : v.valid.any (· < 0) = true) : ncRead (some v) ty m = .error .invalidPositiveData := by
  unfold ncRead
  rcases hty with rfl | rfl <;> simp [hneg]

/-- **fuzzy check**: the Fuzzy type refuses data outside the padded fuzzy range -/
theorem read_fuzzy_check (v : Arr) (m : Option Rat) (hout : v.valid.any (fun q => q > fuzzyPadMax || q < -fuzzyPadMax) = true) :
    ncRead (some v) .fuzzy m = .error .invalidFuzzyData := by
  unfold ncRead
  simp [hout]

/-- **missing value**: with the Float type, a cell is missing after the read exactly when the library marks it missing or its value equals `MissingValue` -/
theorem read_missing_value_mask (v : Arr) (mv : Rat) :
    ∃ r, ncRead (some v) .float (some mv) = .ok r ∧
      r.cells.map (·.mask) = v.cells.map fun c => c.mask || (c.val == mv) := by
  refine ⟨_, rfl, ?_⟩
  simp only [List.map_map]
  apply List.map_congr_left
  intro c _
  simp [NcType.isInt]

/-! ### writing results together and reading one of them back -/

/-- **C18, write then read back.**  Results of one grid (`n` cells each) are written together; the `j`-th variable is then read with the default options.
What comes back has the result's shape and, cell by cell, is missing exactly where *some* result written with it is missing and holds the result's own
value everywhere else.  (The library is assumed to return what was assigned - see the header of `Model/NetCdf`.) -/
theorem write_read_round_trip (a0 : Arr) (rest : List Arr) (n : Nat) (h0 : a0.cells.length = n) (hr : ∀ b ∈ rest, b.cells.length = n)
    (j : Nat) (a : Arr) (hj : (a0 :: rest)[j]? = some a) :
    ∃ w r, (ncWrite (a0 :: rest))[j]? = some w ∧ ncRead (some w) .float none = .ok r ∧ r.shape = a.shape ∧ r.dtype = .float ∧ r.vis.length = n ∧
      ∀ i, i < n → r.vis[i]? = some (if (a0 :: rest).any (fun b => (b.cells.getD i default).mask) then none else some (a.cells.getD i default).val) := by
  obtain ⟨_, hw⟩ := ncWrite_spec (a0 :: rest)
  obtain ⟨w, hwj, hws, _, hwc⟩ := hw j a hj
  obtain ⟨r, hrd, hrt, hrs, hrv⟩ := read_default w
  have ha : a.cells.length = n := by
    rcases List.mem_cons.mp (List.mem_of_getElem? hj) with rfl | hm
    · exact h0
    · exact hr a hm
  have hul := unionMask_length a0 rest n h0 hr
  refine ⟨w, r, hwj, hrd, by rw [hrs, hws], hrt, ?_, ?_⟩
  · rw [hrv]; simp [Arr.vis, hwc, ha, hul]
  · intro i hi
    rw [hrv]
    have hu := unionMask_spec a0 rest n i h0 hr hi
    have hai : a.cells[i]? = some (a.cells.getD i default) := by
      simp [List.getD, List.getElem?_eq_getElem (by omega : i < a.cells.length)]
    simp only [Arr.vis, hwc, List.getElem?_map, List.getElem?_zipWith, hai, hu, Option.map_some, Option.some.injEq]
    cases hany : (a0 :: rest).any (fun b => (b.cells.getD i default).mask) <;> simp [Cell.vis, hany]

/-- in particular a result written alone comes back exactly as it was seen: same shape, same missing cells, same values -/
theorem write_alone_read_back (a : Arr) : ∃ w r, ncWrite [a] = [w] ∧ ncRead (some w) .float none = .ok r ∧ r.shape = a.shape ∧ r.vis = a.vis := by
  refine ⟨_, _, rfl, rfl, rfl, ?_⟩
  simp only [Arr.vis, unionMask, List.foldl_nil, List.map_map]
  rw [List.zipWith_map_right]
  simp only [List.zipWith_self, List.map_map]
  apply List.map_congr_left
  intro c _
  cases hm : c.mask <;> simp [Cell.vis, hm, NcType.isInt]

/-- non-vacuity: two results with different missing cells -/
example : ∃ w r, (ncWrite [⟨.float, [2], [⟨1, false⟩, ⟨2, true⟩]⟩, ⟨.float, [2], [⟨3, true⟩, ⟨4, false⟩]⟩])[1]? = some w ∧
    ncRead (some w) .float none = .ok r ∧ r.vis = [none, none] := ⟨_, _, rfl, rfl, by decide +kernel⟩

/-- rounding to an integer type is to nearest, ties to even -/
example : rintRat (5/2) = 2 ∧ rintRat (7/2) = 4 ∧ rintRat (-5/2) = -2 ∧ rintRat (13/10) = 1 ∧ rintRat (-17/10) = -2 ∧ rintRat 3 = 3 := by
  decide +kernel

end MPilot.C18
