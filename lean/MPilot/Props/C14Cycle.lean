/-
C14 — the contrapositive of `no_cycle_ranked`, stated outright: a loop of references of any length, through any commands, is found.

`Refers p deps a b`: `a` is the result name of a command of the program, whose references (`deps a`: direct ones and those inside lists,
as collected by the pre-pass) include `b`, itself the result of a command.  A model is cyclic when some name reaches itself through
one or more such steps (`Relation.TransGen`): a self-reference, two commands naming each other, a loop of any length.
-/
import MPilot.Props.C14
import Mathlib.Logic.Relation

namespace MPilot.C14
open MPilot

variable {Val : Type}

/-- one reference between two commands of the program -/
def Refers (p : Program) (deps : String → List String) (a b : String) : Prop :=
  (∃ c ∈ p.cmds, c.resultName = a) ∧ b ∈ deps a ∧ (p.find? b).isSome = true

/-- **every loop is found**: if some name reaches itself through one or more references between commands, the check reports a cycle -/
theorem cycle_detected (p : Program) (deps : String → List String) (x : String) (h : Relation.TransGen (Refers p deps) x x) :
    hasCycle p deps = true := by
  by_contra hc
  have hf : hasCycle p deps = false := by simpa using hc
  obtain ⟨r, hr⟩ := no_cycle_ranked p deps hf
  have : ∀ a b, Relation.TransGen (Refers p deps) a b → r b < r a := by
    intro a b hab
    induction hab with
    | single h => obtain ⟨⟨c, hc, rfl⟩, hd, hk⟩ := h; exact hr c hc _ hd hk
    | tail _ h ih => obtain ⟨⟨c, hc, rfl⟩, hd, hk⟩ := h; exact Nat.lt_trans (hr c hc _ hd hk) ih
  exact Nat.lt_irrefl _ (this x x h)

/-- a command that refers to its own result -/
theorem self_reference_detected (p : Program) (deps : String → List String) (c : PCmd) (hc : c ∈ p.cmds)
    (hd : c.resultName ∈ deps c.resultName) (hk : (p.find? c.resultName).isSome = true) : hasCycle p deps = true :=
  cycle_detected p deps c.resultName (.single ⟨⟨c, hc, rfl⟩, hd, hk⟩)

/-- two commands that refer to each other -/
theorem mutual_reference_detected (p : Program) (deps : String → List String) (a b : PCmd) (ha : a ∈ p.cmds) (hb : b ∈ p.cmds)
    (hab : b.resultName ∈ deps a.resultName) (hba : a.resultName ∈ deps b.resultName)
    (ka : (p.find? a.resultName).isSome = true) (kb : (p.find? b.resultName).isSome = true) : hasCycle p deps = true :=
  cycle_detected p deps a.resultName (.tail (.single ⟨⟨a, ha, rfl⟩, hab, kb⟩) ⟨⟨b, hb, rfl⟩, hba, ka⟩)

/-- **a cyclic model is rejected and nothing runs**: whenever the pre-pass succeeds and the references it collected contain a loop,
`run` ends with the recursive-model error and the state (what was executed, what is memoised) is what it was -/
theorem cyclic_model_rejected (sem : Sem Val) (p : Program) (st : St Val)
    (info : List (String × List String × List String)) (hpre : prepass (mkCtx sem p st) p.cmds = .ok info)
    (x : String) (h : Relation.TransGen (Refers p (depsOf info)) x x) :
    run sem p st = (st, some (.mp "RecursiveModelStructure" none)) :=
  cycle_rejected_before_execution sem p st info hpre (cycle_detected p (depsOf info) x h)

/-- and conversely an accepted model has no loop -/
theorem accepted_has_no_loop (p : Program) (deps : String → List String) (h : hasCycle p deps = false) (x : String) :
    ¬ Relation.TransGen (Refers p deps) x x := fun hl => by
  rw [cycle_detected p deps x hl] at h; cases h

/-- non-vacuity: `A` refers to `B`, `B` (inside a list, say) to `C`, `C` back to `A`; `D` refers to `A` from outside the loop.  The loop is a
`TransGen` loop, and the check reports it -/
example :
    let c (n : String) : PCmd := ⟨n, default, [], none⟩
    let p : Program := ⟨[c "D", c "A", c "B", c "C"], none, fun _ => false⟩
    let deps : String → List String := fun n => if n == "A" then ["B"] else if n == "B" then ["C"] else if n == "C" then ["A"] else if n == "D" then ["A"] else []
    Relation.TransGen (Refers p deps) "A" "A" ∧ hasCycle p deps = true := by
  intro c p deps
  have hl : Relation.TransGen (Refers p deps) "A" "A" := by
    refine .tail (.tail (.single ⟨⟨c "A", by simp [p], rfl⟩, ?_, ?_⟩) ⟨⟨c "B", by simp [p], rfl⟩, ?_, ?_⟩) ⟨⟨c "C", by simp [p], rfl⟩, ?_, ?_⟩
    all_goals decide
  exact ⟨hl, cycle_detected p deps "A" hl⟩

end MPilot.C14
