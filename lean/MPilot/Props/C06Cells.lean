/-
C06 — FuzzyXOr and FuzzySelectedUnion cell by cell ("the mean of the k truest or falsest, and the EEMS exclusive-or formula").

`or_cell`, `and_cell`, `union_cell`, `weightedUnion_cell`, `not_cells` (Props/C06.lean) give the other five operators.  Here:
* `xor_cell` / `selectedUnion_cell`: a result cell is missing exactly when some input is missing there, and otherwise holds - limited to
  [-1, 1] - the exclusive-or formula / the selected mean of the column's values taken in ascending order;
* `sorted_top_two`: in that order the last value is the column's greatest (the truest) and the one before it the greatest of the rest
  (the second truest) - the two values the EEMS formula `t1 - (t1 - t2)(t2 + 1)/(t1 + 1)` is written in;
* `sel_truest_spec` / `sel_falsest_spec`: the `k` values selected are the `k` last / first of the ascending column: every value left out is
  ≤ / ≥ every value selected.
-/
import MPilot.Props.C06

namespace MPilot.C06
open MPilot

theorem stackMap_cell (a : Arr) (t : List Arr) (f : List Rat → Cell) (i : Nat) (hi : i < a.cells.length) :
    (stackMap (a :: t) f).cells[i]? = some (stackCell (a :: t) f i) := by
  simp [stackMap, hi]

theorem insure_cell (q : Arr) (i : Nat) (c : Cell) (h : q.cells[i]? = some c) : (q.insure (-1) 1).cells[i]? = some (Cell.insure (-1) 1 c) := by
  simp [Arr.insure, Arr.mapCells, h]

/-- **FuzzyXOr, cell by cell** -/
theorem xor_cell (sqrt : Rat → Rat) (a : Arr) (t : List Arr) (r : Arr) (i : Nat)
    (h : exec sqrt .fuzzyXOr (a :: t) = .ok r) (hi : i < a.cells.length) :
    ∃ c, r.cells[i]? = some c ∧ c.mask = (column (a :: t) i).any (·.mask) ∧
      (c.mask = false → c.val = clampHiLo (-1) 1 (xorCell (sortRat ((column (a :: t) i).map (·.val)))).val) := by
  simp only [exec, fuzzyClamp, bind, Except.bind] at h
  split at h
  · cases h
  · split at h
    · exact absurd h (eRaw_ne_ok _ _)
    · simp only [Except.map, Except.ok.injEq] at h
      subst h
      refine ⟨Cell.insure (-1) 1 (stackCell (a :: t) xorCell i), insure_cell _ i _ (stackMap_cell a t xorCell i hi), ?_, ?_⟩
      · rw [← stackCell_mask (a :: t) xorCell xorCell_unmasked i]
        unfold Cell.insure; cases (stackCell (a :: t) xorCell i).mask <;> rfl
      · intro hm
        have hsm : (stackCell (a :: t) xorCell i).mask = false := by
          unfold Cell.insure at hm; cases hc : (stackCell (a :: t) xorCell i).mask <;> simp_all
        have hany : (column (a :: t) i).any (·.mask) = false := by rw [← stackCell_mask (a :: t) xorCell xorCell_unmasked i]; exact hsm
        unfold Cell.insure
        simp only [hsm, Bool.false_eq_true, if_false]
        unfold stackCell
        simp only [hany, Bool.false_eq_true, if_false]

/-- **FuzzySelectedUnion, cell by cell** (admissible `k`: a whole number from 1 to the number of inputs) -/
theorem selectedUnion_cell (sqrt : Rat → Rat) (sel : String) (k : Num) (a : Arr) (t : List Arr) (r : Arr) (i : Nat)
    (h : exec sqrt (.fuzzySelectedUnion sel k) (a :: t) = .ok r) (hi : i < a.cells.length) :
    (sel = "Truest" ∨ sel = "Falsest") ∧ k.isInt = true ∧ 1 ≤ k.val ∧ k.val ≤ ((a :: t).length : Rat) ∧
    ∃ c, r.cells[i]? = some c ∧ c.mask = (column (a :: t) i).any (·.mask) ∧
      (c.mask = false → c.val = clampHiLo (-1) 1 (selCell (sel == "Truest") k.val.num.toNat (sortRat ((column (a :: t) i).map (·.val)))).val) := by
  simp only [exec, fuzzyClamp, bind, Except.bind] at h
  split at h
  · cases h
  · split at h
    · exact absurd h (eMp_ne_ok _ _ _)
    · rename_i hk
      split at h
      · exact absurd h (eMp_ne_ok _ _ _)
      · rename_i hsel
        split at h
        · exact absurd h (eRaw_ne_ok _ _)
        · rename_i hint
          split at h
          · exact absurd h (eRaw_ne_ok _ _)
          · rename_i hk1
            simp only [Except.map, Except.ok.injEq] at h
            subst h
            have hu : ∀ l, (selCell (sel == "Truest") k.val.num.toNat l).mask = false := fun l => selCell_unmasked _ _ l
            refine ⟨?_, by simpa using hint, by simpa using hk1, by simpa using hk, ?_⟩
            · by_cases h1 : sel = "Truest"
              · exact Or.inl h1
              · by_cases h2 : sel = "Falsest"
                · exact Or.inr h2
                · simp [h1, h2] at hsel
            · refine ⟨Cell.insure (-1) 1 (stackCell (a :: t) (selCell (sel == "Truest") k.val.num.toNat) i),
                insure_cell _ i _ (stackMap_cell a t _ i hi), ?_, ?_⟩
              · rw [← stackCell_mask (a :: t) _ hu i]
                unfold Cell.insure; cases (stackCell (a :: t) (selCell (sel == "Truest") k.val.num.toNat) i).mask <;> rfl
              · intro hm
                have hsm : (stackCell (a :: t) (selCell (sel == "Truest") k.val.num.toNat) i).mask = false := by
                  unfold Cell.insure at hm
                  cases hc : (stackCell (a :: t) (selCell (sel == "Truest") k.val.num.toNat) i).mask <;> simp_all
                have hany : (column (a :: t) i).any (·.mask) = false := by rw [← stackCell_mask (a :: t) _ hu i]; exact hsm
                unfold Cell.insure
                simp only [hsm, Bool.false_eq_true, if_false]
                unfold stackCell
                simp only [hany, Bool.false_eq_true, if_false]

/-- in ascending order the last value is the greatest of the column and the one before it the greatest of the others -/
theorem sorted_top_two (l s : List Rat) (hs : s = sortRat l) (h2 : 2 ≤ l.length) (t1 t2 : Rat)
    (ht1 : t1 = s.getD (s.length - 1) 0) (ht2 : t2 = s.getD (s.length - 2) 0) :
    t1 ∈ l ∧ t2 ∈ l ∧ t2 ≤ t1 ∧ (∀ x ∈ l, x ≤ t1) ∧ ∀ j, j < s.length - 2 → s.getD j 0 ≤ t2 := by
  have hlen : s.length = l.length := by rw [hs]; exact (List.mergeSort_perm l (fun a b => decide (a ≤ b))).length_eq
  have hsorted : s.Pairwise (· ≤ ·) := by rw [hs]; exact sortRat_sorted l
  have hmem : ∀ j (hj : j < s.length), s[j] ∈ l := fun j hj => sortRat_mem.mp (hs ▸ List.getElem_mem hj)
  have hle : ∀ i j (hi : i < j) (hj : j < s.length), s[i]'(Nat.lt_trans hi hj) ≤ s[j] := by
    intro i j hi hj
    exact List.pairwise_iff_getElem.mp hsorted i j (Nat.lt_trans hi hj) hj hi
  have e1 : t1 = s[s.length - 1]'(by omega) := by
    rw [ht1]
    simp [List.getD_eq_getElem?_getD, show s.length - 1 < s.length by omega]
  have e2 : t2 = s[s.length - 2]'(by omega) := by
    rw [ht2]
    simp [List.getD_eq_getElem?_getD, show s.length - 2 < s.length by omega]
  refine ⟨e1 ▸ hmem _ _, e2 ▸ hmem _ _, ?_, ?_, ?_⟩
  · rw [e1, e2]; exact hle _ _ (by omega) (by omega)
  · intro x hx
    obtain ⟨j, hj, rfl⟩ := List.getElem_of_mem (hs ▸ sortRat_mem.mpr hx : x ∈ s)
    rw [e1]
    by_cases hjl : j = s.length - 1
    · subst hjl; exact le_refl _
    · exact hle j _ (by omega) (by omega)
  · intro j hj
    have : s.getD j 0 = s[j]'(by omega) := by simp [List.getD_eq_getElem?_getD, show j < s.length by omega]
    rw [this, e2]
    exact hle j _ (by omega) (by omega)

/-- the `k` truest: the values left out are all ≤ every selected value; the `k` falsest: all ≥ -/
theorem sel_truest_spec (l : List Rat) (k : Nat) :
    let s := sortRat l
    (∀ x ∈ s.take (s.length - k), ∀ y ∈ s.drop (s.length - k), x ≤ y) ∧ (∀ x ∈ s.take k, ∀ y ∈ s.drop k, x ≤ y) := by
  intro s
  have hsorted : s.Pairwise (· ≤ ·) := sortRat_sorted l
  have key : ∀ n, ∀ x ∈ s.take n, ∀ y ∈ s.drop n, x ≤ y := by
    intro n x hx y hy
    have := hsorted
    rw [← List.take_append_drop n s] at this
    exact (List.pairwise_append.mp this).2.2 x hx y hy
  exact ⟨key _, key _⟩

end MPilot.C06
