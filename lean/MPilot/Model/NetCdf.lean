/-
Model/NetCdf — the command logic of `mpilot/libraries/eems/netcdf/io.py` over an abstract dataset.

The netCDF4/HDF5 library is *assumed*, not modelled: a variable is what `variable[:]` delivers (element type, shape, cells with the
library's automatic masking of fill values already applied), and what is assigned to a created variable is what a later read returns.
Modelled on top of that: default type, conversion and rounding to nearest (half to even), the positive and fuzzy checks, the clamp,
missing-value masking, and on writing the union mask shared by all results written together.
-/
import MPilot.Model.Eems

namespace MPilot

/-- `numpy.rint`: round to nearest, ties to even -/
def rintRat (q : Rat) : Int :=
  let f := q.floor
  let d := q - f
  if d < 1/2 then f else if d > 1/2 then f + 1 else if f % 2 == 0 then f else f + 1

inductive NcType | float | integer | positiveFloat | positiveInteger | fuzzy
  deriving DecidableEq, Repr, Inhabited

def NcType.isInt : NcType → Bool
  | .integer | .positiveInteger => true
  | _ => false

/-- `FUZZY_MAX + 0.01 * (FUZZY_MAX - FUZZY_MIN)` as the double the code computes (1.02 rounded to binary64) -/
def fuzzyPadMax : Rat := 2296835809958953 / 2251799813685248

inductive NcErr
  | noSuchVariable | invalidPositiveData | invalidFuzzyData
  | raw (exc : String)
  deriving DecidableEq, Repr

/-- `EEMSRead.execute` on the array `variable[:]` delivered by the library (`none` = the variable does not exist).
`missing` is the cleaned `MissingValue` (already a number). -/
def ncRead (var : Option Arr) (ty : NcType) (missing : Option Rat) : Except NcErr Arr :=
  match var with
  | none => .error .noSuchVariable
  | some v =>
    let valid := v.valid
    if (ty == .positiveInteger || ty == .positiveFloat) && valid.any (· < 0) then .error .invalidPositiveData
    else
      -- floating data going to an integer type is rounded to nearest first; integer data is taken as it is
      let conv : Rat → Rat := fun q => if ty.isInt && v.dtype == .float then (rintRat q : Int) else q
      if ty == .fuzzy && valid.any (fun q => q > fuzzyPadMax || q < -fuzzyPadMax) then .error .invalidFuzzyData
      else
        let clamp : Rat → Rat := fun q => if ty == .fuzzy then clampHiLo (-1) 1 q else q
        let miss : Option Rat := missing.map fun m => if ty.isInt then ((if m ≥ 0 then m.floor else -((-m).floor) : Int) : Rat) else m
        .ok { dtype := if ty.isInt then .int else .float, shape := v.shape,
              cells := v.cells.map fun c =>
                let x := clamp (conv c.val)
                let m := c.mask || (match miss with | some mv => x == mv | none => false)
                ⟨if m then 0 else x, m⟩ }

/-- the mask every variable is written with: the union of the masks of all results written together -/
def unionMask (rs : List Arr) : List Bool :=
  match rs with
  | [] => []
  | a :: rest => rest.foldl (fun m b => List.zipWith (· || ·) m (b.cells.map (·.mask))) (a.cells.map (·.mask))

/-- `EEMSWrite.execute`: what each created variable holds afterwards (the data of the result under the union mask) -/
def ncWrite (rs : List Arr) : List Arr :=
  let m := unionMask rs
  rs.map fun a => { a with cells := List.zipWith (fun c mk => (⟨c.val, mk⟩ : Cell)) a.cells m }

end MPilot

namespace MPilot

/-! ### the layout of the written dataset

Besides the data of the results (`ncWrite`), `EEMSWrite.execute` builds the frame of the output file from a template: the dimensions of the
template variable `DimensionFieldName`, their coordinate variables with attributes and values, the grid-mapping variable named by the first
variable carrying an `esri_pe_string`, and the CRS attributes on every result variable.  Attribute values and coordinate values are opaque
tokens here: they are copied, never computed with. -/

structure NcVarD where
  name : String
  dtype : String
  dims : List String
  /-- `ncattrs()` with their values, in file order -/
  attrs : List (String × String)
  /-- the values `variable[:]` delivers, flat (empty for variables whose data is not copied) -/
  data : List String
  deriving Repr, DecidableEq, Inhabited

structure NcFile where
  dims : List (String × Nat)
  vars : List NcVarD
  deriving Repr, DecidableEq, Inhabited

def NcFile.var? (f : NcFile) (n : String) : Option NcVarD := f.vars.find? (·.name == n)
def NcFile.dim? (f : NcFile) (n : String) : Option Nat := (f.dims.find? (·.1 == n)).map (·.2)
def NcVarD.attr? (v : NcVarD) (a : String) : Option String := (v.attrs.find? (·.1 == a)).map (·.2)

/-- `setncattr` of every `ncattrs()` entry on a variable that exists already: the library refuses `_FillValue` there (`fix:` in /repo - it is now
given to `createVariable` instead - so the attribute list is copied whole) -/
def copyAttrs (attrs : List (String × String)) : List (String × String) := attrs

/-- the coordinate part: one dimension (sized like its coordinate variable) and one variable per dimension of the template field -/
def layoutDims (tpl : NcFile) : List String → NcFile → Except String NcFile
  | [], out => .ok out
  | d :: rest, out =>
    match tpl.var? d with
    | none => .error "IndexError"                          -- `dim_dataset[dimension]`: no coordinate variable of that name
    | some cv =>
      if (out.dim? d).isSome then .error "RuntimeError"    -- a dimension listed twice: `createDimension` refuses the second
      else
        layoutDims tpl rest
          { dims := out.dims ++ [(d, cv.data.length)],
            vars := out.vars ++ [{ name := d, dtype := cv.dtype, dims := [d], attrs := copyAttrs cv.attrs, data := cv.data }] }

/-- CRS discovery: the first variable (file order) with an `esri_pe_string`; its `grid_mapping` variable, if the template has it -/
def crsOf (tpl : NcFile) : Option String × Option NcVarD :=
  match tpl.vars.find? (fun v => (v.attr? "esri_pe_string").isSome) with
  | none => (none, none)
  | some v =>
    (v.attr? "esri_pe_string",
     match v.attr? "grid_mapping" with
     | none => none
     | some g => tpl.var? g)

/-- `EEMSWrite.execute` as far as the frame of the output file goes -/
def ncLayout (tpl : NcFile) (dimField : String) (resultNames : List String) : Except String NcFile :=
  match tpl.var? dimField with
  | none => .error "IndexError"
  | some field =>
    match layoutDims tpl field.dims { dims := [], vars := [] } with
    | .error e => .error e
    | .ok out1 =>
      let (esri, gm) := crsOf tpl
      -- the grid-mapping variable: its dimensions are created when absent; attributes copied, data not
      let out2 : NcFile := match gm with
        | none => out1
        | some g =>
          let newDims := g.dims.foldl (fun acc d => if (acc.find? (·.1 == d)).isSome then acc else acc ++ [(d, (tpl.dim? d).getD 0)]) out1.dims
          { dims := newDims, vars := out1.vars ++ [{ name := g.name, dtype := g.dtype, dims := g.dims, attrs := copyAttrs g.attrs, data := [] }] }
      let crsAttrs : List (String × String) :=
        (match esri with | some e => [("esri_pe_string", e)] | none => []) ++ (match gm with | some g => [("grid_mapping", g.name)] | none => [])
      .ok { out2 with vars := out2.vars ++ resultNames.map fun n => { name := n, dtype := "", dims := field.dims, attrs := crsAttrs, data := [] } }

end MPilot
