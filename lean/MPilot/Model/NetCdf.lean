/-
Model/NetCdf — the command logic of `mpilot/libraries/eems/netcdf/io.py` over an abstract dataset.

The netCDF4/HDF5 library is *assumed*, not modelled: a variable is what `variable[:]` delivers (element type, shape, cells with the
library's automatic masking of fill values already applied), and what is assigned to a created variable is what a later read returns.
Modelled on top of that: default type, conversion and rounding to nearest (half to even), the positive and fuzzy checks, the clamp,
missing-value masking, and on writing the union mask shared by all results written together.
-/
import MPilot.Model.Eems

namespace MPilot

/-- `numpy.rint`: round to nearest, ties to even -/
def rintRat (q : Rat) : Int :=
  let f := q.floor
  let d := q - f
  if d < 1/2 then f else if d > 1/2 then f + 1 else if f % 2 == 0 then f else f + 1

inductive NcType | float | integer | positiveFloat | positiveInteger | fuzzy
  deriving DecidableEq, Repr, Inhabited

def NcType.isInt : NcType → Bool
  | .integer | .positiveInteger => true
  | _ => false

/-- `FUZZY_MAX + 0.01 * (FUZZY_MAX - FUZZY_MIN)` as the double the code computes (1.02 rounded to binary64) -/
def fuzzyPadMax : Rat := 2296835809958953 / 2251799813685248

inductive NcErr
  | noSuchVariable | invalidPositiveData | invalidFuzzyData
  | raw (exc : String)
  deriving DecidableEq, Repr

/-- `EEMSRead.execute` on the array `variable[:]` delivered by the library (`none` = the variable does not exist).
`missing` is the cleaned `MissingValue` (already a number). -/
def ncRead (var : Option Arr) (ty : NcType) (missing : Option Rat) : Except NcErr Arr :=
  match var with
  | none => .error .noSuchVariable
  | some v =>
    let valid := v.valid
    if (ty == .positiveInteger || ty == .positiveFloat) && valid.any (· < 0) then .error .invalidPositiveData
    else
      -- floating data going to an integer type is rounded to nearest first; integer data is taken as it is
      let conv : Rat → Rat := fun q => if ty.isInt && v.dtype == .float then (rintRat q : Int) else q
      if ty == .fuzzy && valid.any (fun q => q > fuzzyPadMax || q < -fuzzyPadMax) then .error .invalidFuzzyData
      else
        let clamp : Rat → Rat := fun q => if ty == .fuzzy then clampHiLo (-1) 1 q else q
        let miss : Option Rat := missing.map fun m => if ty.isInt then ((if m ≥ 0 then m.floor else -((-m).floor) : Int) : Rat) else m
        .ok { dtype := if ty.isInt then .int else .float, shape := v.shape,
              cells := v.cells.map fun c =>
                let x := clamp (conv c.val)
                let m := c.mask || (match miss with | some mv => x == mv | none => false)
                ⟨if m then 0 else x, m⟩ }

/-- the mask every variable is written with: the union of the masks of all results written together -/
def unionMask (rs : List Arr) : List Bool :=
  match rs with
  | [] => []
  | a :: rest => rest.foldl (fun m b => List.zipWith (· || ·) m (b.cells.map (·.mask))) (a.cells.map (·.mask))

/-- `EEMSWrite.execute`: what each created variable holds afterwards (the data of the result under the union mask) -/
def ncWrite (rs : List Arr) : List Arr :=
  let m := unionMask rs
  rs.map fun a => { a with cells := List.zipWith (fun c mk => (⟨c.val, mk⟩ : Cell)) a.cells m }

end MPilot
