/-
Model/EemsHeap — the data commands with object identity made explicit (for C09).

Python passes arrays by reference.  Almost every `execute` body allocates a fresh array for its result
(`a - x1`, `.copy()`, `numpy.ma.where`, `result = result + arr` …).  The exceptions, modelled here:
* `reduce(f, arrays)` over a single element returns that element itself — single-input `Minimum`, `Maximum`,
  `FuzzyOr`, `FuzzyAnd` return the *input object*;
* the fuzzy pair then runs `insure_fuzzy` on it **in place**.
-/
import MPilot.Model.Eems

namespace MPilot

abbrev Heap := List Arr
abbrev ObjId := Nat

/-- does `c`, given `n` inputs, return its first input object rather than a fresh array? -/
def aliases (c : DataCmd) (n : Nat) : Bool :=
  n == 1 && match c with
    | .minimum | .maximum | .fuzzyOr | .fuzzyAnd => true
    | _ => false

/-- run `c` on the objects `ids`; returns the id of the result object and the new heap -/
def execH (sqrt : Rat → Rat) (c : DataCmd) (ids : List ObjId) (h : Heap) : Except Err (ObjId × Heap) :=
  match ids.mapM (fun id => h[id]?) with
  | none => eRaw "KeyError"
  | some xs =>
    match exec sqrt c xs with
    | .error e => .error e
    | .ok r =>
      if aliases c ids.length then
        match ids with
        | [id] => .ok (id, h.set id r)      -- the input object is the result (and was clamped in place by the fuzzy pair)
        | _ => eRaw "Arity"
      else .ok (h.length, h ++ [r])          -- fresh object

end MPilot
