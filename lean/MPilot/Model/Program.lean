/-
Model/Program — `mpilot/program.py` + `mpilot/commands.py`: loading, the pre-pass of `Program.run`, the cycle check,
leaf discovery and the pull-based, memoised evaluation (`Command.run` / `Command.result`).

Generic in the value type and in what `execute` computes: `Sem.pulls` lists the results a body reads (in reading order,
before it computes anything — true of every built-in), `Sem.compute` maps the values read to the command's result.
-/
import MPilot.Model.Params

namespace MPilot

structure InputDecl where
  name : String
  spec : PSpec
  required : Bool
  deriving Repr, Inhabited

/-- a command class as declared: what `CommandMeta` records -/
structure CmdDecl where
  name : String
  module : String
  inputs : List InputDecl
  output : Option PClass
  isFuzzy : Bool
  allowExtra : Bool
  deriving Repr, Inhabited

def CmdDecl.input? (d : CmdDecl) (n : String) : Option InputDecl := d.inputs.find? (·.name == n)

structure Arg where
  name : String
  value : Raw
  line : Option Nat
  deriving Repr, Inhabited

structure PCmd where
  resultName : String
  decl : CmdDecl
  args : List Arg
  line : Option Nat
  deriving Repr, Inhabited

/-- program-level outcomes other than success -/
inductive PErr
  | mp (cls : String) (line : Option Nat)        -- an MPilotError subclass, with `lineno`
  | unexpected (exc : String) (line : Option Nat) -- `UnexpectedError` wrapping exception `exc`
  | raw (exc : String)                            -- any other exception escaping
  | syntax
  deriving Repr, DecidableEq, Inhabited

inductive Ev
  | start (c : String)    -- `execute` of `c` entered
  | finish (c : String)   -- `execute` of `c` returned
  deriving Repr, DecidableEq, Inhabited

/-- what `execute` does, abstractly -/
structure Sem (Val : Type) where
  /-- result names read through `.result`, in reading order, given the command -/
  pulls : PCmd → List String
  /-- the value computed from the values read; may fail with an MPilotError (`mp`) or any other exception (`raw`) -/
  compute : PCmd → List Val → Except PErr Val
  /-- what `output_type.clean(value.result)` can tell about the value -/
  kind : Val → ResKind

structure Program where
  cmds : List PCmd
  workingDir : Option String
  exists_ : String → Bool

structure St (Val : Type) where
  memo : List (String × Val)     -- finished commands with their results
  log : List Ev

def Program.find? (p : Program) (n : String) : Option PCmd := p.cmds.find? (·.resultName == n)

def St.get? (st : St Val) (n : String) : Option Val := (st.memo.find? (·.1 == n)).map (·.2)

/-! ### adding commands (`Program.add_command`) -/

/-- Python dict semantics for `{arg.name: …}` built from an argument list: a repeated name keeps its first position and takes the last value -/
def dedupArgs (args : List Arg) : List Arg :=
  args.foldl (fun acc a =>
    if acc.any (·.name == a.name) then acc.map (fun b => if b.name == a.name then a else b)
    else acc ++ [a]) []

def addCommand (p : Program) (decl : CmdDecl) (resultName : String) (args : List Arg) (line : Option Nat) : Except PErr Program :=
  if (p.find? resultName).isSome then .error (.mp "DuplicateResult" line)
  else if (decl.inputs.filter (·.required)).any (fun i => !(args.any (·.name == i.name))) then .error (.mp "MissingParameters" line)
  else
    match args.find? (fun a => (decl.input? a.name).isNone && !decl.allowExtra) with
    | some a => .error (.mp "NoSuchParameter" a.line)
    | none => .ok { p with cmds := p.cmds ++ [⟨resultName, decl, args, line⟩] }

/-- a parsed command: result name, command name, arguments, line (`CommandNode`) -/
structure Node where
  resultName : String
  command : String
  args : List Arg
  line : Option Nat
  deriving Repr, Inhabited

/-- `Program.from_source` after parsing and EEMS 2.0 conversion -/
def fromNodes (lib : String → Option CmdDecl) (p : Program) : List Node → Except PErr Program
  | [] => .ok p
  | n :: rest =>
      match lib n.command with
      | none => .error (.mp "CommandDoesNotExist" n.line)
      | some decl =>
        match addCommand p decl n.resultName (dedupArgs n.args) n.line with
        | .error e => .error e
        | .ok p' => fromNodes lib p' rest

/-! ### cleaning context -/

def mkCtx (sem : Sem Val) (p : Program) (st : St Val) : Ctx :=
  { workingDir := p.workingDir
    lookup := fun n => (p.find? n).map fun c =>
      { isFuzzy := c.decl.isFuzzy, output := c.decl.output,
        finished := (st.get? n).isSome,
        resultKind := match st.get? n with | some v => sem.kind v | none => .other }
    isCommand := fun n => (p.find? n).isSome
    exists_ := p.exists_ }

def cleanErrToPErr (e : CleanErr) (line : Option Nat) : PErr :=
  if e == "OutsideModel" then .raw "OutsideModel" else .mp e line

/-- command references inside a cleaned value (`flatten` + `isinstance(x, Command)`) -/
def Clean.refs : Clean → List String
  | .cmd n => [n]
  | .list xs => refsList xs
  | _ => []
where
  refsList : List Clean → List String
    | [] => []
    | x :: xs => x.refs ++ refsList xs

/-- the pre-pass over one command: cleans every declared argument in order; returns (direct refs, all refs) -/
def prepassCmd (ctx : Ctx) (c : PCmd) : List Arg → Except PErr (List String × List String)
  | [] => .ok ([], [])
  | a :: rest =>
      match c.decl.input? a.name with
      | none => prepassCmd ctx c rest
      | some i =>
        match clean ctx i.spec a.value with
        | .error e => .error (cleanErrToPErr e a.line)
        | .ok v =>
          match prepassCmd ctx c rest with
          | .error e => .error e
          | .ok (d, al) =>
            match i.spec, v with
            | .result _ _, .cmd n => .ok (n :: d, n :: al)
            | _, .list _ => .ok (d, v.refs ++ al)
            | _, _ => .ok (d, al)

def prepass (ctx : Ctx) : List PCmd → Except PErr (List (String × List String × List String))
  | [] => .ok []
  | c :: rest =>
      match prepassCmd ctx c c.args with
      | .error e => .error e
      | .ok (d, al) =>
        match prepass ctx rest with
        | .error e => .error e
        | .ok t => .ok ((c.resultName, d, al) :: t)

/-! ### cycle check (depth-first, in file order, iterative in the code; recursive here with fuel = number of commands) -/

/-- `visit fuel deps path done n`: returns `none` if a cycle is reachable from `n`, else the new `done` set.
`path` = names on the current path. -/
def visit (deps : String → List String) (known : String → Bool) : Nat → List String → List String → String → Option (List String)
  | 0, _, _, _ => none
  | fuel + 1, path, done, n =>
      if done.contains n then some done
      else
        let rec go : List String → List String → Option (List String)
          | [], d => some d
          | r :: rs, d =>
              if (n :: path).contains r then none
              else if d.contains r || !known r then go rs d
              else match visit deps known fuel (n :: path) d r with
                | none => none
                | some d' => go rs d'
        match go (deps n) done with
        | none => none
        | some d => some (n :: d)

/-- the command whose reference closes the first loop found (for the error's line): the code raises with the line of the
command on top of the stack; the model reports the line of the first command (file order) from which a loop is reachable,
refined by the harness comparison to "a line of some command on the loop or leading to it" -/
def hasCycle (p : Program) (deps : String → List String) : Bool :=
  let known := fun n => (p.find? n).isSome
  let rec go : List PCmd → List String → Bool
    | [], _ => false
    | c :: rest, done =>
        match visit deps known (p.cmds.length + 1) [] done c.resultName with
        | none => true
        | some d => go rest d
  go p.cmds []

/-! ### evaluation -/

/-- `Command.validate_params` on `{arg.name: arg.value}` -/
def validateParams (ctx : Ctx) (c : PCmd) : Except PErr Unit :=
  if (c.decl.inputs.filter (·.required)).any (fun i => !(c.args.any (·.name == i.name))) then .error (.mp "MissingParameters" c.line)
  else
    let rec go : List Arg → Except PErr Unit
      | [] => .ok ()
      | a :: rest =>
          match c.decl.input? a.name with
          | none => if c.decl.allowExtra then go rest else .error (.mp "NoSuchParameter" a.line)
          | some i =>
            match clean ctx i.spec a.value with
            | .error e => .error (cleanErrToPErr e a.line)
            | .ok _ => go rest
    go (dedupArgs c.args)

/-- errors leaving `Command.run`: MPilotErrors pass, everything else is wrapped -/
def wrapRun (line : Option Nat) : PErr → PErr
  | .raw e => .unexpected e line
  | e => e

/-- `Command.run()` / `.result`: memoised, pull-based.  Returns the state reached and the error, if any. -/
def runCmd (sem : Sem Val) (p : Program) : Nat → St Val → String → St Val × Option PErr
  | 0, st, _ => (st, some (.unexpected "RecursionError" none))
  | fuel + 1, st, n =>
      if (st.get? n).isSome then (st, none)
      else match p.find? n with
        | none => (st, some (.raw "KeyError"))
        | some c =>
          match validateParams (mkCtx sem p st) c with
          | .error e => (st, some (wrapRun c.line e))
          | .ok () =>
            let st1 : St Val := { st with log := st.log ++ [.start n] }
            -- the body reads its inputs' results, each read running the producer if needed
            let rec pull : List String → St Val → List Val → St Val × Except PErr (List Val)
              | [], s, acc => (s, .ok acc.reverse)
              | d :: ds, s, acc =>
                  match runCmd sem p fuel s d with
                  | (s', some e) => (s', .error e)
                  | (s', none) =>
                    match s'.get? d with
                    | none => (s', .error (.raw "KeyError"))
                    | some v => pull ds s' (v :: acc)
            match pull (sem.pulls c) st1 [] with
            | (s2, .error e) => (s2, some (wrapRun c.line e))
            | (s2, .ok vals) =>
              match sem.compute c vals with
              | .error e => (s2, some (wrapRun c.line e))
              | .ok v => ({ memo := s2.memo ++ [(n, v)], log := s2.log ++ [.finish n] }, none)

/-- all references of a command (direct and through lists), as collected by the pre-pass -/
def depsOf (info : List (String × List String × List String)) (n : String) : List String :=
  match info.find? (·.1 == n) with
  | some (_, _, al) => al
  | none => []

/-- every name that is the target of a *direct* reference -/
def directOf (info : List (String × List String × List String)) : List String := info.flatMap fun (_, d, _) => d

/-- commands without direct dependents, in file order -/
def leavesOf (p : Program) (info : List (String × List String × List String)) : List PCmd :=
  p.cmds.filter fun c => !(directOf info).contains c.resultName

/-- `Program.run()` -/
def run (sem : Sem Val) (p : Program) (st : St Val) : St Val × Option PErr :=
  match prepass (mkCtx sem p st) p.cmds with
  | .error e => (st, some e)
  | .ok info =>
    if hasCycle p (depsOf info) then
      (st, some (.mp "RecursiveModelStructure" none))   -- line: see `hasCycle`
    else
      let rec go : List PCmd → St Val → St Val × Option PErr
        | [], s => (s, none)
        | c :: rest, s =>
            match runCmd sem p (p.cmds.length + 1) s c.resultName with
            | (s', some e) => (s', some e)
            | (s', none) => go rest s'
      go (leavesOf p info) st

end MPilot
