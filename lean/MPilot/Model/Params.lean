/-
Model/Params — parameter declarations (`mpilot/params.py`) and their `clean` methods.

`PSpec` is the tree of parameter objects a command declares; the values come from `Generated/Decls.lean`.
`Raw` is what the parser or the programming interface delivers; `Clean` what `clean` returns.
Environment facts (`os.path.exists`, the commands of the program) are parameters of the model.
-/
import MPilot.Model.Basic

namespace MPilot

/-- the class of a parameter object (all that `accepts` / `issubclass` / cleaning a finished result look at) -/
inductive PClass | any | str | num | bool | path | result | list | tuple | data | dtype
  deriving Repr, Inhabited, BEq, DecidableEq

inductive PSpec
  | any                                   -- `Parameter`
  | str | num | bool
  | path (mustExist : Bool)
  | result (outputType : Option PClass) (isFuzzy : Option Bool)
  | list (item : PSpec)
  | tuple
  | data
  | dtype (types : List (String × String))  -- `valid_types`: documented name ↦ identity of the Python type
  deriving Repr, Inhabited, BEq

/-- raw argument values: parser output (`int`, `float`, `str`, lists, dicts) or API objects -/
inductive Raw
  | int (n : Int)
  | float (q : Rat)
  | bool (b : Bool)
  | str (s : String)
  | list (xs : List Raw)
  | dict (kv : List (String × Raw))
  | cmd (name : String)                   -- a `Command` object (API) — identified by its result name
  | pytype (id : String)                  -- a Python type object (API, for DataType parameters)
  | none
  deriving Repr, Inhabited, BEq

inductive Clean
  | int (n : Int)
  | float (q : Rat)
  | bool (b : Bool)
  | str (s : String)
  | cmd (name : String)
  | pytype (id : String)
  | list (xs : List Clean)
  | dict (kv : List (String × String))
  | raw (r : Raw)                         -- `Parameter.clean` returns its argument untouched
  deriving Repr, Inhabited, BEq

/-- what kind of Python value a finished command holds as its result (as far as cleaning it can tell) -/
inductive ResKind | array | bool | other
  deriving Repr, Inhabited, BEq, DecidableEq

/-- what `ResultParameter.clean` needs to know about the command a name refers to -/
def PSpec.cls : PSpec → PClass
  | .any => .any | .str => .str | .num => .num | .bool => .bool | .path _ => .path | .result _ _ => .result
  | .list _ => .list | .tuple => .tuple | .data => .data | .dtype _ => .dtype

structure CmdInfo where
  isFuzzy : Bool
  output : Option PClass                  -- class of the class attribute `output`
  finished : Bool
  resultKind : ResKind                    -- only read when `finished` (then `output_type.clean(value.result)` runs)
  deriving Repr, Inhabited

structure Ctx where
  workingDir : Option String
  lookup : String → Option CmdInfo        -- `program.commands`
  isCommand : String → Bool               -- a `Raw.cmd` object is a real Command (always true for API objects we model)
  exists_ : String → Bool                 -- `os.path.exists`

/-- errors `clean` raises: the exception class; the line is attached by the caller -/
abbrev CleanErr := String

/-! ### Python's `int(str)` and `float(str)` on ASCII text -/

def isWs (c : Char) : Bool := c == ' ' || c == '\t' || c == '\n' || c == '\r' || c == '\x0b' || c == '\x0c'

def stripWs (cs : List Char) : List Char := ((cs.dropWhile isWs).reverse.dropWhile isWs).reverse

/-- digits with single underscores between digits; returns the digit characters -/
def digitsUnderscore : List Char → Option (List Char)
  | [] => none
  | c :: rest =>
    if !c.isDigit then none else
    let rec go : List Char → List Char → Option (List Char)
      | [], acc => some acc.reverse
      | '_' :: d :: r, acc => if d.isDigit then go (d :: r) acc else none
      | d :: r, acc => if d.isDigit then go r (d :: acc) else none
    go rest [c]

def natOfDigits (ds : List Char) : Nat := ds.foldl (fun n d => n * 10 + (d.toNat - '0'.toNat)) 0

/-- `int(s)` for a `str` (base 10) -/
def pyInt (s : String) : Option Int :=
  let cs := stripWs s.toList
  let (neg, body) := match cs with
    | '-' :: r => (true, r)
    | '+' :: r => (false, r)
    | r => (false, r)
  (digitsUnderscore body).map fun ds => if neg then -(natOfDigits ds : Int) else (natOfDigits ds : Int)

/-- split at the first character satisfying `p` -/
def splitAt1 (p : Char → Bool) (cs : List Char) : List Char × Option (List Char) :=
  match cs.span (fun c => !p c) with
  | (a, []) => (a, none)
  | (a, _ :: b) => (a, some b)

inductive PyFloat | finite (q : Rat) | special (s : String)
  deriving Repr, BEq

def lowerAscii (cs : List Char) : List Char := cs.map Char.toLower

/-- `float(s)` for a `str`: decimal literal with optional fraction and exponent, underscores between digits, inf/nan spellings -/
def pyFloat (s : String) : Option PyFloat :=
  let cs := stripWs s.toList
  let (neg, body) := match cs with
    | '-' :: r => (true, r)
    | '+' :: r => (false, r)
    | r => (false, r)
  let low := String.ofList (lowerAscii body)
  if low == "inf" || low == "infinity" then some (.special (if neg then "-inf" else "inf"))
  else if low == "nan" then some (.special "nan")
  else
    let (mant, exp) := splitAt1 (fun c => c == 'e' || c == 'E') body
    let (ip, fp) := splitAt1 (· == '.') mant
    let ipD := if ip.isEmpty then some [] else digitsUnderscore ip
    let fpD := match fp with
      | none => some []
      | some f => if f.isEmpty then some [] else digitsUnderscore f
    let expV : Option Int := match exp with
      | none => some 0
      | some e =>
        let (eneg, eb) := match e with
          | '-' :: r => (true, r)
          | '+' :: r => (false, r)
          | r => (false, r)
        (digitsUnderscore eb).map fun ds => if eneg then -(natOfDigits ds : Int) else (natOfDigits ds : Int)
    match ipD, fpD, expV with
    | some i, some f, some e =>
      if i.isEmpty && f.isEmpty then none
      else
        let m : Rat := (natOfDigits (i ++ f) : Nat)
        let scale : Int := e - f.length
        let q := if scale ≥ 0 then m * ((10 : Rat) ^ scale.toNat) else m / ((10 : Rat) ^ (-scale).toNat)
        some (.finite (if neg then -q else q))
    | _, _, _ => none

/-! ### `str(value)` (`six.text_type`) on the values we model -/

def pyStrInt (n : Int) : String := toString n

/-- `str` of raw values whose text form is modelled; `none` = outside the model (float repr, container repr) -/
def pyText : Raw → Option String
  | .str s => some s
  | .int n => some (pyStrInt n)
  | .bool b => some (if b then "True" else "False")
  | .none => some "None"
  | _ => none

/-! ### class relations used by `ResultParameter` -/

def PClass.isStringClass : PClass → Bool
  | .str | .path | .dtype => true
  | _ => false

/-- `issubclass(out.__class__, want.__class__)` -/
def PClass.subclassOf (out want : PClass) : Bool :=
  want == .any || (want == .str && out.isStringClass) || out == want

/-- `output_type.accepts(out.__class__)` where defined (String family, Number), else the subclass test -/
def PClass.acceptsOutput (want out : PClass) : Bool :=
  if want.isStringClass then out.isStringClass || out == .num
  else if want == .num then out == .num
  else out.subclassOf want

def posixIsAbs (s : String) : Bool := s.startsWith "/"

def posixJoin (a b : String) : String :=
  if posixIsAbs b then b
  else if a.isEmpty || a.endsWith "/" then a ++ b
  else a ++ "/" ++ b

mutual
/-- `param.clean(value, program, lineno)` -/
def clean (ctx : Ctx) : PSpec → Raw → Except CleanErr Clean
  | .any, v => .ok (.raw v)
  | .str, v =>
      match pyText v with
      | some s => .ok (.str s)
      | none => .error "OutsideModel"          -- repr of floats/containers is not modelled
  | .num, v =>
      match v with
      | .int n => .ok (.int n)
      | .float q => .ok (.float q)
      | .bool b => .ok (.bool b)               -- `bool` is a `numbers.Number`
      | .str s =>
          match pyInt s with
          | some n => .ok (.int n)
          | none =>
            match pyFloat s with
            | some (.finite q) => .ok (.float q)
            | some (.special _) => .error "OutsideModel"   -- inf / nan
            | none => .error "ParameterNotValid"
      | _ => .error "ParameterNotValid"
  | .bool, v =>
      match v with
      | .bool b => .ok (.bool b)
      | .int n => .ok (.bool (n != 0))
      | .str s =>
          let l := String.ofList (lowerAscii s.toList)
          if l == "true" then .ok (.bool true)
          else if l == "false" then .ok (.bool false)
          else match pyInt s with
            | some n => .ok (.bool (n != 0))
            | none => .error "ParameterNotValid"
      | _ => .error "ParameterNotValid"
  | .path mustExist, v =>
      match v with
      | .str _ | .int _ =>
          match pyText v with
          | none => .error "OutsideModel"
          | some s =>
            if !posixIsAbs s then
              match ctx.workingDir with
              | none => .error "InvalidRelativePath"
              | some wd =>
                let p := posixJoin wd s
                if mustExist && !ctx.exists_ p then .error "PathDoesNotExist" else .ok (.str p)
            else if mustExist && !ctx.exists_ s then .error "PathDoesNotExist" else .ok (.str s)
      | .float _ => .error "OutsideModel"      -- `str(float)`
      | _ => .error "ParameterNotValid"
  | .result outputType isFuzzy, v =>
      let resolved : Except CleanErr String :=
        match v with
        | .str s => if (ctx.lookup s).isSome then .ok s else .error "ResultDoesNotExist"
        | .cmd n => .ok n
        | _ => .error "ParameterNotValid"
      match resolved with
      | .error e => .error e
      | .ok name =>
        match ctx.lookup name with
        | none => .error "OutsideModel"        -- a Command object of another program
        | some info =>
          if isFuzzy == some true && !info.isFuzzy then .error "ResultNotFuzzy"
          else if isFuzzy == some false && info.isFuzzy then .error "ResultIsFuzzy"
          else match outputType with
            | none => .ok (.cmd name)
            | some want =>
              if info.finished then
                -- `self.output_type.clean(value.result, …)` on the finished result (an array, True, or anything else)
                match want with
                | .any | .str => .ok (.cmd name)
                | .data => if info.resultKind == .array then .ok (.cmd name) else .error "ParameterNotValid"
                | .bool | .num => if info.resultKind == .bool then .ok (.cmd name) else .error "ParameterNotValid"
                | .path => .error "ParameterNotValid"
                | _ => .error "OutsideModel"
              else match info.output with
                | none => .ok (.cmd name)
                | some out => if want.acceptsOutput out then .ok (.cmd name) else .error "ResultTypeNotValid"
  | .list item, v =>
      match v with
      | .list xs => (cleanList ctx item xs).map .list
      | _ => .error "ParameterNotValid"
  | .tuple, v =>
      match v with
      | .list [] => .ok (.dict [])
      | .dict kv =>
          let conv := kv.mapM fun (k, x) => (pyText x).map fun t => (k, t)
          (match conv with
           | some kv' => .ok (.dict kv')
           | none => .error "OutsideModel")
      | _ => .error "ParameterNotValid"
  | .data, _ => .error "ParameterNotValid"     -- no raw value is an ndarray
  | .dtype types, v =>
      match v with
      | .pytype t => if types.any (·.2 == t) then .ok (.pytype t) else .error "ParameterNotValid"
      | .str s =>
          match types.find? (·.1 == s) with
          | some (_, t) => .ok (.pytype t)
          | none => .error "ParameterNotValid"
      | _ => .error "ParameterNotValid"

def cleanList (ctx : Ctx) (item : PSpec) : List Raw → Except CleanErr (List Clean)
  | [] => .ok []
  | x :: xs =>
      match clean ctx item x with
      | .error e => .error e
      | .ok c =>
        match cleanList ctx item xs with
        | .error e => .error e
        | .ok cs => .ok (c :: cs)
end

/-- a cleaned value handed back as a raw argument (the API allows this; `clean(clean(v))`) -/
def Clean.embed : Clean → Raw
  | .int n => .int n
  | .float q => .float q
  | .bool b => .bool b
  | .str s => .str s
  | .cmd n => .cmd n
  | .pytype t => .pytype t
  | .list xs => .list (embedList xs)
  | .dict kv => .dict (kv.map fun (k, v) => (k, Raw.str v))
  | .raw r => r
where
  embedList : List Clean → List Raw
    | [] => []
    | x :: xs => x.embed :: embedList xs

end MPilot
