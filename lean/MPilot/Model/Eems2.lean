/-
Model/Eems2 — `mpilot/utils.py: convert_eems2_commands`, the trigger in `Program.from_source`, and the whole loading pipeline
from source text: parse → (convert) → build arguments → add commands.
-/
import MPilot.Model.Program
import MPilot.Model.Grammar

namespace MPilot

/-- Python truthiness of a parsed value -/
def EVal.truthy : EVal → Bool
  | .int n => n != 0
  | .float q => q != 0
  | .str s => !s.isEmpty
  | .list xs => !xs.isEmpty
  | .dict kv => !kv.isEmpty

/-- `find_argument(node, name)`: the parsed value of the first argument of that name -/
def findArgument (n : CNode) (name : String) : Option EVal := (n.args.find? (·.name == name)).map (·.value.val)

/-- `node.result_name or find_argument(node, "NewFieldName") or find_argument(node, "InFieldName")` -/
def v2ResultName (n : CNode) : Option EVal :=
  let cands : List (Option EVal) := [n.resultName.map EVal.str, findArgument n "NewFieldName", findArgument n "InFieldName"]
  let truthy := cands.filterMap fun c => match c with | some v => if v.truthy then some v else none | none => none
  match truthy with
  | v :: _ => some v
  | [] => findArgument n "InFieldName"               -- all falsy: Python's `or` yields its last operand

def convertNode (table : List (String × String)) (n : CNode) : Except PErr CNode :=
  match v2ResultName n with
  | some (.str s) =>
      .ok { resultName := some s,
            command := match table.find? (·.1 == n.command) with | some (_, v) => v | none => n.command,
            args := n.args.filter (fun a => a.name != "NewFieldName" && a.name != "OutFileName"),
            line := n.line }
  | _ => .error (.mp "ProgramError" (some n.line))

def convertAll (table : List (String × String)) : List CNode → Except PErr (List CNode)
  | [] => .ok []
  | n :: rest =>
      match convertNode table n with
      | .error e => .error e
      | .ok c =>
        match convertAll table rest with
        | .error e => .error e
        | .ok cs => .ok (c :: cs)

/-- `program_node.version == 2 or any(node.command in EEMS_COMMANDS …)` -/
def needsConversion (table : List (String × String)) (p : PNode) : Bool :=
  p.version == 2 || p.commands.any fun c => table.any (·.1 == c.command)

mutual
  /-- parsed value → raw argument value (`resolve_list`, the dict comprehension, or the scalar itself) -/
  def EVal.toRaw : EVal → Raw
    | .int n => .int n
    | .float q => .float q
    | .str s => .str s
    | .list xs => .list (toRawList xs)
    | .dict kv => .dict (toRawDict kv)
  def toRawList : List ENode → List Raw
    | [] => []
    | (.mk v _) :: r => v.toRaw :: toRawList r
  def toRawDict : List (String × ENode) → List (String × Raw)
    | [] => []
    | (k, .mk v _) :: r => (k, v.toRaw) :: toRawDict r
end

/-- the `Argument` / `ListArgument` built for a parsed argument: a list argument carries the line of its `[`, any other the line of its name -/
def toArg (a : ANode) : Arg :=
  { name := a.name, value := a.value.val.toRaw,
    line := some (match a.value.val with | .list _ => a.value.line | _ => a.line) }

def toNode (c : CNode) : Node :=
  { resultName := c.resultName.getD "", command := c.command, args := c.args.map toArg, line := some c.line }

/-- `Program.from_source(source, libraries, working_dir)` -/
def loadSource (table : List (String × String)) (lib : String → Option CmdDecl) (p0 : Program) (src : String) : Except PErr Program :=
  match parse src with
  | .error .syntax => .error .syntax
  | .error .outside => .error (.raw "OutsideModel")
  | .ok pn =>
    let nodes : Except PErr (List CNode) := if needsConversion table pn then convertAll table pn.commands else .ok pn.commands
    match nodes with
    | .error e => .error e
    | .ok cs => fromNodes lib p0 (cs.map toNode)

end MPilot
