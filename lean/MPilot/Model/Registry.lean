/-
Model/Registry — the process-global command registry (`CommandMeta._commands`) and the per-program lookup built by `Program.__init__`.

A history is a list of events: a command class gets defined (`define`), or a program is constructed for some libraries (`construct`).
Constructing first loads the requested libraries (which defines the classes of the built-in modules under them, once), then selects
from *everything registered so far* the commands whose module is a requested library or lies beneath one, and fails if two selected
commands share a name.
-/
import MPilot.Model.Basic

namespace MPilot

structure RegEntry where
  module : String
  name : String
  impl : Nat            -- identity of the class object
  deriving DecidableEq, Repr, Inhabited

abbrev Registry := List RegEntry

/-- `CommandMeta.__new__`: a (module, name) pair is registered once; a later class of the same module and name is not added -/
def register (reg : Registry) (e : RegEntry) : Registry :=
  if reg.any (fun i => i.module == e.module && i.name == e.name) then reg else reg ++ [e]

/-- `info.module == lib or info.module.startswith(lib + ".")` -/
def underLib (lib module : String) : Bool := module == lib || module.startsWith (lib ++ ".")

def inLibs (libs : List String) (e : RegEntry) : Bool := libs.any fun l => underLib l e.module

/-- names selected more than once -/
def duplicates (sel : List RegEntry) : List String :=
  (sel.map (·.name)).eraseDups.filter fun n => (sel.filter (·.name == n)).length > 1

/-- `Program.__init__` after loading: the lookup table, or the names that clash -/
def lookup (reg : Registry) (libs : List String) : Except (List String) (List RegEntry) :=
  let sel := reg.filter (inLibs libs)
  if (duplicates sel).isEmpty then .ok sel else .error (duplicates sel)

inductive RegEv
  | define (e : RegEntry)
  | construct (libs : List String)
  deriving Repr, Inhabited

/-- loading a library registers the classes of the built-in modules under it (`builtin` = what importing them defines) -/
def loadLibs (builtin : List RegEntry) (reg : Registry) (libs : List String) : Registry :=
  (builtin.filter (inLibs libs)).foldl register reg

/-- runs a history; returns the outcome of every construction, in order -/
def runHistory (builtin : List RegEntry) : Registry → List RegEv → List (Except (List String) (List RegEntry))
  | _, [] => []
  | reg, .define e :: rest => runHistory builtin (register reg e) rest
  | reg, .construct libs :: rest =>
      let reg' := loadLibs builtin reg libs
      lookup reg' libs :: runHistory builtin reg' rest

end MPilot
