/-
Model/Serialize — `Program.to_string()` (`mpilot/program.py`): the command-file text of a program.

Floats arrive as the exact decimal value of Python's `repr(x)` (the shortest digits that read back to `x`; that guarantee of
CPython is part of the trusted base).  The serializer writes every float in positional notation with a `.`.
-/
import MPilot.Model.Program
import MPilot.Model.Grammar

namespace MPilot

/-- `quote()` of `to_string`: backslash, double quote, newline, carriage return, tab are escaped; everything else is written as is -/
def quoteChars : List Char → List Char
  | [] => []
  | c :: r =>
      (if c == '\\' then ['\\', '\\']
       else if c == '"' then ['\\', '"']
       else if c == '\n' then ['\\', 'n']
       else if c == '\r' then ['\\', 'r']
       else if c == '\t' then ['\\', 't']
       else [c]) ++ quoteChars r

def quoteStr (s : String) : String := "\"" ++ String.ofList (quoteChars s.toList) ++ "\""

/-- the least `k` (tried from `k` upwards, `fuel` times) for which `a · 10^k` is a whole number `m`: `(m, k)` -/
def findScale (a : Rat) (k fuel : Nat) : Option (Nat × Nat) :=
  match fuel with
  | 0 => none
  | fuel + 1 =>
    let v := a * ((10 : Rat) ^ k)
    if v.den == 1 then some (v.num.toNat, k) else findScale a (k + 1) fuel

/-- the digits `ds` of `m` with the decimal point `k` places from the right, at least one digit on either side -/
def pointAt (ds : List Char) (k : Nat) : List Char × List Char :=
  if k == 0 then (ds, ['0'])
  else if ds.length > k then (ds.take (ds.length - k), ds.drop (ds.length - k))
  else (['0'], List.replicate (k - ds.length) '0' ++ ds)

/-- positional decimal notation of a terminating decimal, with at least one fractional digit; `none` if not a decimal of ≤ 400 digits -/
def positional (q : Rat) : Option String :=
  let neg := q < 0
  let a := if neg then -q else q
  match findScale a 0 400 with
  | none => none
  | some (m, k) =>
    let (ip, fp) := pointAt (Nat.toDigits 10 m) k
    some (String.ofList ((if neg then ['-'] else []) ++ (ip ++ '.' :: fp)))

/-- `str(value)` for the scalars `to_string` meets -/
def scalarText (r : Raw) : Option String :=
  match r with
  | .int n => some (toString n)
  | .float q => positional q
  | .bool b => some (if b then "True" else "False")
  | .str s => some s
  | .cmd n => some n
  | .none => some "None"
  | _ => none

mutual
  /-- `serialize_value`; `isResult` = the parameter (lists unwrapped) is a ResultParameter -/
  def serializeValue (isResult : Bool) : Raw → Option String
    | .cmd n => some n
    | .list xs => (serializeValues isResult xs).map fun ss => "[" ++ ", ".intercalate ss ++ "]"
    | .str s => some (if isResult then s else quoteStr s)
    | .int n => scalarText (.int n)
    | .float q => scalarText (.float q)
    | .bool b => scalarText (.bool b)
    | .dict kv => scalarText (.dict kv)
    | .pytype t => scalarText (.pytype t)
    | .none => scalarText .none
  /-- the items of a list, each serialised; `none` as soon as one item has no text form -/
  def serializeValues (isResult : Bool) : List Raw → Option (List String)
    | [] => some []
    | x :: xs =>
        match serializeValue isResult x with
        | none => none
        | some a =>
          match serializeValues isResult xs with
          | none => none
          | some b => some (a :: b)
end

def serializeArgument (isResult : Bool) (a : Arg) : Option String :=
  match a.value with
  | .dict kv =>
      (kv.mapM fun (k, v) => (scalarText v).map fun t => "        " ++ quoteStr k ++ ": " ++ quoteStr t).map fun rows =>
        "[\n" ++ ",\n".intercalate rows ++ "\n    ]"
  | v => serializeValue isResult v

def specIsResult : PSpec → Bool
  | .result _ _ => true
  | .list s => specIsResult s
  | _ => false

def serializeCommand (c : PCmd) : Option String :=
  (c.args.mapM fun a =>
    (serializeArgument (match c.decl.input? a.name with | some i => specIsResult i.spec | none => false) a).map fun t => a.name ++ " = " ++ t).map fun rows =>
    c.resultName ++ " = " ++ c.decl.name ++ "(" ++ "\n    " ++ ",\n    ".intercalate rows ++ "\n" ++ ")"

def serializeProgram (p : Program) : Option String :=
  (p.cmds.mapM serializeCommand).map fun cs => "\n".intercalate cs

end MPilot
