/-
Model/Cli — `mpilot/cli/mpilot.py`: what the command-line tool reads from the command file, what it hands to the loader, what it
writes to standard error and how it exits, given what loading and running did (`Outcome`).  The loader and the run loop are
`Model/Program`; `click`'s argument handling is not modelled.  Core Lean only.
-/
import MPilot.Generated.CliConsts

namespace MPilot.Cli

/-- text mode with universal newlines: `\r\n` and a lone `\r` are read as `\n` (`prevCr`: the character before was a `\r`, already
turned into a line feed, so a `\n` right here belongs to it) -/
def univGo : Bool → List Char → List Char
  | _, [] => []
  | prevCr, c :: r =>
    if c = '\r' then '\n' :: univGo true r
    else if c = '\n' ∧ prevCr = true then univGo false r
    else c :: univGo false r

def univ (t : List Char) : List Char := univGo false t

/-- pieces of a text between line feeds (`"a\nb\n"` gives `["a", "b", ""]`) -/
def splitNl : List Char → List (List Char)
  | [] => [[]]
  | c :: r =>
    if c = '\n' then [] :: splitNl r
    else match splitNl r with
      | [] => [[c]]          -- unreachable: `splitNl` never returns `[]`
      | l :: ls => (c :: l) :: ls

/-- `[line.strip("\n\r") for line in f.readlines()]`: the lines of the file without their line ends; no empty last line for a text that
ends in a line end (and none at all for an empty file).  After `univ` no line holds `\r` or `\n`, so `strip` removes the line end only. -/
def fileLines (text : List Char) : List (List Char) :=
  let ps := splitNl (univ text)
  if ps.getLast? = some [] then ps.dropLast else ps

/-- `"\n".join(lines)` -/
def joinNl : List (List Char) → List Char
  | [] => []
  | [l] => l
  | l :: ls => l ++ '\n' :: joinNl ls

/-- the text handed to `Program.from_source` -/
def source (text : List Char) : List Char := joinNl (fileLines text)

/-- what `Program.from_source(...)` followed by `program.run()` did, as far as the tool can tell -/
inductive Outcome
  | done
  /-- an `MPilotError`: `str(ex)`, whether it is a `ProgramError`, and its `lineno` -/
  | mpError (msg : List Char) (isProgramError : Bool) (lineno : Option Nat)
  /-- any other exception (a `SyntaxError` included) is not caught: Python's traceback, exit status 1 -/
  | other (pyExc : String)

structure Result where
  exit : Int
  stderr : List Char
  /-- an exception that leaves `main()` -/
  crash : Option String
  deriving DecidableEq

/-! the literals that shape the report are read from `mpilot/cli/mpilot.py` on every run (`Generated/CliConsts.lean`) -/
def header : List Char := Generated.cliHeader.toList
def indent (l : List Char) : List Char := List.replicate Generated.cliIndentWidth ' ' ++ l
def marker (l : List Char) : List Char := Generated.cliMarker.toList ++ l
def contextLength : Nat := Generated.cliContextLength

def missingFile (path : List Char) : List Char :=
  "Problem: The specified command file does not exist: ".toList ++ path ++ '\n' ::
  "Solution: Check the path to the command file and try again.".toList ++ ['\n']

/-- lines `start ≤ i < idx` and `idx < i < end` as Python's slices give them -/
def before (lines : List (List Char)) (idx : Nat) : List (List Char) := (lines.drop (idx - contextLength)).take (idx - (idx - contextLength))
def after (lines : List (List Char)) (idx : Nat) : List (List Char) :=
  (lines.drop (idx + 1)).take (min (idx + contextLength) lines.length - (idx + 1))

/-- the marked excerpt: up to three lines above, the offending line behind `--> `, up to two lines below -/
def excerpt (lines : List (List Char)) (idx : Nat) (l : List Char) : List Char :=
  joinNl ((before lines idx).map indent) ++ '\n' :: marker l ++ '\n' :: joinNl ((after lines idx).map indent) ++ ['\n']

/-- `main(library, path, libraries)` once `click` has delivered its arguments: `pathExists` = `os.path.exists(path)`, `text` = the file -/
def main (pathExists : Bool) (path text : List Char) (outcome : List (List Char) → Outcome) : Result :=
  if !pathExists then { exit := -1, stderr := missingFile path, crash := none }
  else
    let lines := fileLines text
    match outcome lines with
    | .done => { exit := 0, stderr := [], crash := none }
    | .other e => { exit := 1, stderr := [], crash := some e }
    | .mpError msg isProg lineno =>
      let head := header ++ '\n' :: msg ++ ['\n']
      match isProg, lineno with
      | true, some n =>
        if n = 0 then
          -- `lines[-1]`: nothing in the loader produces line 0; outside the model
          { exit := 1, stderr := head, crash := some "LineZero" }
        else
          match lines[n - 1]? with
          | none => { exit := 1, stderr := head ++ joinNl ((before lines (n - 1)).map indent) ++ ['\n'], crash := some "IndexError" }
          | some l => { exit := -1, stderr := head ++ excerpt lines (n - 1) l, crash := none }
      | _, _ => { exit := -1, stderr := head, crash := none }

end MPilot.Cli
