/-
Model/Grammar — the LALR(1) grammar of `mpilot/parser/parser.py` (with PLY's conflict resolution) as a recursive-descent
parser over the token list, and its semantic actions.  The algorithm is the one validated against PLY in DESIGN.md, Appendix A,
updated for the repaired parser (fresh line counter / version flag per parse, quotes sliced, mixed list contents a SyntaxError).
-/
import MPilot.Model.Lexer

namespace MPilot

mutual
  /-- values of expressions in the parse tree -/
  inductive EVal
    | int (n : Int)
    | float (q : Rat)
    | str (s : String)
    | list (xs : List ENode)
    | dict (kv : List (String × ENode))
  /-- `ExpressionNode(value, lineno)` -/
  inductive ENode
    | mk (val : EVal) (line : Nat)
end

instance : Inhabited EVal := ⟨.int 0⟩
instance : Inhabited ENode := ⟨.mk (.int 0) 0⟩

def ENode.val : ENode → EVal | .mk v _ => v
def ENode.line : ENode → Nat | .mk _ l => l

structure ANode where
  name : String
  value : ENode
  line : Nat
  deriving Inhabited

structure CNode where
  resultName : Option String
  command : String
  args : List ANode
  line : Nat
  deriving Inhabited

structure PNode where
  commands : List CNode
  version : Nat
  deriving Inhabited

inductive ParseErr
  | syntax
  | outside       -- a value whose text form the model does not describe
  deriving DecidableEq, Repr, Inhabited

abbrev PR (α : Type) := Except ParseErr (α × List Tok)

def Tok.isErr (t : Tok) : Bool := t.kind == .errIllegal || t.kind == .errEscape || t.kind == .errOutside

def errOf (t : Tok) : ParseErr := if t.kind == .errOutside then .outside else .syntax

/-- kind of the next token; a lexer error met as current or look-ahead token is raised -/
def peek (ts : List Tok) : Except ParseErr (Option TokKind) :=
  match ts with
  | [] => .ok none
  | t :: _ => if t.isErr then .error (errOf t) else .ok (some t.kind)

def expect (k : TokKind) (ts : List Tok) : PR Tok :=
  match ts with
  | [] => .error .syntax
  | t :: r => if t.isErr then .error (errOf t) else if t.kind == k then .ok (t, r) else .error .syntax

def isPsStart (k : TokKind) : Bool := k == .plain || k == .id || k == .int || k == .float

/-! ### `str(value)` of tokens inside unquoted strings -/

def natDigits (n : Nat) : List Char := (toString n).toList

/-- Python's `repr(float)` for decimals with at most 15 significant digits and a moderate exponent; `none` = outside the model -/
def pyFloatRepr (q : Rat) : Option String :=
  if q == 0 then some "0.0" else
  let neg := q < 0
  let a := if neg then -q else q
  -- find the decimal expansion: a = m / 10^k with k minimal ≤ 30
  let rec findK (k fuel : Nat) : Option (Nat × Nat) :=
    match fuel with
    | 0 => none
    | fuel + 1 =>
      let v := a * ((10 : Rat) ^ k)
      if v.den == 1 then some (v.num.toNat, k) else findK (k + 1) fuel
  match findK 0 31 with
  | none => none
  | some (m, k) =>
    let ds := natDigits m
    -- strip trailing zeros of an integer mantissa (k = 0) to count significant digits
    let sig := (ds.reverse.dropWhile (· == '0')).length
    if sig > 15 then none else
    let intDigits := ds.length - k          -- digits before the decimal point (may be ≤ 0 as Int; here Nat-sub)
    if ds.length > k + 16 then none         -- ≥ 1e16: exponent form, not modelled
    else if k ≥ ds.length + 4 then none     -- < 1e-4: exponent form, not modelled
    else
      let body :=
        if k == 0 then String.ofList ds ++ ".0"
        else if ds.length > k then String.ofList (ds.take intDigits) ++ "." ++ String.ofList (ds.drop intDigits)
        else "0." ++ String.ofList (List.replicate (k - ds.length) '0' ++ ds)
      some ((if neg then "-" else "") ++ body)

def tokText (t : Tok) : Except ParseErr String :=
  match t.val with
  | .str s => .ok s
  | .int n => .ok (toString n)
  | .float q => (match pyFloatRepr q with | some s => .ok s | none => .error .outside)
  | .negZero => .ok "-0.0"
  | .none => .ok ""

/-- `plain_string := (INT|FLOAT|PLAIN_STRING|ID)* (PLAIN_STRING|ID)`, greedy; value = concatenation of `str(token value)` -/
def plainString (ts : List Tok) : PR (String × Nat) :=
  match ts with
  | [] => .error .syntax
  | t0 :: _ =>
    if t0.isErr then .error (errOf t0)
    else if !isPsStart t0.kind then .error .syntax
    else
      let rec go : List Tok → String → Option TokKind → Except ParseErr (String × Option TokKind × List Tok)
        | [], acc, last => .ok (acc, last, [])
        | t :: r, acc, last =>
            if t.isErr then
              -- a lexer error right after the run is the look-ahead token: it is raised
              .error (errOf t)
            else if isPsStart t.kind then
              match tokText t with
              | .error e => .error e
              | .ok s => go r (acc ++ s) (some t.kind)
            else .ok (acc, last, t :: r)
      match go ts "" none with
      | .error e => .error e
      | .ok (s, last, rest) =>
        if last == some .plain || last == some .id then .ok ((s, t0.line), rest) else .error .syntax

/-- an `INT`/`FLOAT` is a number iff the next token cannot continue a plain string -/
def isNumberHere (ts : List Tok) : Except ParseErr Bool :=
  match ts with
  | t :: r =>
      if t.kind == .int || t.kind == .float then
        match r with
        | [] => .ok true
        | u :: _ => if u.isErr then .error (errOf u) else .ok (!isPsStart u.kind)
      else .ok false
  | [] => .ok false

/-- `permissive := plain_string (':' plain_string)*` -/
def permissive (fuel : Nat) (ts : List Tok) : PR (String × Nat) :=
  match plainString ts with
  | .error e => .error e
  | .ok ((s, line), rest) =>
    let rec more : Nat → String → List Tok → PR String
      | 0, _, _ => .error .syntax
      | fuel + 1, acc, ts =>
          match peek ts with
          | .error e => .error e
          | .ok (some .colon) =>
              (match plainString (ts.drop 1) with
               | .error e => .error e
               | .ok ((w, _), rest') => more fuel (acc ++ ":" ++ w) rest')
          | .ok _ => .ok (acc, ts)
    match more fuel s rest with
    | .error e => .error e
    | .ok (v, rest') => .ok ((v, line), rest')

def numVal (t : Tok) : EVal := match t.val with | .int n => .int n | .float q => .float q | .negZero => .float 0 | .str s => .str s | .none => .str ""

/-- is a `tuple_pair` coming: `STRING ':'` or `plain_string ':'` (look-ahead only; lexer errors are not raised here) -/
def atPair (ts : List Tok) : Bool :=
  match ts with
  | t :: u :: _ =>
      if t.kind == .string then u.kind == .colon
      else
        let run := ts.takeWhile (fun x => isPsStart x.kind)
        match run.getLast?, ts.drop run.length with
        | some l, c :: _ => (l.kind == .plain || l.kind == .id) && c.kind == .colon
        | _, _ => false
  | _ => false

/-- Python dict built by `dict(list(rest.items()) + [pair])`: an existing key keeps its position and takes the new value -/
def dictSet (kv : List (String × ENode)) (k : String) (v : ENode) : List (String × ENode) :=
  if kv.any (·.1 == k) then kv.map (fun p => if p.1 == k then (k, v) else p) else kv ++ [(k, v)]

mutual
  /-- `expression := STRING | list | number | permissive` (line of the first token) -/
  def expression : Nat → List Tok → PR ENode
    | 0, _ => .error .syntax
    | fuel + 1, ts =>
      match ts with
      | [] => .error .syntax
      | t :: r =>
        if t.isErr then .error (errOf t)
        else if t.kind == .string then .ok (.mk (numVal t) t.line, r)
        else if t.kind == .lbrack then
          match listBody fuel r with
          | .error e => .error e
          | .ok (v, rest) => .ok (.mk v t.line, rest)
        else
          match isNumberHere ts with
          | .error e => .error e
          | .ok true => .ok (.mk (numVal t) t.line, r)
          | .ok false =>
            if isPsStart t.kind then
              match permissive (ts.length + 1) ts with
              | .error e => .error e
              | .ok ((s, line), rest) => .ok (.mk (.str s) line, rest)
            else .error .syntax

  /-- after `[`: `']' | elements ']'` -/
  def listBody : Nat → List Tok → PR EVal
    | 0, _ => .error .syntax
    | fuel + 1, ts =>
      match peek ts with
      | .error e => .error e
      | .ok (some .rbrack) => .ok (.list [], ts.drop 1)
      | .ok _ =>
        match elements fuel ts with
        | .error e => .error e
        | .ok (v, rest) =>
          match expect .rbrack rest with
          | .error e => .error e
          | .ok (_, rest') => .ok (v, rest')

  /-- `elements := tuple_pairs | expression (',' elements?)?`; an element followed by tuple pairs is a syntax error -/
  def elements : Nat → List Tok → PR EVal
    | 0, _ => .error .syntax
    | fuel + 1, ts =>
      if atPair ts then
        match tuplePairs fuel ts with
        | .error e => .error e
        | .ok (kv, rest) => .ok (.dict kv, rest)
      else
        match expression fuel ts with
        | .error e => .error e
        | .ok (e, rest) =>
          match peek rest with
          | .error er => .error er
          | .ok (some .comma) =>
            let rest1 := rest.drop 1
            (match peek rest1 with
             | .error er => .error er
             | .ok (some .rbrack) => .ok (.list [e], rest1)
             | .ok _ =>
               match elements fuel rest1 with
               | .error er => .error er
               | .ok (.list xs, rest2) => .ok (.list (e :: xs), rest2)
               | .ok (_, _) => .error .syntax)
          | .ok _ => .ok (.list [e], rest)

  /-- `tuple_pairs := pair (',' tuple_pairs?)?`, the dict built right to left -/
  def tuplePairs : Nat → List Tok → PR (List (String × ENode))
    | 0, _ => .error .syntax
    | fuel + 1, ts =>
      match tuplePair ts with
      | .error e => .error e
      | .ok ((k, v), rest) =>
        match peek rest with
        | .error er => .error er
        | .ok (some .comma) =>
          let rest1 := rest.drop 1
          (match peek rest1 with
           | .error er => .error er
           | .ok (some .rbrack) => .ok ([(k, v)], rest1)
           | .ok _ =>
             match tuplePairs fuel rest1 with
             | .error er => .error er
             | .ok (kv, rest2) => .ok (dictSet kv k v, rest2))
        | .ok _ => .ok ([(k, v)], rest)

  /-- `pair := (STRING | plain_string) ':' (STRING | number | permissive)`, the value node carrying the key's line -/
  def tuplePair (ts : List Tok) : PR (String × ENode) :=
    match ts with
    | [] => .error .syntax
    | t :: r =>
      let key : PR (String × Nat) :=
        if t.isErr then .error (errOf t)
        else if t.kind == .string then
          (match t.val with | .str s => .ok ((s, t.line), r) | _ => .error .syntax)
        else plainString ts
      match key with
      | .error e => .error e
      | .ok ((k, line), rest) =>
        match expect .colon rest with
        | .error e => .error e
        | .ok (_, rest1) =>
          match rest1 with
          | [] => .error .syntax
          | u :: r1 =>
            if u.isErr then .error (errOf u)
            else if u.kind == .string then .ok ((k, .mk (numVal u) line), r1)
            else
              match isNumberHere rest1 with
              | .error e => .error e
              | .ok true => .ok ((k, .mk (numVal u) line), r1)
              | .ok false =>
                match permissive (rest1.length + 1) rest1 with
                | .error e => .error e
                | .ok ((s, _), rest2) => .ok ((k, .mk (.str s) line), rest2)
end

/-- `argument := ID '=' expression` (line of the name) -/
def argument (ts : List Tok) : PR ANode :=
  match expect .id ts with
  | .error e => .error e
  | .ok (t, r) =>
    match expect .equal r with
    | .error e => .error e
    | .ok (_, r1) =>
      match expression (2 * r1.length + 2) r1 with
      | .error e => .error e
      | .ok (v, rest) =>
        match t.val with
        | .str n => .ok (⟨n, v, t.line⟩, rest)
        | _ => .error .syntax

/-- `arguments := '(' ')' | '(' argument (',' argument)* ','? ')'` -/
def arguments (ts : List Tok) : PR (List ANode) :=
  match expect .lparen ts with
  | .error e => .error e
  | .ok (_, r) =>
    match peek r with
    | .error e => .error e
    | .ok (some .rparen) => .ok ([], r.drop 1)
    | .ok _ =>
      let rec go : Nat → List Tok → List ANode → PR (List ANode)
        | 0, _, _ => .error .syntax
        | fuel + 1, ts, acc =>
            match argument ts with
            | .error e => .error e
            | .ok (a, rest) =>
              match peek rest with
              | .error e => .error e
              | .ok (some .comma) =>
                let rest1 := rest.drop 1
                (match peek rest1 with
                 | .error e => .error e
                 | .ok (some .rparen) => .ok ((a :: acc).reverse, rest1.drop 1)
                 | .ok _ => go fuel rest1 (a :: acc))
              | .ok (some .rparen) => .ok ((a :: acc).reverse, rest.drop 1)
              | .ok _ => .error .syntax
      go (r.length + 1) r []

/-- `command := ID '=' ID arguments | ID arguments`; the second form is EEMS 2.0 syntax -/
def command (ts : List Tok) : PR (CNode × Bool) :=
  match expect .id ts with
  | .error e => .error e
  | .ok (t, r) =>
    match peek r with
    | .error e => .error e
    | .ok (some .equal) =>
      (match expect .id (r.drop 1) with
       | .error e => .error e
       | .ok (c, r1) =>
         match arguments r1 with
         | .error e => .error e
         | .ok (args, rest) =>
           match t.val, c.val with
           | .str rn, .str cn => .ok ((⟨some rn, cn, args, c.line⟩, false), rest)
           | _, _ => .error .syntax)
    | .ok _ =>
      match arguments r with
      | .error e => .error e
      | .ok (args, rest) =>
        match t.val with
        | .str cn => .ok ((⟨none, cn, args, t.line⟩, true), rest)
        | _ => .error .syntax

/-- `program := command+`; version 2 iff some command is in EEMS 2.0 form -/
def parseToks (ts : List Tok) : Except ParseErr PNode :=
  let rec go : Nat → List Tok → List CNode → Bool → Except ParseErr PNode
    | 0, _, _, _ => .error .syntax
    | fuel + 1, ts, acc, v2 =>
        match command ts with
        | .error e => .error e
        | .ok ((c, isV2), rest) =>
          match rest with
          | [] => .ok ⟨(c :: acc).reverse, if v2 || isV2 then 2 else 3⟩
          | _ => go fuel rest (c :: acc) (v2 || isV2)
  go (ts.length + 1) ts [] false

/-- `Parser().parse(source)`: every parse starts at line 1 with the version flag cleared -/
def parse (src : String) : Except ParseErr PNode := parseToks (lex src)

end MPilot
