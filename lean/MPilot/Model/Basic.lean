/-
Model/Basic — values shared by every layer of the model of consbio/mpilot.
Core Lean only (no Mathlib): this file is part of the executable driver.
-/
namespace MPilot

/-- Where an error says it happened.  The program layer turns this into a number. -/
inductive LineRef
  | none                 -- the exception carries no line
  | cmd                  -- `self.lineno`
  | arg (name : String)  -- `self.argument_lines.get(name)`
  deriving DecidableEq, Repr, Inhabited

/-- Outcomes other than success.
`mp`         : an `MPilotError` subclass raised by the code itself;
`unexpected` : any other exception raised inside `Command.run` — wrapped as `UnexpectedError` (an `MPilotError`);
`raw`        : any other exception raised outside `Command.run` — escapes as it is;
`syntax`     : `SyntaxError` from lexer/parser. -/
inductive Err
  | mp (cls : String) (ref : LineRef)
  | unexpected (exc : String)
  | raw (exc : String)
  | syntax
  deriving DecidableEq, Repr, Inhabited

/-- A cleaned Python number: `int` or `float` (value kept exactly). -/
structure Num where
  val : Rat
  isInt : Bool
  deriving DecidableEq, Repr, Inhabited

inductive DType | int | float
  deriving DecidableEq, Repr, Inhabited

/-- One element of a `numpy.ma.MaskedArray`: `val` is `.data[i]` (the hidden payload when `mask`). -/
structure Cell where
  val : Rat
  mask : Bool
  deriving DecidableEq, Repr, Inhabited

/-- A masked array: cells in C order with the shape beside them. -/
structure Arr where
  dtype : DType
  shape : List Nat
  cells : List Cell
  deriving DecidableEq, Repr, Inhabited

/-- What an observer of the array can see: `none` at missing cells. -/
def Cell.vis (c : Cell) : Option Rat := if c.mask then none else some c.val

def Arr.vis (a : Arr) : List (Option Rat) := a.cells.map Cell.vis

/-- Visible equality: same element type, same shape, same mask, same values where not missing. -/
def VisEq (a b : Arr) : Prop := a.dtype = b.dtype ∧ a.shape = b.shape ∧ a.vis = b.vis

instance (a b : Arr) : Decidable (VisEq a b) := by unfold VisEq; infer_instance

/-- numpy's default fill value for floating masked arrays. -/
def fillValue : Rat := 100000000000000000000

def DType.promote : DType → DType → DType
  | .int, .int => .int
  | _, _ => .float

end MPilot
