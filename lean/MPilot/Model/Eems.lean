/-
Model/Eems — the 31 EEMS data commands (`mpilot/libraries/eems/{basic,fuzzy}.py`) over exact rationals.

One `exec` case per `execute` body, same order of checks, same error on the same branch.
`numpy.ma` is *modelled* here (cell-wise semantics of the primitives the bodies use), not verified;
the correspondence harness ties each case to the real code.

`sqrt` (only inside `numpy.ma.std`) is a parameter.
-/
import MPilot.Model.Basic

namespace MPilot

/-! ## numpy.ma primitives at cell level -/

/-- masked binary ufunc: the result is missing where either operand is; its hidden payload is the first operand's -/
def Cell.bin (f : Rat → Rat → Rat) (a b : Cell) : Cell :=
  ⟨if a.mask || b.mask then a.val else f a.val b.val, a.mask || b.mask⟩

/-- masked array ∘ scalar -/
def Cell.sc (f : Rat → Rat) (a : Cell) : Cell := ⟨if a.mask then a.val else f a.val, a.mask⟩

/-- true division: additionally missing where the divisor's data is 0 -/
def Cell.div (a b : Cell) : Cell :=
  let m := a.mask || b.mask || (b.val == 0)
  ⟨if m then a.val else a.val / b.val, m⟩

/-- masked array / scalar -/
def Cell.divSc (d : Rat) (a : Cell) : Cell :=
  let m := a.mask || (d == 0)
  ⟨if m then a.val else a.val / d, m⟩

def clampHiLo (lo hi x : Rat) : Rat :=
  let y := if x > hi then hi else x
  if y < lo then lo else y

/-- `insure_fuzzy(arr, lo, hi)`: clamp from above then from below; reset hidden payloads to the fill value -/
def Cell.insure (lo hi : Rat) (c : Cell) : Cell :=
  if c.mask then ⟨fillValue, true⟩ else ⟨clampHiLo lo hi c.val, false⟩

def Arr.mapCells (f : Cell → Cell) (a : Arr) : Arr := { a with cells := a.cells.map f }

def Arr.insure (lo hi : Rat) (a : Arr) : Arr := a.mapCells (Cell.insure lo hi)

def Arr.asFloat (a : Arr) : Arr := { a with dtype := .float }

/-- cell-wise binary operation of two same-shaped arrays -/
def Arr.zip (f : Cell → Cell → Cell) (dt : DType) (a b : Arr) : Arr :=
  { dtype := dt, shape := a.shape, cells := List.zipWith f a.cells b.cells }

/-! ## whole-array statistics over the non-missing cells -/

def Arr.valid (a : Arr) : List Rat := (a.cells.filter (fun c => !c.mask)).map (·.val)

def minL : List Rat → Option Rat
  | [] => none
  | x :: xs => some (xs.foldl (fun m y => if y < m then y else m) x)

def maxL : List Rat → Option Rat
  | [] => none
  | x :: xs => some (xs.foldl (fun m y => if y > m then y else m) x)

def sumL (xs : List Rat) : Rat := xs.foldl (· + ·) 0

def meanL (xs : List Rat) : Option Rat :=
  if xs.isEmpty then none else some (sumL xs / xs.length)

/-- population variance (`ddof = 0`) -/
def varL (xs : List Rat) : Option Rat :=
  match meanL xs with
  | none => none
  | some m => meanL (xs.map fun x => (x - m) * (x - m))

/-! ## errors and argument checks shared by the bodies -/

def eMp (cls : String) (ref : LineRef) : Except Err α := .error (.mp cls ref)
def eRaw (exc : String) : Except Err α := .error (.raw exc)

/-- `SameArrayShapeMixin.validate_array_shapes(arrays, lineno)` -/
def validateShapes (ref : LineRef) (xs : List Arr) : Except Err Unit :=
  match xs with
  | [] => eMp "EmptyInputs" ref
  | [_] => .ok ()
  | a :: rest => if rest.all (fun b => b.shape == a.shape) then .ok () else eMp "MixedArrayShapes" ref

def promoteAll (xs : List Arr) : DType := xs.foldl (fun d a => d.promote a.dtype) .int

def numsAllInt (ws : List Num) : Bool := ws.all (·.isInt)

def sumNums (ws : List Num) : Rat := sumL (ws.map (·.val))

/-- Python `len(l) != len(set(l))` on numbers (1 and 1.0 are the same set element) -/
def hasDup : List Rat → Bool
  | [] => false
  | x :: xs => xs.contains x || hasDup xs

/-! ## the bodies -/

/-- `result = first; for arr in rest: result = result ∘ arr` -/
def foldArr (f : Cell → Cell → Cell) (dt : DType) (first : Arr) (rest : List Arr) : Arr :=
  rest.foldl (fun acc a => Arr.zip f dt acc a) { first with dtype := dt }

/-- `arrays[0] * w0`, then `result = result + arr * w` -/
def weightedAcc (ws : List Num) (xs : List Arr) (dt : DType) : Arr :=
  match xs, ws with
  | a :: as, w :: wr =>
      let first : Arr := { dtype := dt, shape := a.shape, cells := a.cells.map (Cell.sc (· * w.val)) }
      (List.zip wr as).foldl
        (fun acc (wa : Num × Arr) =>
          Arr.zip (Cell.bin (· + ·)) dt acc (wa.2.mapCells (Cell.sc (· * wa.1.val)))) first
  | _, _ => default

/-- linear map through two points, as written in `CvtToFuzzy`, `NormalizeZScore`, `CvtFromFuzzy`:
`result = arr - x1; result *= y2 - y1; result /= x2 - x1; result += y1` -/
def linMap (x1 x2 y1 y2 : Rat) (a : Arr) : Arr :=
  { dtype := .float, shape := a.shape,
    cells := a.cells.map fun c =>
      let c1 := Cell.sc (· - x1) c
      let c2 := Cell.sc (· * (y2 - y1)) c1
      let c3 := Cell.divSc (x2 - x1) c2
      Cell.sc (· + y1) c3 }

def numOr (o : Option Num) (d : Rat) : Rat := match o with | some n => n.val | none => d

/-- `NormalizeZScore.execute` with its keyword defaults made explicit -/
def zScoreBody (sqrt : Rat → Rat) (a : Arr) (tt ft start end_ : Rat) : Except Err Arr :=
  match meanL a.valid, varL a.valid with
  | some mean, some var =>
      .ok ((linMap (mean + sqrt var * tt) (mean + sqrt var * ft) end_ start a).insure start end_)
  | _, _ => .ok { dtype := .float, shape := a.shape, cells := a.cells.map fun _ => ⟨fillValue, true⟩ }

/-- `result = full(default); for raw, normal in pairs: result[arr.data == raw] = normal` (later pairs overwrite earlier ones) -/
def catLookup (pairs : List (Num × Num)) (dflt : Rat) (x : Rat) : Rat :=
  pairs.foldl (fun acc (p : Num × Num) => if x == p.1.val then p.2.val else acc) dflt

/-- `NormalizeCat.execute` (the comparison reads `.data`; the result takes the input's mask) -/
def catBody (a : Arr) (raw normal : List Num) (dflt : Num) : Except Err Arr :=
  if raw.length != normal.length then eMp "MixedArrayLengths" .cmd
  else if hasDup (raw.map (·.val)) then eMp "DuplicateRawValues" (.arg "RawValues")
  else .ok { dtype := .float, shape := a.shape,
             cells := a.cells.map fun c => ⟨catLookup (List.zip raw normal) dflt.val c.val, c.mask⟩ }

/-- insertion into a list sorted by (raw, normal) — Python's `sorted(zip(raw, normal))` -/
def insertPair (p : Rat × Rat) : List (Rat × Rat) → List (Rat × Rat)
  | [] => [p]
  | q :: qs => if p.1 < q.1 || (p.1 == q.1 && p.2 ≤ q.2) then p :: q :: qs else q :: insertPair p qs

def sortPairs (ps : List (Rat × Rat)) : List (Rat × Rat) := ps.foldr insertPair []

/-- value of the piecewise-linear curve through the sorted control points at `x` (as the segment loop computes it):
first assignment `x ≤ raw₀ → normal₀`; each segment `(prev_raw, raw]` overwrites; finally `x > raw_last → normal_last`. -/
def curveSegs (x : Rat) : (Rat × Rat) → List (Rat × Rat) → Rat → Rat
  | _, [], acc => acc
  | prev, p :: ps, acc =>
      let acc' :=
        if x > prev.1 && x ≤ p.1 then
          let m := (p.2 - prev.2) / (p.1 - prev.1)
          let b := prev.2 - m * prev.1
          x * m + b
        else acc
      curveSegs x p ps acc'

def curveAt (pts : List (Rat × Rat)) (x : Rat) : Rat :=
  match pts with
  | [] => 0
  | p0 :: rest =>
      let start := if x ≤ p0.1 then p0.2 else 0
      let mid := curveSegs x p0 rest start
      let last := (p0 :: rest).getLast!
      if x > last.1 then last.2 else mid

/-- common tail of `NormalizeCurve` / `NormalizeCurveZScore`: the result takes the input's mask -/
def curveArr (a : Arr) (pts : List (Rat × Rat)) : Arr :=
  { dtype := .float, shape := a.shape, cells := a.cells.map fun c => ⟨curveAt pts c.val, c.mask⟩ }

/-- `NormalizeCurve.execute`; `dupRef` is `self.argument_lines.get("RawValues")` (absent for the MeanToMid subclasses) -/
def curveBody (dupRef : LineRef) (a : Arr) (raw normal : List Rat) : Except Err Arr :=
  if raw.length != normal.length then eMp "MixedArrayLengths" .cmd
  else if hasDup raw then eMp "DuplicateRawValues" dupRef
  else if raw.isEmpty then eRaw "IndexError"
  else .ok (curveArr a (sortPairs (List.zip raw normal)))

/-- Python `del l[i]` for the two indices `NormalizeMeanToMid` uses -/
def delAt (l : List α) (i : Nat) : List α := l.eraseIdx i

/-- the statistics `NormalizeMeanToMid` takes from the valid cells: (min, max, mean, mean of the values ≤ mean, mean of the values > mean);
`none` for the last stands for numpy's `nan` (mean of an empty selection: no valid value above the mean) -/
def mtmStats (valid : List Rat) (ignoreZeros : Bool) : Except Err (Rat × Rat × Rat × Rat × Option Rat) :=
  match minL valid, maxL valid with
  | some low, some high =>
      let vs := if ignoreZeros then valid.filter (· != 0) else valid
      match meanL vs with
      | none => eRaw "Degenerate"           -- every valid value is an ignored zero (numpy `masked` arithmetic; not modelled)
      | some mean =>
          match meanL (vs.filter (· ≤ mean)) with
          | none => eRaw "Degenerate"       -- unreachable: the mean is never below every value
          | some lowMean => .ok (low, high, mean, lowMean, meanL (vs.filter (· > mean)))
  | _, _ => eRaw "Degenerate"               -- no valid cell at all (numpy `masked` arithmetic; not modelled)

/-- the control points `NormalizeMeanToMid` hands to the curve: raw values (the five statistics with coinciding ends removed) and normal values -/
def mtmPoints (valid : List Rat) (ignoreZeros : Bool) (normal : List Num) : Except Err (List Rat × List Rat) :=
  match mtmStats valid ignoreZeros with
  | .error e => .error e
  | .ok (low, high, mean, lowMean, highMean) =>
      let raw : List (Option Rat) := [some low, some lowMean, some mean, highMean, some high]
      let nv := normal.map (·.val)
      -- `if raw[-1] == raw[-2]: del raw[-2]; del normal[-2]`   (nan equals nothing)
      let delHi := highMean == some high
      if delHi && nv.length < 2 then eRaw "IndexError" else
      let raw := if delHi then delAt raw 3 else raw
      let nv := if delHi then delAt nv (nv.length - 2) else nv
      -- `if raw[0] == raw[1]: del raw[1]; del normal[1]`
      let delLo := low == lowMean
      if delLo && nv.length < 2 then eRaw "IndexError" else
      let raw := if delLo then delAt raw 1 else raw
      let nv := if delLo then delAt nv 1 else nv
      if raw.all Option.isSome then .ok (raw.filterMap id, nv)
      else if raw.length != nv.length then eMp "MixedArrayLengths" .cmd
      else if hasDup (raw.filterMap id) then eMp "DuplicateRawValues" .none
      else eRaw "Degenerate"        -- a nan control point without duplicates (unreachable: no value above the mean ⇒ low mean = mean)

/-- `NormalizeMeanToMid.execute`: the curve through the mean-to-mid control points -/
def meanToMidBody (a : Arr) (ignoreZeros : Bool) (normal : List Num) : Except Err Arr :=
  match mtmPoints a.valid ignoreZeros normal with
  | .error e => .error e
  | .ok (raw, nv) => curveBody .none a raw nv

/-- `NormalizeCurveZScore.execute` -/
def curveZBody (sqrt : Rat → Rat) (a : Arr) (z normal : List Num) : Except Err Arr :=
  if z.length != normal.length then eMp "MixedArrayLengths" .cmd
  else match meanL a.valid, varL a.valid with
    | some mean, some var =>
        if z.isEmpty then eRaw "IndexError"
        else .ok (curveArr a (sortPairs (List.zip (z.map fun v => mean + v.val * sqrt var) (normal.map (·.val)))))
    | _, _ => eRaw "Degenerate"

/-- the k-th column of a list of same-length cell lists -/
def column (xs : List Arr) (i : Nat) : List Cell := xs.map fun a => a.cells.getD i default

def sortRat (l : List Rat) : List Rat := l.mergeSort (fun a b => decide (a ≤ b))

/-- one cell of the stacked computation: the broadcast mask is the union of the input masks; `f` sees the column
sorted ascending (the `.data` of the inputs, all visible when the column is not masked) -/
def stackCell (xs : List Arr) (f : List Rat → Cell) (i : Nat) : Cell :=
  if (column xs i).any (·.mask) then ⟨fillValue, true⟩ else f (sortRat ((column xs i).map (·.val)))

/-- stacked, mask-broadcast, sorted along the stack axis -/
def stackMap (xs : List Arr) (f : List Rat → Cell) : Arr :=
  match xs with
  | [] => default
  | a :: _ => { dtype := .float, shape := a.shape, cells := (List.range a.cells.length).map (stackCell xs f) }

def xorCell (asc : List Rat) : Cell :=
  let n := asc.length
  let t1 := asc.getD (n - 1) 0
  let t2 := asc.getD (n - 2) 0
  if t1 ≤ -1 then ⟨-1, false⟩
  else ⟨t1 - (t1 - t2) * (t2 - (-1)) / (t1 - (-1)), false⟩

/-- mean of the `k` truest (largest) or falsest (smallest) values of an ascending column -/
def selCell (truest : Bool) (k : Nat) (asc : List Rat) : Cell :=
  let sel := if truest then asc.drop (asc.length - k) else asc.take k
  ⟨sumL sel / sel.length, false⟩

inductive DataCmd
  | copy | aMinusB | sum | weightedSum (w : List Num) | multiply | aDividedByB | minimum | maximum | mean
  | weightedMean (w : List Num)
  | normalize (start end_ : Option Num)
  | normalizeZScore (tt ft start end_ : Option Num)
  | normalizeCat (raw normal : List Num) (dflt : Num)
  | normalizeCurve (raw normal : List Num)
  | normalizeMeanToMid (ignoreZeros : Bool) (normal : List Num)
  | normalizeCurveZScore (z normal : List Num)
  | cvtToFuzzy (tt ft : Option Num) (dir : Option String)
  | cvtToFuzzyZScore (tt ft : Option Num)
  | cvtToFuzzyCat (raw fuzzy : List Num) (dflt : Num)
  | cvtToFuzzyCurve (raw fuzzy : List Num)
  | cvtToFuzzyMeanToMid (ignoreZeros : Bool) (fuzzy : List Num)
  | cvtToFuzzyCurveZScore (z fuzzy : List Num)
  | cvtToBinary (threshold : Num) (dir : String)
  | fuzzyUnion | fuzzyWeightedUnion (w : List Num)
  | fuzzySelectedUnion (sel : String) (k : Num)
  | fuzzyOr | fuzzyAnd | fuzzyXOr | fuzzyNot
  | cvtFromFuzzy (tt ft : Num)
  deriving Repr, DecidableEq, Inhabited

/-- the 14 commands declared `is_fuzzy = True` -/
def DataCmd.isFuzzyProducer : DataCmd → Bool
  | .cvtToFuzzy .. | .cvtToFuzzyZScore .. | .cvtToFuzzyCat .. | .cvtToFuzzyCurve .. | .cvtToFuzzyMeanToMid ..
  | .cvtToFuzzyCurveZScore .. | .cvtToBinary .. | .fuzzyUnion | .fuzzyWeightedUnion .. | .fuzzySelectedUnion ..
  | .fuzzyOr | .fuzzyAnd | .fuzzyXOr | .fuzzyNot => true
  | _ => false

def fuzzyClamp (r : Except Err Arr) : Except Err Arr := r.map (Arr.insure (-1) 1)

/-- `n`-ary fold commands: `Sum`, `Multiply`, `Minimum`, `Maximum`, and the reductions inside the fuzzy pair -/
def naryFold (ref : LineRef) (f : Rat → Rat → Rat) (xs : List Arr) : Except Err Arr := do
  validateShapes ref xs
  match xs with
  | [] => eMp "EmptyInputs" ref
  | a :: rest => .ok (foldArr (Cell.bin f) (promoteAll xs) a rest)

def ratMin (a b : Rat) : Rat := if b < a then b else a
def ratMax (a b : Rat) : Rat := if b > a then b else a

/-- `execute(**cleaned kwargs)` of each data command on the results of its inputs.
`xs` are the input arrays in argument order (`[A, B]`, `InFieldNames`, or `[InFieldName]`). -/
def exec (sqrt : Rat → Rat) : DataCmd → List Arr → Except Err Arr
  | .copy, [a] => .ok a
  | .aMinusB, [a, b] => do
      validateShapes .cmd [a, b]
      .ok (Arr.zip (Cell.bin (· - ·)) (a.dtype.promote b.dtype) a b)
  | .sum, xs => naryFold .cmd (· + ·) xs
  | .multiply, xs => naryFold .cmd (· * ·) xs
  | .minimum, xs => naryFold .cmd ratMin xs
  | .maximum, xs => naryFold .cmd ratMax xs
  | .weightedSum w, xs =>
      if w.length != xs.length then eMp "MismatchedWeights" .none
      else do
        validateShapes .cmd xs
        .ok (weightedAcc w xs (if numsAllInt w then promoteAll xs else .float))
  | .aDividedByB, [a, b] => do
      validateShapes .cmd [a, b]
      .ok (Arr.zip Cell.div .float a b)
  | .mean, xs => do
      validateShapes .cmd xs
      match xs with
      | [] => eMp "EmptyInputs" .cmd
      | a :: rest =>
          let s := foldArr (Cell.bin (· + ·)) .float a rest
          .ok (s.mapCells (Cell.divSc xs.length))
  | .weightedMean w, xs =>
      if w.length != xs.length then eMp "MismatchedWeights" .none
      else do
        validateShapes .cmd xs
        .ok ((weightedAcc w xs .float).mapCells (Cell.divSc (sumNums w)))
  | .normalize start end_, [a] =>
      let s := numOr start 0
      let e := numOr end_ 1
      match minL a.valid, maxL a.valid with
      | some mn, some mx =>
          .ok { dtype := .float, shape := a.shape,
                cells := a.cells.map fun c =>
                  let c1 := Cell.sc (· - mn) c
                  let c2 := Cell.sc (· * (e - s)) c1
                  let c3 := Cell.divSc (mx - mn) c2
                  Cell.sc (· + s) c3 }
      | _, _ => .ok { dtype := .float, shape := a.shape, cells := a.cells.map fun c => ⟨c.val, true⟩ }
  | .normalizeZScore tt ft start end_, [a] =>
      zScoreBody sqrt a (numOr tt 0) (numOr ft 1) (numOr start 0) (numOr end_ 1)
  | .normalizeCat raw normal dflt, [a] => catBody a raw normal dflt
  | .normalizeCurve raw normal, [a] => curveBody (.arg "RawValues") a (raw.map (·.val)) (normal.map (·.val))
  | .normalizeMeanToMid iz normal, [a] => meanToMidBody a iz normal
  | .normalizeCurveZScore z normal, [a] => curveZBody sqrt a z normal
  | .cvtToFuzzy tt ft dir, [a] =>
      match dir with
      | some d => if d != "" && d != "LowToHigh" && d != "HighToLow" then eMp "InvalidDirection" (.arg "Direction") else go a tt ft (d == "HighToLow")
      | none => go a tt ft false
  | .cvtToFuzzyZScore tt ft, [a] =>
      fuzzyClamp (zScoreBody sqrt a (numOr tt 1) (numOr ft (-1)) (-1) 1)
  | .cvtToFuzzyCat raw fz dflt, [a] => fuzzyClamp (catBody a raw fz dflt)
  | .cvtToFuzzyCurve raw fz, [a] => fuzzyClamp (curveBody (.arg "RawValues") a (raw.map (·.val)) (fz.map (·.val)))
  | .cvtToFuzzyMeanToMid iz fz, [a] => fuzzyClamp (meanToMidBody a iz fz)
  | .cvtToFuzzyCurveZScore z fz, [a] => fuzzyClamp (curveZBody sqrt a z fz)
  | .cvtToBinary th dir, [a] =>
      if dir != "LowToHigh" && dir != "HighToLow" then eMp "InvalidDirection" (.arg "Direction")
      else
        let lowV : Rat := if dir == "LowToHigh" then 0 else 1
        let highV : Rat := if dir == "LowToHigh" then 1 else 0
        fuzzyClamp (.ok { dtype := .float, shape := a.shape,
                          cells := a.cells.map fun c => ⟨if c.val < th.val then lowV else highV, c.mask⟩ })
  | .fuzzyUnion, xs => do
      validateShapes (.arg "InFieldNames") xs
      match xs with
      | [] => eMp "EmptyInputs" (.arg "InFieldNames")
      | a :: rest =>
          let s := foldArr (Cell.bin (· + ·)) .float a rest
          fuzzyClamp (.ok (s.mapCells (Cell.divSc xs.length)))
  | .fuzzyWeightedUnion w, xs =>
      if xs.length != w.length then eMp "MismatchedWeights" .none
      else do
        validateShapes (.arg "InFieldNames") xs
        fuzzyClamp (.ok ((weightedAcc w xs .float).mapCells (Cell.divSc (sumNums w))))
  | .fuzzySelectedUnion sel k, xs => do
      validateShapes (.arg "InFieldNames") xs
      if (xs.length : Rat) < k.val then eMp "InvalidNumberToConsider" (.arg "NumberToConsider")
      else if sel != "Truest" && sel != "Falsest" then eMp "InvalidTruestOrFalsest" (.arg "TruestOrFalsest")
      else if !k.isInt then eRaw "TypeError"            -- slicing with a float
      else if k.val < 1 then eRaw "NotAdmissible"       -- k ≤ 0: Python slice semantics `[-0:]`, `[:0]`; outside "admissible k", not modelled
      else
        fuzzyClamp (.ok (stackMap xs (selCell (sel == "Truest") k.val.num.toNat)))
  | .fuzzyOr, xs => fuzzyClamp (naryFold (.arg "InFieldNames") ratMax xs)
  | .fuzzyAnd, xs => fuzzyClamp (naryFold (.arg "InFieldNames") ratMin xs)
  | .fuzzyXOr, xs => do
      validateShapes (.arg "InFieldNames") xs
      if xs.length < 2 then eRaw "IndexError"
      else fuzzyClamp (.ok (stackMap xs xorCell))
  | .fuzzyNot, [a] => fuzzyClamp (.ok (a.mapCells (Cell.sc (fun x => -x))))
  | .cvtFromFuzzy tt ft, [a] =>
      if tt.val == ft.val then eMp "InvalidThresholds" .cmd
      else .ok (linMap 1 (-1) tt.val ft.val a)
  | _, _ => eRaw "Arity"
where
  /-- `CvtToFuzzy.execute` after the direction check -/
  go (a : Arr) (tt ft : Option Num) (highToLow : Bool) : Except Err Arr :=
    match minL a.valid, maxL a.valid with
    | some mn, some mx =>
        let f := numOr ft (if highToLow then mx else mn)
        let t := numOr tt (if highToLow then mn else mx)
        if t == f then eMp "InvalidThresholds" .cmd
        else fuzzyClamp (.ok (linMap t f 1 (-1) a))
    | _, _ =>
        match tt, ft with
        | some t, some f =>
            if t.val == f.val then eMp "InvalidThresholds" .cmd
            else fuzzyClamp (.ok (linMap t.val f.val 1 (-1) a))
        | _, _ => eRaw "Degenerate"

end MPilot
