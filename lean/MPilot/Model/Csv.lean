/-
Model/Csv — `mpilot/libraries/eems/csv/io.py`: reading one column of a CSV table and writing results as a table.

The `csv` module (excel dialect: comma, `"` quoting with doubling, minimal quoting on write) is *modelled* (`csvRows`, `csvField`),
not verified; the harness compares it with the real module on every run.  The file text is what Python's text-mode `open` delivers
(line endings already translated to `\n`).  Cell values are exact decimals (`pyFloat`), compared after rounding to doubles.
-/
import MPilot.Model.Params

namespace MPilot

/-! ### `csv.reader` (excel dialect, non-strict) over the text of the file -/

inductive CsvState | startRecord | startField | inField | inQuoted | quoteInQuoted
  deriving DecidableEq, Repr

/-- state, current field (reversed), fields of the current record (reversed), finished records (reversed) -/
structure CsvAcc where
  st : CsvState
  field : List Char
  fields : List String
  rows : List (List String)

def CsvAcc.saveField (a : CsvAcc) : CsvAcc := { a with field := [], fields := String.ofList a.field.reverse :: a.fields }
def CsvAcc.endRecord (a : CsvAcc) : CsvAcc := { a with st := .startRecord, field := [], fields := [], rows := a.fields.reverse :: a.rows }

def csvStep (a : CsvAcc) (c : Char) : CsvAcc :=
  match a.st with
  | .startRecord =>
      if c == '\n' then a.endRecord                                   -- an empty line is an empty record
      else if c == '"' then { a with st := .inQuoted }
      else if c == ',' then { a.saveField with st := .startField }
      else { a with st := .inField, field := c :: a.field }
  | .startField =>
      if c == '\n' then a.saveField.endRecord
      else if c == '"' then { a with st := .inQuoted }
      else if c == ',' then { a.saveField with st := .startField }
      else { a with st := .inField, field := c :: a.field }
  | .inField =>
      if c == '\n' then a.saveField.endRecord
      else if c == ',' then { a.saveField with st := .startField }
      else { a with field := c :: a.field }
  | .inQuoted =>
      if c == '"' then { a with st := .quoteInQuoted } else { a with field := c :: a.field }
  | .quoteInQuoted =>
      if c == '"' then { a with st := .inQuoted, field := '"' :: a.field }
      else if c == ',' then { a.saveField with st := .startField }
      else if c == '\n' then a.saveField.endRecord
      else { a with st := .inField, field := c :: a.field }

/-- all records of the text (a last record without line terminator included) -/
def csvRows (text : List Char) : List (List String) :=
  let a := text.foldl csvStep ⟨.startRecord, [], [], []⟩
  let a' := match a.st with
    | .startRecord => a
    | _ => a.saveField.endRecord
  a'.rows.reverse

/-! ### `csv.writer` (minimal quoting, `\n` terminator) -/

def needsQuote (s : String) : Bool := s.toList.any fun c => c == ',' || c == '"' || c == '\n' || c == '\r'

def csvField (s : String) : String :=
  if needsQuote s then "\"" ++ String.ofList (s.toList.flatMap fun c => if c == '"' then ['"', '"'] else [c]) ++ "\"" else s

def csvWriteRow (fields : List String) : String :=
  (match fields with
   | [""] => "\"\""                       -- a single empty field is written quoted
   | _ => ",".intercalate (fields.map csvField)) ++ "\n"

/-! ### `EEMSRead.execute` -/

/-- `int(x)` / `numpy` cast of a float to an integer type: truncation toward zero -/
def truncRat (q : Rat) : Int := if q ≥ 0 then q.floor else -((-q).floor)

inductive CsvErr
  | emptyDataFile
  | headerMissing
  | invalidValue (line : Nat)      -- `InvalidDataFile` "… on line {i + 2}"
  | raw (exc : String)             -- anything else (a row shorter than the column index, a NaN cast to integer): wrapped by `Command.run`
  | outside                        -- inf/nan cells: the properties quantify over finite numbers
  deriving DecidableEq, Repr

/-- values of the column, in row order, blank rows skipped; `i` counts the records after the header (blank ones included) -/
def columnValues (idx : Nat) : List (List String) → Nat → Except CsvErr (List Rat)
  | [], _ => .ok []
  | row :: rest, i =>
      if row.isEmpty then columnValues idx rest (i + 1)
      else
        match row[idx]? with
        | none => .error (.raw "IndexError")
        | some cell =>
          match pyFloat cell with
          | none => .error (.invalidValue (i + 2))
          | some (.special _) => .error .outside
          | some (.finite q) =>
            match columnValues idx rest (i + 1) with
            | .error e => .error e
            | .ok vs => .ok (q :: vs)

/-- `EEMSRead.execute(InFileName=…, InFieldName=field, MissingVal=missing?, DataType=integer?)` on the text of the file -/
def csvRead (text : List Char) (field : String) (missing : Option Rat) (integer : Bool) : Except CsvErr Arr :=
  match csvRows text with
  | [] => .error .emptyDataFile
  | header :: rows =>
    match header.idxOf? field with
    | none => .error .headerMissing
    | some idx =>
      match columnValues idx rows 0 with
      | .error e => .error e
      | .ok vs =>
        let conv : Rat → Rat := fun q => if integer then (truncRat q : Int) else q
        let cells := vs.map fun q =>
          ({ val := conv q, mask := match missing with | some m => conv q == conv m | none => false } : Cell)
        .ok { dtype := if integer then .int else .float, shape := [vs.length], cells := cells }

end MPilot

namespace MPilot

/-- `EEMSWrite.execute` of the CSV library: the header row of result names in the listed order, then one row per cell - row `i` holds cell `i`
of every result (`numpy.ma.array(arrays).transpose([1, 0])`).  `cols` are the results' cells as text (how a number is rendered is Python's business) -/
def csvTableRows (names : List String) (cols : List (List String)) : List (List String) :=
  names :: (List.range (cols.head?.map List.length |>.getD 0)).map fun i => cols.map fun c => c.getD i ""

def csvWriteTable (names : List String) (cols : List (List String)) : String :=
  String.ofList ((csvTableRows names cols).flatMap fun r => (csvWriteRow r).toList)

end MPilot
