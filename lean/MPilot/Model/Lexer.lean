/-
Model/Lexer — the PLY lexer of `mpilot/parser/parser.py` as a character-level scanner.

PLY builds one master regular expression; Python's `re` tries the alternatives in order and takes the *first* that matches
(not the longest): function rules in definition order (`ID, FLOAT, INT, STRING, newline`), then string rules by decreasing
pattern length (`PLAIN_STRING, FALSE, TRUE, COMMENT, [ ( ] ) : , =`).  `t_ignore = " \t"` is skipped before each token.
Lexing is lazy in PLY (an error surfaces when the parser asks for that token); here the token list ends with an error token.

Alphabet: Unicode code points; Python's `\d` is modelled as ASCII digits only (other Unicode decimal digits are outside the model).
-/
import MPilot.Model.Basic

namespace MPilot

inductive TokKind
  | id | float | int | string | plain | colon | comma | equal | lbrack | lparen | rbrack | rparen
  | errIllegal      -- `t_error`: SyntaxError "Illegal character"
  | errEscape       -- `t_STRING`: bad escape sequence → SyntaxError
  | errOutside      -- a value the model does not describe (float text form out of range, \N{…})
  deriving DecidableEq, Repr, Inhabited

/-- token values: `int`, `float` (exact decimal) or text -/
inductive TVal
  | int (n : Int)
  | float (q : Rat)
  | negZero                        -- the float `-0.0`, which prints as `-0.0` inside an unquoted string
  | str (s : String)
  | none
  deriving DecidableEq, Repr, Inhabited

structure Tok where
  kind : TokKind
  val : TVal
  line : Nat
  deriving DecidableEq, Repr, Inhabited

def isIdStart (c : Char) : Bool := c.isAlpha || c == '_'
def isIdCont (c : Char) : Bool := c.isAlphanum || c == '_'
def isDig (c : Char) : Bool := c.isDigit

/-- characters that end a `PLAIN_STRING`: `[^\#\:\,\=\(\)\[\]\"\'\r\n]+` -/
def isPlainStop (c : Char) : Bool :=
  c == '#' || c == ':' || c == ',' || c == '=' || c == '(' || c == ')' || c == '[' || c == ']' || c == '"' || c == '\'' || c == '\r' || c == '\n'

def spanDigits (cs : List Char) : List Char × List Char := cs.span isDig

def digitsVal (ds : List Char) : Nat := ds.foldl (fun n d => n * 10 + (d.toNat - '0'.toNat)) 0

/-- `[\-\+]?` -/
def optSign (cs : List Char) : Bool × List Char :=
  match cs with
  | '-' :: r => (true, r)
  | '+' :: r => (false, r)
  | r => (false, r)

/-- `(\d+\.\d*)|(\.\d+)` → (integer digits, fraction digits, rest) -/
def scanMantissa (r0 : List Char) : Option (List Char × List Char × List Char) :=
  let (ip, r1) := spanDigits r0
  if !ip.isEmpty then
    match r1 with
    | '.' :: r2 => let (fp, r3) := spanDigits r2; some (ip, fp, r3)
    | _ => none
  else
    match r1 with
    | '.' :: r2 =>
        let (fp, r3) := spanDigits r2
        if fp.isEmpty then none else some ([], fp, r3)
    | _ => none

/-- `([eE][\+\-]?\d+)?`, taken only if complete → (exponent, rest) -/
def scanExponent (r3 : List Char) : Int × List Char :=
  match r3 with
  | c :: r4 =>
      if c == 'e' || c == 'E' then
        let (eneg, r5) := optSign r4
        let (ed, r6) := spanDigits r5
        if ed.isEmpty then (0, r3) else ((if eneg then -(digitsVal ed : Int) else (digitsVal ed : Int)), r6)
      else (0, r3)
  | [] => (0, r3)

/-- `[\-\+]?((\d+\.\d*)|(\.\d+))([eE][\+\-]?\d+)?` → (exact value, rest); the value is `none` when the decimal exponent is beyond
anything a double can hold (the code gets `inf`/`0.0` from `float()`; the model does not describe those) -/
def scanFloat (cs : List Char) : Option (Option Rat × List Char) :=
  let (neg, r0) := optSign cs
  match scanMantissa r0 with
  | none => none
  | some (ip, fp, r3) =>
    let (e, rest) := scanExponent r3
    let m : Rat := (digitsVal (ip ++ fp) : Nat)
    let scale : Int := e - fp.length
    if scale.natAbs > 5000 then some (none, rest) else
    let q := if scale ≥ 0 then m * ((10 : Rat) ^ scale.toNat) else m / ((10 : Rat) ^ (-scale).toNat)
    some (some (if neg then -q else q), rest)

/-- `[\-\+]?\d+` -/
def scanInt (cs : List Char) : Option (Int × List Char) :=
  let (neg, r0) := optSign cs
  let (ds, r1) := spanDigits r0
  if ds.isEmpty then none else some ((if neg then -(digitsVal ds : Int) else (digitsVal ds : Int)), r1)

/-- body of `("(\\.|[^"\\])*")|('(\\.|[^'\\])*')` after the opening quote `q`: (content, rest after the closing quote) -/
def scanStringBody (q : Char) : List Char → List Char → Option (List Char × List Char)
  | [], _ => none
  | c :: r, acc =>
      if c == q then some (acc.reverse, r)
      else if c == '\\' then
        match r with
        | d :: r' => if d == '\n' then none else scanStringBody q r' (d :: '\\' :: acc)
        | [] => none
      else scanStringBody q r (c :: acc)

/-- line breaks in a piece of text, `\r\n` counting once: `count("\n") + count("\r") - count("\r\n")` -/
def countNewlines : List Char → Nat
  | [] => 0
  | '\r' :: '\n' :: r => 1 + countNewlines r
  | '\r' :: r => 1 + countNewlines r
  | '\n' :: r => 1 + countNewlines r
  | _ :: r => countNewlines r

/-! ### `text.encode("latin-1", "backslashreplace").decode("unicode_escape")` -/

def hexDig (n : Nat) : Char := if n < 10 then Char.ofNat (48 + n) else Char.ofNat (87 + n)

def hexN (width n : Nat) : List Char := (List.range width).reverse.map fun i => hexDig ((n / 16 ^ i) % 16)

/-- code points above 255 become `\uXXXX` / `\UXXXXXXXX` escapes (ASCII text) -/
def backslashReplace (cs : List Char) : List Char :=
  cs.flatMap fun c =>
    if c.toNat ≤ 255 then [c]
    else if c.toNat ≤ 0xFFFF then '\\' :: 'u' :: hexN 4 c.toNat
    else '\\' :: 'U' :: hexN 8 c.toNat

def hexValue? (c : Char) : Option Nat :=
  if '0' ≤ c ∧ c ≤ '9' then some (c.toNat - 48)
  else if 'a' ≤ c ∧ c ≤ 'f' then some (c.toNat - 87)
  else if 'A' ≤ c ∧ c ≤ 'F' then some (c.toNat - 55)
  else none

def hexRun (k : Nat) (cs : List Char) : Option (Nat × List Char) :=
  if cs.length < k then none else
  ((cs.take k).foldlM (fun n c => (hexValue? c).map (n * 16 + ·)) 0).map fun v => (v, cs.drop k)

def isOct (c : Char) : Bool := '0' ≤ c && c ≤ '7'

inductive Decoded | ok (cs : List Char) | bad | outside

/-- `unicode_escape` decoding -/
def decodeEscapes : Nat → List Char → List Char → Decoded
  | 0, _, _ => .bad
  | _ + 1, [], acc => .ok acc.reverse
  | fuel + 1, '\\' :: r, acc =>
      match r with
      | [] => .bad                                      -- a trailing backslash
      | '\n' :: r' => decodeEscapes fuel r' acc          -- backslash-newline is dropped
      | '\\' :: r' => decodeEscapes fuel r' ('\\' :: acc)
      | '\'' :: r' => decodeEscapes fuel r' ('\'' :: acc)
      | '"' :: r' => decodeEscapes fuel r' ('"' :: acc)
      | 'a' :: r' => decodeEscapes fuel r' (Char.ofNat 7 :: acc)
      | 'b' :: r' => decodeEscapes fuel r' (Char.ofNat 8 :: acc)
      | 'f' :: r' => decodeEscapes fuel r' (Char.ofNat 12 :: acc)
      | 'n' :: r' => decodeEscapes fuel r' ('\n' :: acc)
      | 'r' :: r' => decodeEscapes fuel r' ('\r' :: acc)
      | 't' :: r' => decodeEscapes fuel r' ('\t' :: acc)
      | 'v' :: r' => decodeEscapes fuel r' (Char.ofNat 11 :: acc)
      | 'x' :: r' => (match hexRun 2 r' with
          | some (v, r'') => decodeEscapes fuel r'' (Char.ofNat v :: acc)
          | none => .bad)
      | 'u' :: r' => (match hexRun 4 r' with
          | some (v, r'') => if 0xD800 ≤ v ∧ v ≤ 0xDFFF then .outside else decodeEscapes fuel r'' (Char.ofNat v :: acc)
          | none => .bad)
      | 'U' :: r' => (match hexRun 8 r' with
          | some (v, r'') => if v > 0x10FFFF then .bad else if 0xD800 ≤ v ∧ v ≤ 0xDFFF then .outside else decodeEscapes fuel r'' (Char.ofNat v :: acc)
          | none => .bad)
      | 'N' :: _ => .outside                             -- named characters need the Unicode database
      | c :: r' =>
          if isOct c then
            let ds := (c :: r').takeWhile isOct |>.take 3
            let v := ds.foldl (fun n d => n * 8 + (d.toNat - 48)) 0
            decodeEscapes fuel ((c :: r').drop ds.length) (Char.ofNat v :: acc)
          else decodeEscapes fuel r' (c :: '\\' :: acc)   -- unknown escape: kept as written
  | fuel + 1, c :: r, acc => decodeEscapes fuel r (c :: acc)

def stringValue (content : List Char) : Decoded :=
  let enc := backslashReplace content
  decodeEscapes (enc.length + 1) enc []

/-- one scanning step at a position that is not blank: the token (if the rule yields one), the rest, and the line afterwards -/
inductive Scan
  | tok (t : Tok) (rest : List Char) (line : Nat)
  | skip (rest : List Char) (line : Nat)
  | stop (t : Tok)                                       -- lexer error: nothing after it is scanned

def punct? (c : Char) : Option TokKind :=
  if c == '[' then some .lbrack else if c == '(' then some .lparen else if c == ']' then some .rbrack
  else if c == ')' then some .rparen else if c == ':' then some .colon else if c == ',' then some .comma
  else if c == '=' then some .equal else none

def scanOne (cs : List Char) (line : Nat) : Scan :=
  match cs with
  | [] => .skip [] line
  | c :: r =>
    if isIdStart c then
      let (w, rest) := r.span isIdCont
      .tok ⟨.id, .str (String.ofList (c :: w)), line⟩ rest line
    else match scanFloat cs with
    | some (none, _) => .stop ⟨.errOutside, .none, line⟩
    | some (some q, rest) => .tok ⟨.float, if q == 0 && c == '-' then .negZero else .float q, line⟩ rest line
    | none =>
    match scanInt cs with
    | some (n, rest) => .tok ⟨.int, .int n, line⟩ rest line
    | none =>
    match (if c == '"' || c == '\'' then scanStringBody c r [] else none) with
    | some (content, rest) =>
        let line' := line + countNewlines content
        (match stringValue content with
         | .ok v => .tok ⟨.string, .str (String.ofList v), line⟩ rest line'
         | .bad => .stop ⟨.errEscape, .none, line⟩
         | .outside => .stop ⟨.errOutside, .none, line⟩)
    | none =>
    if c == '\r' || c == '\n' then
      let (nl, rest) := cs.span (fun d => d == '\r' || d == '\n')
      .skip rest (line + countNewlines nl)
    else if !isPlainStop c then
      let (w, rest) := cs.span (fun d => !isPlainStop d)
      -- `t.value.rstrip(" \t")`: trailing blanks are layout
      let w' := (w.reverse.dropWhile (fun d => d == ' ' || d == '\t')).reverse
      .tok ⟨.plain, .str (String.ofList w'), line⟩ rest line
    else if c == '#' then
      .skip (cs.dropWhile (· != '\n')) line
    else match punct? c with
      | some k => .tok ⟨k, .none, line⟩ r line
      | none => .stop ⟨.errIllegal, .none, line⟩

/-- the whole token stream (fuel = number of characters + 1: every step consumes at least one character) -/
def lexAll : Nat → List Char → Nat → List Tok
  | 0, _, _ => []
  | _ + 1, [], _ => []
  | fuel + 1, c :: r, line =>
      if c == ' ' || c == '\t' then lexAll fuel r line
      else match scanOne (c :: r) line with
        | .tok t rest line' => t :: lexAll fuel rest line'
        | .skip rest line' => lexAll fuel rest line'
        | .stop t => [t]

def lex (src : String) : List Tok := lexAll (src.length + 1) src.toList 1

end MPilot
