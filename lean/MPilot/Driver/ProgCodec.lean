/-
Driver/ProgCodec — prefix-token encoding of parameter specs, raw values, declarations, programs (harness ⇄ model).
Not part of the verified model.
-/
import MPilot.Driver.Codec
import MPilot.Model.Program

namespace MPilot.Codec
open MPilot

abbrev P (α : Type) := List String → Option (α × List String)

def pTok : P String
  | [] => none
  | t :: r => some (t, r)

def pNat : P Nat := fun ts => do let (t, r) ← pTok ts; let n ← t.toNat?; pure (n, r)
def pBool : P Bool := fun ts => do let (t, r) ← pTok ts; if t == "1" then pure (true, r) else if t == "0" then pure (false, r) else none
def pHex : P String := fun ts => do let (t, r) ← pTok ts; let s ← unhex t; pure (s, r)
def pOptNat : P (Option Nat) := fun ts => do
  let (t, r) ← pTok ts
  if t == "-" then pure (none, r) else do let n ← t.toNat?; pure (some n, r)
def pOptHex : P (Option String) := fun ts => do
  let (t, r) ← pTok ts
  if t == "~" then pure (none, r) else do let s ← unhex t; pure (some s, r)

partial def pMany (p : P α) : Nat → P (List α)
  | 0, ts => some ([], ts)
  | n + 1, ts => do
      let (x, r) ← p ts
      let (xs, r') ← pMany p n r
      pure (x :: xs, r')

partial def pSpec : P PSpec := fun ts => do
  let (t, r) ← pTok ts
  match t with
  | "any" => pure (.any, r)
  | "str" => pure (.str, r)
  | "num" => pure (.num, r)
  | "bool" => pure (.bool, r)
  | "tuple" => pure (.tuple, r)
  | "data" => pure (.data, r)
  | "path" => do let (b, r) ← pBool r; pure (.path b, r)
  | "list" => do let (s, r) ← pSpec r; pure (.list s, r)
  | "result" => do
      let (ot, r) ← pOptSpec r
      let (t2, r) ← pTok r
      let fz := if t2 == "1" then some true else if t2 == "0" then some false else none
      pure (.result (ot.map PSpec.cls) fz, r)
  | "dtype" => do
      let (n, r) ← pNat r
      let (kv, r) ← pMany (fun ts => do let (k, r) ← pHex ts; let (v, r) ← pHex r; pure ((k, v), r)) n r
      pure (.dtype kv, r)
  | _ => none
where
  pOptSpec : P (Option PSpec) := fun ts =>
    match ts with
    | "-" :: r => some (none, r)
    | _ => (pSpec ts).map fun (s, r) => (some s, r)

def pOptSpec' : P (Option PClass) := fun ts =>
  match ts with
  | "-" :: r => some (none, r)
  | _ => (pSpec ts).map fun (s, r) => (some s.cls, r)

partial def pRaw : P Raw := fun ts => do
  let (t, r) ← pTok ts
  match t with
  | "i" => do let (v, r) ← pTok r; let n ← v.toInt?; pure (.int n, r)
  | "f" => do let (v, r) ← pTok r; let q ← parseRat v; pure (.float q, r)
  | "b" => do let (b, r) ← pBool r; pure (.bool b, r)
  | "s" => do let (s, r) ← pHex r; pure (.str s, r)
  | "c" => do let (s, r) ← pHex r; pure (.cmd s, r)
  | "t" => do let (s, r) ← pHex r; pure (.pytype s, r)
  | "n" => pure (.none, r)
  | "l" => do let (n, r) ← pNat r; let (xs, r) ← pMany pRaw n r; pure (.list xs, r)
  | "d" => do
      let (n, r) ← pNat r
      let (kv, r) ← pMany (fun ts => do let (k, r) ← pHex ts; let (v, r) ← pRaw r; pure ((k, v), r)) n r
      pure (.dict kv, r)
  | _ => none

partial def showRaw : Raw → String
  | .int n => s!"i:{n}"
  | .float q => s!"f:{showRat q}"
  | .bool b => if b then "b:1" else "b:0"
  | .str s => "s:" ++ hex s
  | .cmd s => "c:" ++ hex s
  | .pytype s => "t:" ++ hex s
  | .none => "n"
  | .list xs => "l[" ++ ",".intercalate (xs.map showRaw) ++ "]"
  | .dict kv => "d{" ++ ",".intercalate (kv.map fun (k, v) => hex k ++ "=" ++ showRaw v) ++ "}"

partial def showClean : Clean → String
  | .int n => s!"i:{n}"
  | .float q => s!"f:{showRat q}"
  | .bool b => if b then "b:1" else "b:0"
  | .str s => "s:" ++ hex s
  | .cmd s => "c:" ++ hex s
  | .pytype s => "t:" ++ hex s
  | .list xs => "l[" ++ ",".intercalate (xs.map showClean) ++ "]"
  | .dict kv =>
      let sorted := kv.toArray.qsort (fun a b => a.1 < b.1) |>.toList
      "d{" ++ ",".intercalate (sorted.map fun (k, v) => hex k ++ "=" ++ hex v) ++ "}"
  | .raw r => "r:" ++ showRaw r

def pInput : P InputDecl := fun ts => do
  let (n, r) ← pHex ts
  let (req, r) ← pBool r
  let (s, r) ← pSpec r
  pure (⟨n, s, req⟩, r)

def pDecl : P CmdDecl := fun ts => do
  let (name, r) ← pHex ts
  let (mod, r) ← pHex r
  let (fz, r) ← pBool r
  let (ex, r) ← pBool r
  let (out, r) ← pOptSpec' r
  let (n, r) ← pNat r
  let (ins, r) ← pMany pInput n r
  pure (⟨name, mod, ins, out, fz, ex⟩, r)

def pArg : P Arg := fun ts => do
  let (n, r) ← pHex ts
  let (l, r) ← pOptNat r
  let (v, r) ← pRaw r
  pure (⟨n, v, l⟩, r)

def pNode : P Node := fun ts => do
  let (rn, r) ← pHex ts
  let (cn, r) ← pHex r
  let (l, r) ← pOptNat r
  let (n, r) ← pNat r
  let (args, r) ← pMany pArg n r
  pure (⟨rn, cn, args, l⟩, r)

def showOptNat : Option Nat → String
  | none => "-"
  | some n => toString n

def showPErr : PErr → String
  | .mp cls l => s!"mp:{cls}:{showOptNat l}"
  | .unexpected e l => s!"unexpected:{e}:{showOptNat l}"
  | .raw e => s!"raw:{e}"
  | .syntax => "syntax"

def showEv : Ev → String
  | .start c => "+" ++ hex c
  | .finish c => "-" ++ hex c

end MPilot.Codec
