/-
Driver/Codec — text encoding of model values for the line protocol (harness ⇄ model).
Not part of the verified model: a decoding mistake shows up as a correspondence disagreement.
-/
import MPilot.Model.Eems

namespace MPilot.Codec
open MPilot

def parseRat (s : String) : Option Rat :=
  match s.splitOn "/" with
  | [p] => p.toInt?.map fun n => (n : Rat)
  | [p, q] => do
      let n ← p.toInt?
      let d ← q.toNat?
      if d == 0 then none else some (mkRat n d)
  | _ => none

def showRat (r : Rat) : String :=
  if r.den == 1 then toString r.num else s!"{r.num}/{r.den}"

/-- `p/q:i` or `p/q:f` -/
def parseNum (s : String) : Option Num :=
  match s.splitOn ":" with
  | [v, "i"] => (parseRat v).map fun r => ⟨r, true⟩
  | [v, "f"] => (parseRat v).map fun r => ⟨r, false⟩
  | _ => none

def parseList (f : String → Option α) (s : String) : Option (List α) :=
  if s == "" then some [] else (s.splitOn ",").mapM f

def parseCell (s : String) : Option Cell :=
  match s.splitOn ":" with
  | [v, "0"] => (parseRat v).map fun r => ⟨r, false⟩
  | [v, "1"] => (parseRat v).map fun r => ⟨r, true⟩
  | _ => none

/-- `i|2x3|v:m,v:m,…` -/
def parseArr (s : String) : Option Arr :=
  match s.splitOn "|" with
  | [dt, sh, cs] => do
      let dtype ← (if dt == "i" then some DType.int else if dt == "f" then some DType.float else none)
      let shape ← parseList String.toNat? (sh.replace "x" ",")
      let cells ← parseList parseCell cs
      some ⟨dtype, shape, cells⟩
  | _ => none

def showCell (c : Cell) : String := if c.mask then "_" else showRat c.val

/-- visible form only: hidden payloads are never printed -/
def showArr (a : Arr) : String :=
  let dt := match a.dtype with | .int => "i" | .float => "f"
  dt ++ "|" ++ "x".intercalate (a.shape.map toString) ++ "|" ++ ",".intercalate (a.cells.map showCell)

def showRef : LineRef → String
  | .none => "none"
  | .cmd => "cmd"
  | .arg n => "arg:" ++ n

def showErr : Err → String
  | .mp cls ref => s!"mp {cls} {showRef ref}"
  | .unexpected e => s!"unexpected {e}"
  | .raw e => s!"raw {e}"
  | .syntax => "syntax"

def hexVal (c : Char) : Option Nat :=
  if '0' ≤ c ∧ c ≤ '9' then some (c.toNat - '0'.toNat)
  else if 'a' ≤ c ∧ c ≤ 'f' then some (c.toNat - 'a'.toNat + 10)
  else none

/-- strings travel as space-free hex of their code points, 6 hex digits each (`-` = empty string) -/
def unhex (s : String) : Option String :=
  if s == "-" then some "" else
  let rec go : List Char → List Char → Option (List Char)
    | [], acc => some acc.reverse
    | a :: b :: c :: d :: e :: f :: rest, acc => do
        let v ← [a, b, c, d, e, f].foldlM (fun n ch => (hexVal ch).map (n * 16 + ·)) 0
        go rest (Char.ofNat v :: acc)
    | _, _ => none
  (go s.toList []).map String.ofList

def hexDigit (n : Nat) : Char := if n < 10 then Char.ofNat (48 + n) else Char.ofNat (87 + n)

def hex (s : String) : String :=
  if s.isEmpty then "-" else
  String.ofList (s.toList.flatMap fun c =>
    let n := c.toNat
    [5, 4, 3, 2, 1, 0].map fun i => hexDigit ((n / 16 ^ i) % 16))

/-- `Name|k=v|k=v` -/
def parseKV (s : String) : String × List (String × String) :=
  match s.splitOn "|" with
  | [] => ("", [])
  | name :: kvs => (name, kvs.filterMap fun kv =>
      match kv.splitOn "=" with
      | [k, v] => some (k, v)
      | _ => none)

def kvGet (kvs : List (String × String)) (k : String) : Option String := (kvs.find? (·.1 == k)).map (·.2)

def kvNum (kvs : List (String × String)) (k : String) : Option Num := (kvGet kvs k).bind parseNum
def kvNums (kvs : List (String × String)) (k : String) : Option (List Num) := (kvGet kvs k).bind (parseList parseNum)
def kvStr (kvs : List (String × String)) (k : String) : Option String := (kvGet kvs k).bind unhex

def parseDataCmd (s : String) : Option DataCmd :=
  let (name, kv) := parseKV s
  match name with
  | "Copy" => some .copy
  | "AMinusB" => some .aMinusB
  | "Sum" => some .sum
  | "WeightedSum" => (kvNums kv "w").map .weightedSum
  | "Multiply" => some .multiply
  | "ADividedByB" => some .aDividedByB
  | "Minimum" => some .minimum
  | "Maximum" => some .maximum
  | "Mean" => some .mean
  | "WeightedMean" => (kvNums kv "w").map .weightedMean
  | "Normalize" => some (.normalize (kvNum kv "start") (kvNum kv "end"))
  | "NormalizeZScore" => some (.normalizeZScore (kvNum kv "t") (kvNum kv "f") (kvNum kv "start") (kvNum kv "end"))
  | "NormalizeCat" => do some (.normalizeCat (← kvNums kv "raw") (← kvNums kv "val") (← kvNum kv "default"))
  | "NormalizeCurve" => do some (.normalizeCurve (← kvNums kv "raw") (← kvNums kv "val"))
  | "NormalizeMeanToMid" => do some (.normalizeMeanToMid ((← kvGet kv "iz") == "1") (← kvNums kv "val"))
  | "NormalizeCurveZScore" => do some (.normalizeCurveZScore (← kvNums kv "z") (← kvNums kv "val"))
  | "CvtToFuzzy" => some (.cvtToFuzzy (kvNum kv "t") (kvNum kv "f") (kvStr kv "dir"))
  | "CvtToFuzzyZScore" => some (.cvtToFuzzyZScore (kvNum kv "t") (kvNum kv "f"))
  | "CvtToFuzzyCat" => do some (.cvtToFuzzyCat (← kvNums kv "raw") (← kvNums kv "val") (← kvNum kv "default"))
  | "CvtToFuzzyCurve" => do some (.cvtToFuzzyCurve (← kvNums kv "raw") (← kvNums kv "val"))
  | "CvtToFuzzyMeanToMid" => do some (.cvtToFuzzyMeanToMid ((← kvGet kv "iz") == "1") (← kvNums kv "val"))
  | "CvtToFuzzyCurveZScore" => do some (.cvtToFuzzyCurveZScore (← kvNums kv "z") (← kvNums kv "val"))
  | "CvtToBinary" => do some (.cvtToBinary (← kvNum kv "th") (← kvStr kv "dir"))
  | "FuzzyUnion" => some .fuzzyUnion
  | "FuzzyWeightedUnion" => (kvNums kv "w").map .fuzzyWeightedUnion
  | "FuzzySelectedUnion" => do some (.fuzzySelectedUnion (← kvStr kv "sel") (← kvNum kv "k"))
  | "FuzzyOr" => some .fuzzyOr
  | "FuzzyAnd" => some .fuzzyAnd
  | "FuzzyXOr" => some .fuzzyXOr
  | "FuzzyNot" => some .fuzzyNot
  | "CvtFromFuzzy" => do some (.cvtFromFuzzy (← kvNum kv "t") (← kvNum kv "f"))
  | _ => none

/-- square root to 20 decimal places (the driver's instance of the model's `sqrt` parameter) -/
def sqrtApprox (x : Rat) : Rat :=
  if x ≤ 0 then 0 else
  let scale : Nat := 10 ^ 40
  let n := (x * scale).floor.toNat
  mkRat (Nat.sqrt n) (10 ^ 20)

end MPilot.Codec
