/-
Line-protocol driver: one request per line on stdin, one answer per line on stdout.
Imports the executable model only (no Mathlib).
-/
import MPilot.Driver.Codec
import MPilot.Model.EemsHeap

open MPilot MPilot.Codec

def handleExec (toks : List String) : String :=
  match toks with
  | spec :: arrs =>
      match parseDataCmd spec, arrs.mapM parseArr with
      | some c, some xs =>
          match exec sqrtApprox c xs with
          | .ok r => "ok " ++ showArr r
          | .error e => "err " ++ showErr e
      | none, _ => "bad-cmd"
      | _, none => "bad-arr"
  | [] => "bad-op"

/-- `alias <cmdspec> <n>`: does the command return its first input object when given `n` inputs? -/
def handleAlias (toks : List String) : String :=
  match toks with
  | [spec, n] =>
      match parseDataCmd spec, n.toNat? with
      | some c, some k => if aliases c k then "1" else "0"
      | _, _ => "bad-cmd"
  | _ => "bad-op"

def handle (line : String) : String :=
  match (line.trimAscii.toString.splitOn " ").filter (· != "") with
  | "exec" :: rest => handleExec rest
  | "alias" :: rest => handleAlias rest
  | "ping" :: _ => "pong"
  | _ => "bad-op"

partial def loop (h : IO.FS.Stream) (out : IO.FS.Stream) : IO Unit := do
  let line ← h.getLine
  if line.isEmpty then return ()
  out.putStrLn (handle line)
  loop h out

def main : IO Unit := do
  let out ← IO.getStdout
  loop (← IO.getStdin) out
  out.flush
