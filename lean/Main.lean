/-
Line-protocol driver: one request per line on stdin, one answer per line on stdout.
Imports the executable model only (no Mathlib).
-/
import MPilot.Driver.Codec
import MPilot.Model.EemsHeap
import MPilot.Driver.ProgCodec
import MPilot.Model.Grammar
import MPilot.Model.Serialize
import MPilot.Model.Eems2
import MPilot.Model.Registry
import MPilot.Model.Csv
import MPilot.Model.NetCdf
import MPilot.Model.Cli

open MPilot MPilot.Codec

def handleExec (toks : List String) : String :=
  match toks with
  | spec :: arrs =>
      match parseDataCmd spec, arrs.mapM parseArr with
      | some c, some xs =>
          match exec sqrtApprox c xs with
          | .ok r => "ok " ++ showArr r
          | .error e => "err " ++ showErr e
      | none, _ => "bad-cmd"
      | _, none => "bad-arr"
  | [] => "bad-op"

/-- `alias <cmdspec> <n>`: does the command return its first input object when given `n` inputs? -/
def handleAlias (toks : List String) : String :=
  match toks with
  | [spec, n] =>
      match parseDataCmd spec, n.toNat? with
      | some c, some k => if aliases c k then "1" else "0"
      | _, _ => "bad-cmd"
  | _ => "bad-op"

/-- context part shared by `clean` and `prog`: working dir, existing paths -/
def pEnv : P (Option String × List String) := fun ts => do
  let (wd, r) ← pOptHex ts
  let (n, r) ← pNat r
  let (paths, r) ← pMany pHex n r
  pure ((wd, paths), r)

/-- `clean <env> <ncmds> (<name> <fuzzy> <finished> <isarray> <output|->)* <spec> <raw>` -/
def handleClean (toks : List String) : String :=
  let res : Option String := do
    let ((wd, paths), r) ← pEnv toks
    let (n, r) ← pNat r
    let (infos, r) ← pMany (fun ts => do
      let (nm, r) ← pHex ts
      let (fz, r) ← pBool r
      let (fin, r) ← pBool r
      let (k, r) ← pTok r
      let kind : ResKind := if k == "a" then .array else if k == "b" then .bool else .other
      let (out, r) ← pOptSpec' r
      pure ((nm, ({ isFuzzy := fz, output := out, finished := fin, resultKind := kind } : CmdInfo)), r)) n r
    let (spec, r) ← pSpec r
    let (raw, _) ← pRaw r
    let ctx : Ctx := { workingDir := wd, lookup := fun k => (infos.find? (·.1 == k)).map (·.2),
                       isCommand := fun k => (infos.any (·.1 == k)), exists_ := fun q => paths.contains q }
    match clean ctx spec raw with
    | .ok c =>
        -- idempotence probe: clean the cleaned value again
        let again := match clean ctx spec c.embed with
          | .ok c2 => "ok " ++ showClean c2
          | .error e => "err " ++ e
        pure ("ok " ++ showClean c ++ " | " ++ again)
    | .error e => pure ("err " ++ e)
  res.getD "bad-clean"

/-- refs named by a raw value (names or Command objects, nested lists flattened) -/
partial def rawRefs : Raw → List String
  | .str s => [s]
  | .cmd s => [s]
  | .list xs => xs.flatMap rawRefs
  | _ => []

partial def specHasResult : PSpec → Bool
  | .result _ _ => true
  | .list s => specHasResult s
  | _ => false

def tokBody (c : PCmd) (vals : List String) : Except PErr String :=
  let body := c.resultName ++ "(" ++ ",".intercalate vals ++ ")"
  .ok (if c.decl.output == some PClass.data then "arr:" ++ body
       else if c.decl.name == "W" then "true:" ++ body else body)

/-- the driver's instance of `Sem`: reads = result-typed inputs in declared order; value = a token recording what was read -/
def tokSem (flag : Bool := true) : Sem String :=
  { pulls := fun c => c.decl.inputs.flatMap fun i =>
      if specHasResult i.spec then
        match (dedupArgs c.args).find? (·.name == i.name) with
        | some a => rawRefs a.value
        | none => []
      else []
    compute := fun c vals =>
      match (dedupArgs c.args).find? (·.name == "Fail") with
      | some ⟨_, .str "mp", _⟩ => .error (.mp "ProgramError" c.line)
      | some ⟨_, .str "value", _⟩ => .error (.raw "ValueError")
      | some ⟨_, .str "flag", _⟩ => if flag then .error (.mp "ProgramError" c.line) else tokBody c vals
      | some ⟨_, .str "flagvalue", _⟩ => if flag then .error (.raw "ValueError") else tokBody c vals
      | _ => tokBody c vals
    kind := fun v => if v.startsWith "arr:" then .array else if v.startsWith "true:" then .bool else .other }

inductive Op | run | result (n : String) | flag (b : Bool) | add (n : Node) | copy | del (n : String)

/-- a history of `run()` / `.result` accesses and `add_command` calls; `flag` switches the environment condition under which
`Fail = flag` bodies fail -/
def runOps (lib : String → Option CmdDecl) (p : Program) (ops : List Op) : St String × List String :=
  let (_, st, _, outs) := ops.foldl (fun (acc : Program × St String × Bool × List String) op =>
    let (p, st, fl, outs) := acc
    match op with
    | .run =>
        let (st', e) := run (tokSem fl) p st
        (p, st', fl, outs ++ [match e with | some e => showPErr e | none => "ok"])
    | .result n =>
        let (st', e) := runCmd (tokSem fl) p (p.cmds.length + 1) st n
        (p, st', fl, outs ++ [match e with | some e => showPErr e | none => "ok"])
    | .flag b => (p, st, b, outs ++ ["ok"])
    | .copy => (p, st, fl, outs ++ ["ok"])      -- `copy.deepcopy(program)`: programs are values; the copy is the program, with what has finished
    | .del n =>     -- `del program.commands[name]`: the command leaves the program, and with it what it had computed
        ({ p with cmds := p.cmds.filter (·.resultName != n) }, { st with memo := st.memo.filter (·.1 != n) }, fl, outs ++ ["ok"])
    | .add n =>
        match fromNodes lib p [n] with
        | .error e => (p, st, fl, outs ++ [showPErr e])
        | .ok p' => (p', st, fl, outs ++ ["ok"])) (p, ({ memo := [], log := [] } : St String), true, [])
  (st, outs)

def pOp : P Op := fun ts => do
  let (t, r) ← pTok ts
  if t == "run" then pure (.run, r)
  else if t == "result" then do let (n, r) ← pHex r; pure (.result n, r)
  else if t == "flag0" then pure (.flag false, r)
  else if t == "flag1" then pure (.flag true, r)
  else if t == "add" then do let (n, r) ← pNode r; pure (.add n, r)
  else if t == "copy" then pure (.copy, r)
  else if t == "del" then do let (n, r) ← pHex r; pure (.del n, r)
  else none

/-- `prog <env> <ndecls> decl* <nnodes> node* <nops> op*` -/
def handleProg (toks : List String) : String :=
  let res : Option String := do
    let ((wd, paths), r) ← pEnv toks
    let (nd, r) ← pNat r
    let (decls, r) ← pMany pDecl nd r
    let (nn, r) ← pNat r
    let (nodes, r) ← pMany pNode nn r
    let (no, r) ← pNat r
    let (ops, _) ← pMany pOp no r
    let lib := fun (k : String) => decls.find? (·.name == k)
    let p0 : Program := { cmds := [], workingDir := wd, exists_ := fun q => paths.contains q }
    match fromNodes lib p0 nodes with
    | .error e => pure ("load " ++ showPErr e)
    | .ok p =>
      let (st, outs) := runOps lib p ops
      pure ("load ok ; " ++ " ".intercalate outs ++ " ; " ++ " ".intercalate (st.log.map showEv) ++ " ; " ++
            " ".intercalate (st.memo.map fun (k, v) => hex k ++ "=" ++ hex v))
  res.getD "bad-prog"

mutual
  partial def showEVal : EVal → String
    | .int n => s!"i:{n}"
    | .float q => s!"f:{showRat q}"
    | .str s => "s:" ++ hex s
    | .list xs => "l[" ++ ",".intercalate (xs.map showENode) ++ "]"
    | .dict kv => "d{" ++ ",".intercalate (kv.map fun (k, v) => hex k ++ "=" ++ showENode v) ++ "}"
  partial def showENode : ENode → String
    | .mk v l => s!"e({l},{showEVal v})"
end

def showCNode (c : CNode) : String :=
  let rn := match c.resultName with | some r => hex r | none => "~"
  s!"cmd({rn},{hex c.command},{c.line},[" ++ ",".intercalate (c.args.map fun a => s!"arg({hex a.name},{a.line},{showENode a.value})") ++ "])"

/-- `parse <hex source>` -/
def handleParse (toks : List String) : String :=
  match toks with
  | [h] =>
      match unhex h with
      | none => "bad-parse"
      | some src =>
        match parse src with
        | .ok p => s!"ok v{p.version} " ++ " ".intercalate (p.commands.map showCNode)
        | .error .syntax => "syntax"
        | .error .outside => "outside"
  | _ => "bad-parse"

/-- `ser <env> <ndecls> decl* <nnodes> node*`: load the commands (API order) and print `Program.to_string()` -/
def handleSer (toks : List String) : String :=
  let res : Option String := do
    let ((wd, paths), r) ← pEnv toks
    let (nd, r) ← pNat r
    let (decls, r) ← pMany pDecl nd r
    let (nn, r) ← pNat r
    let (nodes, _) ← pMany pNode nn r
    let lib := fun (k : String) => decls.find? (·.name == k)
    let p0 : Program := { cmds := [], workingDir := wd, exists_ := fun q => paths.contains q }
    match fromNodes lib p0 nodes with
    | .error e => pure ("load " ++ showPErr e)
    | .ok p =>
      match serializeProgram p with
      | some t => pure ("ok " ++ hex t)
      | none => pure "outside"
  res.getD "bad-ser"

/-- `load <env> <ntable> (<hexk> <hexv>)* <ndecls> decl* <hex source> <nops> op*`: the whole pipeline from source text -/
def handleLoad (toks : List String) : String :=
  let res : Option String := do
    let ((wd, paths), r) ← pEnv toks
    let (nt, r) ← pNat r
    let (table, r) ← pMany (fun ts => do let (k, r) ← pHex ts; let (v, r) ← pHex r; pure ((k, v), r)) nt r
    let (nd, r) ← pNat r
    let (decls, r) ← pMany pDecl nd r
    let (src, r) ← pHex r
    let (no, r) ← pNat r
    let (ops, _) ← pMany pOp no r
    let lib := fun (k : String) => decls.find? (·.name == k)
    let p0 : Program := { cmds := [], workingDir := wd, exists_ := fun q => paths.contains q }
    match loadSource table lib p0 src with
    | .error e => pure ("load " ++ showPErr e)
    | .ok p =>
      let (st, outs) := runOps lib p ops
      -- the loaded program: result names, command names, arguments with raw values and lines
      let prog := " ".intercalate (p.cmds.map fun c =>
        "cmd(" ++ hex c.resultName ++ "," ++ hex c.decl.name ++ "," ++ showOptNat c.line ++ ",[" ++
          ",".intercalate (c.args.map fun a => hex a.name ++ ":" ++ showOptNat a.line ++ ":" ++ showRaw a.value) ++ "])")
      pure ("load ok ; " ++ " ".intercalate outs ++ " ; " ++ " ".intercalate (st.log.map showEv) ++ " ; " ++
            " ".intercalate (st.memo.map fun (k, v) => hex k ++ "=" ++ hex v) ++ " ; " ++ prog)
  res.getD "bad-load"

/-- `registry <nbuiltin> (<module> <name>)* <nev> (d <module> <name> <impl> | c <nlibs> <lib>*)*` -/
def handleRegistry (toks : List String) : String :=
  let res : Option String := do
    let (nb, r) ← pNat toks
    let (builtin, r) ← pMany (fun ts => do let (m, r) ← pHex ts; let (n, r) ← pHex r; pure (({ module := m, name := n, impl := 0 } : RegEntry), r)) nb r
    let (ne, r) ← pNat r
    let (evs, _) ← pMany (fun ts => do
      let (t, r) ← pTok ts
      if t == "d" then do
        let (m, r) ← pHex r; let (n, r) ← pHex r; let (i, r) ← pNat r
        pure (RegEv.define { module := m, name := n, impl := i }, r)
      else if t == "c" then do
        let (k, r) ← pNat r; let (libs, r) ← pMany pHex k r
        pure (RegEv.construct libs, r)
      else none) ne r
    let outs := runHistory builtin [] evs
    pure (" ; ".intercalate (outs.map fun o =>
      match o with
      | .ok sel =>
          let items := (sel.map fun e => e.name ++ "=" ++ e.module ++ "#" ++ toString e.impl).toArray.qsort (· < ·) |>.toList
          "ok " ++ ",".intercalate items
      | .error d => "dup " ++ ",".intercalate (d.toArray.qsort (· < ·) |>.toList)))
  res.getD "bad-registry"

/-- `csvread <hex text> <hex field> <missing rat|-> <0/1 integer>` -/
def handleCsvRead (toks : List String) : String :=
  match toks with
  | [ht, hf, m, i] =>
      match unhex ht, unhex hf with
      | some text, some field =>
        let missing := if m == "-" then none else parseRat m
        match csvRead text.toList field missing (i == "1") with
        | .ok a => "ok " ++ showArr a
        | .error .emptyDataFile => "err EmptyDataFile"
        | .error .headerMissing => "err InvalidDataFile header"
        | .error (.invalidValue l) => s!"err InvalidDataFile line {l}"
        | .error (.raw e) => "err raw " ++ e
        | .error .outside => "outside"
      | _, _ => "bad-csv"
  | _ => "bad-csv"

/-- `csvrows <hex text>`: the records the reader yields -/
def handleCsvRows (toks : List String) : String :=
  match toks with
  | [ht] =>
      match unhex ht with
      | some text => " | ".intercalate ((csvRows text.toList).map fun r => ",".intercalate (r.map hex))
      | none => "bad-csv"
  | _ => "bad-csv"

/-- `csvwrite <nrows> <ncols> <hex cell>*` (row-major, header row first): the text the writer produces -/
def handleCsvWrite (toks : List String) : String :=
  let res : Option String := do
    let (nr, r) ← pNat toks
    let (nc, r) ← pNat r
    let (cells, _) ← pMany pHex (nr * nc) r
    let rows := (List.range nr).map fun i => (cells.drop (i * nc)).take nc
    pure (hex (String.join (rows.map csvWriteRow)))
  res.getD "bad-csv"

/-- `csvtable <ncols> <ncells> <hex name>* (<hex cell>* per column)`: the table `EEMSWrite` writes for these results -/
def handleCsvTable (toks : List String) : String :=
  let res : Option String := do
    let (nc, r) ← pNat toks
    let (n, r) ← pNat r
    let (names, r) ← pMany pHex nc r
    let (cells, _) ← pMany pHex (nc * n) r
    let cols := (List.range nc).map fun j => (cells.drop (j * n)).take n
    pure (hex (csvWriteTable names cols))
  res.getD "bad-csv"

/-- `ncread <arr|-> <type> <missing rat|->` -/
def handleNcRead (toks : List String) : String :=
  match toks with
  | [a, t, m] =>
      let var := if a == "-" then some none else (parseArr a).map some
      let ty : Option NcType := match t with
        | "Float" => some .float | "Integer" => some .integer | "PositiveFloat" => some .positiveFloat
        | "PositiveInteger" => some .positiveInteger | "Fuzzy" => some .fuzzy | _ => none
      match var, ty with
      | some v, some ty =>
        match ncRead v ty (if m == "-" then none else parseRat m) with
        | .ok r => "ok " ++ showArr r
        | .error .noSuchVariable => "err NoSuchVariable"
        | .error .invalidPositiveData => "err InvalidPositiveData"
        | .error .invalidFuzzyData => "err InvalidFuzzyData"
        | .error (.raw e) => "err raw " ++ e
      | _, _ => "bad-nc"
  | _ => "bad-nc"

/-- `ncwrite <arr>*`: the variables as stored (visible form) -/
def handleNcWrite (toks : List String) : String :=
  match toks.mapM parseArr with
  | some rs => " ".intercalate ((ncWrite rs).map showArr)
  | none => "bad-nc"

/-- `cli <exists 0|1> <hex path> <hex file text> (done | other | mp <hex str(ex)> <is ProgramError 0|1> <lineno|->)`:
what the command-line tool writes and how it exits -/
def handleCli (toks : List String) : String :=
  let res : Option String := do
    match toks with
    | ex :: hp :: ht :: rest =>
      let path ← unhex hp
      let text ← unhex ht
      let outcome : Cli.Outcome ← match rest with
        | ["done"] => some .done
        | ["other"] => some (.other "other")
        | ["mp", hm, ip, ln] => do
            let msg ← unhex hm
            let lineno : Option Nat ← if ln == "-" then some none else ln.toNat?.map some
            some (.mpError msg.toList (ip == "1") lineno)
        | _ => none
      let r := Cli.main (ex == "1") path.toList text.toList (fun _ => outcome)
      pure s!"exit={r.exit} crash={r.crash.getD "-"} stderr={hex (String.ofList r.stderr)} src={hex (String.ofList (Cli.source text.toList))}"
    | _ => none
  res.getD "bad-cli"

/-- `nclayout <hex dimField> <nresults> <hex name>* <ndims> (<hex name> <size>)* <nvars> (<hex name> <hex dtype> <ndims> <hex dim>* <nattrs> (<hex k> <hex v>)* <ndata> <hex value>*)*`:
the frame of the file `EEMSWrite` creates from that template -/
def handleNcLayout (toks : List String) : String :=
  let res : Option String := do
    let (field, r) ← pHex toks
    let (nres, r) ← pNat r
    let (names, r) ← pMany pHex nres r
    let (nd, r) ← pNat r
    let (dims, r) ← pMany (fun ts => do let (n, r) ← pHex ts; let (k, r) ← pNat r; pure ((n, k), r)) nd r
    let (nv, r) ← pNat r
    let (vars, _) ← pMany (fun ts => do
      let (n, r) ← pHex ts
      let (dt, r) ← pHex r
      let (k, r) ← pNat r
      let (ds, r) ← pMany pHex k r
      let (na, r) ← pNat r
      let (attrs, r) ← pMany (fun ts => do let (a, r) ← pHex ts; let (b, r) ← pHex r; pure ((a, b), r)) na r
      let (ndat, r) ← pNat r
      let (dat, r) ← pMany pHex ndat r
      pure (({ name := n, dtype := dt, dims := ds, attrs := attrs, data := dat } : NcVarD), r)) nv r
    let showVar (v : NcVarD) : String :=
      s!"{hex v.name}:{hex v.dtype}:{",".intercalate (v.dims.map hex)}:{",".intercalate (v.attrs.map fun (a, b) => hex a ++ "=" ++ hex b)}:{",".intercalate (v.data.map hex)}"
    match ncLayout { dims := dims, vars := vars } field names with
    | .error e => pure ("err " ++ e)
    | .ok out => pure ("ok " ++ ",".intercalate (out.dims.map fun (n, k) => hex n ++ "=" ++ toString k) ++ " " ++ " ".intercalate (out.vars.map showVar))
  res.getD "bad-nclayout"

def handle (line : String) : String :=
  match (line.trimAscii.toString.splitOn " ").filter (· != "") with
  | "exec" :: rest => handleExec rest
  | "alias" :: rest => handleAlias rest
  | "clean" :: rest => handleClean rest
  | "prog" :: rest => handleProg rest
  | "parse" :: rest => handleParse rest
  | "ser" :: rest => handleSer rest
  | "load" :: rest => handleLoad rest
  | "registry" :: rest => handleRegistry rest
  | "ncread" :: rest => handleNcRead rest
  | "ncwrite" :: rest => handleNcWrite rest
  | "nclayout" :: rest => handleNcLayout rest
  | "csvread" :: rest => handleCsvRead rest
  | "csvrows" :: rest => handleCsvRows rest
  | "csvwrite" :: rest => handleCsvWrite rest
  | "csvtable" :: rest => handleCsvTable rest
  | "cli" :: rest => handleCli rest
  | "ping" :: _ => "pong"
  | _ => "bad-op"

partial def loop (h : IO.FS.Stream) (out : IO.FS.Stream) : IO Unit := do
  let line ← h.getLine
  if line.isEmpty then return ()
  out.putStrLn (handle line)
  loop h out

def main : IO Unit := do
  let out ← IO.getStdout
  loop (← IO.getStdin) out
  out.flush
