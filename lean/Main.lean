/-
Line-protocol driver: one request per line on stdin, one answer per line on stdout.
Imports the executable model only (no Mathlib).
-/
import MPilot.Driver.Codec
import MPilot.Model.EemsHeap
import MPilot.Driver.ProgCodec
import MPilot.Model.Grammar
import MPilot.Model.Serialize
import MPilot.Model.Eems2

open MPilot MPilot.Codec

def handleExec (toks : List String) : String :=
  match toks with
  | spec :: arrs =>
      match parseDataCmd spec, arrs.mapM parseArr with
      | some c, some xs =>
          match exec sqrtApprox c xs with
          | .ok r => "ok " ++ showArr r
          | .error e => "err " ++ showErr e
      | none, _ => "bad-cmd"
      | _, none => "bad-arr"
  | [] => "bad-op"

/-- `alias <cmdspec> <n>`: does the command return its first input object when given `n` inputs? -/
def handleAlias (toks : List String) : String :=
  match toks with
  | [spec, n] =>
      match parseDataCmd spec, n.toNat? with
      | some c, some k => if aliases c k then "1" else "0"
      | _, _ => "bad-cmd"
  | _ => "bad-op"

/-- context part shared by `clean` and `prog`: working dir, existing paths -/
def pEnv : P (Option String × List String) := fun ts => do
  let (wd, r) ← pOptHex ts
  let (n, r) ← pNat r
  let (paths, r) ← pMany pHex n r
  pure ((wd, paths), r)

/-- `clean <env> <ncmds> (<name> <fuzzy> <finished> <isarray> <output|->)* <spec> <raw>` -/
def handleClean (toks : List String) : String :=
  let res : Option String := do
    let ((wd, paths), r) ← pEnv toks
    let (n, r) ← pNat r
    let (infos, r) ← pMany (fun ts => do
      let (nm, r) ← pHex ts
      let (fz, r) ← pBool r
      let (fin, r) ← pBool r
      let (k, r) ← pTok r
      let kind : ResKind := if k == "a" then .array else if k == "b" then .bool else .other
      let (out, r) ← pOptSpec' r
      pure ((nm, ({ isFuzzy := fz, output := out, finished := fin, resultKind := kind } : CmdInfo)), r)) n r
    let (spec, r) ← pSpec r
    let (raw, _) ← pRaw r
    let ctx : Ctx := { workingDir := wd, lookup := fun k => (infos.find? (·.1 == k)).map (·.2),
                       isCommand := fun k => (infos.any (·.1 == k)), exists_ := fun q => paths.contains q }
    match clean ctx spec raw with
    | .ok c =>
        -- idempotence probe: clean the cleaned value again
        let again := match clean ctx spec c.embed with
          | .ok c2 => "ok " ++ showClean c2
          | .error e => "err " ++ e
        pure ("ok " ++ showClean c ++ " | " ++ again)
    | .error e => pure ("err " ++ e)
  res.getD "bad-clean"

/-- refs named by a raw value (names or Command objects, nested lists flattened) -/
partial def rawRefs : Raw → List String
  | .str s => [s]
  | .cmd s => [s]
  | .list xs => xs.flatMap rawRefs
  | _ => []

partial def specHasResult : PSpec → Bool
  | .result _ _ => true
  | .list s => specHasResult s
  | _ => false

/-- the driver's instance of `Sem`: reads = result-typed inputs in declared order; value = a token recording what was read -/
def tokSem : Sem String :=
  { pulls := fun c => c.decl.inputs.flatMap fun i =>
      if specHasResult i.spec then
        match (dedupArgs c.args).find? (·.name == i.name) with
        | some a => rawRefs a.value
        | none => []
      else []
    compute := fun c vals =>
      match (dedupArgs c.args).find? (·.name == "Fail") with
      | some ⟨_, .str "mp", _⟩ => .error (.mp "ProgramError" c.line)
      | some ⟨_, .str "value", _⟩ => .error (.raw "ValueError")
      | _ =>
        let body := c.resultName ++ "(" ++ ",".intercalate vals ++ ")"
        .ok (if c.decl.output == some PClass.data then "arr:" ++ body
             else if c.decl.name == "W" then "true:" ++ body else body)
    kind := fun v => if v.startsWith "arr:" then .array else if v.startsWith "true:" then .bool else .other }

inductive Op | run | result (n : String)

def pOp : P Op := fun ts => do
  let (t, r) ← pTok ts
  if t == "run" then pure (.run, r)
  else if t == "result" then do let (n, r) ← pHex r; pure (.result n, r)
  else none

/-- `prog <env> <ndecls> decl* <nnodes> node* <nops> op*` -/
def handleProg (toks : List String) : String :=
  let res : Option String := do
    let ((wd, paths), r) ← pEnv toks
    let (nd, r) ← pNat r
    let (decls, r) ← pMany pDecl nd r
    let (nn, r) ← pNat r
    let (nodes, r) ← pMany pNode nn r
    let (no, r) ← pNat r
    let (ops, _) ← pMany pOp no r
    let lib := fun (k : String) => decls.find? (·.name == k)
    let p0 : Program := { cmds := [], workingDir := wd, exists_ := fun q => paths.contains q }
    match fromNodes lib p0 nodes with
    | .error e => pure ("load " ++ showPErr e)
    | .ok p =>
      let (st, outs) := ops.foldl (fun (acc : St String × List String) op =>
        let (st, outs) := acc
        match op with
        | .run =>
            let (st', e) := run tokSem p st
            (st', outs ++ [match e with | some e => showPErr e | none => "ok"])
        | .result n =>
            let (st', e) := runCmd tokSem p (p.cmds.length + 1) st n
            (st', outs ++ [match e with | some e => showPErr e | none => "ok"])) (({ memo := [], log := [] } : St String), [])
      pure ("load ok ; " ++ " ".intercalate outs ++ " ; " ++ " ".intercalate (st.log.map showEv) ++ " ; " ++
            " ".intercalate (st.memo.map fun (k, v) => hex k ++ "=" ++ hex v))
  res.getD "bad-prog"

mutual
  partial def showEVal : EVal → String
    | .int n => s!"i:{n}"
    | .float q => s!"f:{showRat q}"
    | .str s => "s:" ++ hex s
    | .list xs => "l[" ++ ",".intercalate (xs.map showENode) ++ "]"
    | .dict kv => "d{" ++ ",".intercalate (kv.map fun (k, v) => hex k ++ "=" ++ showENode v) ++ "}"
  partial def showENode : ENode → String
    | .mk v l => s!"e({l},{showEVal v})"
end

def showCNode (c : CNode) : String :=
  let rn := match c.resultName with | some r => hex r | none => "~"
  s!"cmd({rn},{hex c.command},{c.line},[" ++ ",".intercalate (c.args.map fun a => s!"arg({hex a.name},{a.line},{showENode a.value})") ++ "])"

/-- `parse <hex source>` -/
def handleParse (toks : List String) : String :=
  match toks with
  | [h] =>
      match unhex h with
      | none => "bad-parse"
      | some src =>
        match parse src with
        | .ok p => s!"ok v{p.version} " ++ " ".intercalate (p.commands.map showCNode)
        | .error .syntax => "syntax"
        | .error .outside => "outside"
  | _ => "bad-parse"

/-- `ser <env> <ndecls> decl* <nnodes> node*`: load the commands (API order) and print `Program.to_string()` -/
def handleSer (toks : List String) : String :=
  let res : Option String := do
    let ((wd, paths), r) ← pEnv toks
    let (nd, r) ← pNat r
    let (decls, r) ← pMany pDecl nd r
    let (nn, r) ← pNat r
    let (nodes, _) ← pMany pNode nn r
    let lib := fun (k : String) => decls.find? (·.name == k)
    let p0 : Program := { cmds := [], workingDir := wd, exists_ := fun q => paths.contains q }
    match fromNodes lib p0 nodes with
    | .error e => pure ("load " ++ showPErr e)
    | .ok p =>
      match serializeProgram p with
      | some t => pure ("ok " ++ hex t)
      | none => pure "outside"
  res.getD "bad-ser"

/-- `load <env> <ntable> (<hexk> <hexv>)* <ndecls> decl* <hex source> <nops> op*`: the whole pipeline from source text -/
def handleLoad (toks : List String) : String :=
  let res : Option String := do
    let ((wd, paths), r) ← pEnv toks
    let (nt, r) ← pNat r
    let (table, r) ← pMany (fun ts => do let (k, r) ← pHex ts; let (v, r) ← pHex r; pure ((k, v), r)) nt r
    let (nd, r) ← pNat r
    let (decls, r) ← pMany pDecl nd r
    let (src, r) ← pHex r
    let (no, r) ← pNat r
    let (ops, _) ← pMany pOp no r
    let lib := fun (k : String) => decls.find? (·.name == k)
    let p0 : Program := { cmds := [], workingDir := wd, exists_ := fun q => paths.contains q }
    match loadSource table lib p0 src with
    | .error e => pure ("load " ++ showPErr e)
    | .ok p =>
      let (st, outs) := ops.foldl (fun (acc : St String × List String) op =>
        let (st, outs) := acc
        match op with
        | .run =>
            let (st', e) := run tokSem p st
            (st', outs ++ [match e with | some e => showPErr e | none => "ok"])
        | .result n =>
            let (st', e) := runCmd tokSem p (p.cmds.length + 1) st n
            (st', outs ++ [match e with | some e => showPErr e | none => "ok"])) (({ memo := [], log := [] } : St String), [])
      -- the loaded program: result names, command names, arguments with raw values and lines
      let prog := " ".intercalate (p.cmds.map fun c =>
        "cmd(" ++ hex c.resultName ++ "," ++ hex c.decl.name ++ "," ++ showOptNat c.line ++ ",[" ++
          ",".intercalate (c.args.map fun a => hex a.name ++ ":" ++ showOptNat a.line ++ ":" ++ showRaw a.value) ++ "])")
      pure ("load ok ; " ++ " ".intercalate outs ++ " ; " ++ " ".intercalate (st.log.map showEv) ++ " ; " ++
            " ".intercalate (st.memo.map fun (k, v) => hex k ++ "=" ++ hex v) ++ " ; " ++ prog)
  res.getD "bad-load"

def handle (line : String) : String :=
  match (line.trimAscii.toString.splitOn " ").filter (· != "") with
  | "exec" :: rest => handleExec rest
  | "alias" :: rest => handleAlias rest
  | "clean" :: rest => handleClean rest
  | "prog" :: rest => handleProg rest
  | "parse" :: rest => handleParse rest
  | "ser" :: rest => handleSer rest
  | "load" :: rest => handleLoad rest
  | "ping" :: _ => "pong"
  | _ => "bad-op"

partial def loop (h : IO.FS.Stream) (out : IO.FS.Stream) : IO Unit := do
  let line ← h.getLine
  if line.isEmpty then return ()
  out.putStrLn (handle line)
  loop h out

def main : IO Unit := do
  let out ← IO.getStdout
  loop (← IO.getStdin) out
  out.flush
