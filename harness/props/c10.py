"""C10 — parsing delivers exactly what was written, regardless of layout.

proof:          lean/MPilot/Props/C10.lean
correspondence: real Parser().parse vs the model's lexer+grammar on (a) renderings of random abstract programs under random layouts
                (spacing, tabs, line breaks LF/CRLF, comments, trailing commas, single/double/no quotes), (b) single-character mutations
                of those, (c) random token soups over all character classes: whole tree incl. line numbers, or the error class
oracles:        parse(render(program, layout)) is exactly the abstract program (names, values with their kinds, order, nesting, tuples),
                for every layout; malformed text never raises anything but SyntaxError; numbers of equal value and different kind (1 / 1.0 / 1.00,
                0 / 0.0 / -0.0 ...) written next to each other on one line - lists, nested lists, tuples, separate arguments, two commands - are read
                as the kind and sign they were written as (`render.kind_mix_asts`, compared by `parsing.exact_parse` / `exact_load`)
known findings: unquoted strings made of several tokens lose their blanks / are re-rendered (F10): re-run, reported as KNOWN-FINDING
"""
import re

import sys

from .. import common, parsing, render

F10_WITNESSES = [
    ("C10-F10-blanks", "A = B(P = This is a string.)", "This is a string.", "words of an unquoted string are concatenated without their blanks"),
    ("C10-F10-leading-zeros", "A = B(P = 007x)", "007x", "a number-leading unquoted string is re-rendered through int()"),
    ("C10-F10-sign", "A = B(P = +5abc)", "+5abc", "a signed number-leading unquoted string loses its sign"),
    ("C10-F10-float-prefix", "A = B(P = 1.50x)", "1.50x", "a decimal-leading unquoted string is re-rendered through float()"),
]


# minimised inputs on which model and parser once disagreed (model repairs); they run first on every run
REGRESSIONS = ["A = B(P=-0.a001)", "A = B(P = -0.0x, Q = [-0.0, -0.])", "A = B(x = [[[[[[[[1]]]]]]]])", "A = B(x = [[[[[[[[[[[[a, b], c]]]]]]]]]]])",
               "A = B(P = trailing  \n)", "A = B(P = a b  , Q = 1)"]


# texts that differ only in blanks / line breaks that are content (inside quotes) or that end a comment: loaded one after the other in one process
HISTORY = ['A = B(P = "Dry season")', 'A = B(P = "Dry  season")', 'A = B(P = "Dry\tseason")', "A = B(P = 'Dry season')", 'A = B(P = "Dry season" )',
           "A = B(x = 1) # c\nC = D(y = 2)", "A = B(x = 1) # c C = D(y = 2)", "A = B(x = 1)\n# c\nC = D(y = 2)", "A = B(\n  x = 1\n)\nC = D(\n  y = [2,\n 3]\n)",
           "A = B(x = 1)\nC = D(y = [2, 3])", "A = B(x = [k: 1, m: 2.5, n: v, o: \"7\"])", "A = B(x = [k: 7])", 'A = B(x = [k: "7"])', "A = B(x = [k: 7.0])",
           "READ(InFileName = x.csv, InFieldName = a)", 'A = B(OutFileName = "x", P = 1, NewFieldName = y)', "A = B(OutFileName = o)\nC = D(NewFieldName = n, Q = [1])",
           "A = B(P = [[k: 1, m: x], 2])", "A = B(P = [1, [[k: 2.5]], [m: \"q r\", n: 3]])"]


def respace(ast, rng):
    """the same program with the blanks inside its strings changed (content, not layout)"""
    def val(v):
        if v.kind == "str" and v.how != "bare" and " " in v.v:
            return render.Val("str", v.v.replace(" ", rng.choice(["  ", "\t", " \n", "   "])), v.how)
        if v.kind == "list":
            return render.Val("list", [val(x) for x in v.v])
        if v.kind == "dict":
            return render.Val("dict", [(k, val(x)) for k, x in v.v])
        return v
    return [(res, cmd, [(n, val(v)) for n, v in args]) for res, cmd, args in ast]


def strip_lines(canon):
    return re.sub(r"e\(\d+,", "e(", re.sub(r",\d+,\[", ",[", re.sub(r"arg\(([0-9a-f-]+),\d+,", r"arg(\1,", canon)))


PROBE_SCRIPT = '''
import json, time
from mpilot.parser.parser import Parser
Q = chr(34)
texts = ["A = B(P = " + Q + "abcdefghijklmnopqrstuvwxyz0123456789 and more text without a closing quote)",
         "A = B(P = it's an apostrophe in unquoted text followed by quite a few more characters, P2 = 5)",
         "A = B(P = " + Q + "x" * 60 + ")" + chr(10) + "C = D(Q = 1)" + chr(10),
         "A = B(P = [1, 2, " + Q + "never closed, 3, 4, 5, 6, 7, 8, 9, 10, 11, 12, 13, 14, 15])",
         "A = B(P = " + "[" * 40 + "1" + "]" * 39 + ")", "A = B(" + "x = 1, " * 30, "A = " * 40 + "B()"]
out = []
for t in texts:
    t0 = time.time()
    try:
        Parser().parse(t)
        r = "accepted"
    except SyntaxError:
        r = "syntax"
    except Exception as e:
        r = "raw " + type(e).__name__
    out.append([r, round(time.time() - t0, 3)])
    print(json.dumps(out), flush=True)
'''


def malformed_in_time(ctx):
    """malformed texts a slip of the keyboard produces - a quote that is never closed, an apostrophe in unquoted text, brackets that do not match - are
    rejected with a syntax error at once (a fresh interpreter with a time limit: a lexer pattern that backtracks would take hours on forty characters).
    Returns False when the parser does not answer in time: the in-process streams, which hold such texts too, are then not run."""
    import subprocess
    pre = "import sys\nsys.path.insert(0, %r)\n" % common.scratch_repo()
    limit = 25
    try:
        p = subprocess.run([sys.executable, "-c", pre + PROBE_SCRIPT], stdout=subprocess.PIPE, stderr=subprocess.PIPE, universal_newlines=True, timeout=limit)
        lines = [l for l in p.stdout.strip().split("\n") if l]
        timed_out = False
    except subprocess.TimeoutExpired as e:
        so = e.stdout.decode() if isinstance(e.stdout, bytes) else (e.stdout or "")
        lines = [l for l in so.strip().split("\n") if l]
        timed_out = True
    import json
    done = json.loads(lines[-1]) if lines else []
    ctx.count("malformed_probe_texts", len(done))
    ctx.case("malformed-probe", sample={"answers": done})
    if timed_out:
        ctx.fail("a malformed text (no. %d of the probe: an unclosed quote / a stray apostrophe) is not rejected within %d seconds - the parser does not answer" % (len(done) + 1, limit),
                 {"probe_text_no": len(done) + 1, "answered_so_far": done})
        return False
    for k, (r, dt) in enumerate(done):
        if r != "syntax":
            ctx.fail("malformed probe text no. %d: %s instead of a syntax error" % (k + 1, r), {"probe_text_no": k + 1})
    return True


def run(ctx):
    ctx.check_proofs(["MPilot.Props.C10", "MPilot.Props.C10Reject"])
    if not malformed_in_time(ctx):
        return ctx.finish(rule="malformed-text probe only: the parser did not answer in time", explanation="the in-process streams were not run")
    model = common.Model()
    rng = ctx.rng
    srcs, expected, kinds = list(REGRESSIONS), [None] * len(REGRESSIONS), ["regression"] * len(REGRESSIONS)
    for i in range(ctx.budget(120, 6000)):
        ast = render.rand_ast(rng, max_cmds=rng.choice([1, 2, 3, 8]))
        nl = rng.choice(["\n", "\n", "\r\n"])
        src, exp = render.render(ast, rng, nl, wild=True)
        srcs.append(src); expected.append(exp); kinds.append("render")
        # a second, plain layout of the same program: the tree must be the same apart from line numbers
        src2, exp2 = render.render(ast, rng, "\n", wild=False)
        srcs.append(src2); expected.append(exp2); kinds.append("render-plain")
        if i % 3 == 0:
            # the same program with other blanks inside its strings, in the same plain layout: loaded right after its sibling
            src3, exp3 = render.render(respace(ast, rng), rng, "\n", wild=False)
            srcs.append(src3); expected.append(exp3); kinds.append("render-respaced")
        for _ in range(2):
            srcs.append(parsing.mutate(rng, src)); expected.append(None); kinds.append("mutation")
    for h in HISTORY:
        srcs.append(h); expected.append(None); kinds.append("history")
    # numbers of equal value and different kind (1 / 1.0 / 1.00, 0 / 0.0 / -0.0, 2 / 2.0 ...) and texts that look like them, next to each other on ONE line - in a
    # list, nested lists, a tuple, separate arguments, two commands - and over several lines: each is read as the kind (and sign) it was written as
    exacts = {}
    for ast in render.kind_mix_asts(rng):
        for k, (wild, one_line) in enumerate(((False, True), (True, True), (True, False))):
            if k == 2 and rng.random() < 0.5:
                continue
            src, exp = render.render(ast, rng, "\n", wild=wild, one_line=one_line)
            srcs.append(src); expected.append(exp); kinds.append("kinds-side-by-side")
            exacts[src] = render.exact(ast)
    for i in range(ctx.budget(150, 8000)):
        srcs.append(parsing.rand_tokens(rng)); expected.append(None); kinds.append("token-soup")
        srcs.append(parsing.rand_prog(rng)); expected.append(None); kinds.append("loose-program")
        srcs.append(parsing.mutate(rng, parsing.rand_prog(rng))); expected.append(None); kinds.append("mutation")
    answers = model.ask([parsing.model_line(s) for s in srcs])
    last_render = None
    from mpilot.parser.parser import Parser as _Parser
    veteran = _Parser()          # one Parser object that reads every text of the run, rejected ones included: a text's tree does not depend on what the parser read before
    for src, exp, kind, ans in zip(srcs, expected, kinds, answers):
        real = parsing.real_parse(src)
        again = parsing.real_parse(src, parser=veteran)
        ctx.count("long_lived_parser_parses")
        if again != real:
            ctx.fail("a Parser that has read other texts before (rejected ones included) reads this text differently from a fresh Parser", {"source": src, "fresh": real[:600], "used": again[:600]})
        ans2 = parsing.normalise_model(ans)
        ctx.case(src, nontrivial=real != "syntax" or kind in ("mutation", "token-soup"), sample={"kind": kind, "source": src[:300], "real": real[:200], "model": ans2[:200]})
        ctx.count("kind:" + kind)
        ctx.count("outcome:" + real.split(" ")[0].split(":")[0])
        if ans == "outside" or ans2 == "outside":
            ctx.count("outside_model_domain")
        elif real != ans2:
            ctx.disagree("parse:" + kind, {"source": src}, real[:600], ans2[:600])
        if real.startswith("raw:"):
            ctx.fail("parsing raised %s instead of SyntaxError" % real[4:], {"source": src})
        # the same text loaded as a program (Program.from_source with a library that has every command name): the commands are handed exactly
        # what was parsed - names, values with their kinds, nesting, tuples, line numbers - whatever was loaded before in this process
        want = parsing.expected_load(src, version=3 if ans2.startswith("ok v3 ") else 2 if ans2.startswith("ok v2 ") else None)
        if want is not None:
            got = parsing.real_load(src)
            ctx.count("loaded_through_from_source")
            if got != want:
                ctx.fail("Program.from_source hands the commands something else than what the text says (%s)" % (
                    got if not got.startswith("ok") else "values / names / lines differ"), {"source": src, "parsed": want[:800], "loaded": got[:800]})
        if src in exacts:
            ctx.count("kinds_side_by_side_texts")
            for how, got in (("parsed", parsing.exact_parse(src)), ("parsed by a Parser that has read other texts", parsing.exact_parse(src, parser=veteran)), ("handed to the commands by Program.from_source", parsing.exact_load(src))):
                if got != exacts[src]:
                    ctx.fail("numbers of equal value written as different kinds next to each other are not %s as the kinds (and signs) that were written" % how, {"source": src, "written": exacts[src], how.split(" ")[0]: got})
                    break
        if exp is not None:
            if real != exp:
                ctx.fail("a well-formed rendering does not parse to the program that was written (%s)" % (
                    "rejected: " + real if not real.startswith("ok") else "tree differs"), {"source": src, "expected": exp[:800], "parsed": real[:800]})
            if kind == "render":
                last_render = real
            elif kind == "render-plain" and last_render is not None and last_render.startswith("ok") and real.startswith("ok"):
                if strip_lines(last_render) != strip_lines(real):
                    ctx.fail("two layouts of the same program parse to different trees", {"plain_layout": src})
    # a caller who has turned warnings into errors reads every text the same way (F23: unknown escapes in quoted strings used to raise DeprecationWarning)
    import warnings as _warnings
    reads = {}
    for src in srcs:
        if src not in reads:
            reads[src] = parsing.real_parse(src)
    for src, real in reads.items():
        if "\\" not in src and ctx.dist.get("strict_warnings_parses", 0) > 600:
            continue
        ctx.count("strict_warnings_parses")
        try:
            with _warnings.catch_warnings():
                _warnings.simplefilter("error")
                strict = parsing.canon_program(_Parser().parse(src))
        except SyntaxError:
            strict = "syntax"
        except Exception as e:
            strict = "raw:" + type(e).__name__
        if strict != real:
            ctx.fail("with warnings turned into errors by the caller the text is read differently (%s)" % strict[:60], {"source": src, "default": real[:600], "warnings_as_errors": strict[:600]})
    # several threads, each with a Parser of its own, reading different texts at the same time: every one gets what a lone parser reads
    import sys as _sys, threading
    texts = [s_ for s_, r_ in reads.items() if len(s_) < 2000][: ctx.budget(480, 4000)]
    nthreads = 8
    parsers = [_Parser() for _ in range(nthreads)]
    got_par = [None] * len(texts)
    barrier = threading.Barrier(nthreads)

    def worker(k):
        barrier.wait()
        for i in range(k, len(texts), nthreads):
            got_par[i] = parsing.real_parse(texts[i], parser=parsers[k])
    old_interval = _sys.getswitchinterval()
    _sys.setswitchinterval(1e-5)
    try:
        ths = [threading.Thread(target=worker, args=(k,)) for k in range(nthreads)]
        for t in ths:
            t.start()
        for t in ths:
            t.join()
    finally:
        _sys.setswitchinterval(old_interval)
    wrong = [i for i in range(len(texts)) if got_par[i] != reads[texts[i]]]
    ctx.count("concurrent_parses", len(texts))
    if wrong:
        i = wrong[0]
        ctx.fail("%d of %d texts are read differently when %d threads parse at the same time, each with its own Parser" % (len(wrong), len(texts), nthreads),
                 {"source": texts[i], "alone": reads[texts[i]][:600], "concurrently": (got_par[i] or "")[:600], "threads": nthreads,
                  "how": "8 threads, one Parser each (created beforehand), texts dealt round-robin, switch interval 1e-5 s"})
    # known findings (listed in known_findings.json): re-run each witness against the real parser
    from mpilot.parser.parser import Parser
    for fid, src, want, what in F10_WITNESSES:
        try:
            got = Parser().parse(src).commands[0].arguments[0].value.value
        except Exception as e:
            got = "<%s>" % type(e).__name__
        ctx.count("known_finding_witnesses")
        if got != want:
            ctx.fail("%s: %r parses to %r" % (what, src, got), {"source": src, "expected_text": want, "parsed": got}, finding=fid)
        else:
            ctx.notes.setdefault("known_findings_resolved", []).append(fid)
    return ctx.finish(
        level="translation_validation" if not ctx.obligations else "proof",
        rule="(a) random abstract programs (1-8 commands, 0-4 arguments, ints, decimals, strings from a pool with quotes/backslashes/delimiters/"
             "non-ASCII/control characters, nested lists to depth 4, tuples) rendered under a random layout and under a plain one; (b) two single-character "
             "mutations of each rendering; (c) token soups, loosely generated programs and their mutations; distinct by source text; non-trivial = accepted, or a mutation/soup",
        explanation="theorems in Props/C10.lean hold for the model; the real parser is compared with the model on every generated text (tree with line "
                    "numbers, or error class); the round-trip oracle compares the real parse of every rendering with the abstract program it was rendered from")


def replay(path):
    import json
    print(json.dumps(json.load(open(path)), indent=1)[:6000])
    return 0
