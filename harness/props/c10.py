"""C10 — parsing delivers exactly what was written, regardless of layout.

proof:          lean/MPilot/Props/C10.lean
correspondence: real Parser().parse vs the model's lexer+grammar on (a) renderings of random abstract programs under random layouts
                (spacing, tabs, line breaks LF/CRLF, comments, trailing commas, single/double/no quotes), (b) single-character mutations
                of those, (c) random token soups over all character classes: whole tree incl. line numbers, or the error class
oracles:        parse(render(program, layout)) is exactly the abstract program (names, values with their kinds, order, nesting, tuples),
                for every layout; malformed text never raises anything but SyntaxError; numbers of equal value and different kind (1 / 1.0 / 1.00,
                0 / 0.0 / -0.0 ...) written next to each other on one line - lists, nested lists, tuples, separate arguments, two commands - are read
                as the kind and sign they were written as (`render.kind_mix_asts`, compared by `parsing.exact_parse` / `exact_load`); quoted strings written over
                several file lines, with blanks / tabs in front of their line breaks (`render.multiline_asts`): parsed, loaded, and run through the command-line tool
                with a plug-in library that notes what its commands are handed - all three are what was written (`tool_handover`); a caller who edits a parse
                result or a loaded program in place (drops an argument, sorts / clears a list, changes a tuple) and parses the same text again - at once, or after
                1-40 other texts - gets what the text says (`edited_results`); a tuple that writes a key more than once reads the same under every layout and
                quoting of its keys, and through the loader (which pair counts is not stated by the property: correspondence only)
known findings: unquoted strings made of several tokens lose their blanks / are re-rendered (F10): re-run, reported as KNOWN-FINDING
"""
import re

import sys

from .. import common, parsing, render

F10_WITNESSES = [
    ("C10-F10-blanks", "A = B(P = This is a string.)", "This is a string.", "words of an unquoted string are concatenated without their blanks"),
    ("C10-F10-leading-zeros", "A = B(P = 007x)", "007x", "a number-leading unquoted string is re-rendered through int()"),
    ("C10-F10-sign", "A = B(P = +5abc)", "+5abc", "a signed number-leading unquoted string loses its sign"),
    ("C10-F10-float-prefix", "A = B(P = 1.50x)", "1.50x", "a decimal-leading unquoted string is re-rendered through float()"),
]


# minimised inputs on which model and parser once disagreed (model repairs); they run first on every run
REGRESSIONS = ["A = B(P=-0.a001)", "A = B(P = -0.0x, Q = [-0.0, -0.])", "A = B(x = [[[[[[[[1]]]]]]]])", "A = B(x = [[[[[[[[[[[[a, b], c]]]]]]]]]]])",
               "A = B(P = trailing  \n)", "A = B(P = a b  , Q = 1)"]


# texts that differ only in blanks / line breaks that are content (inside quotes) or that end a comment: loaded one after the other in one process
HISTORY = ['A = B(P = "Dry season")', 'A = B(P = "Dry  season")', 'A = B(P = "Dry\tseason")', "A = B(P = 'Dry season')", 'A = B(P = "Dry season" )',
           "A = B(x = 1) # c\nC = D(y = 2)", "A = B(x = 1) # c C = D(y = 2)", "A = B(x = 1)\n# c\nC = D(y = 2)", "A = B(\n  x = 1\n)\nC = D(\n  y = [2,\n 3]\n)",
           "A = B(x = 1)\nC = D(y = [2, 3])", "A = B(x = [k: 1, m: 2.5, n: v, o: \"7\"])", "A = B(x = [k: 7])", 'A = B(x = [k: "7"])', "A = B(x = [k: 7.0])",
           "READ(InFileName = x.csv, InFieldName = a)", 'A = B(OutFileName = "x", P = 1, NewFieldName = y)', "A = B(OutFileName = o)\nC = D(NewFieldName = n, Q = [1])",
           "A = B(P = [[k: 1, m: x], 2])", "A = B(P = [1, [[k: 2.5]], [m: \"q r\", n: 3]])"]


# tuples in which a key is written more than once (also in another quoting): which pair counts is not part of the property, but the model knows what the
# pinned parser does (correspondence), and whatever is read is the same under every layout and through every entry point
REPEATED_KEYS = [[("a", 1), ("a", 2)], [("a", 1), ("b", 2), ("a", 3)], [("a", "first"), ("b", 2), ("a", "second"), ("a", "third")], [("x", 1), ("y", 2), ("y", 3), ("x", 4), ("z", 5)],
                 [("Units", "m"), ("DisplayName", "Height"), ("Units", "ft")], [("k", 1), ("k", 1.0), ("k", "1")]]


def repeated_key_asts():
    def v(x):
        return render.Val("int" if isinstance(x, int) else "float" if isinstance(x, float) else "str", x, "dq" if isinstance(x, str) else None)
    return [[("R%d" % i, "Cmd", [("Metadata", render.Val("dict", [(k, v(x)) for k, x in pairs])), ("P", render.Val("int", i))])] for i, pairs in enumerate(REPEATED_KEYS)]


def multiline(ast, rng):
    """the same program with its quoted strings written over several file lines: blanks become a blank or tab followed by a line break (content, not layout)"""
    def val(v):
        if v.kind == "str" and v.how != "bare":
            t = v.v.replace(" ", rng.choice([" \n", "\t\n", "  \n  ", " "])) if " " in v.v and rng.random() < 0.7 else v.v + rng.choice([" \n", "\t\nx", " \n \n"])
            return render.Val("str", t, "raw-" + (v.how if v.how in ("dq", "sq") else "dq"))
        if v.kind == "list":
            return render.Val("list", [val(x) for x in v.v])
        if v.kind == "dict":
            return render.Val("dict", [(k, val(x)) for k, x in v.v])
        return v
    return [(res, cmd, [(n, val(v)) for n, v in args]) for res, cmd, args in ast]


KEEP_LIB = "mpverif_c10_keep"
KEEP_SRC = '''
from mpilot.commands import Command

RECEIVED = []


class Keep(Command):
    """ takes any arguments and notes what it is handed """
    allow_extra_inputs = True
    inputs = {}

    def execute(self, **kwargs):
        RECEIVED.append((self.result_name, list(kwargs.items())))
'''


def keep_lib():
    import types
    if KEEP_LIB not in sys.modules:
        m = types.ModuleType(KEEP_LIB)
        sys.modules[KEEP_LIB] = m
        exec(compile(KEEP_SRC, KEEP_LIB, "exec"), m.__dict__)
    return sys.modules[KEEP_LIB]


def tool_handover(ctx):
    """the command-line tool reads the file and hands its text to the loader: what the commands of a model receive when it is run through the tool is what
    they receive from Program.from_source(text).run(), and both are what was written - in particular quoted strings written over several file lines whose
    lines end in blanks / tabs / other white space (content, not layout), as arguments, list items and tuple values; LF and CRLF files, with and without a
    line end after the last line.  The commands are those of a plug-in library (-l) that notes the arguments it is handed."""
    import os
    from click.testing import CliRunner
    from mpilot.cli.mpilot import main
    from mpilot.program import Program
    rng = ctx.rng
    lib = keep_lib()
    tmp = common.tmpdir("mpv_c10_")
    try:
        runner = CliRunner(mix_stderr=False)
    except TypeError:
        runner = CliRunner()
    asts = [(a, "multi-line strings") for a in render.multiline_asts(rng, command="Keep")]
    for _ in range(ctx.budget(25, 600)):
        a = [(res, "Keep", args) for res, _, args in render.rand_ast(rng, max_cmds=3)]
        asts.append((multiline(a, rng), "random program, strings over several lines"))

    def received():
        got = dict((rn, [[n, parsing._exact_value(v)] for n, v in kw]) for rn, kw in lib.RECEIVED)
        del lib.RECEIVED[:]
        return got
    for i, (ast, what) in enumerate(asts):
        written = dict((res, args) for res, _, args in render.exact(ast))
        for wild in ((False, True) if i % 2 == 0 or what.startswith("random") else (True,)):
            nl = rng.choice(["\n", "\n", "\r\n"])
            text, _ = render.render(ast, rng, nl, wild=wild)
            if rng.random() < 0.3:
                text = text.rstrip("\r\n \t")              # no line end after the last line
            path = os.path.join(tmp, "m%d.mpt" % (i % 6))
            with open(path, "w", encoding="utf-8", newline="") as f:
                f.write(text)
            del lib.RECEIVED[:]
            res = runner.invoke(main, ["eems-csv", "-l", KEEP_LIB, path])
            try:
                err_text = res.stderr
            except ValueError:
                err_text = res.output
            through_tool = received()
            try:
                Program.from_source(text, libraries=(KEEP_LIB,), working_dir=tmp).run()
                direct = received()
            except Exception as e:
                direct = "raised " + type(e).__name__
                del lib.RECEIVED[:]
            ctx.case("tool " + text, sample={"kind": what, "file": text[:300], "exit": res.exit_code})
            ctx.count("tool_handover_files")
            ctx.count("tool_line_ends:" + ("crlf" if nl == "\r\n" else "lf"))
            desc = {"command_file": text, "libraries": ["-l " + KEEP_LIB + " (a command Keep that takes any arguments and notes them)"], "written": written, "exit": res.exit_code, "stderr": (err_text or "")[-400:]}
            if direct != written:
                ctx.fail("the commands of a model loaded with Program.from_source and run are not handed what the text says (%s)" % what, dict(desc, received=direct))
            elif res.exit_code != 0 or (res.exception is not None and not isinstance(res.exception, SystemExit)):
                ctx.fail("the command-line tool does not run a well-formed model of a plug-in library: exit %s %s" % (res.exit_code, type(res.exception).__name__), desc)
            elif through_tool != written:
                bad = next(((rn, a_, b_) for rn in written for a_, b_ in zip(written[rn], through_tool.get(rn, []) + [None] * len(written[rn])) if a_ != b_), None)
                ctx.fail("run through the command-line tool, the commands are handed something else than the file says and than Program.from_source hands them for the same text (%s): %s" % (
                    what, "command %s: written %r, received %r" % bad if bad else "commands differ"), dict(desc, received_through_the_tool=through_tool, received_from_from_source=direct))


def scramble(tree, rng):
    """edits a parse result in place, below the command list and at it, the way a caller who owns the result may: drops / reverses / clears / extends argument
    lists, sorts / reverses / clears / extends list values at every depth, clears / extends / re-values tuples"""
    from mpilot.parser.parser import ArgumentNode, ExpressionNode

    def value(x):
        v = x.value
        if isinstance(v, list):
            for e in v:
                value(e)
            r = rng.randrange(5)
            if r == 0:
                v.sort(key=lambda e: repr(e.value))
                v.reverse()
            elif r == 1:
                del v[:]
            elif r == 2:
                v.append(ExpressionNode("added", 1))
            elif r == 3 and v:
                v.pop(rng.randrange(len(v)))
            else:
                v.insert(0, ExpressionNode(-1, 1))
        elif isinstance(v, dict):
            r = rng.randrange(3)
            if r == 0:
                v.clear()
            elif r == 1:
                v["Added"] = ExpressionNode("added", 1)
            else:
                for k in list(v):
                    v[k] = ExpressionNode("changed", 1)
    for c in tree.commands:
        for a in c.arguments:
            value(a.value)
        r = rng.randrange(4)
        if r == 0 and c.arguments:
            c.arguments.pop(rng.randrange(len(c.arguments)))
        elif r == 1:
            del c.arguments[:]
        elif r == 2:
            c.arguments.append(ArgumentNode("Added", ExpressionNode(1, 1), 1))
        else:
            c.arguments.reverse()
            c.arguments.insert(0, ArgumentNode("Added", ExpressionNode([], 1), 1))
    if rng.random() < 0.5:
        tree.commands.reverse()
    else:
        del tree.commands[rng.randrange(len(tree.commands)):]


def scramble_loaded(p, rng):
    """the same for a loaded program: the values its commands hold"""
    def value(v):
        if hasattr(v, "list_linenos"):
            for e in v.value:
                value(e)
            v.value.reverse()
            v.value.append("added")
        elif isinstance(v, dict):
            v.clear()
    for c in p.commands.values():
        for a in c.arguments:
            value(a if hasattr(a, "list_linenos") else a.value)
        del c.arguments[rng.randrange(len(c.arguments) + 1):]


def edited_results(ctx):
    """what a text parses to does not depend on what a caller did to the result of an earlier parse: texts are parsed, the returned trees (and the programs
    loaded from them) are edited in place, and the same texts are parsed and loaded again - by the same Parser, a new one and Program.from_source - at once
    and after 1-40 other texts were read in between.  The second reading is what the text says (the renderer's record of it)."""
    from mpilot.parser.parser import Parser
    rng = ctx.rng
    items = []
    for i in range(ctx.budget(66, 1200)):
        ast = render.rand_ast(rng, max_cmds=rng.choice([1, 2, 4]))
        if i % 3 == 0:
            ast = ast + rng.choice(render.kind_mix_asts(rng)[:40])
        src, exp = render.render(ast, rng, "\n", wild=i % 2 == 0)
        items.append((src, exp))
    for h in HISTORY:
        items.append((h, None))
    k = 0
    for size in [1, 1, 1, 2, 2, 5, 17, 40] * 40:
        group = items[k:k + size]
        k += size
        if not group:
            break
        shared = Parser()
        firsts = []
        for src, exp in group:
            try:
                tree = shared.parse(src)
            except SyntaxError:
                firsts.append(None)
                continue
            except Exception as e:
                # (a well-formed rendering: whatever else the parser raises is reported with the text, not left to stop the check)
                if exp is not None:
                    ctx.fail("parsing a well-formed rendering raised %s" % type(e).__name__, {"source": src, "the_text_says": exp[:800]})
                firsts.append(None)
                continue
            before = parsing.canon_program(tree)
            loaded = parsing.real_load(src)
            want_load = parsing.expected_load(src)
            prog_ = None
            if loaded.startswith("ok"):
                prog_ = parsing.any_program().from_source(src, libraries=())
            firsts.append((tree, before, loaded, prog_, want_load))
        for f in firsts:
            if f is not None:
                scramble(f[0], rng)
                if f[3] is not None:
                    scramble_loaded(f[3], rng)
        for (src, exp), f in zip(group, firsts):
            if f is None:
                continue
            tree, before, loaded, _, want_load = f
            ctx.case("edited %d %s" % (size, src), sample={"source": src[:200], "texts_read_before_the_second_parse": size - 1})
            ctx.count("edited_result_texts")
            ctx.count("edited_result_group:%d" % size)
            truth = exp if exp is not None else before
            desc = {"source": src, "history": "parse the text (and %d others); edit the returned trees in place - arguments dropped / added, list values sorted / cleared / extended, tuples cleared / changed, commands dropped; parse the same text again" % (size - 1),
                    "the_text_says": truth[:800]}
            for who, got in (("the same Parser", parsing.real_parse(src, parser=shared)), ("a new Parser", parsing.real_parse(src))):
                if got != truth:
                    ctx.fail("after a caller edited the result of an earlier parse in place, %s reads the same text as something else than it says" % who, dict(desc, parsed_again=got[:800]))
                    break
            else:
                again = parsing.real_load(src)
                if again != loaded or (want_load is not None and again != want_load):
                    ctx.fail("after a caller edited an earlier parse result and an earlier loaded program in place, Program.from_source hands the commands something else than the text says", dict(desc, loaded_before=loaded[:800], loaded_again=again[:800]))


def respace(ast, rng):
    """the same program with the blanks inside its strings changed (content, not layout)"""
    def val(v):
        if v.kind == "str" and v.how != "bare" and " " in v.v:
            return render.Val("str", v.v.replace(" ", rng.choice(["  ", "\t", " \n", "   "])), v.how)
        if v.kind == "list":
            return render.Val("list", [val(x) for x in v.v])
        if v.kind == "dict":
            return render.Val("dict", [(k, val(x)) for k, x in v.v])
        return v
    return [(res, cmd, [(n, val(v)) for n, v in args]) for res, cmd, args in ast]


def strip_lines(canon):
    return re.sub(r"e\(\d+,", "e(", re.sub(r",\d+,\[", ",[", re.sub(r"arg\(([0-9a-f-]+),\d+,", r"arg(\1,", canon)))


PROBE_SCRIPT = '''
import json, time
from mpilot.parser.parser import Parser
Q = chr(34)
texts = ["A = B(P = " + Q + "abcdefghijklmnopqrstuvwxyz0123456789 and more text without a closing quote)",
         "A = B(P = it's an apostrophe in unquoted text followed by quite a few more characters, P2 = 5)",
         "A = B(P = " + Q + "x" * 60 + ")" + chr(10) + "C = D(Q = 1)" + chr(10),
         "A = B(P = [1, 2, " + Q + "never closed, 3, 4, 5, 6, 7, 8, 9, 10, 11, 12, 13, 14, 15])",
         "A = B(P = " + "[" * 40 + "1" + "]" * 39 + ")", "A = B(" + "x = 1, " * 30, "A = " * 40 + "B()"]
out = []
for t in texts:
    t0 = time.time()
    try:
        Parser().parse(t)
        r = "accepted"
    except SyntaxError:
        r = "syntax"
    except Exception as e:
        r = "raw " + type(e).__name__
    out.append([r, round(time.time() - t0, 3)])
    print(json.dumps(out), flush=True)
'''


def malformed_in_time(ctx):
    """malformed texts a slip of the keyboard produces - a quote that is never closed, an apostrophe in unquoted text, brackets that do not match - are
    rejected with a syntax error at once (a fresh interpreter with a time limit: a lexer pattern that backtracks would take hours on forty characters).
    Returns False when the parser does not answer in time: the in-process streams, which hold such texts too, are then not run."""
    import subprocess
    pre = "import sys\nsys.path.insert(0, %r)\n" % common.scratch_repo()
    limit = 25
    try:
        p = subprocess.run([sys.executable, "-c", pre + PROBE_SCRIPT], stdout=subprocess.PIPE, stderr=subprocess.PIPE, universal_newlines=True, timeout=limit)
        lines = [l for l in p.stdout.strip().split("\n") if l]
        timed_out = False
    except subprocess.TimeoutExpired as e:
        so = e.stdout.decode() if isinstance(e.stdout, bytes) else (e.stdout or "")
        lines = [l for l in so.strip().split("\n") if l]
        timed_out = True
    import json
    done = json.loads(lines[-1]) if lines else []
    ctx.count("malformed_probe_texts", len(done))
    ctx.case("malformed-probe", sample={"answers": done})
    if timed_out:
        ctx.fail("a malformed text (no. %d of the probe: an unclosed quote / a stray apostrophe) is not rejected within %d seconds - the parser does not answer" % (len(done) + 1, limit),
                 {"probe_text_no": len(done) + 1, "answered_so_far": done})
        return False
    for k, (r, dt) in enumerate(done):
        if r != "syntax":
            ctx.fail("malformed probe text no. %d: %s instead of a syntax error" % (k + 1, r), {"probe_text_no": k + 1})
    return True


def run(ctx):
    ctx.check_proofs(["MPilot.Props.C10", "MPilot.Props.C10Reject", "MPilot.Props.C10Shape", "MPilot.Props.Findings"])
    if not malformed_in_time(ctx):
        return ctx.finish(rule="malformed-text probe only: the parser did not answer in time", explanation="the in-process streams were not run")
    model = common.Model()
    rng = ctx.rng
    srcs, expected, kinds = list(REGRESSIONS), [None] * len(REGRESSIONS), ["regression"] * len(REGRESSIONS)
    for i in range(ctx.budget(120, 6000)):
        ast = render.rand_ast(rng, max_cmds=rng.choice([1, 2, 3, 8]))
        nl = rng.choice(["\n", "\n", "\r\n"])
        src, exp = render.render(ast, rng, nl, wild=True)
        srcs.append(src); expected.append(exp); kinds.append("render")
        # a second, plain layout of the same program: the tree must be the same apart from line numbers
        src2, exp2 = render.render(ast, rng, "\n", wild=False)
        srcs.append(src2); expected.append(exp2); kinds.append("render-plain")
        if i % 3 == 0:
            # the same program with other blanks inside its strings, in the same plain layout: loaded right after its sibling
            src3, exp3 = render.render(respace(ast, rng), rng, "\n", wild=False)
            srcs.append(src3); expected.append(exp3); kinds.append("render-respaced")
        for _ in range(2):
            srcs.append(parsing.mutate(rng, src)); expected.append(None); kinds.append("mutation")
    for h in HISTORY:
        srcs.append(h); expected.append(None); kinds.append("history")
    # numbers of equal value and different kind (1 / 1.0 / 1.00, 0 / 0.0 / -0.0, 2 / 2.0 ...) and texts that look like them, next to each other on ONE line - in a
    # list, nested lists, a tuple, separate arguments, two commands - and over several lines: each is read as the kind (and sign) it was written as
    exacts = {}
    for ast in render.kind_mix_asts(rng):
        for k, (wild, one_line) in enumerate(((False, True), (True, True), (True, False))):
            if k == 2 and rng.random() < 0.5:
                continue
            src, exp = render.render(ast, rng, "\n", wild=wild, one_line=one_line)
            srcs.append(src); expected.append(exp); kinds.append("kinds-side-by-side")
            exacts[src] = render.exact(ast)
    # whole numbers that a double cannot hold (2**53 + 1 ... 2**64 - 1, 10**30 + 7, runs of up to 1000 digits; signed, `+`, zero-padded; as argument, list item, tuple
    # value): the renderer knows the integer it wrote - the parsed value is that integer, an int, with every digit
    for k, ast in enumerate(render.big_int_asts(rng)):
        src, exp = render.render(ast, rng, "\n", wild=k % 2 == 0, one_line=k % 3 == 0)
        srcs.append(src); expected.append(exp); kinds.append("big-integers")
        exacts[src] = render.exact(ast)
    # quoted strings written over several lines with blanks / tabs before their line breaks (content): as argument, list item, tuple value; LF and CRLF files
    for k, ast in enumerate(render.multiline_asts(rng)):
        src, exp = render.render(ast, rng, "\r\n" if k % 4 == 3 else "\n", wild=k % 2 == 0)
        srcs.append(src); expected.append(exp); kinds.append("multi-line-string")
        exacts[src] = render.exact(ast)
    # a key written more than once in a tuple: three layouts / quotings of each (compared with each other below, and with the model and the loader like every text)
    repeated = []
    for ast in repeated_key_asts():
        group = [render.render(ast, rng, "\n", wild=w, one_line=o)[0] for w, o in ((False, False), (True, False), (True, True), (True, False))]
        repeated.append(group)
        for src in group:
            srcs.append(src); expected.append(None); kinds.append("repeated-key")
    for i in range(ctx.budget(150, 8000)):
        srcs.append(parsing.rand_tokens(rng)); expected.append(None); kinds.append("token-soup")
        srcs.append(parsing.rand_prog(rng)); expected.append(None); kinds.append("loose-program")
        srcs.append(parsing.mutate(rng, parsing.rand_prog(rng))); expected.append(None); kinds.append("mutation")
    answers = model.ask([parsing.model_line(s) for s in srcs])
    last_render = None
    from mpilot.parser.parser import Parser as _Parser
    veteran = _Parser()          # one Parser object that reads every text of the run, rejected ones included: a text's tree does not depend on what the parser read before
    for src, exp, kind, ans in zip(srcs, expected, kinds, answers):
        real = parsing.real_parse(src)
        again = parsing.real_parse(src, parser=veteran)
        ctx.count("long_lived_parser_parses")
        if again != real:
            ctx.fail("a Parser that has read other texts before (rejected ones included) reads this text differently from a fresh Parser", {"source": src, "fresh": real[:600], "used": again[:600]})
        ans2 = parsing.normalise_model(ans)
        ctx.case(src, nontrivial=real != "syntax" or kind in ("mutation", "token-soup"), sample={"kind": kind, "source": src[:300], "real": real[:200], "model": ans2[:200]})
        ctx.count("kind:" + kind)
        ctx.count("outcome:" + real.split(" ")[0].split(":")[0])
        if ans == "outside" or ans2 == "outside":
            ctx.count("outside_model_domain")
        elif real != ans2:
            ctx.disagree("parse:" + kind, {"source": src}, real[:600], ans2[:600])
        if real.startswith("raw:"):
            ctx.fail("parsing raised %s instead of SyntaxError" % real[4:], {"source": src})
        # the same text loaded as a program (Program.from_source with a library that has every command name): the commands are handed exactly
        # what was parsed - names, values with their kinds, nesting, tuples, line numbers - whatever was loaded before in this process
        want = parsing.expected_load(src, version=3 if ans2.startswith("ok v3 ") else 2 if ans2.startswith("ok v2 ") else None)
        if want is not None:
            got = parsing.real_load(src)
            ctx.count("loaded_through_from_source")
            if got != want:
                ctx.fail("Program.from_source hands the commands something else than what the text says (%s)" % (
                    got if not got.startswith("ok") else "values / names / lines differ"), {"source": src, "parsed": want[:800], "loaded": got[:800]})
        if src in exacts:
            ctx.count("kinds_side_by_side_texts")
            for how, got in (("parsed", parsing.exact_parse(src)), ("parsed by a Parser that has read other texts", parsing.exact_parse(src, parser=veteran)), ("handed to the commands by Program.from_source", parsing.exact_load(src))):
                if got != exacts[src]:
                    ctx.fail("numbers of equal value written as different kinds next to each other are not %s as the kinds (and signs) that were written" % how if kind != "big-integers" else "whole numbers beyond 2**53 are not %s as the integers that were written (%s)" % (how, got if isinstance(got, str) else "a digit or the kind differs"), {"source": src, "written": exacts[src], how.split(" ")[0]: got})
                    break
        if exp is not None:
            if real != exp:
                ctx.fail("a well-formed rendering does not parse to the program that was written (%s)" % (
                    "rejected: " + real if not real.startswith("ok") else "tree differs"), {"source": src, "expected": exp[:800], "parsed": real[:800]})
            if kind == "render":
                last_render = real
            elif kind == "render-plain" and last_render is not None and last_render.startswith("ok") and real.startswith("ok"):
                if strip_lines(last_render) != strip_lines(real):
                    ctx.fail("two layouts of the same program parse to different trees", {"plain_layout": src})
    for group in repeated:
        reads_ = [strip_lines(parsing.real_parse(src)) for src in group]
        ctx.count("repeated_key_layouts", len(group))
        for src, r in zip(group[1:], reads_[1:]):
            if r != reads_[0]:
                ctx.fail("a tuple that writes a key more than once is read differently under another layout / quoting of the same pairs", {"source": src, "parsed": r[:600], "plain_layout": group[0], "parsed_plain": reads_[0][:600]})
    tool_handover(ctx)
    edited_results(ctx)
    # a caller who has turned warnings into errors reads every text the same way (F23: unknown escapes in quoted strings used to raise DeprecationWarning)
    import warnings as _warnings
    reads = {}
    for src in srcs:
        if src not in reads:
            reads[src] = parsing.real_parse(src)
    for src, real in reads.items():
        if "\\" not in src and ctx.dist.get("strict_warnings_parses", 0) > 600:
            continue
        ctx.count("strict_warnings_parses")
        try:
            with _warnings.catch_warnings():
                _warnings.simplefilter("error")
                strict = parsing.canon_program(_Parser().parse(src))
        except SyntaxError:
            strict = "syntax"
        except Exception as e:
            strict = "raw:" + type(e).__name__
        if strict != real:
            ctx.fail("with warnings turned into errors by the caller the text is read differently (%s)" % strict[:60], {"source": src, "default": real[:600], "warnings_as_errors": strict[:600]})
    # several threads, each with a Parser of its own, reading different texts at the same time: every one gets what a lone parser reads
    import sys as _sys, threading
    texts = [s_ for s_, r_ in reads.items() if len(s_) < 2000][: ctx.budget(480, 4000)]
    nthreads = 8
    parsers = [_Parser() for _ in range(nthreads)]
    got_par = [None] * len(texts)
    barrier = threading.Barrier(nthreads)

    def worker(k):
        barrier.wait()
        for i in range(k, len(texts), nthreads):
            got_par[i] = parsing.real_parse(texts[i], parser=parsers[k])
    old_interval = _sys.getswitchinterval()
    _sys.setswitchinterval(1e-5)
    try:
        ths = [threading.Thread(target=worker, args=(k,)) for k in range(nthreads)]
        for t in ths:
            t.start()
        for t in ths:
            t.join()
    finally:
        _sys.setswitchinterval(old_interval)
    wrong = [i for i in range(len(texts)) if got_par[i] != reads[texts[i]]]
    ctx.count("concurrent_parses", len(texts))
    if wrong:
        i = wrong[0]
        ctx.fail("%d of %d texts are read differently when %d threads parse at the same time, each with its own Parser" % (len(wrong), len(texts), nthreads),
                 {"source": texts[i], "alone": reads[texts[i]][:600], "concurrently": (got_par[i] or "")[:600], "threads": nthreads,
                  "how": "8 threads, one Parser each (created beforehand), texts dealt round-robin, switch interval 1e-5 s"})
    # known findings (listed in known_findings.json): re-run each witness against the real parser
    from mpilot.parser.parser import Parser
    for fid, src, want, what in F10_WITNESSES:
        try:
            got = Parser().parse(src).commands[0].arguments[0].value.value
        except Exception as e:
            got = "<%s>" % type(e).__name__
        ctx.count("known_finding_witnesses")
        if got != want:
            ctx.fail("%s: %r parses to %r" % (what, src, got), {"source": src, "expected_text": want, "parsed": got}, finding=fid)
        else:
            ctx.notes.setdefault("known_findings_resolved", []).append(fid)
    return ctx.finish(
        level="translation_validation" if not ctx.obligations else "proof",
        rule="(a) random abstract programs (1-8 commands, 0-4 arguments, ints, decimals, strings from a pool with quotes/backslashes/delimiters/"
             "non-ASCII/control characters, nested lists to depth 4, tuples) rendered under a random layout and under a plain one; (b) two single-character "
             "mutations of each rendering; (c) token soups, loosely generated programs and their mutations; distinct by source text; non-trivial = accepted, or a mutation/soup",
        explanation="theorems in Props/C10.lean hold for the model; the real parser is compared with the model on every generated text (tree with line "
                    "numbers, or error class); the round-trip oracle compares the real parse of every rendering with the abstract program it was rendered from")


def replay(path):
    import json
    print(json.dumps(json.load(open(path)), indent=1)[:6000])
    return 0
